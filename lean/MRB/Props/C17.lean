/-
  C17 — vmem: the two mappings mirror each other; contents and ownership preserved.

  The arguments of the `mmap` / `memcpy` / `munmap` calls are regenerated from the source (`Gen.vmem*`); the
  theorems below are about *every* such table: they say what the decision procedures `mirrorCheck`,
  `contentsCheck`, `unmapCheck` of `MRB.Vmem` mean.  The check evaluates those procedures on the regenerated
  table (`Vmem.verdict`, printed by the driver) — a `false` verdict is a model-level violation for which the
  harness (`vmemprobe`, the `vmemseam` / `vmemown` profiles) then exhibits the failing input on the real code.
  On the pinned tree three verdicts were `false` (findings D8a–c of DESIGN.md); D8a and D8c are repaired in /repo,
  `mirror` is still `false` (D8b, open).
-/
import MRB.Vmem
import MRB.Seq.Arith

namespace MRB.Props.C17
open MRB MRB.Vmem

/-- Page rounding: `get_page_size_mul` returns the least multiple of the page size that is at least the request. -/
theorem C17_rounding_least_multiple (req ps : Nat) (hps : 0 < ps) :
    ps ∣ Gen.pageSizeMul 0 0 0 ps req 0 ∧ req ≤ Gen.pageSizeMul 0 0 0 ps req 0 ∧
    ∀ m, ps ∣ m → req ≤ m → Gen.pageSizeMul 0 0 0 ps req 0 ≤ m := by
  obtain ⟨h1, h2, h3⟩ := Gen.pageSizeMul_spec req ps hps
  refine ⟨h1, h2, ?_⟩
  intro m ⟨a, ha⟩ hm
  obtain ⟨b, hb⟩ := h1
  by_cases hba : b ≤ a
  · rw [ha, hb]; exact Nat.mul_le_mul_left _ hba
  · exfalso
    have h4 : a + 1 ≤ b := by omega
    have h5 := Nat.mul_le_mul_left ps h4
    rw [Nat.mul_add, Nat.mul_one] at h5
    omega

/-- The mirror statement is decided by `mirrorCheck`, for every buffer length. -/
theorem C17_mirror_decided (calls : List MmapCall) (len : Nat) (hl : 0 < len) :
    Mirror calls len ↔ mirrorCheck calls = true := mirror_iff calls len hl

/-- Under the mirror, element `k` of the single slice handed out by the vmem `next_chunk*` (offset `index + k`,
possibly beyond the physical end) is the very slot `(index + k) % len` that item operations use — which is also
the slot the two-slice (non-vmem) window reaches, so every theorem about windows carries over. -/
theorem C17_slice_window_is_ring (calls : List MmapCall) (len i n k : Nat) (h : Mirror calls len)
    (hi : i < len) (hn : n ≤ len) (hk : k < n) :
    Gen.nextChunkMutVm.tailLen i 0 0 len n 0 = 0 ∧ Gen.nextChunkVm.tailLen i 0 0 len n 0 = 0 ∧
    pageOf calls len (Gen.nextChunkMutVm.headOff i 0 0 len n 0 + k) = pageOf calls len ((i + k) % len) ∧
    pageOf calls len (Gen.nextChunkVm.headOff i 0 0 len n 0 + k) = pageOf calls len ((i + k) % len) ∧
    pageOf calls len (Gen.nextChunkMutVm.headOff i 0 0 len n 0 + k) =
      pageOf calls len (if k < Gen.nextChunkMut.headLen i 0 0 len n 0 then Gen.nextChunkMut.headOff i 0 0 len n 0 + k
        else Gen.nextChunkMut.tailOff i 0 0 len n 0 + (k - Gen.nextChunkMut.headLen i 0 0 len n 0)) := by
  obtain ⟨a, b, c, d, e, f, g⟩ := Gen.nextChunkVm_window i len n hi hn
  rw [Gen.nextChunkMut_cover i len n k hi hn hk, a, e]
  exact ⟨c, g, mirror_mod calls len (i + k) h (by omega), mirror_mod calls len (i + k) h (by omega),
    mirror_mod calls len (i + k) h (by omega)⟩

/-- A value written through a slice across the physical end is what the item operation at that ring position reads,
and the other way round. -/
theorem C17_slice_and_item_access_agree (calls : List MmapCall) (len i k x : Nat) (m : Mem) (h : Mirror calls len)
    (hi : i < len) (hk : k < len) :
    readV calls len (writeV calls len m (i + k) x) ((i + k) % len) = some x ∧
    readV calls len (writeV calls len m ((i + k) % len) x) (i + k) = some x := by
  have e := mirror_mod calls len (i + k) h (by omega)
  have hl : 0 < len := by omega
  obtain ⟨p, hp, _⟩ := h ((i + k) % len) (Nat.mod_lt _ hl)
  exact ⟨read_write_same _ _ _ _ _ _ e (by rw [e, hp]; simp), read_write_same _ _ _ _ _ _ e.symm (by rw [hp]; simp)⟩

/-- Without the mirror there is a window and a write through it that the item operations never see:
the first slot of the second view is not the first slot of the ring. -/
theorem C17_no_mirror_witness (calls : List MmapCall) (len : Nat) (hl : 0 < len) (h : mirrorCheck calls = false)
    (hm : ∀ v, v < 2 * len → pageOf calls len v ≠ none) :
    ∃ v, v < len ∧ ∀ (m : Mem) (x : Nat), readV calls len (writeV calls len m (v + len) x) v = readV calls len m v := by
  have hn : ¬ Mirror calls len := by rw [mirror_iff calls len hl, h]; simp
  unfold Mirror at hn
  have : ∃ v, v < len ∧ pageOf calls len v ≠ pageOf calls len (v + len) := by
    apply Classical.byContradiction
    intro hc
    apply hn
    intro v hv
    cases hp : pageOf calls len v with
    | none => exact absurd hp (hm v (by omega))
    | some p =>
      refine ⟨p, rfl, ?_⟩
      apply Classical.byContradiction
      intro hne
      exact hc ⟨v, hv, by rw [hp]; intro e; exact hne e.symm⟩
  obtain ⟨v, hv, hne⟩ := this
  exact ⟨v, hv, fun m x => read_write_other _ _ _ _ _ _ (fun e => hne e.symm)⟩

/-- Contents: if `contentsCheck` holds, the buffer `vmem_helper::new` returns holds the source data … -/
theorem C17_contents_preserved (calls : List MmapCall) (copies : List CopyCall) (len : Nat) (src : List Nat)
    (h : contentsCheck calls copies = true) : Holds calls copies len src := holds_of_check calls copies len src h

/-- … and if no copy goes from the source into the new mapping, any non-zero source element is lost. -/
theorem C17_contents_lost (calls : List MmapCall) (copies : List CopyCall) (len : Nat) (src : List Nat)
    (h : copies.any CopyCall.intoFresh = false) (k : Nat) (hk : k < len) (hne : src.getD k 0 ≠ 0) :
    ¬ Holds calls copies len src := not_holds_of_no_copy calls copies len src h k hk hne

/-- Unmapping: if `unmapCheck` holds, `munmap` releases exactly the doubled reservation, so both views. -/
theorem C17_unmap_both_views (calls : List MmapCall) (u : MunmapLen) (h : unmapCheck calls u = true) (len sz : Nat) (hl : 0 < len) :
    u.bytes len sz = extent calls * len * sz ∧ ∀ v, pageOf calls len v ≠ none → v * sz + sz ≤ u.bytes len sz :=
  unmap_sound calls u h len sz hl

/-- Source conformance: the calls are placed as the page-table model assumes (first call: kernel-chosen base,
which is what `new` returns; every later call `MAP_FIXED` at a named block), `new` refuses a length that is not
a whole number of pages, `default`/`new_zeroed` size the buffer with `get_page_size_mul(capacity)` under `vmem`
(`get_range_max`), and `HeapStorage::new` records the source length and frees the source box as
`MaybeUninit` cells, i.e. without destroying the items that were copied into the mapping. -/
theorem C17_source_shape :
    wellPlaced Gen.vmemMmapCalls = true ∧ Gen.vmemReturnsFirstMapping = true ∧ Gen.vmemAssertsPageMultiple = true ∧
    extent Gen.vmemMmapCalls = 2 ∧
    Gen.ctorFacts.rangeMaxVmemIsPageMultiple = true ∧
    Gen.vmemNewFacts = { mapsSource := true, lenIsSourceLen := true, freesSourceWithoutDestroying := true } := by
  refine ⟨by decide, rfl, rfl, by decide, rfl, rfl⟩

/-- Non-vacuity: a design for which all decision procedures answer `true` exists (one shared object mapped twice). -/
def refCalls : List MmapCall :=
  [ { fixedAt := none, lenMul := 2, flags := [.priv, .anon], hasFd := false },
    { fixedAt := some 0, lenMul := 1, flags := [.shared, .fixed], hasFd := true },
    { fixedAt := some 1, lenMul := 1, flags := [.shared, .fixed], hasFd := true } ]

example : wellPlaced refCalls = true ∧ mirrorCheck refCalls = true ∧
    contentsCheck refCalls [{ dst := .fresh, src := .source, lenMul := 1 }] = true ∧
    unmapCheck refCalls { const := 2, lenPow := 1, sizePow := 1 } = true := by decide
example : Mirror refCalls 4096 := (mirror_iff refCalls 4096 (by decide)).2 (by decide)
-- the premises of `C17_no_mirror_witness` are satisfiable too: two independent anonymous mappings
example : mirrorCheck [{ fixedAt := none, lenMul := 2, flags := [.priv, .anon], hasFd := false },
    { fixedAt := some 1, lenMul := 1, flags := [.priv, .anon, .fixed], hasFd := false }] = false := by decide

end MRB.Props.C17
