//! C16 probes: asks rustc's trait solver, for every iterator type of the (abstracted) universe, whether it is Send / Sync.
//! Uses inherent-impl-over-trait-impl resolution, so a single compilation yields the whole table without compile errors.
use mutringbuf::iterators::*;
use mutringbuf::*;
use std::cell::Cell;
use std::marker::PhantomData;
use std::rc::Rc;
use std::sync::MutexGuard;

struct Probe<T: ?Sized>(PhantomData<T>);
trait Fallback { const SEND: bool = false; const SYNC: bool = false; }
impl<T: ?Sized> Fallback for Probe<T> {}
struct ProbeSend<T: ?Sized>(PhantomData<T>);
impl<T: ?Sized + Send> ProbeSend<T> { const SEND: bool = true; }
trait FallbackSend { const SEND: bool = false; }
impl<T: ?Sized> FallbackSend for ProbeSend<T> {}
struct ProbeSync<T: ?Sized>(PhantomData<T>);
impl<T: ?Sized + Sync> ProbeSync<T> { const SYNC: bool = true; }
trait FallbackSync { const SYNC: bool = false; }
impl<T: ?Sized> FallbackSync for ProbeSync<T> {}

macro_rules! row {
    ($base:literal, $wrap:literal, $conc:literal, $is:literal, $iy:literal, $t:ty) => {
        println!("{} {} conc={} isend={} isync={} send={} sync={}", $base, $wrap, $conc, $is, $iy, <ProbeSend<$t>>::SEND as u8, <ProbeSync<$t>>::SYNC as u8);
    };
}

macro_rules! rows_for_item {
    ($is:literal, $iy:literal, $item:ty) => {
        rows_for_buf!(1, $is, $iy, ConcurrentHeapRB<$item>);
        rows_for_buf!(0, $is, $iy, LocalHeapRB<$item>);
        rows_for_buf!(1, $is, $iy, ConcurrentStackRB<$item, 4>);
        rows_for_buf!(0, $is, $iy, LocalStackRB<$item, 4>);
    };
}

macro_rules! rows_for_buf {
    ($conc:literal, $is:literal, $iy:literal, $b:ty) => {
        row!("P", "plain", $conc, $is, $iy, ProdIter<'static, $b>);
        row!("W", "plain", $conc, $is, $iy, WorkIter<'static, $b>);
        row!("C", "plain", $conc, $is, $iy, ConsIter<'static, $b, true>);
        row!("C", "plain", $conc, $is, $iy, ConsIter<'static, $b, false>);
        row!("P", "detached", $conc, $is, $iy, Detached<ProdIter<'static, $b>>);
        row!("W", "detached", $conc, $is, $iy, Detached<WorkIter<'static, $b>>);
        row!("C", "detached", $conc, $is, $iy, Detached<ConsIter<'static, $b, true>>);
        row!("P", "async", $conc, $is, $iy, AsyncProdIter<'static, $b>);
        row!("W", "async", $conc, $is, $iy, AsyncWorkIter<'static, $b>);
        row!("C", "async", $conc, $is, $iy, AsyncConsIter<'static, $b, true>);
        row!("P", "asyncdetached", $conc, $is, $iy, AsyncDetached<AsyncProdIter<'static, $b>, $b>);
        row!("W", "asyncdetached", $conc, $is, $iy, AsyncDetached<AsyncWorkIter<'static, $b>, $b>);
        row!("C", "asyncdetached", $conc, $is, $iy, AsyncDetached<AsyncConsIter<'static, $b, true>, $b>);
        // a future borrowed from an async iterator holds `&mut` to it: whoever owns the future reaches the iterator
        // (payload and output are sendable here, so only the iterator decides)
        row!("P", "future", $conc, $is, $iy, async_iterators::MRBFuture<'static, AsyncProdIter<'static, $b>, u32, u32, false>);
        row!("W", "future", $conc, $is, $iy, async_iterators::MRBFuture<'static, AsyncWorkIter<'static, $b>, u32, u32, true>);
        row!("C", "future", $conc, $is, $iy, async_iterators::MRBFuture<'static, AsyncConsIter<'static, $b, true>, u32, u32, true>);
    };
}

// the "for every sendable item type" direction: these must type-check for all T
fn assert_send<T: Send>() {}
#[allow(dead_code)]
fn universal<T: Send + 'static>() {
    assert_send::<ProdIter<'static, ConcurrentHeapRB<T>>>();
    assert_send::<WorkIter<'static, ConcurrentHeapRB<T>>>();
    assert_send::<ConsIter<'static, ConcurrentHeapRB<T>, true>>();
    assert_send::<Detached<WorkIter<'static, ConcurrentHeapRB<T>>>>();
    assert_send::<AsyncProdIter<'static, ConcurrentHeapRB<T>>>();
    assert_send::<AsyncDetached<AsyncWorkIter<'static, ConcurrentHeapRB<T>>, ConcurrentHeapRB<T>>>();
    assert_send::<async_iterators::MRBFuture<'static, AsyncProdIter<'static, ConcurrentHeapRB<T>>, T, (), false>>();
}

fn main() {
    // item kinds: (Send, Sync), (Send, !Sync), (!Send, Sync), (!Send, !Sync)
    rows_for_item!(1, 1, u32);
    rows_for_item!(1, 0, Cell<u32>);
    rows_for_item!(0, 1, MutexGuard<'static, u32>);
    rows_for_item!(0, 0, Rc<u32>);
    // sanity of the probe itself
    println!("SELFTEST {} {} {} {}", <ProbeSend<u32>>::SEND as u8, <ProbeSend<Rc<u32>>>::SEND as u8, <ProbeSync<Cell<u32>>>::SYNC as u8, <ProbeSync<u32>>::SYNC as u8);
}
