#!/bin/bash
# usage: seedtest.sh <seed-dir-name> <property>...   — applies a seeded mutation to /repo, runs the checks, reverts.
S=/verif/seeded/$1; shift
cd /repo && git status --short | grep -q . && { echo "repo dirty"; exit 2; }
git apply $S/patch.diff || { echo "patch failed"; exit 2; }
trap 'cd /repo && git checkout -- . && /verif/rs2lean/target/debug/rs2lean /repo /verif/lean/snapshot.json /verif/lean/MRB/Gen' EXIT
cd /verif
for p in "$@"; do
  out=$(./check $p 2>&1); rc=$?
  echo "== $(basename $S) :: $p rc=$rc"
  echo "$out" | grep -E "VIOLATION|KNOWN|\[check" | head -5
done
