"""Concurrency engine: real threads under the deterministic release/acquire scheduler (harness binary `conc`).
Serves C02 (consumed is a prefix of produced), C03 (no race / exclusive windows), C07 (released once, no use after
release), C10 (bounded steps, nobody waits). Also checks that every atomic access observed uses the ordering the
generated accessor table G3 says (tie between the code as executed and the table the theorems are about)."""
import json, os, subprocess


def run(pid, tier, seed, ctx):
    env = dict(os.environ, CARGO_NET_OFFLINE="true", CARGO_TARGET_DIR=os.path.join(ctx["cache"], "target-default"))
    b = subprocess.run(["cargo", "build", "--offline", "--bins"], cwd=os.path.join(ctx["verif"], "harness"), env=env, stdout=subprocess.PIPE, stderr=subprocess.STDOUT, text=True)
    if b.returncode != 0:
        return dict(summary={"cases": 0}, violations=[], divergences=[{"kind": "build", "detail": "harness does not build against the current tree:\n" + b.stdout[-1500:], "case": None}], samples=[])
    binp = os.path.join(ctx["cache"], "target-default", "debug", "conc")
    runs = []
    corpus = os.path.join(ctx["verif"], "corpus", "conc")
    if ctx.get("replay"):
        runs = [("replay", ["--replay", ctx["replay"]])]
    else:
        if os.path.isdir(corpus):
            for f in sorted(os.listdir(corpus)):
                if f.endswith(".cprog"):
                    runs.append(("corpus:" + f, ["--replay", os.path.join(corpus, f)]))
        n = 10000 if tier == "quick" else 60000
        nseeds = 1 if tier == "quick" else 4
        for k in range(nseeds):
            runs.append((f"seed {seed + k}", ["--seed", str(seed + k), "--cases", str(n)]))
    violations, divergences, samples = [], [], []
    tot = {"cases": 0, "steps": 0, "distinct_nontrivial": 0, "stale_reads": 0, "api_calls": 0, "records_replayed_on_lean_machine": 0}
    seen_ord = {}
    for label, a in runs:
        out = os.path.join(ctx["cache"], f"conc_{pid}_{label.replace(' ', '_').replace(':', '_')}.json")
        if os.path.exists(out):
            os.remove(out)
        try:
            # every recorded execution is also replayed on the Lean concurrent machine (driver lines cinit/cld/cst/cac)
            p = subprocess.run([binp] + a + ["--out", out] + (["--driver", ctx["driver"]] if ctx.get("driver") else []), stdout=subprocess.PIPE, stderr=subprocess.STDOUT, text=True, timeout=3000)
        except subprocess.TimeoutExpired:
            divergences.append({"kind": "hang", "tags": ["C10"], "case": None, "failures": [{"detail": "the concurrency harness itself did not finish: " + label}]})
            continue
        if not os.path.exists(out):
            violations.append({"kind": "oracle", "tags": [pid], "case": "# " + label, "failures": [{"detail": f"the harness process died (rc={p.returncode}): memory-unsafe behaviour under a concurrent schedule\n" + p.stdout[-600:]}]})
            continue
        js = json.load(open(out))
        for k in tot:
            tot[k] += int(js.get(k, 0))
        samples += js["samples"][:1]
        for k, v in js["ops"].items():
            seen_ord[k] = seen_ord.get(k, 0) + int(v)
        for f in js["failures"]:
            f["run"] = label
            (violations if pid in f["tags"] else divergences).append(f)
    # orderings actually used vs the generated table
    if ctx.get("driver"):
        q = subprocess.run([ctx["driver"]], input="g3\n", stdout=subprocess.PIPE, text=True)
        table = set(x.strip() for x in q.stdout.strip().split(";") if x.strip())
        for o in seen_ord:
            if o not in table:
                divergences.append({"kind": "model", "tags": [], "case": None, "failures": [{"detail": f"the running code performs `{o}`, which is not in the accessor table generated from the source ({sorted(table)})"}]})
    tot["orderings_observed"] = seen_ord
    return dict(summary=tot, violations=violations[:6], divergences=divergences[:6], samples=samples[:2])
