//! Symbolic execution of small straight-line method bodies over the iterator state
//! (index, cached_avail, published index) into Lean terms, with the preconditions of every
//! unchecked arithmetic operation collected path-sensitively.
use crate::{Item, Src};
use std::collections::BTreeMap;
use syn::{BinOp, Block, Expr, ImplItem, Item as SItem, Pat, Stmt, TraitItem, UnOp};

pub const PARAMS: &str = "(index cached succIdx len count avail : Nat)";
pub const ARGS: &str = "index cached succIdx len count avail";

#[derive(Clone, Default)]
pub struct Env {
    pub vars: BTreeMap<String, String>,
    pub index: String,
    pub cached: String,
    pub publ: Option<String>,
    pub safe: Vec<String>,
    pub path: Vec<String>,
}

impl Env {
    pub fn new() -> Env {
        Env { index: "index".into(), cached: "cached".into(), ..Default::default() }
    }
    fn obligation(&mut self, o: String) {
        let o = if self.path.is_empty() { o } else { format!("({} → {})", self.path.join(" → "), o) };
        if !self.safe.contains(&o) { self.safe.push(o); }
    }
}

pub fn q(e: &Expr) -> String {
    quote::quote!(#e).to_string().replace(' ', "")
}

/// Is this expression a way of naming "the iterator whose state we track"?
fn is_iter_recv(e: &Expr) -> bool {
    matches!(q(e).as_str(),
        "self" | "self.inner" | "self.inner.inner_mut()" | "self.inner.inner()" | "self.inner_mut()" | "self.inner()" | "s.inner_mut()")
}

/// Splits `(L op R)` at its top-level binary operator (operators are always rendered with surrounding blanks).
fn top_binop(c: &str) -> Option<(String, String, String)> {
    let c = c.trim();
    if !(c.starts_with('(') && c.ends_with(')')) { return None; }
    let inner = &c[1..c.len() - 1];
    let mut depth = 0i32;
    let chars: Vec<(usize, char)> = inner.char_indices().collect();
    for (k, (i, ch)) in chars.iter().enumerate() {
        match ch { '(' => depth += 1, ')' => { depth -= 1; if depth < 0 { return None; } } _ => {} }
        if depth == 0 && *ch == ' ' {
            for op in ["<", "≤", "≥", ">", "=", "≠", "∨", "∧"] {
                let pat = format!(" {op} ");
                if inner[*i..].starts_with(&pat) {
                    let l = inner[..*i].to_string(); let r = inner[*i + pat.len()..].to_string();
                    // both sides must be balanced
                    let bal = |t: &str| { let mut d = 0i32; for ch in t.chars() { match ch { '(' => d += 1, ')' => { d -= 1; if d < 0 { return false; } } _ => {} } } d == 0 };
                    if bal(&l) && bal(&r) { return Some((l, op.to_string(), r)); }
                }
            }
        }
        let _ = k;
    }
    None
}

/// Canonical negation of a condition: comparisons are flipped instead of being wrapped in `¬`.
pub fn neg(c: &str) -> String {
    let t = c.trim();
    if let Some(rest) = t.strip_prefix("(¬ ") { if let Some(x) = rest.strip_suffix(')') { return x.to_string(); } }
    if let Some((l, op, r)) = top_binop(t) {
        let nop = match op.as_str() { "<" => "≥", "≥" => "<", "≤" => ">", ">" => "≤", "=" => "≠", "≠" => "=", _ => "" };
        if !nop.is_empty() { return format!("({l} {nop} {r})"); }
    }
    format!("(¬ {t})")
}

/// Is this condition in the non-canonical orientation (`<`, `>`, `≠`, `¬ _`)? Conditionals are rendered on the canonical one.
fn flipped(c: &str) -> bool {
    let t = c.trim();
    if t.starts_with("(¬ ") { return true; }
    matches!(top_binop(t), Some((_, op, _)) if op == "<" || op == ">" || op == "≠")
}

fn merge(c: &str, a: &str, b: &str) -> String {
    if a == b { return a.to_string(); }
    if flipped(c) { return merge(&neg(c), b, a); }
    // propositional shortcuts, so that `x || y` and `if x { true } else { y }` are the same definition
    if a == "True" { return format!("({c} ∨ {b})"); }
    if b == "False" { return format!("({c} ∧ {a})"); }
    format!("(if {c} then {a} else {b})")
}

pub fn ex(e: &Expr, env: &mut Env) -> Result<String, String> {
    Ok(match e {
        Expr::Paren(p) => ex(&p.expr, env)?,
        Expr::Group(p) => ex(&p.expr, env)?,
        Expr::Lit(l) => {
            let s = q(&Expr::Lit(l.clone()));
            let s = s.trim_end_matches("usize").trim_end_matches('_').to_string();
            match s.as_str() { "true" => "True".into(), "false" => "False".into(), _ => s }
        }
        Expr::Path(p) => {
            let n = q(&Expr::Path(p.clone()));
            match env.vars.get(&n) { Some(v) => v.clone(), None => return Err(format!("unknown variable `{n}`")) }
        }
        Expr::Field(_) => {
            let n = q(e);
            match n.as_str() {
                "self.index" => env.index.clone(),
                "self.cached_avail" => env.cached.clone(),
                _ => return Err(format!("field `{n}`")),
            }
        }
        Expr::Unsafe(u) => block(&u.block, env)?.unwrap_or_else(|| "()".into()),
        Expr::Block(b) => block(&b.block, env)?.unwrap_or_else(|| "()".into()),
        Expr::Unary(u) => match u.op {
            UnOp::Not(_) => neg(&ex(&u.expr, env)?),
            UnOp::Deref(_) => ex(&u.expr, env)?,
            _ => return Err("unary operator".into()),
        },
        Expr::Reference(r) => ex(&r.expr, env)?,
        Expr::Binary(b) => {
            match b.op {
                BinOp::Or(_) | BinOp::And(_) => {
                    // short-circuit: effects of the right operand happen only on one path
                    let is_or = matches!(b.op, BinOp::Or(_));
                    let l = ex(&b.left, env)?;
                    let mut renv = env.clone();
                    renv.path.push(if is_or { neg(&l) } else { l.clone() });
                    let r = ex(&b.right, &mut renv)?;
                    renv.path.pop();
                    // right operand evaluated iff (is_or: ¬l) (and: l)
                    let (ci, cc) = if is_or {
                        (merge(&l, &env.index, &renv.index), merge(&l, &env.cached, &renv.cached))
                    } else {
                        (merge(&l, &renv.index, &env.index), merge(&l, &renv.cached, &env.cached))
                    };
                    if renv.publ != env.publ { return Err("publication inside a short-circuit operand".into()); }
                    env.index = ci; env.cached = cc; env.safe = renv.safe;
                    format!("({l} {} {r})", if is_or { "∨" } else { "∧" })
                }
                _ => {
                    let l = ex(&b.left, env)?;
                    let r = ex(&b.right, env)?;
                    let op = match b.op {
                        BinOp::Lt(_) => "<", BinOp::Le(_) => "≤", BinOp::Ge(_) => "≥", BinOp::Gt(_) => ">",
                        BinOp::Add(_) => "+", BinOp::Sub(_) => "-", BinOp::Rem(_) => "%", BinOp::Eq(_) => "=",
                        BinOp::Ne(_) => "≠", BinOp::Mul(_) => "*", BinOp::Div(_) => "/",
                        _ => return Err("binary operator".into()),
                    };
                    if matches!(b.op, BinOp::Sub(_)) { env.obligation(format!("{r} ≤ {l}")); }
                    if matches!(b.op, BinOp::Rem(_) | BinOp::Div(_)) { env.obligation(format!("0 < {r}")); }
                    format!("({l} {op} {r})")
                }
            }
        }
        Expr::MethodCall(m) => {
            let name = m.method.to_string();
            let recv_txt = q(&m.receiver);
            if is_iter_recv(&m.receiver) || recv_txt == "self.buffer()" || recv_txt == "self.inner.buffer()" {
                let mut args = Vec::new();
                for a in &m.args { args.push(ex(a, env)?); }
                match name.as_str() {
                    "_index" | "index" => env.index.clone(),
                    "cached_avail" => env.cached.clone(),
                    "buf_len" | "inner_len" => "len".into(),
                    "succ_index" => "succIdx".into(),
                    "_available" | "available" => { env.cached = "avail".into(); "avail".into() }
                    "set_local_index" => { env.index = args[0].clone(); "()".into() }
                    "set_cached_avail" => { env.cached = args[0].clone(); "()".into() }
                    "set_atomic_index" => { env.publ = Some(args[0].clone()); "()".into() }
                    "advance_local" => {
                        let a = format!("{} {} succIdx len {} avail", env.index, env.cached, args[0]);
                        env.obligation(format!("advanceLocal.safe {a}"));
                        let (i, c) = (format!("(advanceLocal.index' {a})"), format!("(advanceLocal.cached' {a})"));
                        env.index = i; env.cached = c; "()".into()
                    }
                    "sync_index" => { env.publ = Some(env.index.clone()); "()".into() }
                    _ => return Err(format!("method `{recv_txt}.{name}`")),
                }
            } else {
                let r = ex(&m.receiver, env)?;
                let mut args = Vec::new();
                for a in &m.args { args.push(ex(a, env)?); }
                match name.as_str() {
                    "unchecked_sub" => { env.obligation(format!("{} ≤ {r}", args[0])); format!("({r} - {})", args[0]) }
                    "unchecked_add" => { env.obligation(format!("{r} + {} < 2^64", args[0])); format!("({r} + {})", args[0]) }
                    "unchecked_mul" => { env.obligation(format!("{r} * {} < 2^64", args[0])); format!("({r} * {})", args[0]) }
                    "saturating_sub" => format!("({r} - {})", args[0]),
                    "wrapping_add" | "wrapping_sub" => return Err(format!("wrapping arithmetic `{name}`")),
                    "div_ceil" => { env.obligation(format!("0 < {}", args[0])); format!("(({r} + {} - 1) / {})", args[0], args[0]) }
                    "min" => format!("(min {r} {})", args[0]),
                    "max" => format!("(max {r} {})", args[0]),
                    _ => return Err(format!("method `{name}` on a value")),
                }
            }
        }
        Expr::Match(m) => {
            // match <bool> { true => a, false => b }
            let c = ex(&m.expr, env)?;
            let mut t: Option<(String, Env)> = None;
            let mut f: Option<(String, Env)> = None;
            for arm in &m.arms {
                let pat = match &arm.pat {
                    Pat::Lit(l) => q(&Expr::Lit(syn::ExprLit { attrs: vec![], lit: l.lit.clone() })),
                    _ => return Err("match pattern (only `true`/`false` arms are supported)".into()),
                };
                if arm.guard.is_some() { return Err("match guard".into()); }
                let mut aenv = env.clone();
                aenv.safe = Vec::new();
                aenv.path.push(if pat == "true" { c.clone() } else { neg(&c) });
                let v = ex(&arm.body, &mut aenv)?;
                aenv.path.pop();
                if pat == "true" { t = Some((v, aenv)) } else if pat == "false" { f = Some((v, aenv)) } else { return Err("match literal".into()) }
            }
            let (tv, te) = t.ok_or("no `true` arm")?;
            let (fv, fe) = f.ok_or("no `false` arm")?;
            if te.publ != fe.publ { return Err("publication differs between arms".into()); }
            env.index = merge(&c, &te.index, &fe.index);
            env.cached = merge(&c, &te.cached, &fe.cached);
            env.publ = te.publ.clone();
            for s in te.safe.iter().chain(fe.safe.iter()) { if !env.safe.contains(s) { env.safe.push(s.clone()); } }
            merge(&c, &tv, &fv)
        }
        Expr::If(i) => {
            let c = ex(&i.cond, env)?;
            let mut te = env.clone();
            te.safe = Vec::new();
            te.path.push(c.clone());
            let tv = block(&i.then_branch, &mut te)?;
            te.path.pop();
            let mut fe = env.clone();
            fe.safe = Vec::new();
            let fv = match &i.else_branch {
                Some((_, e)) => { fe.path.push(neg(&c)); let v = Some(ex(e, &mut fe)?); fe.path.pop(); v }
                None => None,
            };
            if te.publ != fe.publ { return Err("publication differs between branches".into()); }
            env.index = merge(&c, &te.index, &fe.index);
            env.cached = merge(&c, &te.cached, &fe.cached);
            env.publ = te.publ.clone();
            for s in te.safe.iter().chain(fe.safe.iter()) { if !env.safe.contains(s) { env.safe.push(s.clone()); } }
            match (tv, fv) { (Some(a), Some(b)) => merge(&c, &a, &b), _ => "()".into() }
        }
        Expr::Assign(a) => {
            let v = ex(&a.right, env)?;
            match q(&a.left).as_str() {
                "self.cached_avail" => env.cached = v,
                "self.index" => env.index = v,
                o => return Err(format!("assignment to `{o}`")),
            }
            "()".into()
        }
        Expr::Cast(c) => ex(&c.expr, env)?,
        _ => return Err(format!("expression `{}`", q(e))),
    })
}

fn stmt(s: &Stmt, env: &mut Env) -> Result<Option<String>, String> {
    match s {
        Stmt::Local(l) => {
            let name = match &l.pat {
                Pat::Ident(i) => i.ident.to_string(),
                Pat::Type(t) => match &*t.pat { Pat::Ident(i) => i.ident.to_string(), _ => return Err("let pattern".into()) },
                _ => return Err("let pattern".into()),
            };
            let v = ex(&l.init.as_ref().ok_or("let without initialiser")?.expr, env)?;
            env.vars.insert(name, v);
            Ok(None)
        }
        Stmt::Expr(e, semi) => {
            let v = ex(e, env)?;
            Ok(if semi.is_some() { None } else { Some(v) })
        }
        // `debug_assert*!`: no effect on the behaviour under the contract (it only makes a debug build stricter); skipped.
        // `assert!(cond)` / `assert_eq!` would change behaviour (a panic): not in the subset, reported.
        Stmt::Macro(m) => {
            let name = m.mac.path.segments.last().map(|s| s.ident.to_string()).unwrap_or_default();
            if name.starts_with("debug_assert") { Ok(None) } else { Err(format!("macro statement `{name}!`")) }
        }
        _ => Err("statement kind".into()),
    }
}

pub fn block(b: &Block, env: &mut Env) -> Result<Option<String>, String> {
    let mut last = None;
    for s in &b.stmts { last = stmt(s, env)?; }
    Ok(last)
}

pub struct FnRef<'a> {
    pub block: &'a Block,
    pub params: Vec<String>,
}

/// Finds `fn name` inside `impl ... for Type`/`impl Type`/`trait Type` blocks; `owner` filters on the
/// textual self type / trait name ("" = any).
pub fn find_fn<'a>(file: &'a syn::File, owner: &str, name: &str) -> Option<FnRef<'a>> {
    fn params(sig: &syn::Signature) -> Vec<String> {
        sig.inputs.iter().filter_map(|a| match a {
            syn::FnArg::Typed(t) => match &*t.pat { Pat::Ident(i) => Some(i.ident.to_string()), _ => Some("_".into()) },
            _ => None,
        }).collect()
    }
    for it in &file.items {
        match it {
            SItem::Impl(i) => {
                let ty = &i.self_ty;
                let mut head = quote::quote!(#ty).to_string().replace(' ', "");
                if let Some((_, tr, _)) = &i.trait_ { head = format!("{}for{}", quote::quote!(#tr).to_string().replace(' ', ""), head); }
                if !owner.is_empty() && !head.contains(owner) { continue; }
                for ii in &i.items {
                    if let ImplItem::Fn(f) = ii { if f.sig.ident == name { return Some(FnRef { block: &f.block, params: params(&f.sig) }); } }
                }
            }
            SItem::Trait(t) => {
                if !owner.is_empty() && t.ident != owner { continue; }
                for ti in &t.items {
                    if let TraitItem::Fn(f) = ti { if f.sig.ident == name { if let Some(b) = &f.default { return Some(FnRef { block: b, params: params(&f.sig) }); } } }
                }
            }
            SItem::Fn(f) => { if owner.is_empty() && f.sig.ident == name { return Some(FnRef { block: &f.block, params: params(&f.sig) }); } }
            SItem::Mod(m) => { if let Some((_, items)) = &m.content {
                // search inline modules too (e.g. `pub(crate) mod iter_macros`)
                let f2 = syn::File { shebang: None, attrs: vec![], items: items.clone() };
                // leak: the translator is a short-lived process
                let leaked: &'static syn::File = Box::leak(Box::new(f2));
                if let Some(r) = find_fn(leaked, owner, name) { return Some(r); }
            } }
            _ => {}
        }
    }
    None
}

fn safe_text(env: &Env) -> String {
    // sorted: the order in which the source happens to evaluate its sub-expressions is not part of the definition
    let mut v = env.safe.clone();
    v.sort();
    if v.is_empty() { "True".into() } else { v.join(" ∧\n  ") }
}

/// Symbolically executes one method and renders the five definitions of a state-transforming function.
fn state_fn(src: &mut Src, path: &str, owner: &str, func: &str, lean: &str, ret_ty: Option<&str>) -> Result<String, String> {
    let file = src.file(path)?;
    let f = find_fn(file, owner, func).ok_or(format!("fn `{func}` of `{owner}` not found in {path}"))?;
    let mut env = Env::new();
    if f.params.len() > 1 { return Err(format!("`{func}` has {} parameters (at most one supported)", f.params.len())); }
    for p in &f.params { env.vars.insert(p.clone(), "count".into()); }
    let ret = block(f.block, &mut env)?;
    let mut o = String::new();
    o.push_str(&format!("def {lean}.index' {PARAMS} : Nat := {}\n", env.index));
    o.push_str(&format!("def {lean}.cached' {PARAMS} : Nat := {}\n", env.cached));
    o.push_str(&format!("def {lean}.pub' {PARAMS} : Option Nat := {}\n", match &env.publ { Some(p) => format!("some {p}"), None => "none".into() }));
    match ret_ty {
        Some("Nat") => o.push_str(&format!("def {lean}.ret {PARAMS} : Nat := {}\n", ret.ok_or("no return value")?)),
        Some("Bool") => o.push_str(&format!("def {lean}.ret {PARAMS} : Bool := decide {}\n", ret.ok_or("no return value")?)),
        _ => {}
    }
    o.push_str(&format!("def {lean}.safe {PARAMS} : Prop :=\n  {}\n", safe_text(&env)));
    Ok(o)
}

/// Offset (in elements, from slot 0) of a pointer into the storage: `<storage>.as_ptr()`, `.as_mut_ptr()`, `p.add(k)`, or a local bound to one.
fn ptr_off(e: &Expr, env: &mut Env) -> Result<String, String> {
    match e {
        Expr::Paren(p) => ptr_off(&p.expr, env),
        Expr::Cast(c) => ptr_off(&c.expr, env),
        Expr::Path(_) => {
            let n = q(e);
            match env.vars.get(&n) { Some(v) if v.starts_with("PTR@") => Ok(v[4..].to_string()), _ => Err(format!("`{n}` is not a pointer into the storage")) }
        }
        Expr::MethodCall(m) if m.method == "add" && m.args.len() == 1 => {
            let base = ptr_off(&m.receiver, env)?;
            let off = ex(&m.args[0], env)?;
            Ok(if base == "0" { off } else { format!("({base} + {off})") })
        }
        _ => { let t = q(e); if t.ends_with(".as_ptr()") || t.ends_with(".as_mut_ptr()") { Ok("0".into()) } else { Err(format!("pointer expression `{t}`")) } }
    }
}

/// A `let` inside a chunk function: a pointer into the storage, or a value.
fn chunk_let(l: &syn::Local, env: &mut Env) -> Result<(), String> {
    let name = match &l.pat { Pat::Ident(i) => i.ident.to_string(), Pat::Type(t) => match &*t.pat { Pat::Ident(i) => i.ident.to_string(), _ => return Err("let pattern".into()) }, _ => return Err("let pattern".into()) };
    let init = &l.init.as_ref().ok_or("let without initialiser")?.expr;
    let mut probe = env.clone();
    match ptr_off(init, &mut probe) {
        Ok(off) => { *env = probe; env.vars.insert(name, format!("PTR@{off}")); }
        Err(_) => { let v = ex(init, env)?; env.vars.insert(name, v); }
    }
    Ok(())
}

/// `slice::from_raw_parts[_mut](ptr[.add(off)], len)` possibly wrapped in `transmute::<..>(..)`, or an empty slice literal.
fn slice_desc(e: &Expr, env: &mut Env) -> Result<(String, String), String> {
    match e {
        Expr::Paren(p) => slice_desc(&p.expr, env),
        Expr::Cast(c) => slice_desc(&c.expr, env),
        Expr::Reference(r) => match &*r.expr {
            Expr::Array(a) if a.elems.is_empty() => Ok(("0".into(), "0".into())),
            _ => Err(format!("slice expression `{}`", q(e))),
        },
        Expr::Call(c) => {
            let fname = q(&c.func);
            if fname.starts_with("transmute") {
                if c.args.len() != 1 { return Err("transmute arity".into()); }
                slice_desc(&c.args[0], env)
            } else if fname == "slice::from_raw_parts" || fname == "slice::from_raw_parts_mut" {
                if c.args.len() != 2 { return Err("from_raw_parts arity".into()); }
                let off = ptr_off(&c.args[0], env)?;
                let len = ex(&c.args[1], env)?;
                Ok((off, len))
            } else { Err(format!("call `{fname}`")) }
        }
        _ => Err(format!("slice expression `{}`", q(e))),
    }
}

/// The closure passed to `self.check(count).then(|| ...)`.
fn then_closure<'a>(b: &'a Block) -> Result<(&'a Expr, &'a Expr), String> {
    // returns (argument of check, closure body)
    let last = b.stmts.last().ok_or("empty body")?;
    let e = match last { Stmt::Expr(e, None) => e, _ => return Err("body does not end in an expression".into()) };
    let e = match e { Expr::Unsafe(u) => match u.block.stmts.last() { Some(Stmt::Expr(e, None)) => e, _ => return Err("unsafe".into()) }, e => e };
    if let Expr::MethodCall(m) = e {
        if m.method == "then" {
            if let Expr::MethodCall(c) = &*m.receiver {
                if c.method == "check" && c.args.len() == 1 {
                    if let Some(Expr::Closure(cl)) = m.args.first() { return Ok((&c.args[0], &cl.body)); }
                }
            }
        }
    }
    Err("not of the form `self.check(n).then(|| ..)`".into())
}

fn chunk_fn(src: &mut Src, func: &str, lean: &str, vmem: bool) -> Result<String, String> {
    let file = src.file("src/iterators/iterator_trait.rs")?;
    // there are two cfg variants of each function; pick by the cfg attribute
    let mut found = None;
    for it in &file.items {
        if let SItem::Trait(t) = it {
            if t.ident != "PrivateMRBIterator" { continue; }
            for ti in &t.items {
                if let TraitItem::Fn(f) = ti {
                    if f.sig.ident != func { continue; }
                    let attrs: String = f.attrs.iter().map(|a| quote::quote!(#a).to_string().replace(' ', "")).collect();
                    let is_vm = attrs.contains("cfg(feature=\"vmem\")");
                    let is_nvm = attrs.contains("cfg(not(feature=\"vmem\"))");
                    if (vmem && is_vm) || (!vmem && (is_nvm || !is_vm)) { found = f.default.as_ref(); }
                }
            }
        }
    }
    let b = found.ok_or(format!("fn `{func}` (vmem={vmem}) not found"))?;
    let (chk, body) = then_closure(b)?;
    let mut env = Env::new();
    env.vars.insert("count".into(), "count".into());
    let chk = ex(chk, &mut env)?;
    // walk the closure body: lets, unsafe, then either a tuple / an if of tuples / a single slice
    fn tail<'a>(e: &'a Expr, env: &mut Env) -> Result<&'a Expr, String> {
        match e {
            Expr::Block(b) => tail_block(&b.block, env),
            Expr::Unsafe(u) => tail_block(&u.block, env),
            e => Ok(e),
        }
    }
    fn tail_block<'a>(b: &'a Block, env: &mut Env) -> Result<&'a Expr, String> {
        let n = b.stmts.len();
        for (k, s) in b.stmts.iter().enumerate() {
            if k + 1 == n {
                return match s { Stmt::Expr(e, None) => tail(e, env), _ => Err("closure does not end in an expression".into()) };
            }
            match s {
                Stmt::Local(l) => chunk_let(l, env)?,
                _ => return Err("statement in closure".into()),
            }
        }
        Err("empty closure".into())
    }
    let t = tail(body, &mut env)?;
    let mut o = String::new();
    o.push_str(&format!("def {lean}.checkArg {PARAMS} : Nat := {chk}\n"));
    match t {
        Expr::If(i) => {
            let c = ex(&i.cond, &mut env)?;
            // a branch: `let`s (visible in that branch only), then the pair of slices
            fn pair(stmts: &[Stmt], env: &mut Env, c: &str) -> Result<((String, String), (String, String)), String> {
                let saved = env.vars.clone();
                env.path.push(c.to_string());
                let mut res = Err("branch is not a pair of slices".to_string());
                for (k, s) in stmts.iter().enumerate() {
                    if k + 1 < stmts.len() { match s { Stmt::Local(l) => chunk_let(l, env)?, _ => return Err("statement in a branch".into()) } continue; }
                    let e = match s { Stmt::Expr(e, None) => e, _ => return Err("branch does not end in an expression".into()) };
                    res = match e {
                        Expr::Tuple(t) if t.elems.len() == 2 => { let a = slice_desc(&t.elems[0], env)?; let b = slice_desc(&t.elems[1], env)?; Ok((a, b)) }
                        Expr::Block(b) => { env.path.pop(); let r = pair(&b.block.stmts, env, c); env.path.push(c.to_string()); r }
                        _ => Err("branch is not a pair of slices".into()),
                    };
                }
                env.path.pop();
                env.vars = saved;
                res
            }
            let (th, tt) = pair(&i.then_branch.stmts, &mut env, &c)?;
            let else_e = &i.else_branch.as_ref().ok_or("no else branch")?.1;
            let else_stmts: Vec<Stmt> = match &**else_e { Expr::Block(b) => b.block.stmts.clone(), e => vec![Stmt::Expr(e.clone(), None)] };
            let (eh, et) = pair(&else_stmts, &mut env, &neg(&c))?;
            o.push_str(&format!("def {lean}.headOff {PARAMS} : Nat := {}\n", merge(&c, &th.0, &eh.0)));
            o.push_str(&format!("def {lean}.headLen {PARAMS} : Nat := {}\n", merge(&c, &th.1, &eh.1)));
            o.push_str(&format!("def {lean}.tailOff {PARAMS} : Nat := {}\n", merge(&c, &tt.0, &et.0)));
            o.push_str(&format!("def {lean}.tailLen {PARAMS} : Nat := {}\n", merge(&c, &tt.1, &et.1)));
        }
        e => {
            let (off, ln) = slice_desc(e, &mut env)?;
            o.push_str(&format!("def {lean}.headOff {PARAMS} : Nat := {off}\n"));
            o.push_str(&format!("def {lean}.headLen {PARAMS} : Nat := {ln}\n"));
            o.push_str(&format!("def {lean}.tailOff {PARAMS} : Nat := 0\n"));
            o.push_str(&format!("def {lean}.tailLen {PARAMS} : Nat := 0\n"));
        }
    }
    o.push_str(&format!("def {lean}.safe {PARAMS} : Prop :=\n  {}\n", safe_text(&env)));
    Ok(o)
}

/// `match <e> { 0 => None, avail => self.get_workable_slice_exact(avail) }` (possibly in an unsafe block, after lets):
/// yields the requested count as a function of `avail` (and `count` = the argument).
fn derived_count_fn(src: &mut Src, func: &str, lean: &str) -> Result<String, String> {
    let file = src.file("src/iterators/iterator_trait.rs")?;
    let f = find_fn(file, "MRBIterator", func).ok_or(format!("fn `{func}` not found"))?;
    let mut env = Env::new();
    for p in &f.params { env.vars.insert(p.clone(), "count".into()); }
    fn walk(b: &Block, env: &mut Env) -> Result<(String, String), String> {
        let n = b.stmts.len();
        for (k, s) in b.stmts.iter().enumerate() {
            if k + 1 < n { stmt(s, env)?; continue; }
            let e = match s { Stmt::Expr(e, None) => e, _ => return Err("body does not end in an expression".into()) };
            return match e {
                Expr::Unsafe(u) => walk(&u.block, env),
                Expr::Match(m) => {
                    let scrut = ex(&m.expr, env)?;
                    if m.arms.len() != 2 { return Err("match arms".into()); }
                    let p0 = &m.arms[0].pat; let p0 = quote::quote!(#p0).to_string();
                    if p0 != "0" || q(&m.arms[0].body) != "None" { return Err("first arm is not `0 => None`".into()); }
                    let bind = match &m.arms[1].pat { Pat::Ident(i) => i.ident.to_string(), _ => return Err("second arm pattern".into()) };
                    // the second arm must request exactly the bound value
                    let body = q(&m.arms[1].body);
                    let want = format!("self.get_workable_slice_exact({bind})");
                    if body != want { return Err(format!("second arm is `{body}`, expected `{want}`")); }
                    Ok((scrut, "exact".into()))
                }
                _ => Err("body is not a match".into()),
            };
        }
        Err("empty".into())
    }
    let (scrut, _) = walk(f.block, &mut env)?;
    let mut o = String::new();
    o.push_str(&format!("def {lean}.count {PARAMS} : Nat := {scrut}\n"));
    o.push_str(&format!("def {lean}.safe {PARAMS} : Prop :=\n  {}\n", safe_text(&env)));
    Ok(o)
}

fn pure_fn(src: &mut Src, path: &str, func: &str, lean: &str, extra_vars: &[(&str, &str)]) -> Result<String, String> {
    let file = src.file(path)?;
    let f = find_fn(file, "", func).ok_or(format!("fn `{func}` not found in {path}"))?;
    let mut env = Env::new();
    for p in &f.params { env.vars.insert(p.clone(), "count".into()); }
    for (k, v) in extra_vars { env.vars.insert(k.to_string(), v.to_string()); }
    // `let page_size = page_size();` : calls to the page-size oracle become the parameter `len`
    let mut last = None;
    for s in &f.block.stmts {
        if let Stmt::Local(l) = s {
            if let (Pat::Ident(i), Some(init)) = (&l.pat, &l.init) {
                if q(&init.expr) == "page_size()" { env.vars.insert(i.ident.to_string(), "len".into()); continue; }
            }
        }
        last = stmt(s, &mut env)?;
    }
    let ret = last.ok_or("no return value")?;
    Ok(format!("def {lean} {PARAMS} : Nat := {ret}\ndef {lean}.safe {PARAMS} : Prop :=\n  {}\n", safe_text(&env)))
}

pub fn kernel_items(src: &mut Src, items: &mut Vec<Item>) {
    let it = "src/iterators/iterator_trait.rs";
    let mut add = |name: &str, origin: String, body: Result<String, String>| {
        items.push(Item { name: name.into(), file: "Kernel", origin, body });
    };
    // order matters: advanceLocal is referenced by later definitions
    add("advanceLocal", format!("{it}::PrivateMRBIterator::advance_local"), state_fn(src, it, "PrivateMRBIterator", "advance_local", "advanceLocal", None));
    add("advance", format!("{it}::PrivateMRBIterator::_advance"), state_fn(src, it, "PrivateMRBIterator", "_advance", "advance", None));
    add("check", format!("{it}::PrivateMRBIterator::check"), state_fn(src, it, "PrivateMRBIterator", "check", "check", Some("Bool")));
    for (path, owner, lean) in [
        ("src/iterators/sync_iterators/prod_iter.rs", "ProdIter", "prodAvail"),
        ("src/iterators/sync_iterators/work_iter.rs", "WorkIter", "workAvail"),
        ("src/iterators/sync_iterators/cons_iter.rs", "ConsIter", "consAvail"),
    ] {
        add(lean, format!("{path}::{owner}::_available"), state_fn(src, path, &format!("PrivateMRBIterator<T>for{owner}"), "_available", lean, Some("Nat")));
    }
    add("workReset", "src/iterators/sync_iterators/work_iter.rs::WorkIter::reset_index".into(),
        state_fn(src, "src/iterators/sync_iterators/work_iter.rs", "WorkIter", "reset_index", "workReset", None));
    add("consReset", "src/iterators/sync_iterators/cons_iter.rs::ConsIter::reset_index".into(),
        state_fn(src, "src/iterators/sync_iterators/cons_iter.rs", "ConsIter", "reset_index", "consReset", None));
    let d = "src/iterators/sync_iterators/detached.rs";
    for (func, lean) in [("set_index", "detSetIndex"), ("reset_index", "detReset"), ("advance", "detAdvance"), ("go_back", "detGoBack"), ("sync_index", "detSync")] {
        add(lean, format!("{d}::Detached::{func}"), state_fn(src, d, "Detached<I>", func, lean, None));
    }
    let ad = "src/iterators/async_iterators/detached.rs";
    for (func, lean) in [("advance", "adetAdvance"), ("go_back", "adetGoBack"), ("sync_index", "adetSync")] {
        add(lean, format!("{ad}::AsyncDetached::{func}"), state_fn(src, ad, "AsyncDetached<I,B>", func, lean, None));
    }
    add("nextChunk", format!("{it}::next_chunk (not vmem)"), chunk_fn(src, "next_chunk", "nextChunk", false));
    add("nextChunkMut", format!("{it}::next_chunk_mut (not vmem)"), chunk_fn(src, "next_chunk_mut", "nextChunkMut", false));
    add("nextChunkVm", format!("{it}::next_chunk (vmem)"), chunk_fn(src, "next_chunk", "nextChunkVm", true));
    add("nextChunkMutVm", format!("{it}::next_chunk_mut (vmem)"), chunk_fn(src, "next_chunk_mut", "nextChunkMutVm", true));
    add("sliceAvail", format!("{it}::MRBIterator::get_workable_slice_avail"), derived_count_fn(src, "get_workable_slice_avail", "sliceAvail"));
    add("sliceMultipleOf", format!("{it}::MRBIterator::get_workable_slice_multiple_of"), derived_count_fn(src, "get_workable_slice_multiple_of", "sliceMultipleOf"));
    add("pageSizeMul", "src/ring_buffer/storage/heap/vmem_helper.rs::get_page_size_mul".into(),
        pure_fn(src, "src/ring_buffer/storage/heap/vmem_helper.rs", "get_page_size_mul", "pageSizeMul", &[]));
}
