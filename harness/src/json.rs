//! Minimal JSON writer (no external crates).
pub fn esc(s: &str) -> String {
    let mut o = String::with_capacity(s.len() + 2);
    o.push('"');
    for c in s.chars() {
        match c {
            '"' => o.push_str("\\\""),
            '\\' => o.push_str("\\\\"),
            '\n' => o.push_str("\\n"),
            '\t' => o.push_str("\\t"),
            c if (c as u32) < 0x20 => o.push_str(&format!("\\u{:04x}", c as u32)),
            c => o.push(c),
        }
    }
    o.push('"');
    o
}

pub fn arr(items: &[String]) -> String { format!("[{}]", items.join(", ")) }

pub fn obj(fields: &[(&str, String)]) -> String {
    let v: Vec<String> = fields.iter().map(|(k, v)| format!("{}: {}", esc(k), v)).collect();
    format!("{{{}}}", v.join(", "))
}

pub fn strs(items: &[String]) -> String { arr(&items.iter().map(|s| esc(s)).collect::<Vec<_>>()) }
