//! Deterministic concurrent replay: every iterator runs on its own OS thread, exactly one thread runs at a time,
//! threads park before every atomic operation of the crate (and after every store / read-modify-write), and a
//! schedule decides who continues. Loads are answered from a release/acquire message history, so a thread may be
//! given any *older* value of an index that C11 release/acquire semantics still allow it to see.
//! A vector-clock detector checks every slot access against the synchronises-with edges created by the
//! instrumented atomics (with the ordering the call site really passes).
use crate::rng::Rng;
use mutringbuf::verif::{self, Event};
use std::collections::HashMap;
use std::sync::atomic::Ordering;
use std::sync::{Condvar, Mutex};

pub const NT: usize = 3;
pub type VC = [u64; NT];

fn join(a: &mut VC, b: &VC) { for i in 0..NT { if b[i] > a[i] { a[i] = b[i]; } } }
fn leq(a: &VC, b: &VC) -> bool { (0..NT).all(|i| a[i] <= b[i]) }

#[derive(Clone, Debug)]
pub struct Msg { pub val: usize, pub view: VC, pub release: bool, pub by: usize, pub stamp: u64 }

#[derive(Clone, Debug, Default)]
pub struct LocState { pub name: String, pub msgs: Vec<Msg>, pub seen: [usize; NT] }

#[derive(Clone, Debug)]
pub struct AtomicEv { pub t: usize, pub kind: u8, pub loc: String, pub ord: String, pub val: usize, pub read_idx: Option<usize>, pub last_idx: usize }

#[derive(Clone, Debug)]
pub struct Access { pub t: usize, pub slot: usize, pub write: bool, pub vc: VC, pub stamp: u64, pub what: String }

pub struct Sched {
    pub turn: usize,
    pub finished: [bool; NT],
    pub active: [bool; NT],
    pub rng: Rng,
    /// scripted decisions (thread to run next / message index), consumed first; then the rng decides
    pub script: Vec<usize>,
    pub script_pos: usize,
    pub decisions: Vec<usize>,
    pub locs: HashMap<usize, LocState>,
    pub vc: [VC; NT],
    pub events: Vec<AtomicEv>,
    /// last accesses per slot and thread: (vector clock of the access, write?)
    pub last_access: HashMap<usize, [Option<Access>; NT]>,
    pub races: Vec<String>,
    pub uaf: Vec<String>,
    /// a thread read a liveness flag as `false` without thereby learning everything the dropped iterator had done before
    pub dead_obs: Vec<String>,
    pub freed: usize,
    pub boxed: usize,
    pub buf_range: (usize, usize),
    pub stale_pct: usize,
    pub steps: usize,
    /// atomic operations of the API call currently executed by each thread
    pub call_events: [Vec<usize>; NT],
    pub solo: Option<usize>,
    /// (thread, scheduling point): from that point on only this thread runs until it has finished its whole program
    pub solo_at: Option<(usize, usize)>,
    pub park_budget: usize,
    pub hung: Option<String>,
    pub calib: Vec<(u8, usize)>,
    /// accesses a thread is about to make inside the current API call; they take effect just before its next index store
    pub pending: [Vec<(usize, bool, String)>; NT],
    /// two- or three-stage buffer (decides whose published index an iterator looks at)
    pub has_w: bool,
    /// the execution as the Lean concurrent machine sees it: leader-index loads (`cld T msg val`), own-index stores (`cst T val`),
    /// slot accesses (`cac T slot`), in the order they took effect
    pub trace: Vec<String>,
}

pub static S: Mutex<Option<Sched>> = Mutex::new(None);
pub static CV: Condvar = Condvar::new();
thread_local!(pub static ME: std::cell::Cell<usize> = std::cell::Cell::new(usize::MAX));

pub fn me() -> usize { ME.with(|m| m.get()) }

fn ord_name(o: Ordering) -> &'static str { match o { Ordering::Relaxed => "relaxed", Ordering::Acquire => "acquire", Ordering::Release => "release", Ordering::AcqRel => "acqrel", Ordering::SeqCst => "seqcst", _ => "?" } }
fn is_acq(o: Ordering) -> bool { matches!(o, Ordering::Acquire | Ordering::AcqRel | Ordering::SeqCst) }
fn is_rel(o: Ordering) -> bool { matches!(o, Ordering::Release | Ordering::AcqRel | Ordering::SeqCst) }

impl Sched {
    pub fn new(seed: u64, script: Vec<usize>, stale_pct: usize) -> Sched {
        Sched { turn: usize::MAX, finished: [true; NT], active: [false; NT], rng: Rng::new(seed), script, script_pos: 0, decisions: vec![], locs: HashMap::new(),
            vc: [[0; NT]; NT], events: vec![], last_access: HashMap::new(), races: vec![], uaf: vec![], dead_obs: vec![], freed: 0, boxed: 0, buf_range: (0, 0), stale_pct, steps: 0,
            call_events: [vec![], vec![], vec![]], solo: None, solo_at: None, park_budget: 20000, hung: None, calib: vec![], pending: [vec![], vec![], vec![]], has_w: false, trace: vec![] }
    }

    fn decide(&mut self, n: usize, prefer_last: bool) -> usize {
        let d = if self.script_pos < self.script.len() { let x = self.script[self.script_pos] % n.max(1); self.script_pos += 1; x }
            else if prefer_last { if self.rng.chance(self.stale_pct, 100) { self.rng.below(n) } else { n - 1 } }
            else { self.rng.below(n) };
        self.decisions.push(d);
        d
    }

    /// Who runs next: any thread that has not finished (the current one included).
    fn pick_next(&mut self, cur: usize) -> usize {
        if let Some((who, at)) = self.solo_at { if self.steps >= at && self.active[who] && !self.finished[who] { return who; } }
        if let Some(s) = self.solo { if !self.finished[s] { return s; } }
        let ready: Vec<usize> = (0..NT).filter(|t| self.active[*t] && !self.finished[*t]).collect();
        if ready.is_empty() { return cur; }
        let d = self.decide(ready.len(), false);
        ready[d]
    }

    pub fn loc_name(&self, addr: usize) -> String { self.locs.get(&addr).map(|l| l.name.clone()).unwrap_or_else(|| format!("loc{:x}", addr & 0xfff)) }

    /// A non-atomic access of thread `t` to `slot`; reports a race unless every earlier conflicting access happens-before it.
    /// Name of the published index thread `t` owns / looks at.
    pub fn own_loc(t: usize) -> &'static str { ["prodIdx", "workIdx", "consIdx"][t] }
    pub fn lead_loc(&self, t: usize) -> &'static str { match t { 0 => "consIdx", 1 => "prodIdx", _ => if self.has_w { "workIdx" } else { "prodIdx" } } }

    pub fn access(&mut self, t: usize, slot: usize, write: bool, what: &str) {
        self.trace.push(format!("cac {} {}", ["P", "W", "C"][t], slot));
        self.vc[t][t] += 1;
        let now = self.vc[t];
        let entry = self.last_access.entry(slot).or_insert([None, None, None]);
        for u in 0..NT {
            if u == t { continue; }
            if let Some(a) = &entry[u] {
                if (write || a.write) && a.stamp > now[u] {
                    self.races.push(format!("slot {slot}: {} by T{t} ({what}) is not ordered after {} by T{u} ({}): T{u}'s access has clock {} but T{t} only knows T{u} up to {}",
                        if write { "write" } else { "read" }, if a.write { "write" } else { "read" }, a.what, a.stamp, now[u]));
                }
            }
        }
        // keep the strongest record (a write supersedes; a read after a write by the same thread keeps the write unless ordered)
        let keep_write = entry[t].as_ref().map(|a| a.write).unwrap_or(false) && !write;
        let rec = Access { t, slot, write: write || keep_write, vc: now, stamp: now[t], what: what.to_string() };
        entry[t] = Some(rec);
    }
}

/// Blocks the calling (registered) thread until it is scheduled again; `cur` hands the baton on first.
fn yield_now(g: &mut std::sync::MutexGuard<'_, Option<Sched>>, cur: usize) {
    let s = g.as_mut().unwrap();
    s.steps += 1;
    if s.steps > s.park_budget { s.hung = Some(format!("more than {} scheduling points: some operation does not terminate", s.park_budget)); }
    let next = s.pick_next(cur);
    s.turn = next;
}

pub fn park() {
    let t = me();
    if t == usize::MAX { return; }
    let mut g = S.lock().unwrap();
    if g.is_none() { return; }
    yield_now(&mut g, t);
    CV.notify_all();
    while g.as_ref().map(|s| s.turn != t && s.hung.is_none()).unwrap_or(false) { g = CV.wait(g).unwrap(); }
}

pub fn wait_first_turn() {
    let t = me();
    let mut g = S.lock().unwrap();
    while g.as_ref().map(|s| s.turn != t && s.hung.is_none()).unwrap_or(false) { g = CV.wait(g).unwrap(); }
}

pub fn finish() {
    let t = me();
    let mut g = S.lock().unwrap();
    if let Some(s) = g.as_mut() {
        s.finished[t] = true;
        let next = s.pick_next(t);
        s.turn = next;
    }
    CV.notify_all();
}

/// The hook installed into the crate's instrumented atomics.
pub fn hook(phase: u8, ev: &Event) -> Option<usize> {
    let t = me();
    if t == usize::MAX {
        // unregistered thread (set-up and calibration on the main thread): remember which locations exist and their initial values
        let mut g = S.lock().unwrap();
        if let Some(s) = g.as_mut() {
            if ev.kind == verif::BOX { s.boxed += 1; s.buf_range = (ev.loc, ev.loc + 4096); }
            if phase == 1 && ev.kind <= verif::RMW {
                s.calib.push((ev.kind, ev.loc));
                if ev.kind == verif::STORE || ev.kind == verif::RMW {
                    let l = s.locs.entry(ev.loc).or_default();
                    l.msgs = vec![Msg { val: ev.val, view: [0; NT], release: true, by: usize::MAX, stamp: 0 }];
                }
            }
        }
        return None;
    }
    if ev.kind == verif::BOX { return None; }
    if ev.kind == verif::FREE {
        let mut g = S.lock().unwrap();
        if let Some(s) = g.as_mut() {
            s.freed += 1;
            s.trace.push(format!("cdx {}", ["P", "W", "C"][t]));
            // the release of the storage must happen-after everything every other thread did to the buffer
            // (its index/flag/counter operations and its slot accesses): otherwise the deallocation races with them
            for u in 0..NT {
                if u != t && s.vc[u][u] > s.vc[t][u] {
                    s.uaf.push(format!("T{t} releases the buffer without having synchronised with T{u}'s last operations on it (T{u} is at clock {}, T{t} only knows T{u} up to {}): the deallocation races with them", s.vc[u][u], s.vc[t][u]));
                }
            }
        }
        return None;
    }
    if phase == 0 {
        park(); // scheduling point before every atomic operation
        let mut g = S.lock().unwrap();
        if let Some(s) = g.as_mut() {
            if ev.kind == verif::STORE {
                // data accesses of this call happened before the publication that is about to be made
                let p = std::mem::take(&mut s.pending[t]);
                for (slot, write, what) in p { s.access(t, slot, write, &what); }
            }
            if s.freed > 0 && ev.loc >= s.buf_range.0 && ev.loc < s.buf_range.1 {
                let name = s.loc_name(ev.loc);
                s.uaf.push(format!("T{t} performs an atomic {} on {} after the buffer was released", ["load", "store", "rmw"][ev.kind as usize], name));
            }
        }
        return None;
    }
    // phase 1: account for the operation in the release/acquire model
    let mut sub = None;
    {
        let mut g = S.lock().unwrap();
        let s = match g.as_mut() { Some(s) => s, None => return None };
        if ev.kind == verif::RMW && s.locs.get(&ev.loc).map(|l| l.name.is_empty()).unwrap_or(true) {
            // the only read-modify-write location of the crate: the counter of live iterators (moved into its box after the split)
            let n = s.active.iter().filter(|a| **a).count();
            let l = s.locs.entry(ev.loc).or_default();
            l.name = "aliveIters".into();
            l.msgs = vec![Msg { val: n, view: [0; NT], release: true, by: usize::MAX, stamp: 0 }];
        }
        let name = s.loc_name(ev.loc);
        s.vc[t][t] += 1;
        let stale_choice;
        {
            let vct = s.vc[t];
            let l = s.locs.entry(ev.loc).or_default();
            if l.msgs.is_empty() { l.msgs.push(Msg { val: ev.val, view: [0; NT], release: true, by: usize::MAX, stamp: 0 }); }
            let last = l.msgs.len() - 1;
            // the oldest message this thread may still read: coherence + everything that happens-before it
            let mut lo = l.seen[t];
            for (i, m) in l.msgs.iter().enumerate() { if m.by != usize::MAX && m.by < NT && m.stamp <= vct[m.by] && i > lo { lo = i; } }
            stale_choice = (lo, last);
        }
        match ev.kind {
            verif::LOAD => {
                let (lo, last) = stale_choice;
                let n = last - lo + 1;
                let d = if n > 1 { s.decide(n, true) } else { 0 };
                let idx = lo + d;
                let l = s.locs.get_mut(&ev.loc).unwrap();
                l.seen[t] = idx;
                let m = l.msgs[idx].clone();
                if is_acq(ev.ord) && m.release { let mut v = s.vc[t]; join(&mut v, &m.view); s.vc[t] = v; }
                // C07: a thread that observes a peer as dead also observes everything that peer published before
                if (name == "prodAlive" || name == "workAlive" || name == "consAlive") && m.val == 0 && m.by < NT && m.by != t && s.vc[t][m.by] < m.stamp {
                    s.dead_obs.push(format!("T{t} read {name} = false (stored by T{} at its clock {} with ordering that {} release; loaded with {}) but only knows T{} up to {}: its next look at T{}'s index may still be stale", m.by, m.stamp, if m.release { "is" } else { "is not" }, ord_name(ev.ord), m.by, s.vc[t][m.by], m.by));
                }
                if idx != last { sub = Some(m.val); }
                if name == s.lead_loc(t) { s.trace.push(format!("cld {} {} {}", ["P", "W", "C"][t], idx, m.val)); }
                s.events.push(AtomicEv { t, kind: ev.kind, loc: name, ord: ord_name(ev.ord).into(), val: m.val, read_idx: Some(idx), last_idx: last });
            }
            verif::STORE => {
                let view = if is_rel(ev.ord) { s.vc[t] } else { [0; NT] };
                let stamp = s.vc[t][t];
                let l = s.locs.get_mut(&ev.loc).unwrap();
                l.msgs.push(Msg { val: ev.val, view, release: is_rel(ev.ord), by: t, stamp });
                l.seen[t] = l.msgs.len() - 1;
                let last = l.msgs.len() - 1;
                if name == Sched::own_loc(t) { s.trace.push(format!("cst {} {}", ["P", "W", "C"][t], ev.val)); }
                if name == ["prodAlive", "workAlive", "consAlive"][t] && ev.val == 0 { s.trace.push(format!("cdf {}", ["P", "W", "C"][t])); }
                s.events.push(AtomicEv { t, kind: ev.kind, loc: name, ord: ord_name(ev.ord).into(), val: ev.val, read_idx: None, last_idx: last });
            }
            verif::RMW => {
                // reads the latest message (atomicity), continues its release sequence
                let l = s.locs.get_mut(&ev.loc).unwrap();
                let lastm = l.msgs.last().unwrap().clone();
                if is_acq(ev.ord) && lastm.release { let mut v = s.vc[t]; join(&mut v, &lastm.view); s.vc[t] = v; }
                let mut view = if is_rel(ev.ord) { s.vc[t] } else { [0; NT] };
                if lastm.release { join(&mut view, &lastm.view); } // release sequence
                let stamp = s.vc[t][t];
                // ev.val = value before the operation; the new value is reconstructed by the caller of the twin, we only need *a* value
                let l = s.locs.get_mut(&ev.loc).unwrap();
                l.msgs.push(Msg { val: usize::MAX, view, release: is_rel(ev.ord) || lastm.release, by: t, stamp });
                l.seen[t] = l.msgs.len() - 1;
                let last = l.msgs.len() - 1;
                if name == "aliveIters" { s.trace.push(format!("cdd {} {}", ["P", "W", "C"][t], ev.val)); }
                s.events.push(AtomicEv { t, kind: ev.kind, loc: name, ord: ord_name(ev.ord).into(), val: ev.val, read_idx: Some(last - 1), last_idx: last });
            }
            _ => {}
        }
        let n = s.events.len() - 1;
        s.call_events[t].push(n);
    }
    if ev.kind == verif::STORE || ev.kind == verif::RMW { park(); } // scheduling point after a publication
    sub
}

/// Slot access reported by the harness around an API call (or by item hooks): goes through the race detector.
pub fn note_access(slot: usize, write: bool, what: &str) {
    let t = me();
    if t == usize::MAX { return; }
    let mut g = S.lock().unwrap();
    if let Some(s) = g.as_mut() { s.access(t, slot, write, what); }
}

pub fn leq_vc(a: &VC, b: &VC) -> bool { leq(a, b) }
