/-
  C14 — polling an async operation equals one synchronous attempt; Pending has no effect.
-/
import MRB.AsyncProofs

namespace MRB.Props.C14
open MRB

/-- Polling a future performs the corresponding synchronous operation: it resolves, with that operation's result
    and resulting state, exactly when the operation is carried out. -/
theorem C14_ready_iff {s : St} {a : Sp} (h : Rel s a) (op : Op) (hop : op.isAsync = true) (hal : Allowed s a op) :
    ((poll s op).2 = .ready (step s op).2 ∧ (poll s op).1 = (step s op).1 ↔ (a.step op).2.refused = false) := by
  obtain ⟨p1, p2⟩ := poll_spec h op hop hal
  constructor
  · intro ⟨e, _⟩
    cases hr : (a.step op).2.refused
    · rfl
    · have := (p2 hr).1; rw [this] at e; cases e
  · intro hr; rw [p1 hr]; exact ⟨rfl, rfl⟩

/-- Otherwise it returns Pending and leaves buffer and iterator untouched as far as anybody can observe: the state
    still represents the same abstract state (same positions, same items, same availabilities), and no iterator died. -/
theorem C14_pending_no_effect {s : St} {a : Sp} (h : Rel s a) (op : Op) (hop : op.isAsync = true) (hal : Allowed s a op)
    (hr : (a.step op).2.refused = true) :
    (poll s op).2 = .pending ∧ Rel (poll s op).1 a ∧ (poll s op).1.life = s.life := (poll_spec h op hop hal).2 hr

/-- A pending push keeps its value and stores it exactly once, on the poll that finally succeeds: while it is pending the
    accepted-items list does not change; on the successful poll it grows by exactly that value. -/
theorem C14_push_once {s : St} {a : Sp} (h : Rel s a) (v : Nat) (hal : Allowed s a (.push v)) :
    (a.avail .P = 0 → (poll s (.push v)).2 = .pending ∧ Rel (poll s (.push v)).1 a) ∧
    (1 ≤ a.avail .P → (poll s (.push v)).2 = .ready .ok ∧ Rel (poll s (.push v)).1 (a.move .P 1 [v]) ∧
       (a.move .P 1 [v]).hist = a.hist.take a.posP ++ [v]) := by
  obtain ⟨p1, p2⟩ := poll_spec h (.push v) rfl hal
  constructor
  · intro h0
    have : (a.step (.push v)).2.refused = true := by simp [Sp.step, h0, AOut.refused]
    exact ⟨(p2 this).1, (p2 this).2.1⟩
  · intro h1
    have hr : (a.step (.push v)).2.refused = false := by simp [Sp.step, h1, AOut.refused]
    obtain ⟨r1, r2⟩ := step_refines h (.push v) hal
    rw [p1 hr]
    simp only [Sp.step, h1, if_true] at r1 r2
    refine ⟨?_, r1, by simp only [Sp.move]; split <;> rfl⟩
    cases ho : (step s (.push v)).2 <;> rw [ho] at r2 <;> simp [Out.abs, Op.producerGrant] at r2

/-- Any future polled after its condition has become true completes. -/
theorem C14_completes_when_possible {s : St} {a : Sp} (h : Rel s a) (op : Op) (hop : op.isAsync = true) (hal : Allowed s a op)
    (hr : (a.step op).2.refused = false) : ∃ o, (poll s op).2 = .ready o := ⟨_, by rw [(poll_spec h op hop hal).1 hr]⟩

/-- Tie to the source: every future runs exactly the synchronous method of the same name (once), and `poll` is "attempt,
    register the waker, attempt again, else Pending with the payload put back". -/
theorem C14_source_delegation_and_poll :
    Gen.asyncDelegation = [("clone_item", "clone_item", 1), ("clone_slice", "clone_slice", 1), ("copy_item", "copy_item", 1),
      ("copy_slice", "copy_slice", 1), ("get_next_item_mut", "get_next_item_mut", 1), ("get_next_item_mut_init", "get_next_item_mut_init", 1),
      ("get_next_slices_mut", "get_next_slices_mut", 1), ("get_workable", "get_workable", 1), ("get_workable_slice_avail", "get_workable_slice_avail", 1),
      ("get_workable_slice_exact", "get_workable_slice_exact", 1), ("get_workable_slice_multiple_of", "get_workable_slice_multiple_of", 1),
      ("peek_available", "peek_available", 1), ("peek_ref", "peek_ref", 1), ("peek_slice", "peek_slice", 1), ("pop", "pop", 1),
      ("pop_move", "pop_move", 1), ("push", "push", 1), ("push_slice", "push_slice", 1), ("push_slice_clone", "push_slice_clone", 1)] ∧
    Gen.pollTraces = [[.attemptFail, .register, .attemptFail, .pending], [.attemptFail, .register, .attemptOk, .ready],
                      [.attemptOk, .ready]] ∧ Gen.pollRestoresPayload = true := by
  exact ⟨rfl, rfl, rfl⟩

/-- The model's `poll` and the source's `poll` do the same thing: whatever the state and the operation, the sequence of
    events of the model's poll (`pollEvents`: the same two tests as `poll`) is one of the event sequences the translator's
    interpreter finds in `MRBFuture::poll` of the current tree, and it ends in `pending` exactly when `poll` returns `Pending`.
    The interpreter follows loops, flags, `for` over a literal array, early returns and helper methods, so the loop form and
    the unrolled form of `poll` yield the same set; a `poll` that does not look again after registering the waker, registers
    before the first attempt, or returns `Pending` without a second attempt yields a different one. -/
theorem C14_model_poll_is_a_source_trace (s : St) (op : Op) :
    pollEvents s op ∈ Gen.pollTraces ∧ ((poll s op).2 = .pending ↔ (pollEvents s op).getLast? = some .pending) := by
  have hp : (poll s op).2 = .pending ↔ ((step s op).2.granted = false ∧ (step (step s op).1 op).2.granted = false) := by
    unfold poll
    cases h1 : (step s op).2.granted <;> cases h2 : (step (step s op).1 op).2.granted <;> simp [h1, h2]
  unfold pollEvents
  cases h1 : (step s op).2.granted <;> cases h2 : (step (step s op).1 op).2.granted <;>
    simp only [h1, h2, if_true, if_false, Bool.false_eq_true] <;> refine ⟨by decide, ?_⟩ <;> rw [hp] <;> simp [h1, h2]

/-- Non-vacuity: full buffer, pending push, consumer frees a slot, the same future completes and stores the value once. -/
example :
    let s := (run (St.init [0, 0, 0] false true false) [.push 1, .push 2]).1
    (poll s (.push 3)).2 = .pending ∧ (poll (step (poll s (.push 3)).1 .pop).1 (.push 3)).2 = .ready .ok ∧
    (poll (step (poll s (.push 3)).1 .pop).1 (.push 3)).1.slots = [1, 2, 3] := by decide

end MRB.Props.C14
