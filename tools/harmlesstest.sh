#!/bin/bash
# usage: harmlesstest.sh [name ...] — applies each behaviour-preserving refactoring of /verif/harmless to /repo, runs all 18 checks,
# reverts. A VIOLATION line here is a false alarm. Writes harmless/RESULTS.tsv. /verif/evidence is saved and restored.
cd /verif
OUT=harmless/RESULTS.tsv
[ $# -eq 0 ] && { set -- $(ls harmless | grep "^h"); : > $OUT; }
cd /repo && git status --short | grep -q . && { echo "repo dirty"; exit 2; }
BK=$(mktemp -d /tmp/harmless.XXXXXX); cp -a /verif/evidence $BK/evidence
trap 'cd /repo && git checkout -- . ; /verif/rs2lean/target/debug/rs2lean /repo /verif/lean/snapshot.json /verif/lean/MRB/Gen >/dev/null; rm -rf /verif/evidence && mv $BK/evidence /verif/evidence; rm -rf $BK' EXIT
for h in "$@"; do
  cd /repo && git apply /verif/harmless/$h/patch.diff || { echo "$h	APPLY-FAILED" >> /verif/$OUT; continue; }
  cd /verif
  alarms=""
  for i in 01 02 03 04 05 06 07 08 09 10 11 12 13 14 15 16 17 18; do
    out=$(./check C$i 2>&1)
    if echo "$out" | grep -q "^VIOLATION"; then
      kind=$(echo "$out" | grep "^VIOLATION" | head -1 | grep -q "no-failing-input-found" && echo nfi || echo concrete)
      alarms="$alarms C$i:$kind"
      mkdir -p .cache/harmless/$h; rp=$(echo "$out" | grep -o "replay=[^ ]*" | head -1 | cut -d= -f2); [ -f "$rp" ] && cp "$rp" .cache/harmless/$h/C$i.replay
    fi
  done
  cd /repo && git checkout -- .
  grep -v "^$h	" /verif/$OUT > /verif/$OUT.tmp 2>/dev/null; mv /verif/$OUT.tmp /verif/$OUT
  printf "%s\t%s\n" "$h" "${alarms:- quiet}" >> /verif/$OUT
done
sort -o /verif/$OUT /verif/$OUT
