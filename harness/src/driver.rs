//! The Lean model driver as a child process: one request line in, one answer line out.
use std::io::{BufRead, BufReader, Write};
use std::process::{Child, ChildStdin, ChildStdout, Command, Stdio};

pub struct Driver {
    child: Child,
    stdin: ChildStdin,
    stdout: BufReader<ChildStdout>,
}

impl Driver {
    pub fn spawn(path: &str) -> std::io::Result<Driver> {
        let mut child = Command::new(path).stdin(Stdio::piped()).stdout(Stdio::piped()).spawn()?;
        let stdin = child.stdin.take().unwrap();
        let stdout = BufReader::new(child.stdout.take().unwrap());
        Ok(Driver { child, stdin, stdout })
    }
    pub fn ask(&mut self, line: &str) -> String {
        if writeln!(self.stdin, "{line}").is_err() { return "driver-dead".into(); }
        if self.stdin.flush().is_err() { return "driver-dead".into(); }
        let mut s = String::new();
        match self.stdout.read_line(&mut s) { Ok(0) | Err(_) => "driver-dead".into(), Ok(_) => s.trim_end().to_string() }
    }
}

impl Drop for Driver {
    fn drop(&mut self) { let _ = self.child.kill(); let _ = self.child.wait(); }
}
