#!/usr/bin/env python3
"""Rewrites section 10 of DESIGN.md from seeded/RESULTS.tsv and harmless/RESULTS.tsv (run after tools/seedmatrix.sh / harmlesstest.sh)."""
import json, os, re
V = "/verif"
rows = [l.rstrip("\n").split("\t") for l in open(f"{V}/seeded/RESULTS.tsv") if l.strip()]

def how(first):
    f = first
    if "vmemprobe" in f or "model verdict" in f or "get_page_size_mul" in f or "still mapped" in f: return "engine vmemprobe"
    if "wakeprobe" in f or "waker is being registered" in f or "wakers still held" in f: return "engine wakeprobe"
    if '"tag":' in f: return "engine conc (oracle on the real schedule / replay on the Lean machine)"
    if "AsyncDetached" in f or "index after attach" in f: return "engine adetprobe"
    if "harness process died" in f or "memory-unsafe" in f: return "crash capture (harness died on the logged history)"
    if "Send" in f or "Sync" in f: return "engine c16 (rustc probes)"
    if '"kind": "oracle"' in f: return "differential harness, oracle"
    return "see replay"

def table(sel):
    out = ["| seeded change | property | caught by | first line of the replay |", "|---|---|---|---|"]
    for r in sel:
        r = r + [""] * (5 - len(r))
        name, prop, rc, verdict, first = r[:5]
        f = first.replace("|", "\\|")
        if len(f) > 150: f = f[:150] + "…"
        out.append(f"| `{name}` | {prop} | {verdict}: {how(first)} | `{f}` |")
    return "\n".join(out)

w1 = [r for r in rows if "-w2-" not in r[0] and "-w3-" not in r[0] and "-w4-" not in r[0]]
w2 = [r for r in rows if "-w2-" in r[0]]
w3 = [r for r in rows if "-w3-" in r[0]]
w4 = [r for r in rows if "-w4-" in r[0]]
counts = {}
for r in rows: counts[r[3]] = counts.get(r[3], 0) + 1
hrows = [l.rstrip("\n").split("\t") for l in open(f"{V}/harmless/RESULTS.tsv") if l.strip()] if os.path.exists(f"{V}/harmless/RESULTS.tsv") else []
hmeta = {}
for h in os.listdir(f"{V}/harmless"):
    p = f"{V}/harmless/{h}/meta.json"
    if os.path.exists(p): hmeta[h] = json.load(open(p))
htab = ["| refactoring | what it changes | checks that raised an alarm |", "|---|---|---|"]
for r in hrows:
    m = hmeta.get(r[0], {})
    summ = m.get('summary', '').replace('|', '/').replace('\n', ' ')
    if len(summ) > 170: summ = summ[:170] + '…'
    htab.append(f"| `{r[0]}` | {summ} | {r[1].strip() if len(r) > 1 else ''} |")

text = f"""## 10. Seeded changes and harmless refactorings: what the checks report

### 10.1 Seeded changes (must be reported)

{len(rows)} seeded changes are kept under `seeded/<name>/` (`patch.diff`, the author's demonstration, `meta.json`: which
property, what it needs to manifest, what was run — `confirmed_by_me`). They come from five waves of fresh sub-agents
(34 + 34 + 23 + 17 + 12 changes; each agent was given only the text of the properties — waves 1, 2 and 4: of the properties it
worked on; wave 3: of all 18, plus an area of the source to work in and the request to avoid the index arithmetic the
earlier waves had concentrated on; wave 4: with the request to hide the change in less-travelled code paths; wave 5 (`*-w5-*`): all 18 plus one of four
themes — worker present vs absent, teardown and drop order, multi-item operations on a wrapped window, the async layer —
and scratch
git worktrees under /tmp, nothing from /verif, with the stated purpose of testing these
checks and the request that the change compile, keep the pinned suite green and need something specific to manifest) and from the reverse patches of the eight `fix:` commits
(`*-regress-Dn`). Every one was confirmed by hand before it was kept: it applies to /repo's HEAD, the pinned suite stays
green with it (36 passed), and the check of its property was run against it. None was ever applied to /repo other than by
`tools/seedtest.sh` (`git -C /repo apply`, run the check, `git -C /repo checkout -- .`); the scratch worktrees were removed
with `git worktree remove --force`. No permission or safety layer refused any of these changes, for a sub-agent or for me.

`tools/seedmatrix.sh` runs every seeded change against the check of its own property and writes `seeded/RESULTS.tsv`.
Current state: {', '.join(f'{v} {k}' for k, v in sorted(counts.items()))} (`concrete` = VIOLATION with a history / schedule /
probe that fails on the real code; `no-failing-input-found` = VIOLATION naming only the broken theorem or correspondence;
`MISSED` = the check stayed quiet).

Wave 5 (12 changes): 10 were reported with a concrete failing history at once; `C03-w5-extract-slice-advance-before-tail`
(the consumer's `advance` hoisted between the head copy and the tail copy of a wrapped `copy_slice`) breaks the skeleton
fact "publish after the last slot access" and hence a C03 proof obligation, but the quick tier's schedules did not hit
the one-slot window: `no-failing-input-found`. `C09-w5-vmem-teardown-drops-empty-slots` (the `vmem`-only branch of
`HeapStorage::drop` hands `drop_in_place` a `*mut T`, bypassing the cell's zero test) was MISSED by C09: the ownership
profile of C09 was never built with the `vmem` feature (the same history was run, and failed, under C17's `vmemown`
profile, where a C09-tagged failure only counts as a broken correspondence). C09 now also runs the `vmemown` profile and
reports the seed with the concrete history `drop P; drop C` on a zeroed heap buffer ("a destructor ran on an empty slot");
the unchanged tree stays quiet under it.

First wave and regressions:

{table(w1)}

Second wave (names `Cxx-w2-…`; a few are the same source change as a first-wave seed but under another property):

{table(w2)}

Third wave (names `Cxx-w3-…`; by area of the code: cell primitives and the shared handle, storage and constructors, async
wrappers, the public operations of the three iterators, the two buffer variants and `Detached`):

{table(w3)}

Fourth wave (names `Cxx-w4-…`; written after the machinery had been generalised for the harmless batches of §10.2, to see
whether that had cost any detection, and asked to hide in less-travelled paths):

{table(w4)}

What the waves taught (every item below was a miss or an inconclusive report on the first run and is now reported with a
concrete replay):

* `C06-copy-bytes-by-align` (copies `n·align_of::<T>()` bytes): invisible with `u64`/`Tok` items → item type `C12` (12-byte
  `Copy`, alignment 4, checksum word) in a quarter of the `u64` cases; slice forms carry the tag C06 when values are wrong.
* `C18-vec-capacity-as-len`: heap buffers were built from exact-capacity vectors → every concurrent heap case builds its
  vector with spare capacity; `buf_len()` is compared with the constructed length; a failure at the very first observation
  of a fresh buffer is tagged C18.
* `C05-resplit-stale-work-idx`, `C05-reset-keeps-cache`, `C05-w2-detached-advance-keeps-cache`: C05 only ran the `avail`
  profile → also `reset`, `construct`, `detached`; `seqdiff --prefer-tag` minimises towards the failure of the property
  being checked.
* `C13-async-detached-goback-zero`, `C12-w2-async-detached-advance-publishes`: `AsyncDetached` was not driven → engine
  `adetprobe`.
* `C01-copy-slice-early-release`, `C01-w2-cons-reset-index-jumps-to-producer`: C01 now also runs `reset`/`detached` and,
  when its proof breaks, widens the search to the concurrency engine.
* `C02-w2-work-index-store-relaxed`: a missing Release edge never yields a wrong *value* on this hardware → C02 accepts
  the data race the C03 oracle finds on the same executions as its failing input.
* `C03-w2-detached-set-index-keeps-cached-avail`: not reachable by the concurrent programs → C03 also runs the
  sequential `detached`/`reset` profiles; a grant the oracle refuses is tagged C03.
* `C07-w2-release-iter-no-acquire` (`fetch_sub(Release)`): freed exactly once, but unordered with the peers' accesses →
  the scheduler checks at the FREE event that the freeing thread's clock covers every other thread's.
* `C15-w2-poll-no-recheck-after-register`, `C15-w2-waker-registered-only-once`: parts of C15 that hold on this tree and
  that no single-threaded poll history can reach → engine `wakeprobe`.
* `C07-w3-drop-in-place-no-dealloc` (the release event is emitted but the box is never deallocated) → the harness's global
  allocator watches the allocation reported by the BOX event: "released" means deallocated.
* `C09-w3-heap-new-zeroed-uses-uninit-allocation` → the same allocator fills every fresh non-zeroed allocation with 0xA5.
* `C07-w3-async-split-registers-phantom-worker`, `C07-w3-async-work-into-sync-double-release`: `split_async`,
  `split_mut_async`, `into_sync` were never called → `asyncdiff` builds half of its concurrent heap cases through them and
  judges liveness flags and releases with the life-cycle oracle.
* `C03-w3-extract-item-releases-slot-before-reading` (publish, then read the slot) is the one change reported without a
  failing input, and analysis says there is none for C03: because one slot always stays free, the slot a consumer has just
  released is the last one the producer can reach, so nobody's access can overlap the late read (the author's demo fails
  on an assertion that the producer's push is *refused*, which C03 does not say; the pushed item goes to another slot).
  The check reports what it can show: the conformance theorem "data accesses precede the publication" no longer holds.
* Fourth wave, first run: 13 of 17 concrete, one without failing input, three missed; all four are now concrete.
  `C04-w4-split-mut-async-consumer-follows-producer` (`split_mut_async` returns a consumer that looks at the producer): the
  harness named the consumer's type parameter itself, so the change could at best have broken its build, and C04 ran no
  async profile → the async splits are run with whatever consumer type the crate returns and C04 has the `async`
  profile; the oversteps show as wrong indices and grants. `C15-w4-waker-not-registered-on-partial-availability` (the
  waker is kept only when nothing at all is available) → every poll gets its own task waker and a `Pending` that leaves no
  clone of it with the iterator is a failure, for every operation and availability. `C07-w4-prod-alive-flag-store-relaxed`
  (the accessor table and with it the proof broke, but no execution failed) → the concurrent programs look at the liveness
  flags (`alive`), and a thread that reads a flag as `false` must thereby know everything the dropped iterator did before.
  `C16-w4-future-send-regardless-of-iterator` (an `unsafe impl Send for MRBFuture` that forgets the iterator): futures were
  outside the universe → `Wrap.future` in the Traits model and in the rustc probes (a future holds `&mut` to its
  iterator); bounds on other type parameters count as satisfiable.
* Re-running the seeds of the first three waves against the final harness showed one regression:
  `C02-w2-push-slice-wrap-publishes-before-tail-copy` had been found by one program in 3000, and the new `alive` operation
  shifted the random stream so that the quick tier no longer drew it. Detection by a single lucky draw is not detection:
  the minimised replay of *every* seed the concurrency engine has ever caught (24 programs with their schedules) is now in
  `corpus/conc/` and runs first on every check, and the quick tier draws 10000 programs instead of 3000.
* `C07-w2-release-before-flag-clear` and friends are additionally refused by the drop-protocol replay on the Lean machine
  (`decrement-before-flag-clear`).

Minimised replays of first-wave seeds are kept as a regression corpus (`corpus/<profile>/*.case`, `corpus/conc/*.cprog`)
that runs first on every check; on the unchanged tree they pass.

### 10.2 Harmless refactorings (must not be reported)

Fifty-five behaviour-preserving refactorings in five batches, each batch written by independent agents that saw nothing of
/verif (`harmless/*/patch.diff` + `meta.json`): `h1`–`h11` (renamed locals and parameters, `if` ↔ `match` ↔ early return,
negated comparisons, extracted/inlined private helpers, reordered independent private-field writes, one memory ordering
*strengthened*, bound sub-expressions, reformatting; `h11` is an equivalent mutant suggested by a seeding agent),
`g1`–`g13` (equivalent index arithmetic — three-way `cmp`, `wrapping_sub`, `checked_sub`, `min` —, bodies moved into default
methods of the iterator traits or into private helpers, `split_at_mut` instead of indexing, rewritten constructors and
cell primitives, `get_range_max` split per configuration, `NonZeroUsize` zero tests) and `k1`–`k8`/`m1`–`m8` (a shared
free `ring_distance`, the producer's distance as `gap − 1`, `checked_sub` in `go_back` and in the chunk functions, pointer
casts instead of `transmute`, `?`/`let … else`, iterator aliases and destructuring of `self`, accessor and `set_*_alive`
helpers in both buffer variants, std calls replaced by their definitions in the cell primitives, `poll` unrolled into
attempt – register – attempt, named locals in the constructors, a `release()` behind `BufRef`'s destructor, an mmap helper)
and `n1`–`n7`, whose authors were asked for ideas not used before (`(index + count) % len`, a `Window` struct for the chunk
geometry, `while` loops with a counter, `_available` as a trait default, `len − count + idx`, `poll` as a `for` over
`[false, true]`, the split preamble as provided methods of `IterManager`), and finally `q1`–`q8`, deliberately *ordinary*
clean-ups of the central functions (renamed parameters and locals, `match bool` → `if`, hoisted sub-expressions, `?`, narrowed
`unsafe` blocks, `Self`, `break value` → `return`, a private `release()`/`count_alive()`), written after all generalisations
to see what an everyday pull request does: all eight were quiet at once.
Each keeps the pinned suite green and compiles with `async` and `vmem`. `tools/harmlesstest.sh` applies each to /repo,
runs all 18 checks and reverts; a VIOLATION there is a false alarm (of the kind the brief allows — a broken proof or
correspondence with no failing input — but an alarm nonetheless).

How the batches went, each against the machinery as it stood when the batch arrived: of `h1`–`h10`, 7 broke at least one
proof obligation (`no-failing-input-found`); of `g1`–`g13`, 11; of the sixteen `k`/`m`, 10; of `n1`–`n7`, all seven; of the ordinary `q1`–`q8`, none — never a concrete failure, always
the translator meeting a construct outside its subset, a lemma or conformance theorem that depended on the spelling of a
generated definition, or a textual pin. After each batch the translator, the lemmas and the conformance theorems were
generalised as described in §2.1 and §8 (no check was loosened: every generalisation still rejects the seeded changes of
§10.1, which were re-run). The three that still alarm are outside what the translator reads and are left so (§9). Current
state, all fifty-five against the final machinery:

{chr(10).join(htab)}
"""
s = open(f"{V}/DESIGN.md").read()
i = s.index("## 10. Seeded changes")
j = s.index("## 11. Tooling notes")
open(f"{V}/DESIGN.md", "w").write(s[:i] + text + "\n" + s[j:])
print("section 10 rewritten:", len(rows), "seeds,", len(hrows), "harmless")
