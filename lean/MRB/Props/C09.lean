/-
  C09 — empty (zeroed) slots are never read or dropped; `*_init` pushes handle both kinds.
-/
import MRB.Seq.Run
import MRB.Seq.Discipline

namespace MRB.Props.C09
open MRB

/-- The `*_init` store on an empty slot runs no destructor; on an occupied slot it destroys the old value
    exactly once; it never raises the "destructor on empty slot" fault by itself. -/
theorem C09_init_branches (s : St) (i v : Nat) (ho : s.owned = true) (hf : s.fault = none) :
    (s.slotAt i = 0 → (initSlot s i v).drops = s.drops) ∧ (s.slotAt i ≠ 0 → (initSlot s i v).drops = s.drops ++ [s.slotAt i]) ∧
    (initSlot s i v).fault = none := by
  refine ⟨fun h => ?_, fun h => ?_, ?_⟩
  · simp [initSlot, h, writeSlot, St.setSlot]
  · simp [initSlot, h, assignSlot, ho, St.setSlot]
  · by_cases h : s.slotAt i = 0
    · simp [initSlot, h, writeSlot, St.setSlot, hf]
    · simp [initSlot, h, assignSlot, ho, St.setSlot, hf]

/-- A plain (assigning) store onto an *empty* slot of an owned type is exactly the forbidden case: it is the
    only way a store reaches the "destructor on an empty slot" fault. -/
theorem C09_plain_store_faults_iff_empty (s : St) (i v : Nat) (ho : s.owned = true) (hf : s.fault = none) :
    (assignSlot s i v).fault = some .dropZero ↔ s.slotAt i = 0 := by
  by_cases h : s.slotAt i = 0
  · simp [assignSlot, ho, h, St.setFault, St.setSlot, hf]
  · simp [assignSlot, ho, h, St.setSlot, hf]

/-- Releasing the buffer never passes an empty slot to a destructor. -/
theorem C09_release_skips_empty (s : St) : 0 ∉ (releaseStorage s).drops.drop s.drops.length := by
  unfold releaseStorage; split <;> simp

/-- **Empty slots are never read or dropped, whole histories.** From *any* freshly split buffer (zeroed, partly filled
or full; any length, two or three stages), every contract-respecting history that follows the init discipline — the
producer stores non-zero tokens through the `*_init` forms, worker and consumer edit items in place with non-zero
values, the consumer takes items with `pop_move` / clone / peek, iterators are dropped at any point — records no
undefined behaviour at all: no destructor on an empty slot, no empty slot read as an item, no window outside the
storage. And every item in flight stays a non-zero token. -/
theorem C09_no_zero_use (slots : List Nat) (hasW heap : Bool) (hlen : 1 ≤ slots.length) (hlt : slots.length < 2 ^ 63) (ops : List Op)
    (hal : AllowedRun (St.init slots hasW heap true) (Sp.init slots.length hasW) ops) (hd : DiscRun ops) :
    (run (St.init slots hasW heap true) ops).1.fault = none ∧ NZ ((Sp.init slots.length hasW).run ops).1 :=
  no_fault_run (rel_init slots hasW heap true hlen hlt) (NZ.init _ _) rfl ops hal hd

/-- The other documented use: a buffer built from existing data (every slot occupied) that is only ever stored into
(plain or `*_init` stores of non-zero tokens, by any stage) and read by clone / peek — never `pop_move`d — stays fully
occupied for ever, so the unconditional stores never meet an empty slot either. -/
theorem C09_no_zero_use_full_buffer (slots : List Nat) (hasW heap : Bool) (hlen : 1 ≤ slots.length) (hlt : slots.length < 2 ^ 63) (hocc : ∀ v ∈ slots, v ≠ 0)
    (ops : List Op) (hal : AllowedRun (St.init slots hasW heap true) (Sp.init slots.length hasW) ops)
    (hd : ∀ op ∈ ops, DiscFull op) :
    (run (St.init slots hasW heap true) ops).1.fault = none ∧ AllOcc (run (St.init slots hasW heap true) ops).1 :=
  full_run (rel_init slots hasW heap true hlen hlt)
    (by intro i hi; simp only [St.init] at hi ⊢; exact getD_ne_zero_of_mem slots i hi hocc) rfl ops hal hd

/-- One step of it, from any reachable state: what the consumer takes is never an empty slot. -/
theorem C09_taken_item_nonzero {s : St} {a : Sp} (h : Rel s a) (hz : NZ a) (hav : 1 ≤ a.avail .C) : a.valAt a.posC ≠ 0 :=
  head_nz h hz hav

/-- Tie to the source: the `*_init` forms test every slot separately, and the emptiness test looks at all bytes. -/
theorem C09_source_init_shapes :
    Gen.storePushInit = .initBranch ∧ Gen.storePushSliceInit = .perSlotInitCopy ∧ Gen.storePushSliceCloneInit = .perSlotInitClone ∧
    Gen.cellFacts.checkZeroedAllBytes = true ∧ Gen.cellFacts.dropSkipsZeroed = true :=
  ⟨rfl, rfl, rfl, rfl, rfl⟩

/-- Non-vacuity: `new_zeroed`, `*_init` pushes over empty and occupied slots alternating, no fault, one destructor per replaced value. -/
example :
    let ops : List Op := [.pushInit 5, .pushInit 6, .popMove, .cloneItem, .pushSliceCloneInit [7, 8], .dropIt .P, .dropIt .C]
    let r := run (St.init [0, 0, 0, 0] false true true) ops
    r.1.fault = none ∧ r.1.drops = [6, 7, 8] ∧ r.2 = [.ok, .ok, .item 5, .item 6, .ok, .ok, .ok] := by decide

end MRB.Props.C09
