/-
  MRB.Seq.Discipline — the documented way to use the buffer with items that have a destructor never runs into
  undefined behaviour (C09): empty slots are never read as items and never passed to a destructor.

  Discipline ("init discipline"): the producer stores with the `*_init` forms only (they look at the slot and
  `write` into an empty one, assign otherwise), every stored token is non-zero, worker/consumer may edit items in
  place (non-zero values), the consumer may `pop_move`, clone, peek.  Plain `push` / `push_slice_clone` (which
  assign unconditionally and are documented as "only onto initialised slots") are outside this discipline; what
  they do on an empty slot is `C09_plain_store_faults_iff_empty`.
-/
import MRB.Seq.Ledger

set_option linter.unusedVariables false

namespace MRB

/-- Every item in flight (accepted, not yet passed by the consumer's published position) is a non-zero token. -/
def NZ (a : Sp) : Prop := ∀ q, a.pubC ≤ q → q < a.posP → a.hist.getD q 0 ≠ 0

/-- The init discipline, per operation. -/
def Disc : Op → Prop
  | .push _ | .pushSliceClone _ | .pop | .copyItem | .copySlice _ | .pushSlice _ | .pushSliceInit _ => False
  | .pushInit v => v ≠ 0
  | .pushSliceCloneInit vs => ∀ v ∈ vs, v ≠ 0
  | .poke r _ v => r ≠ .P ∧ v ≠ 0
  | .advance r _ vs => r = .P → ∀ v ∈ vs, v ≠ 0
  | _ => True

theorem Disc.owned {op : Op} (h : Disc op) : OwnedOp op = true := by
  cases op <;> simp [Disc] at h <;> rfl

theorem NZ.shrink {a a' : Sp} (h : NZ a) (h1 : a.pubC ≤ a'.pubC) (h2 : a'.posP ≤ a.posP) (h3 : a'.hist = a.hist) : NZ a' := by
  intro q q1 q2; rw [h3]; exact h q (by omega) (by omega)

theorem getD_ne_zero_of_mem (vs : List Nat) (k : Nat) (hk : k < vs.length) (h : ∀ v ∈ vs, v ≠ 0) : vs.getD k 0 ≠ 0 := by
  rw [List.getD_eq_getElem?_getD, List.getElem?_eq_getElem hk]
  exact h _ (List.getElem_mem hk)

theorem NZ.moveP {a : Sp} (h : NZ a) (hl : a.posP ≤ a.hist.length) (n : Nat) (vs : List Nat) (hn : vs.length = n) (hv : ∀ v ∈ vs, v ≠ 0) :
    NZ (a.move .P n vs) := by
  have key : ∀ q, a.pubC ≤ q → q < a.posP + n → (a.hist.take a.posP ++ vs).getD q 0 ≠ 0 := by
    intro q q1 q2
    by_cases hq : q < a.posP
    · rw [getD_append_left _ _ _ (by simp [List.length_take, Nat.min_eq_left hl]; exact hq), getD_take _ _ _ hq]
      exact h q q1 hq
    · rw [getD_append_right _ _ _ (by simp [List.length_take, Nat.min_eq_left hl]; omega)]
      simp only [List.length_take, Nat.min_eq_left hl]
      exact getD_ne_zero_of_mem vs _ (by omega) hv
  unfold Sp.move
  cases hd : a.detP <;> simp only [Sp.det, hd, Sp.setPos, Sp.pos, Sp.publish, Bool.false_eq_true, if_false, if_true] <;>
    intro q q1 q2 <;> exact key q q1 q2

theorem NZ.moveOther {a : Sp} (h : NZ a) (hle : a.pubC ≤ a.posC) (r : Role) (hr : r ≠ .P) (n : Nat) (vs : List Nat) : NZ (a.move r n vs) := by
  unfold Sp.move
  cases r
  · exact absurd rfl hr
  · cases hd : a.detW <;> simp only [Sp.det, hd, Sp.setPos, Sp.pos, Sp.publish, Bool.false_eq_true, if_false, if_true] <;>
      exact h.shrink (Nat.le_refl _) (Nat.le_refl _) rfl
  · cases hd : a.detC <;> simp only [Sp.det, hd, Sp.setPos, Sp.pos, Sp.publish, Bool.false_eq_true, if_false, if_true]
    · exact h.shrink (by simp only; omega) (Nat.le_refl _) rfl
    · exact h.shrink (Nat.le_refl _) (Nat.le_refl _) rfl

theorem NZ.store {a : Sp} (h : NZ a) (r : Role) (q v : Nat) (hv : v ≠ 0) : NZ (a.store r q v) := by
  unfold Sp.store
  cases r
  · exact h
  all_goals
    intro q' q1 q2
    simp only at q1 q2 ⊢
    by_cases e : q' = q
    · subst e
      by_cases hl : q' < a.hist.length
      · rw [getD_set _ _ _ _ hl]; simpa using hv
      · rw [List.set_eq_of_length_le (by omega)]; exact h q' q1 q2
    · by_cases hl : q < a.hist.length
      · rw [getD_set _ _ _ _ hl]; simp only [e, if_false]; exact h q' q1 q2
      · rw [List.set_eq_of_length_le (by omega)]; exact h q' q1 q2

/-- The invariant "items in flight are non-zero tokens" is preserved by every step of the discipline. -/
theorem NZ.step {s : St} {a : Sp} (h : Rel s a) (hz : NZ a) (op : Op) (hal : Allowed s a op) (hd : Disc op) : NZ (a.step op).1 := by
  have hlC := h.leC
  cases op with
  | available r => exact hz
  | advance r n vs =>
    simp only [Sp.step]
    cases r
    · exact hz.moveP h.hist_len n vs (hal.2.2.2 rfl).1 (hd rfl)
    · exact hz.moveOther hlC .W (by simp) n vs
    · exact hz.moveOther hlC .C (by simp) n vs
  | getWorkable r => simp only [Sp.step, Sp.grantOne]; split <;> exact hz
  | sliceExact r n => simp only [Sp.step, Sp.grantWin]; split <;> exact hz
  | sliceAvail r => simp only [Sp.step, Sp.grantWin]; split <;> (try split) <;> exact hz
  | sliceMultipleOf r k => simp only [Sp.step, Sp.grantWin]; split <;> (try split) <;> (try split) <;> exact hz
  | poke r k v => exact hz.store r _ v hd.2
  | push v => exact absurd hd (by simp [Disc])
  | pushInit v =>
    simp only [Sp.step]; split
    · exact hz.moveP h.hist_len 1 [v] rfl (by intro x hx; simp at hx; subst hx; exact hd)
    · exact hz
  | pushSlice vs => exact absurd hd (by simp [Disc])
  | pushSliceInit vs => exact absurd hd (by simp [Disc])
  | pushSliceClone vs => exact absurd hd (by simp [Disc])
  | pushSliceCloneInit vs =>
    simp only [Sp.step]; split
    · exact hz.moveP h.hist_len vs.length vs rfl hd
    · exact hz
  | nextItemMut => simp only [Sp.step, Sp.grantOne]; split <;> exact hz
  | nextItemMutInit => simp only [Sp.step, Sp.grantOne]; split <;> exact hz
  | nextSlicesMut n => simp only [Sp.step, Sp.grantWin]; split <;> exact hz
  | resetIndex r =>
    have hoc := h.ordC
    have hW := h.ordW; have hP := h.leP; have hWl := h.leW
    cases r
    · exact hz
    · simp only [Sp.step]
      cases hdw : a.detW <;> simp only [Bool.false_eq_true, if_false, if_true, Sp.setPos, Sp.publish] <;>
        exact hz.shrink (Nat.le_refl _) (Nat.le_refl _) rfl
    · simp only [Sp.step]
      cases hdc : a.detC <;> simp only [Bool.false_eq_true, if_false, if_true, Sp.setPos]
      · refine hz.shrink ?_ (Nat.le_refl _) rfl
        simp only [Sp.limit]
        cases hw : a.hasW <;> simp [hw] at hoc ⊢ <;> omega
      · exact hz.shrink (Nat.le_refl _) (Nat.le_refl _) rfl
  | peekRef => simp only [Sp.step, Sp.grantOne]; split <;> exact hz
  | peekSlice n => simp only [Sp.step, Sp.grantWin]; split <;> exact hz
  | peekAvailable => simp only [Sp.step, Sp.grantWin]; split <;> exact hz
  | popMove => simp only [Sp.step]; split; exact hz.moveOther hlC .C (by simp) 1 []; exact hz
  | pop => exact absurd hd (by simp [Disc])
  | copyItem => exact absurd hd (by simp [Disc])
  | cloneItem => simp only [Sp.step]; split; exact hz.moveOther hlC .C (by simp) 1 []; exact hz
  | copySlice n => exact absurd hd (by simp [Disc])
  | cloneSlice n => simp only [Sp.step]; split; exact hz.moveOther hlC .C (by simp) n []; exact hz
  | detach r => cases r <;> exact hz.shrink (Nat.le_refl _) (Nat.le_refl _) rfl
  | attach r =>
    cases r
    · exact hz.shrink (Nat.le_refl _) (Nat.le_refl _) rfl
    · exact hz.shrink (Nat.le_refl _) (Nat.le_refl _) rfl
    · exact hz.shrink (by simp [Sp.step, Sp.publish, Sp.setDet, Sp.pos]; exact hlC) (Nat.le_refl _) rfl
  | setIndex r i =>
    cases r
    · exact hz.shrink (Nat.le_refl _) (by have := hal.2.2.2.2.2 rfl; rw [← h.len_eq] at this; simpa [Sp.step, Sp.setPos] using this) rfl
    · exact hz.shrink (Nat.le_refl _) (Nat.le_refl _) rfl
    · exact hz.shrink (Nat.le_refl _) (Nat.le_refl _) rfl
  | goBack r n =>
    cases r
    · exact hz.shrink (Nat.le_refl _) (by simp [Sp.step, Sp.setPos, Sp.pos]) rfl
    · exact hz.shrink (Nat.le_refl _) (Nat.le_refl _) rfl
    · exact hz.shrink (Nat.le_refl _) (Nat.le_refl _) rfl
  | syncIndex r =>
    cases r
    · exact hz.shrink (Nat.le_refl _) (Nat.le_refl _) rfl
    · exact hz.shrink (Nat.le_refl _) (Nat.le_refl _) rfl
    · exact hz.shrink (by simp [Sp.step, Sp.publish, Sp.pos]; exact hlC) (Nat.le_refl _) rfl
  | dropIt r => exact hz
  | resplit w => intro q q1 q2; simp [Sp.step] at q2

-- ---------------------------------------------------------------- no fault under the discipline

theorem fault_refresh (s : St) (r : Role) : (refresh s r).1.fault = s.fault := by unfold refresh; exact fault_setIt _ _ _
theorem fault_dropIter (s : St) (r : Role) : (dropIter s r).fault = s.fault := by
  unfold dropIter releaseStorage
  cases r <;> simp only [St.setIt, St.it] <;>
    by_cases c1 : s.liveCount - 1 = 0 ∧ s.heap = true <;> by_cases c2 : s.owned = true <;> simp [c1, c2]
theorem fault_grantOne (s : St) (r : Role) : (grantOne s r).1.fault = s.fault := by
  unfold grantOne; simp only; split <;> exact fault_check _ _ _

theorem fault_grantWindow {s : St} {a : Sp} (h : Rel s a) (r : Role) (n : Nat) (hr : r = .W → s.hasW = true) :
    (grantWindow s r n).1.fault = s.fault := by
  obtain ⟨h1, hok, _, hidx⟩ := check_spec h r n hr
  have hr1 : r = .W → (check s r n).1.hasW = true := fun e => by rw [← h1.hasW, h.hasW]; exact hr e
  have hlim := h1.avail_le r hr1
  unfold grantWindow; simp only
  by_cases hc : (check s r n).2 = true
  · rw [if_pos hc]
    rw [hc] at hok
    have hav : n ≤ a.avail r := by simpa using hok.symm
    have hL := h1.len_pos
    rw [if_pos (chunkInBounds_true _ _ _ (h1.idx_lt r) (by omega))]
    exact fault_check _ _ _
  · rw [if_neg hc]; exact fault_check _ _ _

theorem fault_grantWindowRO {s : St} {a : Sp} (h : Rel s a) (r : Role) (n : Nat) (hr : r = .W → s.hasW = true) :
    (grantWindowRO s r n).1.fault = s.fault := by
  obtain ⟨h1, hok, _, hidx⟩ := check_spec h r n hr
  have hr1 : r = .W → (check s r n).1.hasW = true := fun e => by rw [← h1.hasW, h.hasW]; exact hr e
  have hlim := h1.avail_le r hr1
  unfold grantWindowRO; simp only
  by_cases hc : (check s r n).2 = true
  · rw [if_pos hc]
    rw [hc] at hok
    have hav : n ≤ a.avail r := by simpa using hok.symm
    have hL := h1.len_pos
    rw [if_pos (chunkInBounds_true _ _ _ (h1.idx_lt r) (by omega))]
    exact fault_check _ _ _
  · rw [if_neg hc]; exact fault_check _ _ _

theorem fault_initSlot (s : St) (i v : Nat) : (initSlot s i v).fault = s.fault := by
  unfold initSlot; split
  · rfl
  · rename_i hz
    unfold assignSlot; simp only [St.setSlot, hz, if_false]
    split <;> rfl

theorem fault_assign_occupied (s : St) (i v : Nat) (h : s.slotAt i ≠ 0) : (assignSlot s i v).fault = s.fault := by
  unfold assignSlot; simp only [St.setSlot, h, if_false]
  split <;> rfl

theorem fault_storeWindow_init (s : St) (idx n : Nat) (vs : List Nat) : (storeWindow initSlot s idx n vs).fault = s.fault := by
  unfold storeWindow
  generalize List.range n = ks
  generalize s.len = L
  induction ks generalizing s with
  | nil => rfl
  | cons k ks ih => simp only [List.foldl_cons]; rw [ih, fault_initSlot]

theorem fault_readGuard_nz (s : St) (v : Nat) (hv : v ≠ 0) : (readGuard s v).fault = s.fault := by
  unfold readGuard; rw [if_neg (fun h => hv h.2)]
theorem readGuard_nz (s : St) (v : Nat) (hv : v ≠ 0) : readGuard s v = s := by
  unfold readGuard; rw [if_neg (fun h => hv h.2)]
theorem fault_foldl_readGuard_nz (s : St) (vs : List Nat) (hv : ∀ v ∈ vs, v ≠ 0) : (vs.foldl readGuard s).fault = s.fault := by
  induction vs generalizing s with
  | nil => rfl
  | cons v vs ih =>
    simp only [List.foldl_cons]
    rw [readGuard_nz s v (hv v (List.mem_cons_self ..))]
    exact ih s (fun x hx => hv x (List.mem_cons_of_mem _ hx))

/-- The item the consumer is about to take is a non-zero token. -/
theorem head_nz {s : St} {a : Sp} (h : Rel s a) (hz : NZ a) (hav : 1 ≤ a.avail .C) : a.valAt a.posC ≠ 0 := by
  obtain ⟨w1, w2⟩ := h.window_in_flight .C (by simp) (by simp) 0 (by omega)
  exact hz _ (by simpa [Sp.pos] using w1) (by simpa [Sp.pos] using w2)

theorem window_nz {s : St} {a : Sp} (h : Rel s a) (hz : NZ a) (n : Nat) (hav : n ≤ a.avail .C) : ∀ v ∈ a.window a.posC n, v ≠ 0 := by
  intro v hv
  unfold Sp.window at hv
  obtain ⟨k, hk, e⟩ := List.mem_map.1 hv
  subst e
  obtain ⟨w1, w2⟩ := h.window_in_flight .C (by simp) (by simp) k (by have := List.mem_range.1 hk; omega)
  exact hz _ (by simpa [Sp.pos] using w1) (by simpa [Sp.pos] using w2)

/-- **No undefined behaviour under the init discipline, one step.** -/
theorem no_fault_step {s : St} {a : Sp} (h : Rel s a) (hz : NZ a) (op : Op) (hal : Allowed s a op) (hd : Disc op)
    (hf : s.fault = none) : (step s op).1.fault = none := by
  rw [← hf]
  cases op with
  | available r => exact fault_refresh s r
  | advance r n vs => simp only [step]; split <;> exact fault_applyGen _ _ _ _ _ _
  | getWorkable r => exact fault_grantOne s r
  | sliceExact r n => exact fault_grantWindow h r n hal.2
  | sliceAvail r =>
    simp only [step]; split
    · exact fault_refresh s r
    · rw [fault_grantWindow (refresh_spec h r hal.2).1 r _ (by intro e; rw [← (refresh_spec h r hal.2).1.hasW, h.hasW]; exact hal.2 e)]
      exact fault_refresh s r
  | sliceMultipleOf r k =>
    simp only [step]; split
    · exact fault_refresh s r
    · split
      · exact fault_refresh s r
      · rw [fault_grantWindow (refresh_spec h r hal.2).1 r _ (by intro e; rw [← (refresh_spec h r hal.2).1.hasW, h.hasW]; exact hal.2 e)]
        exact fault_refresh s r
  | poke r k v =>
    obtain ⟨hl, hr, hk⟩ := hal
    have hav := h.avail_le r hr
    have hL := h.len_pos
    simp only [step]
    apply fault_assign_occupied
    rw [chunkSlot_eq _ _ _ _ (h.idx_lt r) (by omega) (by omega), h.idx_eq r, mod_add_mod']
    obtain ⟨w1, w2⟩ := h.window_in_flight r hr hd.1 k hk
    rw [h.slot_read _ w1 w2]
    exact hz _ w1 w2
  | push v => exact absurd hd (by simp [Disc])
  | pushInit v =>
    simp only [step, pushWith]; split
    · rw [fault_advanceGlobal, fault_initSlot]; exact fault_check _ _ _
    · exact fault_check _ _ _
  | pushSlice vs => exact absurd hd (by simp [Disc])
  | pushSliceInit vs => exact absurd hd (by simp [Disc])
  | pushSliceClone vs => exact absurd hd (by simp [Disc])
  | pushSliceCloneInit vs =>
    obtain ⟨h1, hok, _, hidx⟩ := check_spec h .P vs.length (by simp)
    have hlim := h1.avail_le .P (by simp)
    have hL := h1.len_pos
    simp only [step, pushSliceWith]
    by_cases hc : (check s .P vs.length).2 = true
    · rw [if_pos hc]
      rw [hc] at hok
      have hav : vs.length ≤ a.avail .P := by simpa using hok.symm
      rw [fault_advanceGlobal, fault_storeWindow_init, if_pos (chunkInBounds_true _ _ _ (h1.idx_lt .P) (by omega))]
      exact fault_check _ _ _
    · rw [if_neg hc]; exact fault_check _ _ _
  | nextItemMut => exact fault_grantOne s .P
  | nextItemMutInit => exact fault_grantOne s .P
  | nextSlicesMut n => exact fault_grantWindow h .P n (by simp)
  | resetIndex r =>
    simp only [step]; split
    · exact fault_applyGen _ _ _ _ _ _
    · cases r
      · rfl
      · exact fault_applyGen _ _ _ _ _ _
      · exact fault_applyGen _ _ _ _ _ _
  | peekRef => exact fault_grantOne s .C
  | peekSlice n => exact fault_grantWindowRO h .C n (by simp)
  | peekAvailable =>
    simp only [step]
    rw [fault_grantWindowRO (refresh_spec h .C (by simp)).1 .C _ (by simp)]
    exact fault_refresh s .C
  | popMove =>
    have hv := (deliverOne_spec h hal.2 readGuard (fun t v => readGuard_frame t v) true).2
    obtain ⟨h1, hok, _, _⟩ := check_spec h .C 1 (by simp)
    simp only [step]
    by_cases hc : (check s .C 1).2 = true
    · rw [hc] at hok
      have hav : 1 ≤ a.avail .C := by simpa using hok.symm
      simp only [hc, hav, if_true] at hv ⊢
      have e : (check s .C 1).1.slotAt ((check s .C 1).1.it .C).idx = a.valAt a.posC := by
        have := hv; simp only [Out.item.injEq] at this; exact this
      rw [fault_advanceGlobal]
      show (readGuard (check s .C 1).1 _).fault = s.fault
      rw [e, fault_readGuard_nz _ _ (head_nz h hz hav)]
      exact fault_check _ _ _
    · simp only [hc]; exact fault_check _ _ _
  | pop => exact absurd hd (by simp [Disc])
  | copyItem => exact absurd hd (by simp [Disc])
  | cloneItem =>
    have hv := (deliverOne_spec h hal.2 readGuard (fun t v => readGuard_frame t v) false).2
    obtain ⟨h1, hok, _, _⟩ := check_spec h .C 1 (by simp)
    simp only [step]
    by_cases hc : (check s .C 1).2 = true
    · rw [hc] at hok
      have hav : 1 ≤ a.avail .C := by simpa using hok.symm
      simp only [hc, hav, if_true] at hv ⊢
      have e : (check s .C 1).1.slotAt ((check s .C 1).1.it .C).idx = a.valAt a.posC := by
        have := hv; simp only [Out.item.injEq] at this; exact this
      rw [fault_advanceGlobal, e, fault_readGuard_nz _ _ (head_nz h hz hav)]
      exact fault_check _ _ _
    · simp only [hc]; exact fault_check _ _ _
  | copySlice n => exact absurd hd (by simp [Disc])
  | cloneSlice n =>
    obtain ⟨c1, c2⟩ := grantWindow_cases h .C n (by simp)
    have hfw := fault_grantWindow h .C n (by simp)
    simp only [step]
    by_cases hav : n ≤ a.avail .C
    · obtain ⟨s1, e1, r1⟩ := c1 hav
      rw [e1] at hfw ⊢
      simp only [winOut] at hfw ⊢
      rw [fault_advanceGlobal]
      have hw := window_vals r1 .C (by simp) (by simp) n hav
      rw [hw]
      have := fault_foldl_readGuard_nz s1 _ (window_nz h hz n hav)
      simp only [Sp.pos] at this ⊢
      rw [this]
      exact hfw
    · obtain ⟨s1, e1, r1⟩ := c2 hav
      rw [e1] at hfw ⊢
      exact hfw
  | detach r => exact fault_setIt _ _ _
  | attach r => simp only [step]; rw [fault_setIt]; exact fault_applyGen _ _ _ _ _ _
  | setIndex r i => exact fault_applyGen _ _ _ _ _ _
  | goBack r n => exact fault_applyGen _ _ _ _ _ _
  | syncIndex r => exact fault_applyGen _ _ _ _ _ _
  | dropIt r => exact fault_dropIter s r
  | resplit w => rfl

/-- The discipline over a whole history. -/
def DiscRun (ops : List Op) : Prop := ∀ op ∈ ops, Disc op

/-- **No undefined behaviour under the init discipline, whole histories**: from any freshly split buffer — zeroed,
partly filled or full — any contract-respecting history that stores through the `*_init` forms never drops or reads an
empty slot, never leaves the storage, and keeps every item in flight a non-zero token. -/
theorem no_fault_run {s : St} {a : Sp} (h : Rel s a) (hz : NZ a) (hf : s.fault = none) (ops : List Op)
    (hal : AllowedRun s a ops) (hd : DiscRun ops) : (run s ops).1.fault = none ∧ NZ (a.run ops).1 := by
  induction ops generalizing s a with
  | nil => exact ⟨hf, hz⟩
  | cons op ops ih =>
    obtain ⟨h1, h2⟩ := hal
    simp only [run, Sp.run]
    exact ih (step_refines h op h1).1 (hz.step h op h1 (hd op (List.mem_cons_self ..)))
      (no_fault_step h hz op h1 (hd op (List.mem_cons_self ..)) hf) h2 (fun o ho => hd o (List.mem_cons_of_mem _ ho))

theorem NZ.init (len : Nat) (hasW : Bool) : NZ (Sp.init len hasW) := by
  intro q _ q2; simp [Sp.init] at q2


-- ---------------------------------------------------------------- the "always full" discipline

/-- Every slot of the storage holds a live item. -/
def AllOcc (s : St) : Prop := ∀ i, i < s.slots.length → s.slots.getD i 0 ≠ 0

/-- The second documented way to use owned items: the buffer is built from existing data (every slot occupied) and
stays fully occupied — stores of non-zero tokens only (plain or `*_init`, by any stage), and the consumer never moves
an item out (`clone_*`, `peek_*` only). Then the plain, unconditional stores are safe as well. -/
def DiscFull : Op → Prop
  | .popMove | .pop | .copyItem | .copySlice _ | .pushSlice _ | .pushSliceInit _ => False
  | .push v | .pushInit v => v ≠ 0
  | .pushSliceClone vs | .pushSliceCloneInit vs => ∀ v ∈ vs, v ≠ 0
  | .poke _ _ v => v ≠ 0
  | _ => True

theorem DiscFull.owned {op : Op} (h : DiscFull op) : OwnedOp op = true := by
  cases op <;> simp [DiscFull] at h <;> rfl

theorem AllOcc.keep {s s' : St} (h : AllOcc s) (k : KeepL s s') : AllOcc s' := by
  intro i hi; rw [k.slots] at hi ⊢; exact h i hi

theorem AllOcc.set {s : St} (h : AllOcc s) (i v : Nat) (hv : v ≠ 0) (s' : St) (e : s'.slots = s.slots.set i v) : AllOcc s' := by
  intro j hj
  rw [e] at hj ⊢
  simp only [List.length_set] at hj
  by_cases hi : i < s.slots.length
  · rw [getD_set _ _ _ _ hi]; split
    · exact hv
    · exact h j hj
  · rw [List.set_eq_of_length_le (by omega)]; exact h j hj

theorem assign_full {s : St} (h : AllOcc s) (i v : Nat) (hi : i < s.slots.length) (hv : v ≠ 0) :
    AllOcc (assignSlot s i v) ∧ (assignSlot s i v).fault = s.fault ∧ (assignSlot s i v).slots.length = s.slots.length :=
  ⟨h.set i v hv _ (assignSlot_ok s i v).2, fault_assign_occupied s i v (h i hi), by rw [(assignSlot_ok s i v).2]; simp⟩

theorem init_full {s : St} (h : AllOcc s) (i v : Nat) (hi : i < s.slots.length) (hv : v ≠ 0) :
    AllOcc (initSlot s i v) ∧ (initSlot s i v).fault = s.fault ∧ (initSlot s i v).slots.length = s.slots.length :=
  ⟨h.set i v hv _ (initSlot_ok s i v).2, fault_initSlot s i v, by rw [(initSlot_ok s i v).2]; simp⟩

theorem fold_full {store : St → Nat → Nat → St}
    (hs : ∀ s i v, AllOcc s → i < s.slots.length → v ≠ 0 → AllOcc (store s i v) ∧ (store s i v).fault = s.fault ∧ (store s i v).slots.length = s.slots.length)
    (slot : Nat → Nat) (vs : List Nat) (ks : List Nat) (s : St) (h : AllOcc s)
    (hk : ∀ k ∈ ks, slot k < s.slots.length ∧ vs.getD k 0 ≠ 0) :
    AllOcc (ks.foldl (fun acc k => store acc (slot k) (vs.getD k 0)) s) ∧
    (ks.foldl (fun acc k => store acc (slot k) (vs.getD k 0)) s).fault = s.fault := by
  induction ks generalizing s with
  | nil => exact ⟨h, rfl⟩
  | cons k ks ih =>
    simp only [List.foldl_cons]
    obtain ⟨k1, k2⟩ := hk k (List.mem_cons_self ..)
    obtain ⟨a1, a2, a3⟩ := hs s (slot k) (vs.getD k 0) h k1 k2
    obtain ⟨b1, b2⟩ := ih _ a1 (by intro j hj; rw [a3]; exact hk j (List.mem_cons_of_mem _ hj))
    exact ⟨b1, b2.trans a2⟩

theorem storeWindow_full {store : St → Nat → Nat → St}
    (hs : ∀ s i v, AllOcc s → i < s.slots.length → v ≠ 0 → AllOcc (store s i v) ∧ (store s i v).fault = s.fault ∧ (store s i v).slots.length = s.slots.length)
    (s : St) (h : AllOcc s) (idx : Nat) (vs : List Nat) (hl : s.slots.length = s.len) (hi : idx < s.len) (hn : vs.length ≤ s.len)
    (hv : ∀ v ∈ vs, v ≠ 0) :
    AllOcc (storeWindow store s idx vs.length vs) ∧ (storeWindow store s idx vs.length vs).fault = s.fault := by
  unfold storeWindow
  exact fold_full hs (fun k => chunkSlot idx s.len vs.length k) vs (List.range vs.length) s h
    (by intro k hk
        have hk' := List.mem_range.1 hk
        exact ⟨by rw [hl]; exact chunkSlot_lt idx s.len vs.length k hi hn hk', getD_ne_zero_of_mem vs k hk' hv⟩)

theorem pushWith_full {store : St → Nat → Nat → St}
    (hs : ∀ s i v, AllOcc s → i < s.slots.length → v ≠ 0 → AllOcc (store s i v) ∧ (store s i v).fault = s.fault ∧ (store s i v).slots.length = s.slots.length)
    {s : St} {a : Sp} (h : Rel s a) (ho : AllOcc s) (v : Nat) (hv : v ≠ 0) :
    AllOcc (pushWith store s v).1 ∧ (pushWith store s v).1.fault = s.fault := by
  have kc := keepL_check s .P 1
  unfold pushWith; simp only
  split <;> dsimp only
  · obtain ⟨a1, a2, _⟩ := hs (check s .P 1).1 ((check s .P 1).1.it .P).idx v (ho.keep kc)
      (by rw [kc.slots, idx_check]; exact idx_lt h .P) hv
    exact ⟨a1.keep (keepL_advanceGlobal _ _ _), by rw [fault_advanceGlobal, a2]; exact fault_check _ _ _⟩
  · exact ⟨ho.keep kc, fault_check _ _ _⟩

theorem pushSliceWith_full {store : St → Nat → Nat → St}
    (hs : ∀ s i v, AllOcc s → i < s.slots.length → v ≠ 0 → AllOcc (store s i v) ∧ (store s i v).fault = s.fault ∧ (store s i v).slots.length = s.slots.length)
    {s : St} {a : Sp} (h : Rel s a) (ho : AllOcc s) (vs : List Nat) (hv : ∀ v ∈ vs, v ≠ 0) :
    AllOcc (pushSliceWith store s vs).1 ∧ (pushSliceWith store s vs).1.fault = s.fault := by
  have kc := keepL_check s .P vs.length
  obtain ⟨h1, hok, _, _⟩ := check_spec h .P vs.length (by simp)
  have hlim := h1.avail_le .P (by simp)
  have hL := h1.len_pos
  unfold pushSliceWith; simp only
  by_cases hc : (check s .P vs.length).2 = true
  · rw [if_pos hc]
    rw [hc] at hok
    have hav : vs.length ≤ a.avail .P := by simpa using hok.symm
    rw [if_pos (chunkInBounds_true _ _ _ (h1.idx_lt .P) (by omega))]
    obtain ⟨a1, a2⟩ := storeWindow_full hs (check s .P vs.length).1 (ho.keep kc) ((check s .P vs.length).1.it .P).idx vs
      h1.slots_len (h1.idx_lt .P) (by omega) hv
    dsimp only
    exact ⟨a1.keep (keepL_advanceGlobal _ _ _), by rw [fault_advanceGlobal, a2]; exact fault_check _ _ _⟩
  · rw [if_neg hc]; exact ⟨ho.keep kc, fault_check _ _ _⟩

/-- One step of the "always full" discipline: the storage stays fully occupied and no fault is recorded. -/
theorem full_step {s : St} {a : Sp} (h : Rel s a) (ho : AllOcc s) (op : Op) (hal : Allowed s a op) (hd : DiscFull op)
    (hf : s.fault = none) : AllOcc (step s op).1 ∧ (step s op).1.fault = none := by
  rw [← hf]
  have slot_nz : ∀ i, i < s.len → s.slotAt i ≠ 0 := fun i hi => ho i (by rw [h.slots_len]; exact hi)
  cases op with
  | available r => exact ⟨ho.keep (keepL_refresh s r), fault_refresh s r⟩
  | advance r n vs =>
    simp only [step]; split
    · exact ⟨ho.keep (keepL_advanceLocalOnly s r n), fault_applyGen _ _ _ _ _ _⟩
    · exact ⟨ho.keep (keepL_advanceGlobal s r n), fault_applyGen _ _ _ _ _ _⟩
  | getWorkable r => exact ⟨ho.keep (keepL_grantOne s r), fault_grantOne s r⟩
  | sliceExact r n => exact ⟨ho.keep (keepL_grantWindow s r n), fault_grantWindow h r n hal.2⟩
  | sliceAvail r =>
    have hr' : r = .W → (refresh s r).1.hasW = true := by intro e; rw [← (refresh_spec h r hal.2).1.hasW, h.hasW]; exact hal.2 e
    simp only [step]; split
    · exact ⟨ho.keep (keepL_refresh s r), fault_refresh s r⟩
    · exact ⟨ho.keep ((keepL_refresh s r).trans (keepL_grantWindow _ _ _)),
        by rw [fault_grantWindow (refresh_spec h r hal.2).1 r _ hr']; exact fault_refresh s r⟩
  | sliceMultipleOf r k =>
    have hr' : r = .W → (refresh s r).1.hasW = true := by intro e; rw [← (refresh_spec h r hal.2).1.hasW, h.hasW]; exact hal.2 e
    simp only [step]; split
    · exact ⟨ho.keep (keepL_refresh s r), fault_refresh s r⟩
    · split
      · exact ⟨ho.keep (keepL_refresh s r), fault_refresh s r⟩
      · exact ⟨ho.keep ((keepL_refresh s r).trans (keepL_grantWindow _ _ _)),
          by rw [fault_grantWindow (refresh_spec h r hal.2).1 r _ hr']; exact fault_refresh s r⟩
  | poke r k v =>
    obtain ⟨hl, hr, hk⟩ := hal
    have hav := h.avail_le r hr
    have hL := h.len_pos
    have hi : chunkSlot (s.it r).idx s.len (k + 1) k < s.slots.length := by
      rw [h.slots_len]; exact chunkSlot_lt _ _ _ _ (h.idx_lt r) (by omega) (by omega)
    obtain ⟨a1, a2, _⟩ := assign_full ho _ v hi hd
    exact ⟨a1, a2⟩
  | push v => exact pushWith_full (fun s i v h => assign_full h i v) h ho v hd
  | pushInit v => exact pushWith_full (fun s i v h => init_full h i v) h ho v hd
  | pushSlice vs => exact absurd hd (by simp [DiscFull])
  | pushSliceInit vs => exact absurd hd (by simp [DiscFull])
  | pushSliceClone vs => exact pushSliceWith_full (fun s i v h => assign_full h i v) h ho vs hd
  | pushSliceCloneInit vs => exact pushSliceWith_full (fun s i v h => init_full h i v) h ho vs hd
  | nextItemMut => exact ⟨ho.keep (keepL_grantOne s .P), fault_grantOne s .P⟩
  | nextItemMutInit => exact ⟨ho.keep (keepL_grantOne s .P), fault_grantOne s .P⟩
  | nextSlicesMut n => exact ⟨ho.keep (keepL_grantWindow s .P n), fault_grantWindow h .P n (by simp)⟩
  | resetIndex r =>
    simp only [step]; split
    · exact ⟨ho.keep (keepL_applyGen s r Gen.detReset.index' Gen.detReset.cached' Gen.detReset.pub' 0), fault_applyGen _ _ _ _ _ _⟩
    · cases r
      · exact ⟨ho, rfl⟩
      · exact ⟨ho.keep (keepL_applyGen s .W Gen.workReset.index' Gen.workReset.cached' Gen.workReset.pub' 0), fault_applyGen _ _ _ _ _ _⟩
      · exact ⟨ho.keep (keepL_applyGen s .C Gen.consReset.index' Gen.consReset.cached' Gen.consReset.pub' 0), fault_applyGen _ _ _ _ _ _⟩
  | peekRef => exact ⟨ho.keep (keepL_grantOne s .C), fault_grantOne s .C⟩
  | peekSlice n => exact ⟨ho.keep (keepL_grantWindowRO s .C n), fault_grantWindowRO h .C n (by simp)⟩
  | peekAvailable =>
    simp only [step]
    exact ⟨ho.keep ((keepL_refresh s .C).trans (keepL_grantWindowRO _ _ _)),
      by rw [fault_grantWindowRO (refresh_spec h .C (by simp)).1 .C _ (by simp)]; exact fault_refresh s .C⟩
  | popMove => exact absurd hd (by simp [DiscFull])
  | pop => exact absurd hd (by simp [DiscFull])
  | copyItem => exact absurd hd (by simp [DiscFull])
  | cloneItem =>
    have kc := keepL_check s .C 1
    simp only [step]
    by_cases hc : (check s .C 1).2 = true
    · simp only [hc, if_true]
      have hnz : (check s .C 1).1.slotAt ((check s .C 1).1.it .C).idx ≠ 0 := by
        rw [slotAt_eq, kc.slots, idx_check]; exact ho _ (idx_lt h .C)
      rw [readGuard_nz _ _ hnz]
      exact ⟨ho.keep (kc.trans (keepL_advanceGlobal _ _ _)), by rw [fault_advanceGlobal]; exact fault_check _ _ _⟩
    · simp only [hc]; exact ⟨ho.keep kc, fault_check _ _ _⟩
  | copySlice n => exact absurd hd (by simp [DiscFull])
  | cloneSlice n =>
    obtain ⟨c1, c2⟩ := grantWindow_cases h .C n (by simp)
    have hfw := fault_grantWindow h .C n (by simp)
    have kg := keepL_grantWindow s .C n
    simp only [step]
    by_cases hav : n ≤ a.avail .C
    · obtain ⟨s1, e1, r1⟩ := c1 hav
      rw [e1] at hfw kg ⊢
      simp only [winOut] at hfw kg ⊢
      have hnz : ∀ v ∈ (List.range n).map (fun k => s1.slotAt (chunkSlot (s1.it .C).idx s1.len n k)), v ≠ 0 := by
        intro v hv
        obtain ⟨k, hk, e⟩ := List.mem_map.1 hv
        subst e
        have hlim := r1.avail_le .C (by simp)
        have hL := r1.len_pos
        rw [slotAt_eq, kg.slots]
        exact ho _ (by rw [h.slots_len, ← h.len_eq, r1.len_eq]
                       exact chunkSlot_lt _ _ _ _ (r1.idx_lt .C) (by omega) (List.mem_range.1 hk))
      refine ⟨ho.keep ((kg.trans (keepL_foldl_readGuard _ _)).trans (keepL_advanceGlobal _ _ _)), ?_⟩
      rw [fault_advanceGlobal, fault_foldl_readGuard_nz _ _ hnz]; exact hfw
    · obtain ⟨s1, e1, r1⟩ := c2 hav
      rw [e1] at hfw kg ⊢
      exact ⟨ho.keep kg, hfw⟩
  | detach r => exact ⟨ho.keep (keepL_setIt _ _ _), fault_setIt _ _ _⟩
  | attach r =>
    exact ⟨ho.keep ((keepL_applyGen s r Gen.detSync.index' Gen.detSync.cached' Gen.detSync.pub' 0).trans (keepL_setIt _ _ _)),
      by simp only [step]; rw [fault_setIt]; exact fault_applyGen _ _ _ _ _ _⟩
  | setIndex r i => exact ⟨ho.keep (keepL_applyGen s r Gen.detSetIndex.index' Gen.detSetIndex.cached' Gen.detSetIndex.pub' i), fault_applyGen _ _ _ _ _ _⟩
  | goBack r n => exact ⟨ho.keep (keepL_applyGen s r Gen.detGoBack.index' Gen.detGoBack.cached' Gen.detGoBack.pub' n), fault_applyGen _ _ _ _ _ _⟩
  | syncIndex r => exact ⟨ho.keep (keepL_applyGen s r Gen.detSync.index' Gen.detSync.cached' Gen.detSync.pub' 0), fault_applyGen _ _ _ _ _ _⟩
  | dropIt r =>
    refine ⟨?_, fault_dropIter s r⟩
    intro i hi
    have e : (step s (.dropIt r)).1.slots = s.slots := by
      simp only [step]; unfold dropIter releaseStorage
      cases r <;> simp only [St.setIt, St.it] <;>
        by_cases c1 : s.liveCount - 1 = 0 ∧ s.heap = true <;> by_cases c2 : s.owned = true <;> simp [c1, c2]
    rw [e] at hi ⊢; exact ho i hi
  | resplit w => exact ⟨fun i hi => ho i hi, rfl⟩

theorem full_run {s : St} {a : Sp} (h : Rel s a) (ho : AllOcc s) (hf : s.fault = none) (ops : List Op)
    (hal : AllowedRun s a ops) (hd : ∀ op ∈ ops, DiscFull op) : (run s ops).1.fault = none ∧ AllOcc (run s ops).1 := by
  induction ops generalizing s a with
  | nil => exact ⟨hf, ho⟩
  | cons op ops ih =>
    obtain ⟨h1, h2⟩ := hal
    simp only [run]
    obtain ⟨a1, a2⟩ := full_step h ho op h1 (hd op (List.mem_cons_self ..)) hf
    exact ih (step_refines h op h1).1 a1 a2 h2 (fun o ho' => hd o (List.mem_cons_of_mem _ ho'))

end MRB
