/-
  C15 — a task awaiting an async operation is woken; satisfiable waits do not hang.
  The unchanged code violates this property (known finding D7): the crate registers wakers but contains no call of
  `wake`/`wake_by_ref` at all. The full statement is kept below; its negation is proved with a concrete witness, and the
  part that does hold (a re-polled future completes once enabled — what a busy-polling executor relies on) is proved.
-/
import MRB.AsyncProofs

namespace MRB.Props.C15
open MRB

/-- The property at full strength, on the async machine: whenever a task is parked on a pending future and an operation
    of another iterator makes that future's operation possible, a wake-up is delivered by that operation. -/
def C15_statement : Prop :=
  ∀ (A : ASt) (r : Role) (op e : Op), A.held r = some op → (poll A.st op).2 = .pending →
    (poll (A.sync e).1.st op).2 ≠ .pending → A.wakes < (A.sync e).1.wakes

/-- Tie to the source: the crate contains no wake call site. (If one appears, this theorem — and with it the
    refutation below — no longer checks, and the model of wake-ups has to be extended.) -/
theorem C15_source_no_wake_sites : Gen.wakeSites = [] := rfl

/-- **Refuted** on the current tree: a consumer task parked on `pop` of an empty buffer is not woken by the push that
    makes the pop possible. -/
theorem C15_refuted : ¬ C15_statement := by
  intro h
  have := h { st := St.init [0, 0, 0] false true false, heldC := some .pop } .C .pop (.push 5) rfl (by decide) (by decide)
  revert this
  decide

/-- What does hold: a future that is polled again after its operation became possible completes (no lost state),
    so an executor that re-polls — as the repository's own async tests do — makes progress. -/
theorem C15_partial_repoll_completes {s : St} {a : Sp} (h : Rel s a) (op : Op) (hop : op.isAsync = true) (hal : Allowed s a op)
    (hposs : (a.step op).2.refused = false) : ∃ o, (poll s op).2 = .ready o :=
  ⟨_, by rw [(poll_spec h op hop hal).1 hposs]⟩

end MRB.Props.C15
