/-
  MRB.Seq.Machine — the *physical* sequential machine: one buffer, its (up to) three iterators, indices
  modulo `len`, remembered availabilities, slots, liveness flags, the ownership ledger.
  Every public operation is written as the same composition of primitives as in the Rust source, and every
  arithmetic expression is the one rs2lean generated from that source (`MRB.Gen.*`).
  Core Lean only (this file is linked into the driver).
-/
import MRB.Basic
import MRB.Gen.Kernel
import MRB.Gen.Tables

namespace MRB

/-- Undefined behaviour the real code would run into; the model records the first one. -/
inductive Fault
  | uncheckedArith   -- the precondition of an `unchecked_*` operation does not hold
  | outOfBounds      -- a slice or `get_unchecked` outside the storage
  | dropZero         -- a destructor run on an all-zero (empty) slot
  | readZero         -- an empty slot interpreted as a value of an owned type
  | useAfterFree     -- buffer touched after it was released
  | doubleFree
  deriving DecidableEq, Repr, Inhabited

/-- Private state of one iterator. -/
structure It where
  idx : Nat := 0
  cached : Nat := 0
  det : Bool := false      -- wrapped in `Detached`
  live : Bool := true      -- the iterator object exists (not yet dropped)
  deriving DecidableEq, Repr, Inhabited

/-- Buffer + iterators. A slot value `0` is the crate's "all-zero bytes = empty" representation. -/
structure St where
  len : Nat
  slots : List Nat
  hasW : Bool
  pubP : Nat := 0
  pubW : Nat := 0
  pubC : Nat := 0
  flagP : Bool := true
  flagW : Bool := true
  flagC : Bool := true
  liveCount : Nat := 0
  heap : Bool := true
  freed : Nat := 0
  owned : Bool := false    -- the item type has a destructor (ledger mode)
  p : It := {}
  w : It := {}
  c : It := {}
  drops : List Nat := []   -- log of destructor runs (value dropped), oldest first
  fault : Option Fault := none
  deriving Repr, Inhabited

/-- What an operation returns (slices as offsets/lengths relative to slot 0 plus their contents). -/
inductive Out
  | none
  | ok
  | num (n : Nat)
  | item (v : Nat)
  | err (v : Nat)
  | win (hOff hLen tOff tLen : Nat) (vals : List Nat)
  | vals (vs : List Nat)      -- values copied out (no addresses observable)
  | panic
  deriving DecidableEq, Repr, Inhabited

/-- The operations of the sequential API (async polling is layered on top in `MRB.Async`). -/
inductive Op
  | available (r : Role)
  | advance (r : Role) (n : Nat) (vs : List Nat)   -- `vs`: (producer only) the values being published, a ghost annotation
  | getWorkable (r : Role)
  | sliceExact (r : Role) (n : Nat)
  | sliceAvail (r : Role)
  | sliceMultipleOf (r : Role) (k : Nat)
  | poke (r : Role) (k : Nat) (v : Nat)        -- user stores `v` through the reference granted at offset `k`
  | push (v : Nat)
  | pushInit (v : Nat)
  | pushSlice (vs : List Nat)
  | pushSliceInit (vs : List Nat)
  | pushSliceClone (vs : List Nat)
  | pushSliceCloneInit (vs : List Nat)
  | nextItemMut                                -- get_next_item_mut
  | nextItemMutInit                            -- get_next_item_mut_init
  | nextSlicesMut (n : Nat)                    -- get_next_slices_mut
  | resetIndex (r : Role)
  | peekRef
  | peekSlice (n : Nat)
  | peekAvailable
  | popMove
  | pop
  | copyItem
  | cloneItem
  | copySlice (n : Nat)
  | cloneSlice (n : Nat)
  | detach (r : Role)
  | attach (r : Role)
  | setIndex (r : Role) (i : Nat)
  | goBack (r : Role) (n : Nat)
  | syncIndex (r : Role)
  | dropIt (r : Role)
  | resplit (withWorker : Bool)                -- split a stack buffer again
  deriving DecidableEq, Repr, Inhabited

namespace St

def it (s : St) : Role → It
  | .P => s.p | .W => s.w | .C => s.c

def setIt (s : St) (r : Role) (i : It) : St :=
  match r with
  | .P => { s with p := i } | .W => { s with w := i } | .C => { s with c := i }

def pub (s : St) : Fld → Nat
  | .prod => s.pubP | .work => s.pubW | .cons => s.pubC

def setPub (s : St) (f : Fld) (v : Nat) : St :=
  match f with
  | .prod => { s with pubP := v } | .work => { s with pubW := v } | .cons => { s with pubC := v }

def setFault (s : St) (f : Fault) : St :=
  match s.fault with
  | some _ => s
  | none => { s with fault := some f }

def slotAt (s : St) (i : Nat) : Nat := s.slots.getD i 0

def setSlot (s : St) (i v : Nat) : St := { s with slots := s.slots.set i v }

end St

/-- Which published index an iterator looks at (generated wiring, G2). -/
def succFld (r : Role) (w : Bool) : Fld :=
  match r with
  | .P => Gen.prodSucc w | .W => Gen.workSucc w | .C => Gen.consSucc w

/-- Which published index an iterator stores to (generated wiring, G2). -/
def pubFld : Role → Fld
  | .P => Gen.prodPub | .W => Gen.workPub | .C => Gen.consPub

/-- `_available()` of the given role: value returned (generated). -/
def availRet (r : Role) (index cached succIdx len : Nat) : Nat :=
  match r with
  | .P => Gen.prodAvail.ret index cached succIdx len 0 0
  | .W => Gen.workAvail.ret index cached succIdx len 0 0
  | .C => Gen.consAvail.ret index cached succIdx len 0 0

/-- `_available()` of the given role: new remembered availability (generated). -/
def availCached (r : Role) (index cached succIdx len : Nat) : Nat :=
  match r with
  | .P => Gen.prodAvail.cached' index cached succIdx len 0 0
  | .W => Gen.workAvail.cached' index cached succIdx len 0 0
  | .C => Gen.consAvail.cached' index cached succIdx len 0 0

def availSafe (r : Role) (index cached succIdx len : Nat) : Prop :=
  match r with
  | .P => Gen.prodAvail.safe index cached succIdx len 0 0
  | .W => Gen.workAvail.safe index cached succIdx len 0 0
  | .C => Gen.consAvail.safe index cached succIdx len 0 0

section prims
variable (s : St) (r : Role)

/-- The published index of the iterator ahead of `r`. -/
def succIdx : Nat := s.pub (succFld r s.hasW)

/-- `available()`: load the successor's index, recompute and remember the availability. -/
def refresh : St × Nat :=
  let i := s.it r
  let sx := succIdx s r
  (s.setIt r { i with cached := availCached r i.idx i.cached sx s.len }, availRet r i.idx i.cached sx s.len)

/-- `check(n)`: trust the remembered availability, else look again (generated short-circuit). -/
def check (n : Nat) : St × Bool :=
  let i := s.it r
  let sx := succIdx s r
  let av := availRet r i.idx i.cached sx s.len
  (s.setIt r { i with cached := Gen.check.cached' i.idx i.cached sx s.len n av },
   Gen.check.ret i.idx i.cached sx s.len n av)

/-- Apply a generated state transformer (`index'`, `cached'`, `pub'`) to iterator `r`. -/
def applyGen (fi fc : Nat → Nat → Nat → Nat → Nat → Nat → Nat) (fp : Nat → Nat → Nat → Nat → Nat → Nat → Option Nat)
    (n : Nat) : St :=
  let i := s.it r
  let sx := succIdx s r
  let s1 := s.setIt r { i with idx := fi i.idx i.cached sx s.len n 0, cached := fc i.idx i.cached sx s.len n 0 }
  match fp i.idx i.cached sx s.len n 0 with
  | some v => s1.setPub (pubFld r) v
  | none => s1

/-- `_advance(n)` = `advance_local(n)` + publication. -/
def advanceGlobal (n : Nat) : St := applyGen s r Gen.advance.index' Gen.advance.cached' Gen.advance.pub' n

/-- `Detached::advance(n)` = `advance_local(n)` only. -/
def advanceLocalOnly (n : Nat) : St := applyGen s r Gen.detAdvance.index' Gen.detAdvance.cached' Gen.detAdvance.pub' n

end prims

/-- Physical slot addressed by element `k` of a granted window of `n` slots (generated chunk arithmetic). -/
def chunkSlot (idx len n k : Nat) : Nat :=
  let hl := Gen.nextChunkMut.headLen idx 0 0 len n 0
  if k < hl then Gen.nextChunkMut.headOff idx 0 0 len n 0 + k
  else Gen.nextChunkMut.tailOff idx 0 0 len n 0 + (k - hl)

def chunkSlotRO (idx len n k : Nat) : Nat :=
  let hl := Gen.nextChunk.headLen idx 0 0 len n 0
  if k < hl then Gen.nextChunk.headOff idx 0 0 len n 0 + k
  else Gen.nextChunk.tailOff idx 0 0 len n 0 + (k - hl)

/-- The window `[idx, idx+n)` as the mutable chunk functions hand it out. -/
def winOut (s : St) (idx n : Nat) : Out :=
  .win (Gen.nextChunkMut.headOff idx 0 0 s.len n 0) (Gen.nextChunkMut.headLen idx 0 0 s.len n 0)
       (Gen.nextChunkMut.tailOff idx 0 0 s.len n 0) (Gen.nextChunkMut.tailLen idx 0 0 s.len n 0)
       ((List.range n).map fun k => s.slotAt (chunkSlot idx s.len n k))

/-- The same through the shared (`next_chunk`) functions. -/
def winOutRO (s : St) (idx n : Nat) : Out :=
  .win (Gen.nextChunk.headOff idx 0 0 s.len n 0) (Gen.nextChunk.headLen idx 0 0 s.len n 0)
       (Gen.nextChunk.tailOff idx 0 0 s.len n 0) (Gen.nextChunk.tailLen idx 0 0 s.len n 0)
       ((List.range n).map fun k => s.slotAt (chunkSlotRO idx s.len n k))

/-- Does a granted window stay inside the storage? -/
def chunkInBounds (idx len n : Nat) : Bool :=
  decide (Gen.nextChunkMut.headOff idx 0 0 len n 0 + Gen.nextChunkMut.headLen idx 0 0 len n 0 ≤ len) &&
  decide (Gen.nextChunkMut.tailOff idx 0 0 len n 0 + Gen.nextChunkMut.tailLen idx 0 0 len n 0 ≤ len)

/-- `*p = v`: the old content is destroyed first (for owned items), then `v` is stored. -/
def assignSlot (s : St) (i v : Nat) : St :=
  let old := s.slotAt i
  let s1 := if s.owned then
      (if old = 0 then s.setFault .dropZero else { s with drops := s.drops ++ [old] })
    else s
  s1.setSlot i v

/-- `p.write(v)`: no destructor. -/
def writeSlot (s : St) (i v : Nat) : St := s.setSlot i v

/-- The `*_init` store: `write` into an empty slot, `assign` otherwise. -/
def initSlot (s : St) (i v : Nat) : St :=
  if s.slotAt i = 0 then writeSlot s i v else assignSlot s i v

/-- Store a list through a granted window with the given per-slot store. -/
def storeWindow (store : St → Nat → Nat → St) (s : St) (idx n : Nat) (vs : List Nat) : St :=
  (List.range n).foldl (fun acc k => store acc (chunkSlot idx s.len n k) (vs.getD k 0)) s

/-- Releasing the storage: the cell destructor of every slot (skips empty ones). -/
def releaseStorage (s : St) : St :=
  if s.owned then { s with drops := s.drops ++ s.slots.filter (· ≠ 0) } else s

/-- An iterator is dropped: clear its flag, decrement the live counter, the last one frees a heap buffer. -/
def dropIter (s : St) (r : Role) : St :=
  let s1 := s.setIt r { s.it r with live := false }
  let s2 := match r with
    | .P => { s1 with flagP := false } | .W => { s1 with flagW := false } | .C => { s1 with flagC := false }
  let s3 := { s2 with liveCount := s2.liveCount - 1 }
  if s3.liveCount = 0 ∧ s3.heap then releaseStorage { s3 with freed := s3.freed + 1 } else s3

/-- A push of one value with the given store. -/
def pushWith (store : St → Nat → Nat → St) (s : St) (v : Nat) : St × Out :=
  let (s1, ok) := check s .P 1
  if ok then
    let s2 := store s1 (s1.it .P).idx v
    (advanceGlobal s2 .P 1, .ok)
  else (s1, .err v)

def pushSliceWith (store : St → Nat → Nat → St) (s : St) (vs : List Nat) : St × Out :=
  let n := vs.length
  let (s1, ok) := check s .P n
  if ok then
    let idx := (s1.it .P).idx
    let s2 := if chunkInBounds idx s1.len n then s1 else s1.setFault .outOfBounds
    let s3 := storeWindow store s2 idx n vs
    (advanceGlobal s3 .P n, .ok)
  else (s1, .none)

/-- A granted mutable window of `n` slots for role `r` (no index moves). -/
def grantWindow (s : St) (r : Role) (n : Nat) : St × Out :=
  let (s1, ok) := check s r n
  if ok then
    let idx := (s1.it r).idx
    let s2 := if chunkInBounds idx s1.len n then s1 else s1.setFault .outOfBounds
    (s2, winOut s2 idx n)
  else (s1, .none)

def grantWindowRO (s : St) (r : Role) (n : Nat) : St × Out :=
  let (s1, ok) := check s r n
  if ok then
    let idx := (s1.it r).idx
    let s2 := if chunkInBounds idx s1.len n then s1 else s1.setFault .outOfBounds
    (s2, winOutRO s2 idx n)
  else (s1, .none)

/-- One slot granted by `next_ref*`: its current content. -/
def grantOne (s : St) (r : Role) : St × Out :=
  let (s1, ok) := check s r 1
  if ok then (s1, .item (s1.slotAt (s1.it r).idx)) else (s1, .none)

/-- A read of an owned item from an empty slot is undefined behaviour. -/
def readGuard (s : St) (v : Nat) : St := if s.owned ∧ v = 0 then s.setFault .readZero else s

/-- One step of the sequential machine. -/
def step (s : St) : Op → St × Out
  | .available r => let (s1, a) := refresh s r; (s1, .num a)
  | .advance r n _ =>
      if (s.it r).det then (advanceLocalOnly s r n, .ok) else (advanceGlobal s r n, .ok)
  | .getWorkable r => grantOne s r
  | .sliceExact r n => grantWindow s r n
  | .sliceAvail r =>
      let (s1, a) := refresh s r
      let n := Gen.sliceAvail.count 0 0 0 0 0 a
      if n = 0 then (s1, .none) else grantWindow s1 r n
  | .sliceMultipleOf r k =>
      let (s1, a) := refresh s r
      if k = 0 then (s1, .panic) else
      let n := Gen.sliceMultipleOf.count 0 0 0 0 k a
      if n = 0 then (s1, .none) else grantWindow s1 r n
  | .poke r k v =>
      let i := s.it r
      (assignSlot s (chunkSlot i.idx s.len (k + 1) k) v, .ok)
  | .push v => pushWith assignSlot s v
  | .pushInit v => pushWith initSlot s v
  | .pushSlice vs => pushSliceWith writeSlot s vs
  | .pushSliceInit vs => pushSliceWith writeSlot s vs
  | .pushSliceClone vs => pushSliceWith assignSlot s vs
  | .pushSliceCloneInit vs => pushSliceWith initSlot s vs
  | .nextItemMut => grantOne s .P
  | .nextItemMutInit => grantOne s .P
  | .nextSlicesMut n => grantWindow s .P n
  | .resetIndex r =>
      if (s.it r).det then (applyGen s r Gen.detReset.index' Gen.detReset.cached' Gen.detReset.pub' 0, .ok)
      else match r with
        | .W => (applyGen s .W Gen.workReset.index' Gen.workReset.cached' Gen.workReset.pub' 0, .ok)
        | .C => (applyGen s .C Gen.consReset.index' Gen.consReset.cached' Gen.consReset.pub' 0, .ok)
        | .P => (s, .panic)
  | .peekRef => grantOne s .C
  | .peekSlice n => grantWindowRO s .C n
  | .peekAvailable =>
      let (s1, a) := refresh s .C
      grantWindowRO s1 .C a
  | .popMove =>
      let (s1, ok) := check s .C 1
      if ok then
        let i := (s1.it .C).idx
        let v := s1.slotAt i
        let s2 := readGuard s1 v
        (advanceGlobal (s2.setSlot i 0) .C 1, .item v)
      else (s1, .none)
  | .pop =>
      let (s1, ok) := check s .C 1
      if ok then
        let v := s1.slotAt (s1.it .C).idx
        (advanceGlobal s1 .C 1, .item v)
      else (s1, .none)
  | .copyItem =>
      let (s1, ok) := check s .C 1
      if ok then
        let v := s1.slotAt (s1.it .C).idx
        (advanceGlobal s1 .C 1, .item v)
      else (s1, .none)
  | .cloneItem =>
      let (s1, ok) := check s .C 1
      if ok then
        let v := s1.slotAt (s1.it .C).idx
        (advanceGlobal (readGuard s1 v) .C 1, .item v)
      else (s1, .none)
  | .copySlice n =>
      let (s1, o) := grantWindow s .C n
      match o with
      | .win _ _ _ _ vs => (advanceGlobal s1 .C n, .vals vs)
      | _ => (s1, .none)
  | .cloneSlice n =>
      let (s1, o) := grantWindow s .C n
      match o with
      | .win _ _ _ _ vs => (advanceGlobal (vs.foldl readGuard s1) .C n, .vals vs)
      | _ => (s1, .none)
  | .detach r => (s.setIt r { s.it r with det := true }, .ok)
  | .attach r =>
      let s1 := applyGen s r Gen.detSync.index' Gen.detSync.cached' Gen.detSync.pub' 0
      (s1.setIt r { s1.it r with det := false }, .ok)
  | .setIndex r i => (applyGen s r Gen.detSetIndex.index' Gen.detSetIndex.cached' Gen.detSetIndex.pub' i, .ok)
  | .goBack r n => (applyGen s r Gen.detGoBack.index' Gen.detGoBack.cached' Gen.detGoBack.pub' n, .ok)
  | .syncIndex r => (applyGen s r Gen.detSync.index' Gen.detSync.cached' Gen.detSync.pub' 0, .ok)
  | .dropIt r => (dropIter s r, .ok)
  | .resplit withW =>
      ({ s with hasW := withW, pubP := 0, pubW := 0, pubC := 0,
                flagP := true, flagW := (if withW then true else s.flagW), flagC := true,
                liveCount := s.liveCount + (if withW then 3 else 2),
                p := {}, w := { live := withW }, c := {} }, .ok)

/-- A freshly constructed and split buffer. -/
def St.init (slots : List Nat) (hasW heap owned : Bool) : St :=
  { len := slots.length, slots := slots, hasW := hasW, heap := heap, owned := owned,
    flagP := true, flagW := hasW, flagC := true, liveCount := if hasW then 3 else 2,
    w := { live := hasW } }

/-- Run a list of operations, collecting the outputs. -/
def run (s : St) : List Op → St × List Out
  | [] => (s, [])
  | op :: ops =>
      let (s1, o) := step s op
      let (s2, os) := run s1 ops
      (s2, o :: os)

end MRB
