/-
  C07 — heap buffer freed exactly once, after its last iterator, in any drop order / race.
  This file: the single-threaded part (all drop orders at any point of any history) and the tie to the source of
  the drop protocol. The concurrent part (all interleavings of the read-modify-write protocol) is in `MRB.Conc.Drop`.
-/
import MRB.Seq.Life
import MRB.Seq.Run
import MRB.Conc.Drop
import MRB.Conc.Replay

namespace MRB.Props.C07
open MRB MRB.Conc

/-- In every state reachable by a contract-respecting history (any operations, drops of any iterators in any order
    at any point, re-splits of stack buffers): the counter equals the number of live iterators, every liveness flag is
    true exactly while its iterator exists, a heap buffer has been released exactly when no iterator is left — never
    earlier, never twice — and a stack buffer is never released by its iterators. -/
theorem C07_life_cycle {s : St} {a : Sp} (r : Reach s a) : LifeInv s.life := by
  induction r with
  | init slots hasW heap owned hlen => exact lifeInv_init slots hasW heap owned
  | @step s a op r hal ih =>
    by_cases h1 : ∃ ro, op = .dropIt ro
    · obtain ⟨ro, e⟩ := h1; subst e
      simp only [step, life_dropIter]
      apply lifeInv_drop ih ro
      have : (s.it ro).live = true := hal
      cases ro <;> simpa [St.life, St.it] using this
    · by_cases h2 : ∃ w, op = .resplit w
      · obtain ⟨w, e⟩ := h2; subst e
        obtain ⟨hh, hp, hw, hc⟩ := hal
        obtain ⟨c, f1, f2, f3, hf, sf⟩ := ih
        simp only [St.life] at c f1 f2 f3 hf sf
        have c0 : s.liveCount = 0 := by simp [hp, hw, hc, b2n] at c; exact c
        cases w <;> constructor <;> simp [step, St.life, b2n, hh, c0, hw] at f2 ⊢ <;> simp_all
      · rw [life_step s op (fun ro e => h1 ⟨ro, e⟩) (fun w e => h2 ⟨w, e⟩)]; exact ih

theorem C07_freed_at_most_once {s : St} {a : Sp} (r : Reach s a) :
    s.freed ≤ 1 ∧ (s.freed = 1 ↔ s.heap = true ∧ s.p.live = false ∧ s.w.live = false ∧ s.c.live = false) ∧
    (s.heap = false → s.freed = 0) := by
  obtain ⟨c, f1, f2, f3, hf, sf⟩ := C07_life_cycle r
  simp only [St.life] at c f1 f2 f3 hf sf
  cases hh : s.heap <;> simp [hh] at hf sf
  · simp [sf]
  · cases hp : s.p.live <;> cases hw : s.w.live <;> cases hc : s.c.live <;> simp [hp, hw, hc, b2n] at c <;> simp [c] at hf <;> simp [hf]

theorem C07_flags_track_iterators {s : St} {a : Sp} (r : Reach s a) :
    s.flagP = s.p.live ∧ s.flagW = s.w.live ∧ s.flagC = s.c.live :=
  ⟨(C07_life_cycle r).flagP, (C07_life_cycle r).flagW, (C07_life_cycle r).flagC⟩

/-- What an accessor touches and how, without the ordering (orderings are required to be *at least* what the proofs
use: a stronger ordering in the source is as good). -/
def shape (a : Acc) : Loc × AccKind × Bool := (a.loc, a.kind, a.guarded)

/-- Tie to the source: an iterator's drop clears its own flag, then decrements the counter of live iterators with one
    read-modify-write (AcqRel on the concurrent buffer) and frees exactly if it saw the last one; flags are stored with
    Release and loaded with Acquire, so a thread that sees a peer dead also sees what the peer published before. -/
theorem C07_source_drop_protocol :
    Gen.skelDropProd.map (·.name) = [.setProdAlive, .releaseIter, .drop] ∧
    Gen.skelDropWork.map (·.name) = [.setWorkAlive, .releaseIter, .drop] ∧
    Gen.skelDropCons.map (·.name) = [.setConsAlive, .releaseIter, .drop] ∧
    Gen.concAcc.releaseIter.map shape = [(.aliveIters, .fetchSub, false)] ∧ (∀ a ∈ Gen.concAcc.releaseIter, isAcq a.ord = true ∧ isRel a.ord = true) ∧
    Gen.concAcc.releaseIterResult = .oldEq 1 ∧
    Gen.localAcc.releaseIter = [⟨.aliveIters, .subAssign, .plain, false⟩, ⟨.aliveIters, .read, .plain, false⟩] ∧ Gen.localAcc.releaseIterResult = .newEq 0 ∧
    Gen.concAcc.setProdAlive.map shape = [(.aliveIters, .fetchAdd, true), (.prodAlive, .store, false)] ∧
    Gen.concAcc.setWorkAlive.map shape = [(.aliveIters, .fetchAdd, true), (.workAlive, .store, false)] ∧
    Gen.concAcc.setConsAlive.map shape = [(.aliveIters, .fetchAdd, true), (.consAlive, .store, false)] ∧
    (∀ a ∈ Gen.concAcc.setProdAlive ++ Gen.concAcc.setWorkAlive ++ Gen.concAcc.setConsAlive, a.kind = .store → isRel a.ord = true) ∧
    Gen.concAcc.prodAlive.map shape = [(.prodAlive, .load, false)] ∧ Gen.concAcc.workAlive.map shape = [(.workAlive, .load, false)] ∧
    Gen.concAcc.consAlive.map shape = [(.consAlive, .load, false)] ∧
    (∀ a ∈ Gen.concAcc.prodAlive ++ Gen.concAcc.workAlive ++ Gen.concAcc.consAlive, isAcq a.ord = true) :=
  ⟨rfl, rfl, rfl, rfl, by decide, rfl, rfl, rfl, rfl, rfl, rfl, by decide, rfl, rfl, rfl, by decide⟩

/-- **Concurrent drops.** Two or three iterators dropped on different threads, in every interleaving of their steps (clear the
    own flag; one atomic decrement of the live counter; free iff the decrement saw 1): the buffer is freed at most once,
    nobody touches the buffer after it was freed, and when every drop has returned it has been freed exactly once. -/
theorem C07_concurrent_once {hasW : Bool} {s : DropSt} (r : DropReach hasW s) :
    s.freed ≤ 1 ∧ s.uaf = false ∧
    ((∀ u, s.ph u = .finished ∨ s.ph u = .absent) → s.freed = 1) := by
  have h := drop_reach_inv r
  refine ⟨by have := h.last; omega, h.noUaf, ?_⟩
  intro hall
  have hc : s.count = 0 := by
    rw [h.cnt]; unfold sumPh
    have hP := hall .P; have hW := hall .W; have hC := hall .C
    simp only [DropSt.ph] at hP hW hC
    rcases hP with hP | hP <;> rcases hW with hW | hW <;> rcases hC with hC | hC <;> simp [hP, hW, hC, pending]
  have hz := h.zeroLast hc
  have hl : sumPh isLast s = 0 := by
    unfold sumPh
    have hP := hall .P; have hW := hall .W; have hC := hall .C
    simp only [DropSt.ph] at hP hW hC
    rcases hP with hP | hP <;> rcases hW with hW | hW <;> rcases hC with hC | hC <;> simp [hP, hW, hC, isLast]
  omega

/-- The free happens-after everything the other droppers did: at the moment a thread is entitled to free, its vector
    clock covers the decrement (hence every earlier buffer access) of every iterator that has already been dropped — this is
    where the AcqRel ordering of the read-modify-write is used. -/
theorem C07_free_happens_after_all_drops {hasW : Bool} {s : DropSt} (r : DropReach hasW s) (t : Role) (ht : s.ph t = .decLast)
    (u : Role) (hu : decremented (s.ph u) = true) : s.stamp u ≤ (s.vc t).get u := by
  have h := drop_reach_inv r
  exact Nat.le_trans (h.cover u hu) (h.ctrLe t (by rw [ht]; rfl) u)

/-- **Recorded drops of the real crate are runs of this protocol.** The scheduler harness records every store of `false` into
a liveness flag, every read-modify-write on the counter of live iterators (with the value it returned) and every release of the
storage; the replay accepts a record only if it is an enabled step of the protocol (flag cleared by a live iterator, decrement after
the flag was cleared and returning exactly the machine's counter, release by the thread whose decrement was the last). Whatever it
accepts ends in a reachable state of the protocol, so the invariant — freed at most once, by the last one, after everybody's
decrement, nobody touching the buffer afterwards — holds of it. -/
theorem C07_replayed_drops_satisfy_the_invariant (hasW : Bool) (trace : List (List String)) :
    let s := trace.foldl (fun s l => (dropReplayLine s l).1) (dinit hasW)
    s.freed ≤ 1 ∧ s.uaf = false := by
  have key : ∀ (tr : List (List String)) (s0 : DropSt), DropReach hasW s0 → DropReach hasW (tr.foldl (fun s l => (dropReplayLine s l).1) s0) := by
    intro tr
    induction tr with
    | nil => intro s0 r; exact r
    | cons l ls ih => intro s0 r; exact ih _ (dropReplayLine_reach r l)
  have r := key trace (dinit hasW) DropReach.init
  have h := drop_reach_inv r
  exact ⟨by have := h.last; omega, h.noUaf⟩

/-- Tie to the source for the concurrent part: the decrement is a single AcqRel read-modify-write whose *old* value decides. -/
theorem C07_source_single_rmw : rmwAcq = true ∧ rmwRel = true ∧ rmwSingle = true := rmw_is_acqrel

/-- The protocol this one replaced (defect D6, fixed): "clear own flag; read the others' flags; free if both clear" lets two
    concurrent droppers both free. Kept as a checked witness of why one read-modify-write is needed. -/
theorem C07_three_flag_protocol_double_frees :
    let step (st : Bool × Bool × Nat) (a : Nat) : Bool × Bool × Nat :=
      -- st = (flagA, flagB, freed); actions: 0 = A clears its flag, 1 = B clears its flag, 2 = A reads B's flag and frees if clear, 3 = same for B
      match a with
      | 0 => (false, st.2.1, st.2.2)
      | 1 => (st.1, false, st.2.2)
      | 2 => if st.2.1 = false then (st.1, st.2.1, st.2.2 + 1) else st
      | _ => if st.1 = false then (st.1, st.2.1, st.2.2 + 1) else st
    ([0, 1, 2, 3].foldl step (true, true, 0)).2.2 = 2 := by decide

/-- Non-vacuity: three-stage heap buffer, drops in the order W, C, P with operations of the survivors in between. -/
example :
    let ops : List Op := [.push 1, .dropIt .W, .push 2, .dropIt .C, .push 3, .dropIt .P]
    let r := run (St.init [0, 0, 0, 0] true true false) ops
    r.1.freed = 1 ∧ (run (St.init [0, 0, 0, 0] true true false) (ops.take 5)).1.freed = 0 ∧
    (run (St.init [0, 0, 0, 0] true false false) ops).1.freed = 0 := by decide

end MRB.Props.C07
