#!/bin/bash
# usage: seedmatrix.sh [seed-dir-name ...]  — every seeded change (default: all) against the check of its own property.
# Writes seeded/RESULTS.tsv: seed, property, exit code, verdict (concrete | no-failing-input-found | MISSED), first replay line.
cd /verif
OUT=seeded/RESULTS.tsv
[ $# -eq 0 ] && { set -- $(ls seeded | grep -v RESULTS); : > $OUT; }
for s in "$@"; do
  [ -f seeded/$s/patch.diff ] || continue
  p=$(python3 -c "import json;print(json.load(open('seeded/$s/meta.json'))['property'])")
  res=$(tools/seedtest.sh $s $p 2>&1)
  rc=$(echo "$res" | grep -o "rc=[0-9]*" | head -1)
  if echo "$res" | grep "VIOLATION" | grep -qv "no-failing-input-found"; then v=concrete
  elif echo "$res" | grep -q "no-failing-input-found"; then v=no-failing-input-found
  else v=MISSED; fi
  rp=$(echo "$res" | grep -o "replay=[^ ]*" | head -1 | cut -d= -f2)
  first=""
  d=.cache/seedruns/$s; mkdir -p $d
  [ -n "$rp" ] && [ -f "$rp" ] && { cp "$rp" $d/first_replay; first=$(grep -v "^$" "$rp" | tail -1 | cut -c1-300); }
  grep -v "^$s	" $OUT > $OUT.tmp 2>/dev/null; mv $OUT.tmp $OUT
  printf "%s\t%s\t%s\t%s\t%s\n" "$s" "$p" "$rc" "$v" "$first" >> $OUT
done
sort -o $OUT $OUT
