-- Root of the `MRB` library: formal model of mutringbuf and its theorems.
import MRB.Basic
import MRB.Gen.Kernel
import MRB.Gen.Tables
import MRB.Seq.Machine
import MRB.Seq.Spec
