//! Correspondence harness (tie B of DESIGN.md): runs operation histories on the real crate, in-process,
//! and compares every observable with (a) the executable Lean model through a line protocol and
//! (b) an independent reference ("oracle") that decides whether a difference is a property violation.
pub mod rng;
pub mod tok;
pub mod ops;
pub mod oracle;
pub mod gen;
pub mod exec;
pub mod driver;
pub mod json;
pub mod runner;
#[cfg(feature = "async")]
pub mod aexec;
pub mod sched;
pub mod alloc_watch;

#[global_allocator]
static GLOBAL: alloc_watch::Watch = alloc_watch::Watch;
