/-
  C11 — `reset_index` leaves nothing available and releases what was skipped.
-/
import MRB.Seq.Run

namespace MRB.Props.C11
open MRB

/-- After `reset_index` the iterator stands exactly at the position published by the iterator ahead of it,
    its remembered availability is zero *whatever it held before*, and its true availability is zero: every
    request for `n ≥ 1` is refused until the iterator ahead publishes more. -/
theorem C11_nothing_available {s : St} {a : Sp} (h : Rel s a) (r : Role) (hal : Allowed s a (.resetIndex r)) :
    let s' := (step s (.resetIndex r)).1
    let a' := (a.step (.resetIndex r)).1
    (s'.it r).cached = 0 ∧ a'.avail r = 0 ∧ a'.pos r = a.limit r ∧ Rel s' a' ∧
    (∀ n, 1 ≤ n → (step s' (.sliceExact r n)).2 = .none) := by
  obtain ⟨hl, hr, hP⟩ := hal
  have hal' : Allowed s a (.resetIndex r) := ⟨hl, hr, hP⟩
  have h' := (step_refines h (.resetIndex r) hal').1
  have hc : ((step s (.resetIndex r)).1.it r).cached = 0 ∧ ((step s (.resetIndex r)).1.it r).live = true ∧
      (step s (.resetIndex r)).1.hasW = s.hasW := by
    cases r
    · exact absurd rfl hP
    · simp only [step, ite_pair]
      by_cases hdet : (s.it .W).det = true
      · rw [if_pos hdet]; obtain ⟨e1, _, e3, _, e5, _⟩ := applyGen_it s .W Gen.detReset.index' Gen.detReset.cached' Gen.detReset.pub' 0
        exact ⟨by rw [e1]; rfl, by rw [e3]; exact hl, e5⟩
      · rw [if_neg hdet]; obtain ⟨e1, _, e3, _, e5, _⟩ := applyGen_it s .W Gen.workReset.index' Gen.workReset.cached' Gen.workReset.pub' 0
        exact ⟨by rw [e1]; rfl, by rw [e3]; exact hl, e5⟩
    · simp only [step, ite_pair]
      by_cases hdet : (s.it .C).det = true
      · rw [if_pos hdet]; obtain ⟨e1, _, e3, _, e5, _⟩ := applyGen_it s .C Gen.detReset.index' Gen.detReset.cached' Gen.detReset.pub' 0
        exact ⟨by rw [e1]; rfl, by rw [e3]; exact hl, e5⟩
      · rw [if_neg hdet]; obtain ⟨e1, _, e3, _, e5, _⟩ := applyGen_it s .C Gen.consReset.index' Gen.consReset.cached' Gen.consReset.pub' 0
        exact ⟨by rw [e1]; rfl, by rw [e3]; exact hl, e5⟩
  have hav : ((a.step (.resetIndex r)).1).avail r = 0 ∧ ((a.step (.resetIndex r)).1).pos r = a.limit r := by
    cases r
    · exact absurd rfl hP
    · by_cases hd : a.detW = true <;> simp [Sp.step, hd, Sp.avail, Sp.limit, Sp.pos, Sp.setPos, Sp.publish]
    · by_cases hd : a.detC = true <;> simp [Sp.step, hd, Sp.avail, Sp.limit, Sp.pos, Sp.setPos]
  refine ⟨hc.1, hav.1, hav.2, h', ?_⟩
  intro n hn
  have hw : r = .W → (step s (.resetIndex r)).1.hasW = true := fun e => by rw [hc.2.2]; exact hr e
  exact (grantWindow_spec h' r n hw).2.2.2.1.mpr (by rw [hav.1]; omega)

/-- Everything an attached consumer skipped becomes free space for the producer (and nothing else changes for it). -/
theorem C11_skipped_released_to_producer {s : St} {a : Sp} (h : Rel s a) (hal : Allowed s a (.resetIndex .C)) (hd : a.detC = false) :
    ((a.step (.resetIndex .C)).1).avail .P = a.avail .P + (a.limit .C - a.pubC) := by
  have o1 := h.ordP; have o2 := h.ordC; have o3 := h.leC; have o4 := h.leP; have o5 := h.ordW; have o6 := h.leW
  rw [← h.len_eq] at o1
  simp only [Sp.step, hd, Bool.false_eq_true, if_false, Sp.avail, Sp.limit, Sp.pos, Sp.setPos]
  cases hh : a.hasW <;> simp [hh] at o2 o5 ⊢ <;> omega

/-- Everything an attached worker skipped becomes available to the consumer. -/
theorem C11_skipped_released_to_consumer {s : St} {a : Sp} (h : Rel s a) (hal : Allowed s a (.resetIndex .W)) (hW : a.hasW = true)
    (hd : a.detW = false) :
    ((a.step (.resetIndex .W)).1).avail .C = a.avail .C + (a.pubP - a.pubW) := by
  have o2 := h.ordC; have o5 := h.ordW hW; have o6 := h.leW
  simp only [Sp.step, hd, Bool.false_eq_true, if_false, Sp.avail, Sp.limit, Sp.pos, Sp.setPos, Sp.publish, hW, if_true]
  simp [hW] at o2; omega

/-- Later operations cannot hand the iterator slots beyond the position of the iterator ahead: the ring
    order is re-established by the reset itself and kept by every later step. -/
theorem C11_no_overstep_later {s : St} {a : Sp} (h : Rel s a) (r : Role) (hal : Allowed s a (.resetIndex r)) (ops : List Op)
    (hops : AllowedRun (step s (.resetIndex r)).1 (a.step (.resetIndex r)).1 ops) :
    Rel (run (step s (.resetIndex r)).1 ops).1 ((a.step (.resetIndex r)).1.run ops).1 :=
  (run_refines (step_refines h (.resetIndex r) hal).1 ops hops).1

/-- Tie to the source: `reset_index` (both copies) loads the index of the iterator ahead exactly once, moves
    there, forgets the remembered availability and publishes that very value. -/
theorem C11_source_reset_shape (i c s L n a : Nat) :
    Gen.skelConsReset.map (·.name) = [.succIndex, .setAtomicIndex] ∧ Gen.skelWorkReset.map (·.name) = [.succIndex, .setAtomicIndex] ∧
    Gen.consReset.index' i c s L n a = s ∧ Gen.consReset.cached' i c s L n a = 0 ∧ Gen.consReset.pub' i c s L n a = some s ∧
    Gen.workReset.index' i c s L n a = s ∧ Gen.workReset.cached' i c s L n a = 0 ∧ Gen.workReset.pub' i c s L n a = some s :=
  ⟨rfl, rfl, rfl, rfl, rfl, rfl, rfl, rfl⟩

/-- Non-vacuity (the witness of defect D1): remembered availability 5, reset, then `pop` must be refused. -/
example :
    let ops : List Op := [.push 0, .push 1, .push 2, .push 3, .push 4, .available .C, .resetIndex .C, .pop, .available .P]
    (run (St.init [100, 101, 102, 103, 104, 105, 106, 107] false true false) ops).2.drop 5 = [.num 5, .ok, .none, .num 7] := by decide

end MRB.Props.C11
