/-
  C04 — stage order and capacity: nobody oversteps the iterator ahead; capacity `len - 1`.
-/
import MRB.Seq.Run

namespace MRB.Props.C04
open MRB

/-- In every reachable state: consumer ≤ worker ≤ producer ≤ consumer + (len-1), on the true (local)
    positions, each iterator at or ahead of what it published, and every physical index is the logical
    position modulo `len` (so all indices are `< len`). -/
theorem C04_order {s : St} {a : Sp} (r : Reach s a) :
    a.pubC ≤ a.posC ∧ a.posC ≤ (if a.hasW then a.pubW else a.pubP) ∧
    (a.hasW = true → a.pubW ≤ a.posW ∧ a.posW ≤ a.pubP) ∧
    a.pubP ≤ a.posP ∧ a.posP ≤ a.pubC + (s.len - 1) ∧
    s.p.idx = a.posP % s.len ∧ s.w.idx = a.posW % s.len ∧ s.c.idx = a.posC % s.len ∧
    s.pubP = a.pubP % s.len ∧ s.pubW = a.pubW % s.len ∧ s.pubC = a.pubC % s.len :=
  ⟨r.rel.leC, r.rel.ordC, fun hW => ⟨r.rel.leW, r.rel.ordW hW⟩, r.rel.leP, r.rel.ordP,
   r.rel.idxP, r.rel.idxW, r.rel.idxC, r.rel.pubP, r.rel.pubW, r.rel.pubC⟩

/-- Exactly `len - 1` items can be in flight: the producer is never `len` or more ahead of the consumer. -/
theorem C04_in_flight_bound {s : St} {a : Sp} (r : Reach s a) : a.posP - a.pubC ≤ s.len - 1 := r.rel.chain.2.2

/-- A push onto `len - 1` unconsumed items is refused and hands the value back; with fewer it succeeds. -/
theorem C04_capacity {s : St} {a : Sp} (h : Rel s a) (v : Nat) (hal : Allowed s a (.push v)) :
    ((step s (.push v)).2 = .err v ↔ a.posP = a.pubC + (s.len - 1)) ∧ ((step s (.push v)).2 = .ok ↔ a.posP < a.pubC + (s.len - 1)) := by
  have hr := (step_refines h (.push v) hal).2
  have hop := h.ordP
  have hav : a.avail .P = a.pubC + (s.len - 1) - a.posP := by simp [Sp.avail, Sp.limit, Sp.pos, h.len_eq]
  simp only [Sp.step, Op.producerGrant] at hr
  by_cases h1 : 1 ≤ a.avail .P
  · simp only [h1, if_true] at hr
    cases hs : (step s (.push v)).2 <;> rw [hs] at hr <;> simp [Out.abs] at hr
    constructor <;> constructor <;> intro hh <;> first | omega | simp at hh | rfl
  · simp only [h1, if_false] at hr
    cases hs : (step s (.push v)).2 <;> rw [hs] at hr <;> simp [Out.abs] at hr
    subst hr
    constructor <;> constructor <;> intro hh <;> first | omega | simp at hh | rfl

/-- When no iterator is detached the availabilities of all stages sum to `len - 1`. -/
theorem C04_availabilities_sum {s : St} {a : Sp} (r : Reach s a) (hP : a.detP = false) (hW : a.detW = false) (hC : a.detC = false) :
    (if a.hasW then a.avail .P + a.avail .W + a.avail .C else a.avail .P + a.avail .C) = s.len - 1 := by
  have h := r.rel
  have e1 := h.eqP hP; have e2 := h.eqW hW; have e3 := h.eqC hC
  have o1 := h.ordP; have o2 := h.ordW; have o3 := h.ordC
  simp only [Sp.avail, Sp.limit, Sp.pos, h.len_eq]
  cases hh : a.hasW <;> simp [hh] at o2 o3 ⊢ <;> omega

/-- No contract-respecting operation moves an iterator past the position published by the iterator ahead:
    the order is an invariant of every step (not only of `available()`-refreshed states). -/
theorem C04_no_overstep {s : St} {a : Sp} (h : Rel s a) (op : Op) (hal : Allowed s a op) :
    let a' := (a.step op).1
    a'.posC ≤ (if a'.hasW then a'.pubW else a'.pubP) ∧ (a'.hasW = true → a'.posW ≤ a'.pubP) ∧ a'.posP ≤ a'.pubC + ((step s op).1.len - 1) := by
  have h' := (step_refines h op hal).1
  exact ⟨h'.ordC, h'.ordW, h'.ordP⟩

/-- Tie to the source: every availability computation loads the index of the iterator ahead exactly once, `check`
    falls back to exactly one such computation, `reset_index` loads it once and publishes that very value, an advance publishes the
    iterator's own new index, and the three formulas are the ring distances the order invariant needs
    (producer: distance to the consumer behind it minus the one slot that stays free). -/
theorem C04_source_availability_formulas (p l L : Nat) (hL : 0 < L) (hL63 : L < 2 ^ 63) :
    Gen.skelProdAvailable = [⟨.succIndex, .none⟩] ∧ Gen.skelWorkAvailable = [⟨.succIndex, .none⟩] ∧
    Gen.skelConsAvailable = [⟨.succIndex, .none⟩] ∧ Gen.skelCheck = [⟨.available', .none⟩] ∧
    Gen.skelConsReset.map (·.name) = [.succIndex, .setAtomicIndex] ∧ Gen.skelWorkReset.map (·.name) = [.succIndex, .setAtomicIndex] ∧
    Gen.skelAdvance = [⟨.advanceLocal, .count⟩, ⟨.setAtomicIndex, .index⟩] ∧
    (l ≤ p → p - l < L → Gen.prodAvail.ret (p % L) 0 (l % L) L 0 0 = l + (L - 1) - p) ∧
    (p ≤ l → l - p < L → Gen.workAvail.ret (p % L) 0 (l % L) L 0 0 = l - p) ∧
    (p ≤ l → l - p < L → Gen.consAvail.ret (p % L) 0 (l % L) L 0 0 = l - p) :=
  ⟨rfl, rfl, rfl, rfl, rfl, rfl, rfl, fun h1 h2 => Gen.prodAvail_ret_eq p l L hL hL63 h1 h2 0 0 0,
   fun h1 h2 => Gen.workAvail_ret_eq p l L hL hL63 h1 h2 0 0 0, fun h1 h2 => Gen.consAvail_ret_eq p l L hL hL63 h1 h2 0 0 0⟩

/-- `advance_local` wraps exactly once at `len`, for every `(index, count, len)` with `count ≤ len`, and none of
    its unchecked operations can overflow. -/
theorem C04_source_advance_wraps_once (p n L c : Nat) (hL : 0 < L) (hn : n ≤ L) (hL63 : L < 2 ^ 63) :
    Gen.advanceLocal.index' (p % L) c 0 L n 0 = (p + n) % L ∧ Gen.advanceLocal.cached' (p % L) c 0 L n 0 = c - n ∧
    Gen.advanceLocal.safe (p % L) c 0 L n 0 ∧ Gen.advanceLocal.pub' (p % L) c 0 L n 0 = none ∧ Gen.skelAdvanceLocal = [] :=
  ⟨Gen.advanceLocal_index_eq p n L hL hn c 0 0, Gen.advanceLocal_cached_eq _ _ _ _ _ _, Gen.advanceLocal_safe _ _ _ _ _ _ (Nat.mod_lt _ hL) hn hL63, rfl, rfl⟩

/-- Non-vacuity: a full two-stage buffer of length 3 (two items in flight, wrapped indices). -/
example :
    let ops : List Op := [.push 1, .push 2, .pop, .push 3, .push 4]
    (run (St.init [0, 0, 0] false true false) ops).2 = [.ok, .ok, .item 1, .ok, .err 4] := by decide

end MRB.Props.C04
