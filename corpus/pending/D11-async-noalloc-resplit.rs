use mutringbuf::{ConcurrentStackRB, MRBIterator};
use mutringbuf::iterators::async_iterators::AsyncIterator;
#[test]
fn async_resplit_after_two_stage_session() {
    let mut buf = ConcurrentStackRB::<usize, 8>::default();
    {
        let (p, c) = buf.split_async();
        let (mut p, mut c) = (p.into_sync(), c.into_sync());
        for i in 0..3 { p.push(i).unwrap(); }
        for _ in 0..3 { c.pop().unwrap(); }
    }
    let (p, w, c) = buf.split_mut_async();
    let (mut p, mut w, mut c) = (p.into_sync(), w.into_sync(), c.into_sync());
    assert_eq!((p.available(), w.available(), c.available()), (7, 0, 0), "fresh session must start empty");
}
