/-
  MRB.Seq.Ledger — ownership accounting over whole histories (C08/C09).

  Items are tokens (non-zero naturals).  For every token `t` the quantity
      (copies of `t` in the slots of a not yet released buffer) + (destructor runs on `t`)
  grows by exactly the copies of `t` an operation stores into the buffer and shrinks by exactly the copies it
  hands out to the caller by value (`pop_move`) — provided no undefined behaviour was recorded.  Summed over a
  history this is conservation; with pairwise distinct tokens it is "destroyed exactly once".
-/
import MRB.Seq.Run
import MRB.Seq.Life

set_option linter.unusedVariables false

namespace MRB

/-- Operations of the API that exist for items with a destructor (the others are `T: Copy` only, or duplicate the
item bitwise and are documented as the caller's responsibility: `pop`, `copy_item`, `copy_slice`, `push_slice`). -/
def OwnedOp : Op → Bool
  | .pop | .copyItem | .copySlice _ | .pushSlice _ | .pushSliceInit _ => false
  | _ => true

/-- Tokens whose ownership passes to the buffer in this step. -/
def stored : Op → Out → List Nat
  | .push v, .ok => [v]
  | .pushInit v, .ok => [v]
  | .pushSliceClone vs, .ok => vs
  | .pushSliceCloneInit vs, .ok => vs
  | .poke _ _ v, _ => [v]
  | _, _ => []

/-- Tokens whose ownership passes to the caller in this step. -/
def handed : Op → Out → List Nat
  | .popMove, .item v => [v]
  | _, _ => []

/-- Copies of `t` the buffer is responsible for: its slots, as long as the storage has not been released. -/
def St.inBuf (s : St) (t : Nat) : Nat := if s.freed = 0 then s.slots.count t else 0

/-- Copies in the buffer plus destructor runs. -/
def St.bal (s : St) (t : Nat) : Nat := s.inBuf t + s.drops.count t

/-- The fields the ledger looks at are untouched. -/
structure KeepL (s s' : St) : Prop where
  slots : s'.slots = s.slots
  drops : s'.drops = s.drops
  freed : s'.freed = s.freed
  owned : s'.owned = s.owned

theorem KeepL.refl (s : St) : KeepL s s := ⟨rfl, rfl, rfl, rfl⟩
theorem KeepL.trans {a b c : St} (h1 : KeepL a b) (h2 : KeepL b c) : KeepL a c :=
  ⟨h2.slots.trans h1.slots, h2.drops.trans h1.drops, h2.freed.trans h1.freed, h2.owned.trans h1.owned⟩
theorem KeepL.bal {s s' : St} (h : KeepL s s') (t : Nat) : s'.bal t = s.bal t := by
  unfold St.bal St.inBuf; rw [h.slots, h.drops, h.freed]

theorem keepL_setIt (s : St) (r : Role) (i : It) : KeepL s (s.setIt r i) := by cases r <;> exact ⟨rfl, rfl, rfl, rfl⟩
theorem keepL_setPub (s : St) (f : Fld) (v : Nat) : KeepL s (s.setPub f v) := by cases f <;> exact ⟨rfl, rfl, rfl, rfl⟩
theorem keepL_setFault (s : St) (f : Fault) : KeepL s (s.setFault f) := by
  unfold St.setFault; split <;> exact ⟨rfl, rfl, rfl, rfl⟩
theorem keepL_refresh (s : St) (r : Role) : KeepL s (refresh s r).1 := by unfold refresh; exact keepL_setIt _ _ _
theorem keepL_check (s : St) (r : Role) (n : Nat) : KeepL s (check s r n).1 := by unfold check; exact keepL_setIt _ _ _
theorem keepL_applyGen (s : St) (r : Role) (fi fc fp) (n : Nat) : KeepL s (applyGen s r fi fc fp n) := by
  unfold applyGen
  simp only
  cases fp (s.it r).idx (s.it r).cached (succIdx s r) s.len n 0 with
  | some v => exact (keepL_setIt _ _ _).trans (keepL_setPub _ _ _)
  | none => exact keepL_setIt _ _ _
theorem keepL_readGuard (s : St) (v : Nat) : KeepL s (readGuard s v) := by
  unfold readGuard; split
  · exact keepL_setFault _ _
  · exact KeepL.refl _
theorem keepL_foldl_readGuard (s : St) (vs : List Nat) : KeepL s (vs.foldl readGuard s) := by
  induction vs generalizing s with
  | nil => exact KeepL.refl _
  | cons v vs ih => exact (keepL_readGuard s v).trans (ih _)
theorem keepL_grantOne (s : St) (r : Role) : KeepL s (grantOne s r).1 := by
  unfold grantOne; simp only; split <;> exact keepL_check _ _ _
theorem keepL_grantWindow (s : St) (r : Role) (n : Nat) : KeepL s (grantWindow s r n).1 := by
  unfold grantWindow; simp only
  split
  · split
    · exact keepL_check _ _ _
    · exact (keepL_check _ _ _).trans (keepL_setFault _ _)
  · exact keepL_check _ _ _
theorem keepL_grantWindowRO (s : St) (r : Role) (n : Nat) : KeepL s (grantWindowRO s r n).1 := by
  unfold grantWindowRO; simp only
  split
  · split
    · exact keepL_check _ _ _
    · exact (keepL_check _ _ _).trans (keepL_setFault _ _)
  · exact keepL_check _ _ _

-- fault bookkeeping of the primitives that never set one
theorem fault_setIt (s : St) (r : Role) (i : It) : (s.setIt r i).fault = s.fault := by cases r <;> rfl
theorem fault_setPub (s : St) (f : Fld) (v : Nat) : (s.setPub f v).fault = s.fault := by cases f <;> rfl
theorem fault_check (s : St) (r : Role) (n : Nat) : (check s r n).1.fault = s.fault := by unfold check; exact fault_setIt _ _ _
theorem fault_applyGen (s : St) (r : Role) (fi fc fp) (n : Nat) : (applyGen s r fi fc fp n).fault = s.fault := by
  unfold applyGen
  simp only
  cases fp (s.it r).idx (s.it r).cached (succIdx s r) s.len n 0 with
  | some v => simp only; rw [fault_setPub, fault_setIt]
  | none => exact fault_setIt _ _ _
theorem fault_sticky_setFault (s : St) (f : Fault) (h : (s.setFault f).fault = none) : False := by
  unfold St.setFault at h; split at h
  · rename_i g hg; rw [hg] at h; cases h
  · cases h

theorem len_check (s : St) (r : Role) (n : Nat) : (check s r n).1.len = s.len := by unfold check; cases r <;> rfl
theorem idx_check (s : St) (r : Role) (n : Nat) : ((check s r n).1.it r).idx = (s.it r).idx := by
  unfold check; cases r <;> rfl

-- ---------------------------------------------------------------- single-slot stores

theorem count_set (l : List Nat) (i v t : Nat) (hi : i < l.length) :
    (l.set i v).count t + (if l.getD i 0 = t then 1 else 0) = l.count t + (if v = t then 1 else 0) := by
  induction l generalizing i with
  | nil => simp at hi
  | cons x xs ih =>
    cases i with
    | zero =>
      simp only [List.set_cons_zero, List.count_cons, List.getD_cons_zero, beq_iff_eq]
      omega
    | succ j =>
      have := ih j (by simpa using hi)
      simp only [List.set_cons_succ, List.count_cons, List.getD_cons_succ]
      omega

/-- What a single-slot store does to the ledger. -/
structure StoreL (store : St → Nat → Nat → St) : Prop where
  sticky : ∀ s i v, (store s i v).fault = none → s.fault = none
  keep : ∀ s i v, (store s i v).freed = s.freed ∧ (store s i v).owned = s.owned ∧ (store s i v).slots.length = s.slots.length ∧ (store s i v).len = s.len
  bal : ∀ s i v t, s.owned = true → s.freed = 0 → i < s.slots.length → (store s i v).fault = none → t ≠ 0 →
    (store s i v).bal t = s.bal t + (if v = t then 1 else 0)

theorem slotAt_eq (s : St) (i : Nat) : s.slotAt i = s.slots.getD i 0 := rfl

theorem assign_storeL : StoreL assignSlot := by
  refine ⟨?_, ?_, ?_⟩
  · intro s i v h
    unfold assignSlot at h
    simp only [St.setSlot] at h
    split at h
    · split at h
      · exact absurd h (fun h => fault_sticky_setFault _ _ h)
      · exact h
    · exact h
  · intro s i v
    unfold assignSlot
    simp only [St.setSlot]
    split
    · split
      · have := keepL_setFault s .dropZero
        refine ⟨this.freed, this.owned, ?_, ?_⟩
        · simp [this.slots]
        · unfold St.setFault; split <;> rfl
      · simp
    · simp
  · intro s i v t ho hf hi hn ht
    unfold assignSlot at hn ⊢
    simp only [ho, if_true, St.setSlot] at hn ⊢
    by_cases hz : s.slotAt i = 0
    · rw [if_pos hz] at hn; exact absurd hn (fun h => fault_sticky_setFault _ _ h)
    · rw [if_neg hz] at hn ⊢
      unfold St.bal St.inBuf
      simp only [hf, if_true]
      have := count_set s.slots i v t hi
      rw [← slotAt_eq] at this
      rw [List.count_append, List.count_singleton]
      simp only [beq_iff_eq]
      by_cases e : s.slotAt i = t
      · simp only [e, if_true] at this ⊢; omega
      · have e' : ¬ t = s.slotAt i := fun h => e h.symm
        simp only [e, e', if_false] at this ⊢; omega

theorem write_empty_bal (s : St) (i v t : Nat) (hf : s.freed = 0) (hi : i < s.slots.length) (hz : s.slotAt i = 0) (ht : t ≠ 0) :
    (writeSlot s i v).bal t = s.bal t + (if v = t then 1 else 0) := by
  unfold writeSlot St.bal St.inBuf
  simp only [St.setSlot, hf, if_true]
  have := count_set s.slots i v t hi
  rw [← slotAt_eq, hz] at this
  have e : ¬ 0 = t := fun h => ht h.symm
  simp only [e, if_false] at this
  omega

theorem init_storeL : StoreL initSlot := by
  refine ⟨?_, ?_, ?_⟩
  · intro s i v h
    unfold initSlot at h; split at h
    · exact h
    · exact assign_storeL.sticky s i v h
  · intro s i v
    unfold initSlot; split
    · simp [writeSlot, St.setSlot]
    · exact assign_storeL.keep s i v
  · intro s i v t ho hf hi hn ht
    unfold initSlot at hn ⊢; split
    · rename_i hz; exact write_empty_bal s i v t hf hi hz ht
    · rename_i hz; rw [if_neg hz] at hn; exact assign_storeL.bal s i v t ho hf hi hn ht

/-- Stores through a list of slot numbers. -/
theorem fold_storeL {store : St → Nat → Nat → St} (hs : StoreL store) (slot : Nat → Nat) (vs : List Nat) (t : Nat) (ht : t ≠ 0)
    (ks : List Nat) (s : St) (ho : s.owned = true) (hf : s.freed = 0) (hk : ∀ k ∈ ks, slot k < s.slots.length)
    (hn : (ks.foldl (fun acc k => store acc (slot k) (vs.getD k 0)) s).fault = none) :
    (ks.foldl (fun acc k => store acc (slot k) (vs.getD k 0)) s).bal t = s.bal t + ((ks.map fun k => vs.getD k 0).count t) ∧
    s.fault = none ∧
    (ks.foldl (fun acc k => store acc (slot k) (vs.getD k 0)) s).freed = 0 ∧
    (ks.foldl (fun acc k => store acc (slot k) (vs.getD k 0)) s).owned = true := by
  induction ks generalizing s with
  | nil => exact ⟨by simp, hn, hf, ho⟩
  | cons k ks ih =>
    simp only [List.foldl_cons] at hn ⊢
    obtain ⟨k1, k2, k3, k4⟩ := hs.keep s (slot k) (vs.getD k 0)
    obtain ⟨i1, i2, i3, i4⟩ := ih (store s (slot k) (vs.getD k 0)) (by rw [k2]; exact ho) (by rw [k1]; exact hf)
      (by intro j hj; rw [k3]; exact hk j (List.mem_cons_of_mem _ hj)) hn
    have hb := hs.bal s (slot k) (vs.getD k 0) t ho hf (hk k (List.mem_cons_self ..)) i2 ht
    refine ⟨?_, hs.sticky _ _ _ i2, i3, i4⟩
    rw [i1, hb]
    simp only [List.map_cons, List.count_cons, beq_iff_eq]
    omega

theorem map_getD_range (vs : List Nat) : (List.range vs.length).map (fun k => vs.getD k 0) = vs := by
  apply List.ext_getElem
  · simp
  · intro i h1 h2
    simp at h1
    simp [List.getD_eq_getElem?_getD, h1]

theorem chunkSlot_lt (i L n k : Nat) (hi : i < L) (hn : n ≤ L) (hk : k < n) : chunkSlot i L n k < L := by
  unfold chunkSlot
  simp only
  rw [Gen.nextChunkMut_cover i L n k hi hn hk]
  exact Nat.mod_lt _ (by omega)

theorem storeWindow_ledger {store : St → Nat → Nat → St} (hs : StoreL store) (s : St) (idx : Nat) (vs : List Nat) (t : Nat) (ht : t ≠ 0)
    (ho : s.owned = true) (hf : s.freed = 0) (hl : s.slots.length = s.len) (hi : idx < s.len) (hn : vs.length ≤ s.len)
    (hnf : (storeWindow store s idx vs.length vs).fault = none) :
    (storeWindow store s idx vs.length vs).bal t = s.bal t + vs.count t ∧ s.fault = none := by
  unfold storeWindow at hnf ⊢
  obtain ⟨h1, h2, _, _⟩ := fold_storeL hs (fun k => chunkSlot idx s.len vs.length k) vs t ht (List.range vs.length) s ho hf
    (by intro k hk; rw [hl]; exact chunkSlot_lt idx s.len vs.length k hi hn (List.mem_range.1 hk)) hnf
  rw [map_getD_range] at h1
  exact ⟨h1, h2⟩


-- ---------------------------------------------------------------- faults are never cleared

/-- `s'` has no recorded fault only if `s` had none. -/
def Sticky (s s' : St) : Prop := s'.fault = none → s.fault = none

theorem Sticky.refl (s : St) : Sticky s s := fun h => h
theorem Sticky.trans {a b c : St} (h1 : Sticky a b) (h2 : Sticky b c) : Sticky a c := fun h => h1 (h2 h)
theorem Sticky.of_eq {s s' : St} (h : s'.fault = s.fault) : Sticky s s' := fun h' => by rw [← h]; exact h'

theorem sticky_setFault (s : St) (f : Fault) : Sticky s (s.setFault f) := fun h => (fault_sticky_setFault s f h).elim
theorem sticky_check (s : St) (r : Role) (n : Nat) : Sticky s (check s r n).1 := Sticky.of_eq (fault_check s r n)
theorem sticky_refresh (s : St) (r : Role) : Sticky s (refresh s r).1 := Sticky.of_eq (by unfold refresh; exact fault_setIt _ _ _)
theorem sticky_applyGen (s : St) (r : Role) (fi fc fp) (n : Nat) : Sticky s (applyGen s r fi fc fp n) := Sticky.of_eq (fault_applyGen s r fi fc fp n)
theorem sticky_readGuard (s : St) (v : Nat) : Sticky s (readGuard s v) := by
  unfold readGuard; split
  · exact sticky_setFault _ _
  · exact Sticky.refl _
theorem sticky_foldl_readGuard (s : St) (vs : List Nat) : Sticky s (vs.foldl readGuard s) := by
  induction vs generalizing s with
  | nil => exact Sticky.refl _
  | cons v vs ih => exact (sticky_readGuard s v).trans (ih _)
theorem sticky_write (s : St) (i v : Nat) : Sticky s (writeSlot s i v) := Sticky.of_eq rfl
theorem sticky_assign (s : St) (i v : Nat) : Sticky s (assignSlot s i v) := assign_storeL.sticky s i v
theorem sticky_init (s : St) (i v : Nat) : Sticky s (initSlot s i v) := init_storeL.sticky s i v
theorem sticky_storeWindow (store : St → Nat → Nat → St) (hs : ∀ s i v, Sticky s (store s i v)) (s : St) (idx n : Nat) (vs : List Nat) :
    Sticky s (storeWindow store s idx n vs) := by
  unfold storeWindow
  generalize List.range n = ks
  generalize s.len = L
  induction ks generalizing s with
  | nil => exact Sticky.refl _
  | cons k ks ih => exact (hs _ _ _).trans (ih _)
theorem sticky_grantOne (s : St) (r : Role) : Sticky s (grantOne s r).1 := by
  unfold grantOne; simp only; split <;> exact sticky_check _ _ _
theorem sticky_grantWindow (s : St) (r : Role) (n : Nat) : Sticky s (grantWindow s r n).1 := by
  unfold grantWindow; simp only
  split
  · split
    · exact sticky_check _ _ _
    · exact (sticky_check _ _ _).trans (sticky_setFault _ _)
  · exact sticky_check _ _ _
theorem sticky_grantWindowRO (s : St) (r : Role) (n : Nat) : Sticky s (grantWindowRO s r n).1 := by
  unfold grantWindowRO; simp only
  split
  · split
    · exact sticky_check _ _ _
    · exact (sticky_check _ _ _).trans (sticky_setFault _ _)
  · exact sticky_check _ _ _
theorem sticky_pushWith (store : St → Nat → Nat → St) (hs : ∀ s i v, Sticky s (store s i v)) (s : St) (v : Nat) :
    Sticky s (pushWith store s v).1 := by
  unfold pushWith; simp only; split
  · exact ((sticky_check _ _ _).trans (hs _ _ _)).trans (sticky_applyGen _ _ _ _ _ _)
  · exact sticky_check _ _ _
theorem sticky_pushSliceWith (store : St → Nat → Nat → St) (hs : ∀ s i v, Sticky s (store s i v)) (s : St) (vs : List Nat) :
    Sticky s (pushSliceWith store s vs).1 := by
  unfold pushSliceWith; simp only; split
  · intro h
    have h1 := sticky_applyGen _ _ _ _ _ _ h
    have h2 := sticky_storeWindow store hs _ _ _ _ h1
    split at h2
    · exact sticky_check _ _ _ h2
    · exact (fault_sticky_setFault _ _ h2).elim
  · exact sticky_check _ _ _
theorem sticky_dropIter (s : St) (r : Role) : Sticky s (dropIter s r) := by
  apply Sticky.of_eq
  unfold dropIter releaseStorage
  cases r <;> simp only [St.setIt, St.it] <;>
    by_cases c1 : s.liveCount - 1 = 0 ∧ s.heap = true <;> by_cases c2 : s.owned = true <;> simp [c1, c2]

/-- **A recorded fault is never cleared**: if a history ends without a fault, no step of it recorded one. -/
theorem step_sticky (s : St) (op : Op) : Sticky s (step s op).1 := by
  cases op with
  | available r => exact sticky_refresh s r
  | advance r n vs => simp only [step]; split <;> exact sticky_applyGen _ _ _ _ _ _
  | getWorkable r => exact sticky_grantOne s r
  | sliceExact r n => exact sticky_grantWindow s r n
  | sliceAvail r =>
    simp only [step]; split
    · exact sticky_refresh s r
    · exact (sticky_refresh s r).trans (sticky_grantWindow _ _ _)
  | sliceMultipleOf r k =>
    simp only [step]; split
    · exact sticky_refresh s r
    · split
      · exact sticky_refresh s r
      · exact (sticky_refresh s r).trans (sticky_grantWindow _ _ _)
  | poke r k v => exact sticky_assign _ _ _
  | push v => exact sticky_pushWith _ sticky_assign s v
  | pushInit v => exact sticky_pushWith _ sticky_init s v
  | pushSlice vs => exact sticky_pushSliceWith _ sticky_write s vs
  | pushSliceInit vs => exact sticky_pushSliceWith _ sticky_write s vs
  | pushSliceClone vs => exact sticky_pushSliceWith _ sticky_assign s vs
  | pushSliceCloneInit vs => exact sticky_pushSliceWith _ sticky_init s vs
  | nextItemMut => exact sticky_grantOne s .P
  | nextItemMutInit => exact sticky_grantOne s .P
  | nextSlicesMut n => exact sticky_grantWindow s .P n
  | resetIndex r =>
    simp only [step]; split
    · exact sticky_applyGen _ _ _ _ _ _
    · cases r
      · exact Sticky.refl _
      · exact sticky_applyGen _ _ _ _ _ _
      · exact sticky_applyGen _ _ _ _ _ _
  | peekRef => exact sticky_grantOne s .C
  | peekSlice n => exact sticky_grantWindowRO s .C n
  | peekAvailable => exact (sticky_refresh s .C).trans (sticky_grantWindowRO _ _ _)
  | popMove =>
    simp only [step]; split
    · intro h
      have h1 := sticky_applyGen _ _ _ _ _ _ h
      have h2 : (readGuard (check s .C 1).1 ((check s .C 1).1.slotAt ((check s .C 1).1.it .C).idx)).fault = none := h1
      exact sticky_check _ _ _ (sticky_readGuard _ _ h2)
    · exact sticky_check _ _ _
  | pop =>
    simp only [step]; split
    · exact (sticky_check _ _ _).trans (sticky_applyGen _ _ _ _ _ _)
    · exact sticky_check _ _ _
  | copyItem =>
    simp only [step]; split
    · exact (sticky_check _ _ _).trans (sticky_applyGen _ _ _ _ _ _)
    · exact sticky_check _ _ _
  | cloneItem =>
    simp only [step]; split
    · exact ((sticky_check _ _ _).trans (sticky_readGuard _ _)).trans (sticky_applyGen _ _ _ _ _ _)
    · exact sticky_check _ _ _
  | copySlice n =>
    simp only [step]; split
    · exact (sticky_grantWindow _ _ _).trans (sticky_applyGen _ _ _ _ _ _)
    · exact sticky_grantWindow _ _ _
  | cloneSlice n =>
    simp only [step]; split
    · exact ((sticky_grantWindow _ _ _).trans (sticky_foldl_readGuard _ _)).trans (sticky_applyGen _ _ _ _ _ _)
    · exact sticky_grantWindow _ _ _
  | detach r => exact Sticky.of_eq (fault_setIt _ _ _)
  | attach r => exact (sticky_applyGen _ _ _ _ _ _).trans (Sticky.of_eq (fault_setIt _ _ _))
  | setIndex r i => exact sticky_applyGen _ _ _ _ _ _
  | goBack r n => exact sticky_applyGen _ _ _ _ _ _
  | syncIndex r => exact sticky_applyGen _ _ _ _ _ _
  | dropIt r => exact sticky_dropIter s r
  | resplit w => exact Sticky.of_eq rfl


-- ---------------------------------------------------------------- one step of the ledger

theorem count_filter_ne_zero (l : List Nat) (t : Nat) (ht : t ≠ 0) : (l.filter (· ≠ 0)).count t = l.count t :=
  List.count_filter (by simpa using ht)

theorem count_filter_ne_zero' (l : List Nat) (t : Nat) (ht : t ≠ 0) : (l.filter (fun x => !decide (x = 0))).count t = l.count t :=
  List.count_filter (by simpa using ht)

theorem keepL_advanceGlobal (s : St) (r : Role) (n : Nat) : KeepL s (advanceGlobal s r n) := keepL_applyGen _ _ _ _ _ _
theorem keepL_advanceLocalOnly (s : St) (r : Role) (n : Nat) : KeepL s (advanceLocalOnly s r n) := keepL_applyGen _ _ _ _ _ _
theorem fault_advanceGlobal (s : St) (r : Role) (n : Nat) : (advanceGlobal s r n).fault = s.fault := fault_applyGen _ _ _ _ _ _

theorem idx_lt {s : St} {a : Sp} (h : Rel s a) (r : Role) : (s.it r).idx < s.slots.length := by
  rw [h.slots_len]
  cases r
  · simp only [St.it]; rw [h.idxP]; exact Nat.mod_lt _ h.len_pos
  · simp only [St.it]; rw [h.idxW]; exact Nat.mod_lt _ h.len_pos
  · simp only [St.it]; rw [h.idxC]; exact Nat.mod_lt _ h.len_pos

theorem pushWith_ledger {store : St → Nat → Nat → St} (hs : StoreL store) {s : St} {a : Sp} (h : Rel s a) (v t : Nat) (ht : t ≠ 0)
    (ho : s.owned = true) (hf : s.freed = 0) (hnf : (pushWith store s v).1.fault = none) :
    (pushWith store s v).1.bal t = s.bal t + (if (pushWith store s v).2 = .ok then (if v = t then 1 else 0) else 0) := by
  have kc := keepL_check s .P 1
  unfold pushWith at hnf ⊢
  simp only at hnf ⊢
  by_cases hok : (check s .P 1).2 = true
  · simp only [hok, if_true] at hnf ⊢
    have h1 : (store (check s .P 1).1 ((check s .P 1).1.it .P).idx v).fault = none := by
      rw [← fault_advanceGlobal]; exact hnf
    rw [(keepL_advanceGlobal _ _ _).bal]
    rw [hs.bal _ _ _ t (by rw [kc.owned]; exact ho) (by rw [kc.freed]; exact hf)
      (by rw [kc.slots, idx_check]; exact idx_lt h .P) h1 ht, kc.bal]
  · simp only [hok] at hnf ⊢
    simp [kc.bal]

theorem pushSliceWith_ledger {store : St → Nat → Nat → St} (hs : StoreL store) {s : St} {a : Sp} (h : Rel s a) (vs : List Nat) (t : Nat) (ht : t ≠ 0)
    (ho : s.owned = true) (hf : s.freed = 0) (hlen : vs.length ≤ s.len) (hnf : (pushSliceWith store s vs).1.fault = none) :
    (pushSliceWith store s vs).1.bal t = s.bal t + (if (pushSliceWith store s vs).2 = .ok then vs.count t else 0) := by
  have kc := keepL_check s .P vs.length
  unfold pushSliceWith at hnf ⊢
  simp only at hnf ⊢
  by_cases hok : (check s .P vs.length).2 = true
  · simp only [hok, if_true] at hnf ⊢
    rw [fault_advanceGlobal] at hnf
    rw [(keepL_advanceGlobal _ _ _).bal]
    have hidx : ((check s .P vs.length).1.it .P).idx < (check s .P vs.length).1.len := by
      rw [idx_check, len_check, ← h.slots_len]; exact idx_lt h .P
    have hsl : (check s .P vs.length).1.slots.length = (check s .P vs.length).1.len := by
      rw [kc.slots, len_check]; exact h.slots_len
    by_cases hb : chunkInBounds ((check s .P vs.length).1.it .P).idx (check s .P vs.length).1.len vs.length = true
    · simp only [hb, if_true] at hnf ⊢
      rw [(storeWindow_ledger hs _ _ vs t ht (by rw [kc.owned]; exact ho) (by rw [kc.freed]; exact hf) hsl hidx
        (by rw [len_check]; exact hlen) hnf).1, kc.bal]
    · simp only [hb] at hnf ⊢
      have ks := keepL_setFault (check s .P vs.length).1 .outOfBounds
      have hlen' : ((check s .P vs.length).1.setFault .outOfBounds).len = (check s .P vs.length).1.len := by
        unfold St.setFault; split <;> rfl
      have hit' : (((check s .P vs.length).1.setFault .outOfBounds).it .P).idx = ((check s .P vs.length).1.it .P).idx := by
        unfold St.setFault; split <;> rfl
      have := (storeWindow_ledger hs ((check s .P vs.length).1.setFault .outOfBounds) ((check s .P vs.length).1.it .P).idx vs t ht
        (by rw [ks.owned, kc.owned]; exact ho) (by rw [ks.freed, kc.freed]; exact hf) (by rw [ks.slots, hlen']; exact hsl)
        (by rw [hlen']; exact hidx) (by rw [hlen', len_check]; exact hlen) hnf).2
      exact (fault_sticky_setFault _ _ this).elim
  · simp only [hok] at hnf ⊢
    simp [kc.bal]

/-- **Conservation, one step.** Under the contract, for owned items, and if the step records no fault:
what the buffer holds of token `t` plus the destructor runs on `t` changes exactly by what the step stores
(`stored`) minus what it hands to the caller by value (`handed`). -/
theorem ledger_step {s : St} {a : Sp} (h : Rel s a) (op : Op) (hal : Allowed s a op)
    (ho : s.owned = true) (hop : OwnedOp op = true)
    (hdead : s.freed ≠ 0 → s.p.live = false ∧ s.w.live = false ∧ s.c.live = false)
    (hnf : (step s op).1.fault = none) (t : Nat) (ht : t ≠ 0) :
    (step s op).1.bal t + (handed op (step s op).2).count t = s.bal t + (stored op (step s op).2).count t := by
  have live_freed : ∀ r, (s.it r).live = true → s.freed = 0 := by
    intro r hr
    apply Classical.byContradiction
    intro hne
    obtain ⟨a1, a2, a3⟩ := hdead hne
    cases r <;> simp [St.it, a1, a2, a3] at hr
  -- operations that neither store nor hand out and leave slots / drops / freed alone
  have keep : ∀ {s' : St} {o : Out}, KeepL s s' → stored op o = [] → handed op o = [] →
      s'.bal t + (handed op o).count t = s.bal t + (stored op o).count t := by
    intro s' o k e1 e2; rw [e1, e2, k.bal]
  cases op with
  | available r => exact keep (keepL_refresh s r) rfl rfl
  | advance r n vs =>
    simp only [step]; split
    · exact keep (keepL_advanceLocalOnly s r n) rfl rfl
    · exact keep (keepL_advanceGlobal s r n) rfl rfl
  | getWorkable r => exact keep (keepL_grantOne s r) rfl rfl
  | sliceExact r n => exact keep (keepL_grantWindow s r n) rfl rfl
  | sliceAvail r =>
    simp only [step]; split
    · exact keep (keepL_refresh s r) rfl rfl
    · exact keep ((keepL_refresh s r).trans (keepL_grantWindow _ _ _)) rfl rfl
  | sliceMultipleOf r k =>
    simp only [step]; split
    · exact keep (keepL_refresh s r) rfl rfl
    · split
      · exact keep (keepL_refresh s r) rfl rfl
      · exact keep ((keepL_refresh s r).trans (keepL_grantWindow _ _ _)) rfl rfl
  | poke r k v =>
    obtain ⟨hl, hr, hk⟩ := hal
    have hav := h.avail_le r hr
    have hi : chunkSlot (s.it r).idx s.len (k + 1) k < s.slots.length := by
      rw [h.slots_len]
      exact chunkSlot_lt _ _ _ _ (by rw [← h.slots_len]; exact idx_lt h r) (by have := h.len_pos; omega) (by omega)
    simp only [step, stored, handed, List.count_nil, Nat.add_zero, List.count_singleton, beq_iff_eq] at hnf ⊢
    rw [assign_storeL.bal s _ v t ho (live_freed r hl) hi hnf ht]
  | push v =>
    have := pushWith_ledger assign_storeL h v t ht ho (live_freed .P hal.1) hnf
    simp only [step] at hnf ⊢
    rw [this]
    cases ho2 : (pushWith assignSlot s v).2 <;> simp [stored, handed, List.count_singleton] <;>
      (by_cases e : v = t <;> simp [e] <;> omega)
  | pushInit v =>
    have := pushWith_ledger init_storeL h v t ht ho (live_freed .P hal.1) hnf
    simp only [step] at hnf ⊢
    rw [this]
    cases ho2 : (pushWith initSlot s v).2 <;> simp [stored, handed, List.count_singleton] <;>
      (by_cases e : v = t <;> simp [e] <;> omega)
  | pushSlice vs => simp [OwnedOp] at hop
  | pushSliceInit vs => simp [OwnedOp] at hop
  | pushSliceClone vs =>
    have := pushSliceWith_ledger assign_storeL h vs t ht ho (live_freed .P hal.1) hal.2.2 hnf
    simp only [step] at hnf ⊢
    rw [this]
    cases ho2 : (pushSliceWith assignSlot s vs).2 <;> simp [stored, handed]
  | pushSliceCloneInit vs =>
    have := pushSliceWith_ledger init_storeL h vs t ht ho (live_freed .P hal.1) hal.2.2 hnf
    simp only [step] at hnf ⊢
    rw [this]
    cases ho2 : (pushSliceWith initSlot s vs).2 <;> simp [stored, handed]
  | nextItemMut => exact keep (keepL_grantOne s .P) rfl rfl
  | nextItemMutInit => exact keep (keepL_grantOne s .P) rfl rfl
  | nextSlicesMut n => exact keep (keepL_grantWindow s .P n) rfl rfl
  | resetIndex r =>
    simp only [step]; split
    · exact keep (keepL_applyGen s r Gen.detReset.index' Gen.detReset.cached' Gen.detReset.pub' 0) rfl rfl
    · cases r
      · exact keep (KeepL.refl _) rfl rfl
      · exact keep (keepL_applyGen s .W Gen.workReset.index' Gen.workReset.cached' Gen.workReset.pub' 0) rfl rfl
      · exact keep (keepL_applyGen s .C Gen.consReset.index' Gen.consReset.cached' Gen.consReset.pub' 0) rfl rfl
  | peekRef => exact keep (keepL_grantOne s .C) rfl rfl
  | peekSlice n => exact keep (keepL_grantWindowRO s .C n) rfl rfl
  | peekAvailable => exact keep ((keepL_refresh s .C).trans (keepL_grantWindowRO _ _ _)) rfl rfl
  | popMove =>
    have kc := keepL_check s .C 1
    simp only [step] at hnf ⊢
    by_cases hok : (check s .C 1).2 = true
    · simp only [hok, if_true] at hnf ⊢
      rw [fault_advanceGlobal] at hnf
      have hg : (readGuard (check s .C 1).1 ((check s .C 1).1.slotAt ((check s .C 1).1.it .C).idx)).fault = none := hnf
      have kr := keepL_readGuard (check s .C 1).1 ((check s .C 1).1.slotAt ((check s .C 1).1.it .C).idx)
      have hv : (check s .C 1).1.slotAt ((check s .C 1).1.it .C).idx ≠ 0 := by
        intro hz
        unfold readGuard at hg
        rw [if_pos ⟨by rw [kc.owned]; exact ho, hz⟩] at hg
        exact fault_sticky_setFault _ _ hg
      rw [(keepL_advanceGlobal _ _ _).bal]
      simp only [handed, stored, List.count_nil, Nat.add_zero, List.count_singleton, beq_iff_eq]
      unfold St.bal St.inBuf
      simp only [St.setSlot, kr.freed, kr.slots, kr.drops, kc.freed, kc.slots, kc.drops, live_freed .C hal.1, if_true]
      have hi : ((check s .C 1).1.it .C).idx < s.slots.length := by rw [idx_check]; exact idx_lt h .C
      have := count_set s.slots ((check s .C 1).1.it .C).idx 0 t hi
      have hv' : s.slots.getD ((check s .C 1).1.it .C).idx 0 = (check s .C 1).1.slotAt ((check s .C 1).1.it .C).idx := by
        rw [slotAt_eq, kc.slots]
      rw [hv'] at this
      have z : ¬ 0 = t := fun h => ht h.symm
      simp only [z, if_false, Nat.add_zero] at this
      by_cases e : (check s .C 1).1.slotAt ((check s .C 1).1.it .C).idx = t
      · rw [if_pos e] at this ⊢; omega
      · rw [if_neg e] at this ⊢; omega
    · simp only [hok] at hnf ⊢
      exact keep kc rfl rfl
  | pop => simp [OwnedOp] at hop
  | copyItem => simp [OwnedOp] at hop
  | cloneItem =>
    simp only [step]; split <;> dsimp only
    · exact keep (((keepL_check _ _ _).trans (keepL_readGuard _ _)).trans (keepL_advanceGlobal _ _ _)) rfl rfl
    · exact keep (keepL_check _ _ _) rfl rfl
  | copySlice n => simp [OwnedOp] at hop
  | cloneSlice n =>
    simp only [step]; split <;> dsimp only
    · exact keep (((keepL_grantWindow _ _ _).trans (keepL_foldl_readGuard _ _)).trans (keepL_advanceGlobal _ _ _)) rfl rfl
    · exact keep (keepL_grantWindow _ _ _) rfl rfl
  | detach r => exact keep (keepL_setIt _ _ _) rfl rfl
  | attach r => exact keep ((keepL_applyGen s r Gen.detSync.index' Gen.detSync.cached' Gen.detSync.pub' 0).trans (keepL_setIt _ _ _)) rfl rfl
  | setIndex r i => exact keep (keepL_applyGen s r Gen.detSetIndex.index' Gen.detSetIndex.cached' Gen.detSetIndex.pub' i) rfl rfl
  | goBack r n => exact keep (keepL_applyGen s r Gen.detGoBack.index' Gen.detGoBack.cached' Gen.detGoBack.pub' n) rfl rfl
  | syncIndex r => exact keep (keepL_applyGen s r Gen.detSync.index' Gen.detSync.cached' Gen.detSync.pub' 0) rfl rfl
  | dropIt r =>
    have hf0 := live_freed r hal
    simp only [step, handed, stored, List.count_nil, Nat.add_zero]
    unfold dropIter releaseStorage St.bal St.inBuf
    cases r <;> simp only [St.setIt, St.it] <;>
      by_cases c1 : s.liveCount - 1 = 0 ∧ s.heap = true <;>
      simp [c1, ho, hf0, List.count_append] <;> (try (rw [count_filter_ne_zero' _ _ ht]; omega))
  | resplit w => exact keep ⟨rfl, rfl, rfl, rfl⟩ rfl rfl


-- ---------------------------------------------------------------- the `owned` mode never changes

def OwnEq (s s' : St) : Prop := s'.owned = s.owned
theorem OwnEq.refl (s : St) : OwnEq s s := rfl
theorem OwnEq.trans {a b c : St} (h1 : OwnEq a b) (h2 : OwnEq b c) : OwnEq a c := Eq.trans h2 h1
theorem KeepL.own {s s' : St} (h : KeepL s s') : OwnEq s s' := h.owned

theorem own_storeWindow (store : St → Nat → Nat → St) (hs : ∀ s i v, OwnEq s (store s i v)) (s : St) (idx n : Nat) (vs : List Nat) :
    OwnEq s (storeWindow store s idx n vs) := by
  unfold storeWindow
  generalize List.range n = ks
  generalize s.len = L
  induction ks generalizing s with
  | nil => exact OwnEq.refl _
  | cons k ks ih => exact (hs _ _ _).trans (ih _)
theorem own_assign (s : St) (i v : Nat) : OwnEq s (assignSlot s i v) := (assign_storeL.keep s i v).2.1
theorem own_init (s : St) (i v : Nat) : OwnEq s (initSlot s i v) := (init_storeL.keep s i v).2.1
theorem own_write (s : St) (i v : Nat) : OwnEq s (writeSlot s i v) := rfl
theorem own_pushWith (store : St → Nat → Nat → St) (hs : ∀ s i v, OwnEq s (store s i v)) (s : St) (v : Nat) :
    OwnEq s (pushWith store s v).1 := by
  unfold pushWith; simp only; split
  · exact ((keepL_check _ _ _).own.trans (hs _ _ _)).trans (keepL_advanceGlobal _ _ _).own
  · exact (keepL_check _ _ _).own
theorem own_pushSliceWith (store : St → Nat → Nat → St) (hs : ∀ s i v, OwnEq s (store s i v)) (s : St) (vs : List Nat) :
    OwnEq s (pushSliceWith store s vs).1 := by
  unfold pushSliceWith; simp only; split
  · refine OwnEq.trans ?_ (keepL_advanceGlobal _ _ _).own
    refine OwnEq.trans ?_ (own_storeWindow store hs _ _ _ _)
    split
    · exact (keepL_check _ _ _).own
    · exact (keepL_check _ _ _).own.trans (keepL_setFault _ _).own
  · exact (keepL_check _ _ _).own
theorem own_dropIter (s : St) (r : Role) : OwnEq s (dropIter s r) := by
  unfold OwnEq dropIter releaseStorage
  cases r <;> simp only [St.setIt, St.it] <;>
    by_cases c1 : s.liveCount - 1 = 0 ∧ s.heap = true <;> by_cases c2 : s.owned = true <;> simp [c1, c2]

theorem step_owned (s : St) (op : Op) : (step s op).1.owned = s.owned := by
  show OwnEq s (step s op).1
  cases op with
  | available r => exact (keepL_refresh s r).own
  | advance r n vs =>
    simp only [step]; split
    · exact (keepL_advanceLocalOnly s r n).own
    · exact (keepL_advanceGlobal s r n).own
  | getWorkable r => exact (keepL_grantOne s r).own
  | sliceExact r n => exact (keepL_grantWindow s r n).own
  | sliceAvail r =>
    simp only [step]; split
    · exact (keepL_refresh s r).own
    · exact ((keepL_refresh s r).trans (keepL_grantWindow _ _ _)).own
  | sliceMultipleOf r k =>
    simp only [step]; split
    · exact (keepL_refresh s r).own
    · split
      · exact (keepL_refresh s r).own
      · exact ((keepL_refresh s r).trans (keepL_grantWindow _ _ _)).own
  | poke r k v => exact own_assign _ _ _
  | push v => exact own_pushWith _ own_assign s v
  | pushInit v => exact own_pushWith _ own_init s v
  | pushSlice vs => exact own_pushSliceWith _ own_write s vs
  | pushSliceInit vs => exact own_pushSliceWith _ own_write s vs
  | pushSliceClone vs => exact own_pushSliceWith _ own_assign s vs
  | pushSliceCloneInit vs => exact own_pushSliceWith _ own_init s vs
  | nextItemMut => exact (keepL_grantOne s .P).own
  | nextItemMutInit => exact (keepL_grantOne s .P).own
  | nextSlicesMut n => exact (keepL_grantWindow s .P n).own
  | resetIndex r =>
    simp only [step]; split
    · exact (keepL_applyGen s r Gen.detReset.index' Gen.detReset.cached' Gen.detReset.pub' 0).own
    · cases r
      · exact OwnEq.refl _
      · exact (keepL_applyGen s .W Gen.workReset.index' Gen.workReset.cached' Gen.workReset.pub' 0).own
      · exact (keepL_applyGen s .C Gen.consReset.index' Gen.consReset.cached' Gen.consReset.pub' 0).own
  | peekRef => exact (keepL_grantOne s .C).own
  | peekSlice n => exact (keepL_grantWindowRO s .C n).own
  | peekAvailable => exact ((keepL_refresh s .C).trans (keepL_grantWindowRO _ _ _)).own
  | popMove =>
    simp only [step]; split <;> dsimp only
    · refine OwnEq.trans ?_ (keepL_advanceGlobal _ _ _).own
      exact ((keepL_check s .C 1).trans (keepL_readGuard _ _)).own
    · exact (keepL_check _ _ _).own
  | pop =>
    simp only [step]; split <;> dsimp only
    · exact ((keepL_check s .C 1).trans (keepL_advanceGlobal _ _ _)).own
    · exact (keepL_check _ _ _).own
  | copyItem =>
    simp only [step]; split <;> dsimp only
    · exact ((keepL_check s .C 1).trans (keepL_advanceGlobal _ _ _)).own
    · exact (keepL_check _ _ _).own
  | cloneItem =>
    simp only [step]; split <;> dsimp only
    · exact (((keepL_check s .C 1).trans (keepL_readGuard _ _)).trans (keepL_advanceGlobal _ _ _)).own
    · exact (keepL_check _ _ _).own
  | copySlice n =>
    simp only [step]; split <;> dsimp only
    · exact ((keepL_grantWindow s .C n).trans (keepL_advanceGlobal _ _ _)).own
    · exact (keepL_grantWindow _ _ _).own
  | cloneSlice n =>
    simp only [step]; split <;> dsimp only
    · exact (((keepL_grantWindow s .C n).trans (keepL_foldl_readGuard _ _)).trans (keepL_advanceGlobal _ _ _)).own
    · exact (keepL_grantWindow _ _ _).own
  | detach r => exact (keepL_setIt _ _ _).own
  | attach r => exact ((keepL_applyGen s r Gen.detSync.index' Gen.detSync.cached' Gen.detSync.pub' 0).trans (keepL_setIt _ _ _)).own
  | setIndex r i => exact (keepL_applyGen s r Gen.detSetIndex.index' Gen.detSetIndex.cached' Gen.detSetIndex.pub' i).own
  | goBack r n => exact (keepL_applyGen s r Gen.detGoBack.index' Gen.detGoBack.cached' Gen.detGoBack.pub' n).own
  | syncIndex r => exact (keepL_applyGen s r Gen.detSync.index' Gen.detSync.cached' Gen.detSync.pub' 0).own
  | dropIt r => exact own_dropIter s r
  | resplit w => rfl

-- ---------------------------------------------------------------- whole histories

/-- The life-cycle invariant is preserved by every contract-respecting step. -/
theorem lifeInv_step {s : St} {a : Sp} (ih : LifeInv s.life) (op : Op) (hal : Allowed s a op) : LifeInv (step s op).1.life := by
  by_cases h1 : ∃ ro, op = .dropIt ro
  · obtain ⟨ro, e⟩ := h1; subst e
    simp only [step, life_dropIter]
    apply lifeInv_drop ih ro
    have : (s.it ro).live = true := hal
    cases ro <;> simpa [St.life, St.it] using this
  · by_cases h2 : ∃ w, op = .resplit w
    · obtain ⟨w, e⟩ := h2; subst e
      obtain ⟨hh, hp, hw, hc⟩ := hal
      obtain ⟨c, f1, f2, f3, hf, sf⟩ := ih
      simp only [St.life] at c f1 f2 f3 hf sf
      have c0 : s.liveCount = 0 := by simp [hp, hw, hc, b2n] at c; exact c
      cases w <;> constructor <;> simp [step, St.life, b2n, hh, c0, hw] at f2 ⊢ <;> simp_all
    · rw [life_step s op (fun ro e => h1 ⟨ro, e⟩) (fun w e => h2 ⟨w, e⟩)]; exact ih

theorem LifeInv.dead_after_free {s : St} (h : LifeInv s.life) (hf : s.freed ≠ 0) :
    s.p.live = false ∧ s.w.live = false ∧ s.c.live = false := by
  obtain ⟨c, f1, f2, f3, hf1, sf⟩ := h
  simp only [St.life] at c f1 f2 f3 hf1 sf
  cases hh : s.heap
  · exact absurd (sf hh) hf
  · have := hf1 hh
    by_cases c0 : s.liveCount = 0
    · rw [c0] at c
      cases hp : s.p.live <;> cases hw : s.w.live <;> cases hc : s.c.live <;> simp [hp, hw, hc, b2n] at c ⊢
    · simp only [c0, if_false] at this; exact absurd this hf

theorem run_sticky (s : St) (ops : List Op) : Sticky s (run s ops).1 := by
  induction ops generalizing s with
  | nil => exact Sticky.refl _
  | cons op ops ih => simp only [run]; exact (step_sticky s op).trans (ih _)

def storedAll : List Op → List Out → List Nat
  | op :: ops, o :: os => stored op o ++ storedAll ops os
  | _, _ => []

def handedAll : List Op → List Out → List Nat
  | op :: ops, o :: os => handed op o ++ handedAll ops os
  | _, _ => []

/-- **Conservation over a whole history** (any length, any buffer length, every mix of the owned-item operations,
drops of iterators at any point): if no fault was recorded, then for every token `t`
`in the buffer + destroyed + handed to the caller = there at the start + stored`. -/
theorem ledger_run {s : St} {a : Sp} (h : Rel s a) (hl : LifeInv s.life) (ho : s.owned = true) (ops : List Op)
    (hal : AllowedRun s a ops) (hown : ∀ op ∈ ops, OwnedOp op = true) (hnf : (run s ops).1.fault = none)
    (t : Nat) (ht : t ≠ 0) :
    (run s ops).1.bal t + (handedAll ops (run s ops).2).count t = s.bal t + (storedAll ops (run s ops).2).count t := by
  induction ops generalizing s a with
  | nil => simp [run, handedAll, storedAll]
  | cons op ops ih =>
    obtain ⟨h1, h2⟩ := hal
    simp only [run] at hnf ⊢
    have hf1 : (step s op).1.fault = none := run_sticky _ ops hnf
    have st := ledger_step h op h1 ho (hown op (List.mem_cons_self ..)) hl.dead_after_free hf1 t ht
    have := ih (step_refines h op h1).1 (lifeInv_step hl op h1) (by rw [step_owned]; exact ho) h2
      (fun o ho' => hown o (List.mem_cons_of_mem _ ho')) hnf
    simp only [handedAll, storedAll, List.count_append]
    omega

/-- **Destroyed exactly once.** A history over owned items that starts from a freshly split heap buffer, records no
fault and ends with the buffer released: every non-zero token that was in the buffer at the start or was stored
later — all of them pairwise distinct — has either been destroyed exactly once and never handed out, or handed to
the caller exactly once (`pop_move`) and never destroyed by the buffer. Nothing leaks, nothing is destroyed twice. -/
theorem exactly_once (slots : List Nat) (hasW heap : Bool) (hlen : 1 ≤ slots.length) (hlt : slots.length < 2 ^ 63) (ops : List Op)
    (hal : AllowedRun (St.init slots hasW heap true) (Sp.init slots.length hasW) ops)
    (hown : ∀ op ∈ ops, OwnedOp op = true)
    (hnf : (run (St.init slots hasW heap true) ops).1.fault = none)
    (hrel : (run (St.init slots hasW heap true) ops).1.freed ≠ 0)
    (hnd : (slots.filter (· ≠ 0) ++ storedAll ops (run (St.init slots hasW heap true) ops).2).Nodup)
    (t : Nat) (ht : t ≠ 0) (hmem : t ∈ slots ++ storedAll ops (run (St.init slots hasW heap true) ops).2) :
    (run (St.init slots hasW heap true) ops).1.drops.count t +
      (handedAll ops (run (St.init slots hasW heap true) ops).2).count t = 1 := by
  have := ledger_run (rel_init slots hasW heap true hlen hlt) (lifeInv_init slots hasW heap true) rfl ops hal hown hnf t ht
  have e0 : (St.init slots hasW heap true).bal t = slots.count t := by simp [St.bal, St.inBuf, St.init]
  rw [e0] at this
  have e1 : (run (St.init slots hasW heap true) ops).1.bal t = (run (St.init slots hasW heap true) ops).1.drops.count t := by
    simp [St.bal, St.inBuf, hrel]
  rw [e1] at this
  rw [this, ← count_filter_ne_zero slots t ht, ← List.count_append]
  rw [hnd.count, if_pos]
  rcases List.mem_append.1 hmem with m | m
  · exact List.mem_append_left _ (List.mem_filter.2 ⟨m, by simpa using ht⟩)
  · exact List.mem_append_right _ m

end MRB
