//! Small deterministic PRNG (splitmix64 / xorshift): every random choice of a run derives from one seed.
#[derive(Clone)]
pub struct Rng(pub u64);

impl Rng {
    pub fn new(seed: u64) -> Rng { Rng(seed.wrapping_mul(0x9E3779B97F4A7C15) ^ 0xD1B54A32D192ED03) }
    pub fn next(&mut self) -> u64 {
        self.0 = self.0.wrapping_add(0x9E3779B97F4A7C15);
        let mut z = self.0;
        z = (z ^ (z >> 30)).wrapping_mul(0xBF58476D1CE4E5B9);
        z = (z ^ (z >> 27)).wrapping_mul(0x94D049BB133111EB);
        z ^ (z >> 31)
    }
    /// uniform in 0..n (n > 0)
    pub fn below(&mut self, n: usize) -> usize { (self.next() % n as u64) as usize }
    /// uniform in lo..=hi
    pub fn range(&mut self, lo: usize, hi: usize) -> usize { lo + self.below(hi - lo + 1) }
    pub fn chance(&mut self, num: usize, den: usize) -> bool { self.below(den) < num }
    pub fn pick<'a, T>(&mut self, xs: &'a [T]) -> &'a T { &xs[self.below(xs.len())] }
    /// index chosen with the given weights
    pub fn weighted(&mut self, ws: &[u32]) -> usize {
        let total: u64 = ws.iter().map(|w| *w as u64).sum();
        let mut x = self.next() % total.max(1);
        for (i, w) in ws.iter().enumerate() {
            if x < *w as u64 { return i; }
            x -= *w as u64;
        }
        ws.len() - 1
    }
}
