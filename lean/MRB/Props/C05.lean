/-
  C05 — `available()` never over-reports; requests are all-or-nothing.
-/
import MRB.Seq.Run

namespace MRB.Props.C05
open MRB

/-- Single-threaded, `available()` returns exactly the true availability (distance to the iterator ahead). -/
theorem C05_available_exact {s : St} {a : Sp} (h : Rel s a) (r : Role) (hal : Allowed s a (.available r)) :
    (step s (.available r)).2 = .num (a.avail r) := by
  have := (refresh_spec h r hal.2).2
  simp only [step]; rw [this]

/-- The remembered availability a later request may rely on never exceeds the true one. -/
theorem C05_remembered_never_over {s : St} {a : Sp} (r : Reach s a) (ro : Role) (hr : ro = .W → s.hasW = true) :
    (s.it ro).cached ≤ a.avail ro := r.rel.cached_le ro hr

/-- A request for `n` slots (any `n`, also `0` and `n > len`) is granted exactly when `n ≤ available`,
    whatever the iterator remembered from before. -/
theorem C05_request_iff {s : St} {a : Sp} (h : Rel s a) (r : Role) (n : Nat) (hal : Allowed s a (.sliceExact r n)) :
    (step s (.sliceExact r n)).2 = .none ↔ ¬ n ≤ a.avail r :=
  (grantWindow_spec h r n hal.2).2.2.2.1

/-- A refused request has no effect: no index moves and no slot changes (only the iterator's own remembered
    availability may have been refreshed); the abstract state is unchanged. -/
theorem C05_refusal_no_effect {s : St} {a : Sp} (h : Rel s a) (r : Role) (n : Nat) (hal : Allowed s a (.sliceExact r n))
    (href : ¬ n ≤ a.avail r) :
    (a.step (.sliceExact r n)).1 = a ∧ Rel (step s (.sliceExact r n)).1 a ∧ FrameEq s (step s (.sliceExact r n)).1 ∨
    (a.step (.sliceExact r n)).1 = a ∧ Rel (step s (.sliceExact r n)).1 a := by
  right
  obtain ⟨h1, _, h3, _, _⟩ := grantWindow_spec h r n hal.2
  exact ⟨h3, h1⟩

/-- A refused push hands the caller's value back intact and leaves the specification state unchanged. -/
theorem C05_refused_push_returns_value {s : St} {a : Sp} (h : Rel s a) (v : Nat) (hal : Allowed s a (.push v))
    (hfull : a.avail .P = 0) :
    (step s (.push v)).2 = .err v ∧ (a.step (.push v)).1 = a ∧ Rel (step s (.push v)).1 a := by
  obtain ⟨g1, g2⟩ := pushWith_spec assignSlot_ok h v hal.2
  have : ¬ 1 ≤ a.avail .P := by omega
  simp only [this, if_false] at g1 g2
  exact ⟨g2, by simp [Sp.step, this], g1⟩

/-- `get_workable_slice_multiple_of(k)`, `k ≥ 1`, grants the largest multiple of `k` not above the
    availability, or nothing; `k = 0` panics (in the model as in the code). -/
theorem C05_multiple_of {s : St} {a : Sp} (h : Rel s a) (r : Role) (k : Nat) (hal : Allowed s a (.sliceMultipleOf r k)) :
    (step s (.sliceMultipleOf r k)).2.abs (decide (r = .P)) =
      (if k = 0 then .panic else if a.avail r - a.avail r % k = 0 then .none
       else if r = .P then .granted (a.avail r - a.avail r % k) else .vals (a.window (a.pos r) (a.avail r - a.avail r % k))) := by
  have := (step_refines h (.sliceMultipleOf r k) hal).2
  rw [producerGrant_sliceMultipleOf] at this
  rw [this]
  simp only [Sp.step]
  split
  · rfl
  · split
    · rfl
    · simp only [Sp.grantWin]
      have : a.avail r - a.avail r % k ≤ a.avail r := Nat.sub_le _ _
      simp [this]

/-- Tie to the source: `check(n)` is "remembered ≥ n, else look again", `available()` returns what it remembers,
    and the derived request sizes are the ones the model uses. -/
theorem C05_source_check_and_counts (i c s L n a k : Nat) :
    Gen.check.ret i c s L n a = decide (c ≥ n ∨ a ≥ n) ∧ Gen.check.cached' i c s L n a = (if c ≥ n then c else a) ∧
    Gen.check.index' i c s L n a = i ∧ Gen.check.pub' i c s L n a = none ∧
    Gen.prodAvail.cached' i c s L n a = Gen.prodAvail.ret i c s L n a ∧ Gen.workAvail.cached' i c s L n a = Gen.workAvail.ret i c s L n a ∧
    Gen.consAvail.cached' i c s L n a = Gen.consAvail.ret i c s L n a ∧
    Gen.prodAvail.index' i c s L n a = i ∧ Gen.workAvail.index' i c s L n a = i ∧ Gen.consAvail.index' i c s L n a = i ∧
    Gen.sliceAvail.count 0 0 0 0 0 a = a ∧ Gen.sliceMultipleOf.count 0 0 0 0 k a = a - a % k ∧
    (0 < k → Gen.sliceMultipleOf.safe 0 0 0 0 k a) :=
  ⟨rfl, rfl, rfl, rfl, rfl, rfl, rfl, rfl, rfl, rfl, rfl, rfl, Gen.sliceMultipleOf_safe k a⟩

/-- Non-vacuity: requests of every size against a state whose remembered availability (2) differs from the fresh one (3). -/
example :
    let pre : List Op := [.push 1, .push 2, .peekSlice 2, .push 3]
    let s := (run (St.init [0, 0, 0, 0, 0] false true false) pre).1
    s.c.cached = 2 ∧ (step s (.peekSlice 3)).2 = .win 0 3 0 0 [1, 2, 3] ∧ (step s (.peekSlice 4)).2 = .none ∧
    (step s (.copySlice 0)).2 = .vals [] := by decide

end MRB.Props.C05
