#!/bin/bash
# Builds the framework from files on disk only (offline): translator, Lean development + driver, harness.
set -e
cd "$(dirname "$0")"
export CARGO_NET_OFFLINE=true
mkdir -p .cache evidence replays
(cd rs2lean && cargo build --offline 2>&1 | tail -2)
./rs2lean/target/debug/rs2lean /repo lean/snapshot.json lean/MRB/Gen
(cd lean && lake build 2>&1 | tail -3)
(cd harness && CARGO_TARGET_DIR=../.cache/target-default cargo build --offline --bins 2>&1 | tail -2)
echo "setup done"
