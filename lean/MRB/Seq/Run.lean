/-
  MRB.Seq.Run — from one step to whole histories: initial states, contract-respecting runs, and the
  first-in-first-out law of the specification.
-/
import MRB.Seq.Refine

set_option linter.unusedVariables false

namespace MRB

/-- Every constructor followed by a split yields a state related to the fresh specification state. -/
theorem rel_init (slots : List Nat) (hasW heap owned : Bool) (hlen : 1 ≤ slots.length) (hlt : slots.length < 2 ^ 63) :
    Rel (St.init slots hasW heap owned) (Sp.init slots.length hasW) :=
  { len_pos := hlen, len_eq := rfl, slots_len := rfl, hasW := rfl,
    idxP := by simp [St.init, Sp.init], idxW := by simp [St.init, Sp.init], idxC := by simp [St.init, Sp.init],
    pubP := by simp [St.init, Sp.init], pubW := by simp [St.init, Sp.init], pubC := by simp [St.init, Sp.init],
    detP := rfl, detW := rfl, detC := rfl,
    leP := Nat.le_refl _, leW := Nat.le_refl _, leC := Nat.le_refl _,
    eqP := fun _ => rfl, eqW := fun _ => rfl, eqC := fun _ => rfl,
    ordP := Nat.zero_le _, ordW := fun _ => Nat.le_refl _, ordC := by simp [Sp.init],
    caP := Nat.zero_le _, caW := fun _ => Nat.zero_le _, caC := Nat.zero_le _,
    hist_len := Nat.zero_le _, content := fun q _ hq => absurd hq (Nat.not_lt_zero _), mask_len := rfl, len_lt := hlt }

/-- A history all of whose operations respect the contract at the moment they are issued. -/
def AllowedRun : St → Sp → List Op → Prop
  | _, _, [] => True
  | s, a, op :: ops => Allowed s a op ∧ AllowedRun (step s op).1 (a.step op).1 ops

/-- Run of the specification. -/
def Sp.run (a : Sp) : List Op → Sp × List AOut
  | [] => (a, [])
  | op :: ops =>
      let (a1, o) := a.step op
      let (a2, os) := Sp.run a1 ops
      (a2, o :: os)

def absOuts : List Op → List Out → List AOut
  | op :: ops, o :: os => o.abs op.producerGrant :: absOuts ops os
  | _, _ => []

/-- **Refinement for whole histories**: the physical machine returns, operation by operation, what the
    specification returns, and ends in a related state. No bound on `len`, on counts or on the length. -/
theorem run_refines {s : St} {a : Sp} (h : Rel s a) (ops : List Op) (hal : AllowedRun s a ops) :
    Rel (run s ops).1 (a.run ops).1 ∧ absOuts ops (run s ops).2 = (a.run ops).2 := by
  induction ops generalizing s a with
  | nil => exact ⟨h, rfl⟩
  | cons op ops ih =>
    obtain ⟨h1, h2⟩ := hal
    obtain ⟨r1, r2⟩ := step_refines h op h1
    obtain ⟨i1, i2⟩ := ih r1 h2
    simp only [run, Sp.run, absOuts]
    exact ⟨i1, by rw [r2, i2]⟩

/-- States reachable by contract-respecting histories from a fresh split. -/
inductive Reach : St → Sp → Prop
  | init (slots : List Nat) (hasW heap owned : Bool) (hlen : 1 ≤ slots.length) (hlt : slots.length < 2 ^ 63) :
      Reach (St.init slots hasW heap owned) (Sp.init slots.length hasW)
  | step {s a} (op : Op) : Reach s a → Allowed s a op → Reach (step s op).1 (a.step op).1

theorem Reach.rel {s : St} {a : Sp} (r : Reach s a) : Rel s a := by
  induction r with
  | init slots hasW heap owned hlen hlt => exact rel_init slots hasW heap owned hlen hlt
  | step op _ hal ih => exact (step_refines ih op hal).1

/-! ### first in, first out -/

/-- The entries of `l` at the positions marked `true`. -/
def pick : List Bool → List Nat → List Nat
  | b :: bs, v :: vs => if b then v :: pick bs vs else pick bs vs
  | _, _ => []

theorem pick_append (m1 m2 : List Bool) (l1 l2 : List Nat) (h : m1.length = l1.length) :
    pick (m1 ++ m2) (l1 ++ l2) = pick m1 l1 ++ pick m2 l2 := by
  induction m1 generalizing l1 with
  | nil => cases l1 with
    | nil => rfl
    | cons _ _ => simp at h
  | cons b bs ih => cases l1 with
    | nil => simp at h
    | cons v vs =>
      simp only [List.cons_append, pick]
      have := ih vs (by simpa using h)
      split <;> simp [this]

theorem pick_replicate_true (l : List Nat) : pick (List.replicate l.length true) l = l := by
  induction l with
  | nil => rfl
  | cons v vs ih => simp [List.replicate_succ, pick, ih]

theorem pick_replicate_false (n : Nat) (l : List Nat) : pick (List.replicate n false) l = [] := by
  induction n generalizing l with
  | zero => cases l <;> rfl
  | succ n ih => cases l with
    | nil => rfl
    | cons v vs => simp [List.replicate_succ, pick, ih]

theorem pick_take_of_le (m : List Bool) (l : List Nat) : pick m l = pick m (l.take m.length) := by
  induction m generalizing l with
  | nil => cases l <;> rfl
  | cons b bs ih => cases l with
    | nil => rfl
    | cons v vs => simp only [List.length_cons, List.take_succ_cons, pick]; rw [ih vs]

/-- **FIFO law**: what the consumer has obtained so far is exactly the accepted items below its published
    position, in push order, minus the positions an explicit `reset_index` skipped. -/
def Sp.Fifo (a : Sp) : Prop := a.delivered = pick a.mask a.hist

theorem window_eq_drop_take (a : Sp) (q n : Nat) (h : q + n ≤ a.hist.length) : a.window q n = (a.hist.drop q).take n := by
  unfold Sp.window Sp.valAt
  apply List.ext_getElem
  · simp; omega
  · intro i h1 h2
    simp at h1
    simp [List.getD_eq_getElem?_getD, List.getElem?_eq_getElem (show q + i < a.hist.length by omega)]

theorem take_append_drop_take (l : List Nat) (p n : Nat) (h : p + n ≤ l.length) : l.take (p + n) = l.take p ++ (l.drop p).take n := by
  rw [List.take_add]

theorem pick_congr_take (m : List Bool) (l l' : List Nat) (h : l.take m.length = l'.take m.length) : pick m l = pick m l' := by
  rw [pick_take_of_le m l, pick_take_of_le m l', h]

end MRB

namespace MRB

theorem Sp.fifo_of_eq {a b : Sp} (hF : a.Fifo) (h1 : b.delivered = a.delivered) (h2 : b.mask = a.mask)
    (h3 : b.hist.take a.mask.length = a.hist.take a.mask.length) : b.Fifo := by
  unfold Sp.Fifo at *
  rw [h1, h2, hF]
  exact pick_congr_take _ _ _ h3.symm

theorem Sp.fifo_publishC {a : Sp} (hF : a.Fifo) (hm : a.mask.length = a.pubC) (v : Nat) (h1 : a.pubC ≤ v) (h2 : v ≤ a.hist.length) :
    (a.publish .C v).Fifo := by
  unfold Sp.Fifo at *
  simp only [Sp.publish]
  rw [hF, window_eq_drop_take _ _ _ (by omega)]
  conv => rhs; rw [← List.take_append_drop a.pubC a.hist]
  rw [pick_append _ _ _ _ (by simp [hm]; omega)]
  congr 1
  · rw [pick_take_of_le a.mask a.hist, hm]
  · symm
    rw [pick_take_of_le]
    simp only [List.length_replicate]
    generalize hL : (a.hist.drop a.pubC).take (v - a.pubC) = L
    have : L.length = v - a.pubC := by rw [← hL]; simp; omega
    rw [← this]; exact pick_replicate_true L

theorem Sp.fifo_skipC {a : Sp} (hF : a.Fifo) (hm : a.mask.length = a.pubC) (n : Nat) (h2 : a.pubC ≤ a.hist.length) (b : Sp)
    (hd : b.delivered = a.delivered) (hmask : b.mask = a.mask ++ List.replicate n false) (hh : b.hist = a.hist) : b.Fifo := by
  unfold Sp.Fifo at *
  rw [hd, hmask, hh, hF]
  conv => rhs; rw [← List.take_append_drop a.pubC a.hist]
  rw [pick_append _ _ _ _ (by simp [hm]; omega), pick_replicate_false, List.append_nil, pick_take_of_le a.mask a.hist, hm]

theorem take_set_of_le (l : List Nat) (n q v : Nat) (h : n ≤ q) : (l.set q v).take n = l.take n := by
  apply List.ext_getElem?
  intro i
  simp only [List.getElem?_take]
  split
  · rw [List.getElem?_set_ne (by omega)]
  · rfl

theorem take_take_append (l vs : List Nat) (p n : Nat) (h : n ≤ p) (hp : p ≤ l.length) : (l.take p ++ vs).take n = l.take n := by
  rw [List.take_append_of_le_length (by simp; omega), List.take_take, Nat.min_eq_left h]

/-- The producer's move and edits of items in flight never touch what has been delivered. -/
theorem Sp.fifo_move {s : St} {a : Sp} (h : Rel s a) (hF : a.Fifo) (r : Role) (n : Nat) (vs : List Nat)
    (hn : n ≤ a.avail r) (hW : r = .W → a.hasW = true) : (a.move r n vs).Fifo := by
  obtain ⟨c1, c2, c3⟩ := h.chain
  have hm := h.mask_len; have hl := h.hist_len
  have hpp : a.pubC ≤ a.posP := h.availP_le.2
  cases r
  · -- producer
    apply Sp.fifo_of_eq hF
    · simp only [Sp.move]; split <;> rfl
    · simp only [Sp.move]; split <;> rfl
    · have : (a.move .P n vs).hist = a.hist.take a.posP ++ vs := by simp only [Sp.move]; split <;> rfl
      rw [this, hm, take_take_append _ _ _ _ hpp hl]
  · apply Sp.fifo_of_eq hF
    · simp only [Sp.move]; split <;> rfl
    · simp only [Sp.move]; split <;> rfl
    · have : (a.move .W n vs).hist = a.hist := by simp only [Sp.move]; split <;> rfl
      rw [this]
  · have hoc := h.ordC
    have hav : n ≤ (if a.hasW then a.pubW else a.pubP) - a.posC := by simpa [Sp.avail, Sp.limit, Sp.pos] using hn
    have ho2 := h.ordW; have hlw := h.leW; have hlp := h.leP
    have : a.posC + n ≤ a.hist.length := by cases hh : a.hasW <;> simp [hh] at hav hoc ho2 <;> omega
    by_cases hd : a.detC = true
    · have e : a.move .C n vs = { a with posC := a.posC + n } := by simp [Sp.move, Sp.det, hd, Sp.setPos, Sp.pos]
      rw [e]; exact hF
    · have e : a.move .C n vs = ({ a with posC := a.posC + n } : Sp).publish .C (a.posC + n) := by
        simp [Sp.move, Sp.det, hd, Sp.setPos, Sp.pos]
      rw [e]
      exact Sp.fifo_publishC (a := { a with posC := a.posC + n }) hF hm (a.posC + n) (by simp; omega) this

end MRB

namespace MRB

theorem Sp.grantOne_fst (a : Sp) (r : Role) : (a.grantOne r).1 = a := by unfold Sp.grantOne; split <;> rfl
theorem Sp.grantWin_fst (a : Sp) (r : Role) (n : Nat) : (a.grantWin r n).1 = a := by unfold Sp.grantWin; split <;> rfl

/-- The FIFO law is preserved by every contract-respecting step. -/
theorem fifo_step {s : St} {a : Sp} (h : Rel s a) (op : Op) (hal : Allowed s a op) (hF : a.Fifo) : (a.step op).1.Fifo := by
  obtain ⟨c1, c2, c3⟩ := h.chain
  have hm := h.mask_len; have hl := h.hist_len
  have hpp : a.pubC ≤ a.posP := h.availP_le.2
  cases op with
  | available r => exact hF
  | advance r n vs =>
    obtain ⟨_, hr, hn, _⟩ := hal
    exact Sp.fifo_move h hF r n vs hn (fun e => by rw [h.hasW]; exact hr e)
  | getWorkable r => simp only [Sp.step, Sp.grantOne_fst]; exact hF
  | sliceExact r n => simp only [Sp.step, Sp.grantWin_fst]; exact hF
  | sliceAvail r => simp only [Sp.step]; split <;> simp only [Sp.grantWin_fst] <;> exact hF
  | sliceMultipleOf r k =>
    simp only [Sp.step]; split
    · exact hF
    · split <;> simp only [Sp.grantWin_fst] <;> exact hF
  | poke r k v =>
    obtain ⟨_, hr, hk⟩ := hal
    simp only [Sp.step, Sp.store]
    cases r
    · exact hF
    · obtain ⟨w1, _⟩ := h.window_in_flight .W hr (by simp) k hk
      exact Sp.fifo_of_eq hF rfl rfl (by simp only [hm]; exact take_set_of_le _ _ _ _ w1)
    · obtain ⟨w1, _⟩ := h.window_in_flight .C hr (by simp) k hk
      exact Sp.fifo_of_eq hF rfl rfl (by simp only [hm]; exact take_set_of_le _ _ _ _ w1)
  | push v =>
    simp only [Sp.step]; split
    · rename_i hav; exact Sp.fifo_move h hF .P 1 [v] hav (by simp)
    · exact hF
  | pushInit v =>
    simp only [Sp.step]; split
    · rename_i hav; exact Sp.fifo_move h hF .P 1 [v] hav (by simp)
    · exact hF
  | pushSlice vs =>
    simp only [Sp.step]; split
    · rename_i hav; exact Sp.fifo_move h hF .P vs.length vs hav (by simp)
    · exact hF
  | pushSliceInit vs =>
    simp only [Sp.step]; split
    · rename_i hav; exact Sp.fifo_move h hF .P vs.length vs hav (by simp)
    · exact hF
  | pushSliceClone vs =>
    simp only [Sp.step]; split
    · rename_i hav; exact Sp.fifo_move h hF .P vs.length vs hav (by simp)
    · exact hF
  | pushSliceCloneInit vs =>
    simp only [Sp.step]; split
    · rename_i hav; exact Sp.fifo_move h hF .P vs.length vs hav (by simp)
    · exact hF
  | nextItemMut => simp only [Sp.step, Sp.grantOne_fst]; exact hF
  | nextItemMutInit => simp only [Sp.step, Sp.grantOne_fst]; exact hF
  | nextSlicesMut n => simp only [Sp.step, Sp.grantWin_fst]; exact hF
  | resetIndex r =>
    obtain ⟨_, hr, hP⟩ := hal
    cases r
    · exact absurd rfl hP
    · simp only [Sp.step]; split <;> exact hF
    · simp only [Sp.step]
      split
      · exact hF
      · exact Sp.fifo_skipC hF hm _ (by omega) _ rfl rfl rfl
  | peekRef => simp only [Sp.step, Sp.grantOne_fst]; exact hF
  | peekSlice n => simp only [Sp.step, Sp.grantWin_fst]; exact hF
  | peekAvailable => simp only [Sp.step, Sp.grantWin_fst]; exact hF
  | popMove =>
    simp only [Sp.step]; split
    · rename_i hav; exact Sp.fifo_move h hF .C 1 [] hav (by simp)
    · exact hF
  | pop =>
    simp only [Sp.step]; split
    · rename_i hav; exact Sp.fifo_move h hF .C 1 [] hav (by simp)
    · exact hF
  | copyItem =>
    simp only [Sp.step]; split
    · rename_i hav; exact Sp.fifo_move h hF .C 1 [] hav (by simp)
    · exact hF
  | cloneItem =>
    simp only [Sp.step]; split
    · rename_i hav; exact Sp.fifo_move h hF .C 1 [] hav (by simp)
    · exact hF
  | copySlice n =>
    simp only [Sp.step]; split
    · rename_i hav; exact Sp.fifo_move h hF .C n [] hav (by simp)
    · exact hF
  | cloneSlice n =>
    simp only [Sp.step]; split
    · rename_i hav; exact Sp.fifo_move h hF .C n [] hav (by simp)
    · exact hF
  | detach r => cases r <;> exact hF
  | attach r =>
    simp only [Sp.step]
    cases r
    · exact hF
    · exact hF
    · have hoc := h.ordC; have ho2 := h.ordW; have hlw := h.leW; have hlp := h.leP
      have : a.posC ≤ a.hist.length := by cases hh : a.hasW <;> simp [hh] at hoc ho2 <;> omega
      exact Sp.fifo_publishC hF hm a.posC c2 this
  | setIndex r i => cases r <;> exact hF
  | goBack r n => cases r <;> exact hF
  | syncIndex r =>
    simp only [Sp.step]
    cases r
    · exact hF
    · exact hF
    · have hoc := h.ordC; have ho2 := h.ordW; have hlw := h.leW; have hlp := h.leP
      have : a.posC ≤ a.hist.length := by cases hh : a.hasW <;> simp [hh] at hoc ho2 <;> omega
      exact Sp.fifo_publishC hF hm a.posC c2 this
  | dropIt r => exact hF
  | resplit w => rfl

/-- In every reachable state the FIFO law holds. -/
theorem Reach.fifo {s : St} {a : Sp} (r : Reach s a) : a.Fifo := by
  induction r with
  | init slots hasW heap owned hlen => rfl
  | step op r hal ih => exact fifo_step r.rel op hal ih

end MRB
