/-
  MRB.Seq.Arith — modular-arithmetic lemmas and the facts about the *generated* kernel
  (`MRB.Gen.*`, regenerated from the Rust sources on every run) that the refinement proof needs.
  If the source changes one of these formulas, the corresponding lemma stops checking.
-/
import MRB.Gen.Kernel
import MRB.Gen.Tables

set_option linter.unusedVariables false

namespace MRB

/-- Adding less than one lap to a reduced index wraps at most once. -/
theorem wrap_once {r d L : Nat} (hr : r < L) (hd : d ≤ L) :
    (if r + d ≥ L then r + d - L else r + d) = (r + d) % L := by
  split
  · rename_i h
    rw [Nat.mod_eq_sub_mod h, Nat.mod_eq_of_lt (by omega)]
  · rename_i h
    rw [Nat.mod_eq_of_lt (by omega)]

theorem add_mod_wrap (p n L : Nat) (hL : 0 < L) (hn : n ≤ L) :
    (if p % L + n ≥ L then p % L + n - L else p % L + n) = (p + n) % L := by
  rw [wrap_once (Nat.mod_lt _ hL) hn, Nat.mod_add_mod]

/-- The ring distance computed from two reduced indices is the logical distance, when that is below one lap. -/
theorem mod_dist {a b L : Nat} (hL : 0 < L) (hab : a ≤ b) (hd : b - a < L) :
    (if a % L ≤ b % L then b % L - a % L else L - a % L + b % L) = b - a := by
  have hb : b = a + (b - a) := by omega
  have hr : a % L < L := Nat.mod_lt _ hL
  have h1 : b % L = (a % L + (b - a)) % L := by
    conv => lhs; rw [hb]
    rw [← Nat.mod_add_mod]
  have h2 := wrap_once (r := a % L) (d := b - a) (L := L) hr (by omega)
  rw [← h2] at h1
  split at h1 <;> (rw [h1]; split <;> omega)

/-- Two logical positions less than one lap apart that fall on the same slot are equal. -/
theorem mod_inj_window {q q' L : Nat} (hL : 0 < L) (h : q % L = q' % L) (hle : q ≤ q') (hlt : q' - q < L) : q = q' := by
  have := mod_dist hL hle hlt
  rw [h] at this
  simp at this
  omega

theorem mod_ne_of_lt_lap {q q' L : Nat} (hL : 0 < L) (hne : q ≠ q') (hlt : q' - q < L) (hlt' : q - q' < L) : q % L ≠ q' % L := by
  intro h
  rcases Nat.le_total q q' with hle | hle
  · exact hne (mod_inj_window hL h hle hlt)
  · exact hne (mod_inj_window hL h.symm hle hlt').symm

namespace Gen

/-- Closes the side conditions (`.safe`) of a generated definition whatever their number, order and spelling: split the
conjunction, move the path conditions into the context, split conditionals, finish by linear arithmetic. -/
macro "gen_arith" : tactic =>
  `(tactic| ((repeat' apply And.intro) <;> ((repeat' split) <;> intros <;> (repeat' split) <;> first | trivial | omega)))

/-! ### `_available` of the three roles -/

theorem consAvail_ret_eq (p l L : Nat) (hL : 0 < L) (hL63 : L < 2 ^ 63) (hpl : p ≤ l) (hd : l - p < L) (c n a : Nat) :
    consAvail.ret (p % L) c (l % L) L n a = l - p := by
  unfold consAvail.ret
  have := mod_dist hL hpl hd
  have h1 : p % L < L := Nat.mod_lt _ hL
  have h2 : l % L < L := Nat.mod_lt _ hL
  split at this <;> (try split) <;> (try split) <;> omega

theorem consAvail_cached_eq (i c s L n a : Nat) : consAvail.cached' i c s L n a = consAvail.ret i c s L n a := by
  first | rfl | (unfold consAvail.cached' consAvail.ret; rfl)

theorem workAvail_ret_eq (p l L : Nat) (hL : 0 < L) (hL63 : L < 2 ^ 63) (hpl : p ≤ l) (hd : l - p < L) (c n a : Nat) :
    workAvail.ret (p % L) c (l % L) L n a = l - p := by
  unfold workAvail.ret
  have := mod_dist hL hpl hd
  have h1 : p % L < L := Nat.mod_lt _ hL
  have h2 : l % L < L := Nat.mod_lt _ hL
  split at this <;> (try split) <;> (try split) <;> omega

theorem workAvail_cached_eq (i c s L n a : Nat) : workAvail.cached' i c s L n a = workAvail.ret i c s L n a := by
  first | rfl | (unfold workAvail.cached' workAvail.ret; rfl)

/-- The producer sees the distance to the consumer *behind* it, minus the one slot that stays free. -/
theorem prodAvail_ret_eq (p l L : Nat) (hL : 0 < L) (hL63 : L < 2 ^ 63) (hlp : l ≤ p) (hd : p - l < L) (c n a : Nat) :
    prodAvail.ret (p % L) c (l % L) L n a = l + (L - 1) - p := by
  unfold prodAvail.ret
  have := mod_dist hL hlp hd
  have h1 : p % L < L := Nat.mod_lt _ hL
  have h2 : l % L < L := Nat.mod_lt _ hL
  split at this <;> (try split) <;> (try split) <;> omega

theorem prodAvail_cached_eq (i c s L n a : Nat) : prodAvail.cached' i c s L n a = prodAvail.ret i c s L n a := by
  first | rfl | (unfold prodAvail.cached' prodAvail.ret; rfl)

/-- No unchecked subtraction/addition in `_available` can go wrong for in-range indices. -/
theorem prodAvail_safe (i s L : Nat) (hi : i < L) (hs : s < L) (hL : L < 2 ^ 63) (c n a : Nat) : prodAvail.safe i c s L n a := by
  unfold prodAvail.safe; gen_arith

theorem workAvail_safe (i s L : Nat) (hi : i < L) (hs : s < L) (hL : L < 2 ^ 63) (c n a : Nat) : workAvail.safe i c s L n a := by
  unfold workAvail.safe; gen_arith

theorem consAvail_safe (i s L : Nat) (hi : i < L) (hs : s < L) (hL : L < 2 ^ 63) (c n a : Nat) : consAvail.safe i c s L n a := by
  unfold consAvail.safe; gen_arith

/-! ### `advance_local`, `_advance`, `check` -/

theorem advanceLocal_index_eq (p n L : Nat) (hL : 0 < L) (hn : n ≤ L) (c s a : Nat) :
    advanceLocal.index' (p % L) c s L n a = (p + n) % L := by
  unfold advanceLocal.index'
  first
    | exact add_mod_wrap p n L hL hn
    | exact Nat.mod_add_mod p L n
    | (have key := add_mod_wrap p n L hL hn
       have h1 : p % L < L := Nat.mod_lt _ hL
       split at key <;> (repeat' split) <;> omega)

theorem advanceLocal_cached_eq (i c s L n a : Nat) : advanceLocal.cached' i c s L n a = c - n := by
  unfold advanceLocal.cached'; omega

theorem advanceLocal_safe (i c s L n a : Nat) (hi : i < L) (hn : n ≤ L) (hL : L < 2 ^ 63) : advanceLocal.safe i c s L n a := by
  unfold advanceLocal.safe; gen_arith

theorem advance_pub_eq (i c s L n a : Nat) : advance.pub' i c s L n a = some (advance.index' i c s L n a) := rfl
theorem advance_index_eq (i c s L n a : Nat) : advance.index' i c s L n a = advanceLocal.index' i c s L n a := rfl
theorem advance_cached_eq (i c s L n a : Nat) : advance.cached' i c s L n a = c - n := rfl

theorem check_ret_eq (i c s L n a : Nat) : check.ret i c s L n a = decide (c ≥ n ∨ a ≥ n) := by
  unfold check.ret; first | rfl | (simp only [decide_eq_decide]; (try split) <;> omega)
theorem check_cached_eq (i c s L n a : Nat) : check.cached' i c s L n a = if c ≥ n then c else a := by
  unfold check.cached'; first | rfl | ((try split) <;> (try split) <;> omega)
theorem check_index_eq (i c s L n a : Nat) : check.index' i c s L n a = i := rfl

/-! ### detached moves -/

theorem detGoBack_index_eq (p n L : Nat) (hL : 0 < L) (hn : n ≤ p) (hnL : n ≤ L) (c s a : Nat) :
    detGoBack.index' (p % L) c s L n a = (p - n) % L := by
  unfold detGoBack.index'
  have hd := mod_dist (a := p - n) (b := p) hL (by omega)
  have h1 : p % L < L := Nat.mod_lt _ hL
  have h2 : (p - n) % L < L := Nat.mod_lt _ hL
  by_cases hnl : n = L
  · subst hnl
    have : (p - n) % n = p % n := by
      have : p = (p - n) + n := by omega
      conv => rhs; rw [this]
      simp
    rw [this]; (repeat' split) <;> omega
  · have hd := hd (by omega)
    split at hd <;> (repeat' split) <;> omega

theorem detGoBack_cached_eq (i c s L n a : Nat) : detGoBack.cached' i c s L n a = c + n := by
  unfold detGoBack.cached'; omega
theorem detGoBack_pub_eq (i c s L n a : Nat) : detGoBack.pub' i c s L n a = none := rfl

theorem adetGoBack_eq_detGoBack (i c s L n a : Nat) :
    adetGoBack.index' i c s L n a = detGoBack.index' i c s L n a ∧ adetGoBack.cached' i c s L n a = detGoBack.cached' i c s L n a ∧
    adetGoBack.pub' i c s L n a = detGoBack.pub' i c s L n a := by
  refine ⟨?_, ?_, ?_⟩
  · first | rfl | (unfold adetGoBack.index' detGoBack.index'; (repeat' split) <;> omega)
  · first | rfl | (unfold adetGoBack.cached' detGoBack.cached'; (repeat' split) <;> omega)
  · rfl

theorem detGoBack_safe (p n L c : Nat) (hL : 0 < L) (hL63 : L < 2 ^ 63) (hn : n ≤ p) (hnL : n ≤ L) (hc : c + n < 2 ^ 64) (s a : Nat) :
    detGoBack.safe (p % L) c s L n a := by
  unfold detGoBack.safe
  have h1 : p % L < L := Nat.mod_lt _ hL
  gen_arith

/-! ### slice windows -/

/-- Element `k` of a granted window of `n ≤ len` slots is ring position `(index + k) mod len`, inside the storage. -/
theorem nextChunkMut_cover (i L n k : Nat) (hi : i < L) (hn : n ≤ L) (hk : k < n) :
    (if k < nextChunkMut.headLen i 0 0 L n 0 then nextChunkMut.headOff i 0 0 L n 0 + k
     else nextChunkMut.tailOff i 0 0 L n 0 + (k - nextChunkMut.headLen i 0 0 L n 0)) = (i + k) % L := by
  unfold nextChunkMut.headLen nextChunkMut.headOff nextChunkMut.tailOff
  have := wrap_once (r := i) (d := k) (L := L) hi (by omega)
  split at this <;> split <;> (try split) <;> omega

theorem nextChunk_cover (i L n k : Nat) (hi : i < L) (hn : n ≤ L) (hk : k < n) :
    (if k < nextChunk.headLen i 0 0 L n 0 then nextChunk.headOff i 0 0 L n 0 + k
     else nextChunk.tailOff i 0 0 L n 0 + (k - nextChunk.headLen i 0 0 L n 0)) = (i + k) % L := by
  unfold nextChunk.headLen nextChunk.headOff nextChunk.tailOff
  have := wrap_once (r := i) (d := k) (L := L) hi (by omega)
  split at this <;> split <;> (try split) <;> omega

theorem nextChunkMut_lens (i L n : Nat) (hi : i < L) (hn : n ≤ L) :
    nextChunkMut.headLen i 0 0 L n 0 + nextChunkMut.tailLen i 0 0 L n 0 = n ∧
    nextChunkMut.headOff i 0 0 L n 0 + nextChunkMut.headLen i 0 0 L n 0 ≤ L ∧
    nextChunkMut.tailOff i 0 0 L n 0 + nextChunkMut.tailLen i 0 0 L n 0 ≤ L ∧
    nextChunkMut.headOff i 0 0 L n 0 = i ∧ nextChunkMut.tailOff i 0 0 L n 0 = 0 := by
  unfold nextChunkMut.headLen nextChunkMut.tailLen nextChunkMut.headOff nextChunkMut.tailOff
  refine ⟨?_, ?_, ?_, ?_, ?_⟩ <;> (try split) <;> omega

theorem nextChunk_lens (i L n : Nat) (hi : i < L) (hn : n ≤ L) :
    nextChunk.headLen i 0 0 L n 0 + nextChunk.tailLen i 0 0 L n 0 = n ∧
    nextChunk.headOff i 0 0 L n 0 + nextChunk.headLen i 0 0 L n 0 ≤ L ∧
    nextChunk.tailOff i 0 0 L n 0 + nextChunk.tailLen i 0 0 L n 0 ≤ L ∧
    nextChunk.headOff i 0 0 L n 0 = i ∧ nextChunk.tailOff i 0 0 L n 0 = 0 := by
  unfold nextChunk.headLen nextChunk.tailLen nextChunk.headOff nextChunk.tailOff
  refine ⟨?_, ?_, ?_, ?_, ?_⟩ <;> (try split) <;> omega

theorem nextChunkMut_safe (i L n : Nat) (hi : i < L) (hn : n ≤ L) (hL : L < 2 ^ 63) : nextChunkMut.safe i 0 0 L n 0 := by
  unfold nextChunkMut.safe; gen_arith

theorem nextChunk_safe (i L n : Nat) (hi : i < L) (hn : n ≤ L) (hL : L < 2 ^ 63) : nextChunk.safe i 0 0 L n 0 := by
  unfold nextChunk.safe; gen_arith

/-- The mirrored (vmem) form hands out one slice `[index, index+n)` of the doubled address range. -/
theorem nextChunkVm_window (i L n : Nat) (hi : i < L) (hn : n ≤ L) :
    nextChunkMutVm.headOff i 0 0 L n 0 = i ∧ nextChunkMutVm.headLen i 0 0 L n 0 = n ∧ nextChunkMutVm.tailLen i 0 0 L n 0 = 0 ∧
    nextChunkMutVm.headOff i 0 0 L n 0 + nextChunkMutVm.headLen i 0 0 L n 0 ≤ 2 * L ∧
    nextChunkVm.headOff i 0 0 L n 0 = i ∧ nextChunkVm.headLen i 0 0 L n 0 = n ∧ nextChunkVm.tailLen i 0 0 L n 0 = 0 := by
  unfold nextChunkMutVm.headOff nextChunkMutVm.headLen nextChunkMutVm.tailLen nextChunkVm.headOff nextChunkVm.headLen nextChunkVm.tailLen
  refine ⟨rfl, rfl, rfl, ?_, rfl, rfl, rfl⟩; omega

/-! ### derived request sizes -/

theorem sliceAvail_count_eq (a : Nat) : sliceAvail.count 0 0 0 0 0 a = a := rfl
theorem sliceMultipleOf_count_eq (k a : Nat) : sliceMultipleOf.count 0 0 0 0 k a = a - a % k := rfl
theorem sliceMultipleOf_safe (k a : Nat) (hk : 0 < k) : sliceMultipleOf.safe 0 0 0 0 k a := by
  unfold sliceMultipleOf.safe; (repeat' apply And.intro) <;> first | exact hk | exact Nat.mod_le _ _

/-- `get_page_size_mul`: the least multiple of the page size that is at least the request. -/
theorem pageSizeMul_spec (req ps : Nat) (hps : 0 < ps) :
    ps ∣ pageSizeMul 0 0 0 ps req 0 ∧ req ≤ pageSizeMul 0 0 0 ps req 0 ∧ pageSizeMul 0 0 0 ps req 0 < req + ps := by
  unfold pageSizeMul
  -- quotient/remainder facts for the two usual spellings (`div_ceil`, or "one more page if there is a remainder")
  have a1 := Nat.div_add_mod req ps
  have a2 := Nat.mod_lt req hps
  have b1 := Nat.div_add_mod (req + ps - 1) ps
  have b2 := Nat.mod_lt (req + ps - 1) hps
  have a1' : req / ps * ps + req % ps = req := by rw [Nat.mul_comm]; exact a1
  have b1' : (req + ps - 1) / ps * ps + (req + ps - 1) % ps = req + ps - 1 := by rw [Nat.mul_comm]; exact b1
  refine ⟨?_, ?_, ?_⟩
  · first
      | exact Nat.dvd_mul_left _ _
      | exact Nat.dvd_mul_right _ _
      | (split <;> first
          | exact Nat.dvd_of_mod_eq_zero ‹_›
          | exact ⟨req / ps, by omega⟩
          | exact ⟨req / ps + 1, by rw [Nat.mul_add, Nat.mul_one]; omega⟩)
  all_goals ((try split) <;> (try simp only [Nat.add_mul, Nat.mul_add, Nat.one_mul, Nat.mul_one]) <;> omega)

end Gen
end MRB
