/-
  C13 — all buffer variants behave identically on the same single-threaded history.
  The model has a single semantics for all variants; what differs in the code is (a) the two `IterManager`
  implementations (atomics vs plain cells), whose accessor tables are regenerated and compared here, (b) the two
  storages and the split functions, which the correspondence check runs against that single model on every variant.
-/
import MRB.Seq.Run

namespace MRB.Props.C13
open MRB

/-- What an accessor does, forgetting *how* (atomic with some ordering vs plain). -/
inductive AbsKind | rd | wr | inc | dec
  deriving DecidableEq, Repr

def absAcc (a : Acc) : Loc × AbsKind × Bool :=
  (a.loc, (match a.kind with
    | .load | .read => .rd | .store | .write => .wr | .fetchAdd | .addAssign => .inc | .fetchSub | .subAssign => .dec), a.guarded)

/-- Getter by getter and setter by setter, the local buffer touches the same field in the same way as the concurrent one. -/
theorem C13_tables_agree :
    Gen.concAcc.prodIndex.map absAcc = Gen.localAcc.prodIndex.map absAcc ∧
    Gen.concAcc.workIndex.map absAcc = Gen.localAcc.workIndex.map absAcc ∧
    Gen.concAcc.consIndex.map absAcc = Gen.localAcc.consIndex.map absAcc ∧
    Gen.concAcc.setProdIndex.map absAcc = Gen.localAcc.setProdIndex.map absAcc ∧
    Gen.concAcc.setWorkIndex.map absAcc = Gen.localAcc.setWorkIndex.map absAcc ∧
    Gen.concAcc.setConsIndex.map absAcc = Gen.localAcc.setConsIndex.map absAcc ∧
    Gen.concAcc.prodAlive.map absAcc = Gen.localAcc.prodAlive.map absAcc ∧
    Gen.concAcc.workAlive.map absAcc = Gen.localAcc.workAlive.map absAcc ∧
    Gen.concAcc.consAlive.map absAcc = Gen.localAcc.consAlive.map absAcc ∧
    Gen.concAcc.setProdAlive.map absAcc = Gen.localAcc.setProdAlive.map absAcc ∧
    Gen.concAcc.setWorkAlive.map absAcc = Gen.localAcc.setWorkAlive.map absAcc ∧
    Gen.concAcc.setConsAlive.map absAcc = Gen.localAcc.setConsAlive.map absAcc :=
  ⟨rfl, rfl, rfl, rfl, rfl, rfl, rfl, rfl, rfl, rfl, rfl, rfl⟩

/-- Each accessor touches the field its name says (both variants), and "was I the last one" is the same test:
    old value 1 (atomic decrement) = new value 0 (plain decrement then read). -/
theorem C13_accessors_touch_named_fields :
    Gen.localAcc.prodIndex.map (·.loc) = [.prodIdx] ∧ Gen.localAcc.workIndex.map (·.loc) = [.workIdx] ∧ Gen.localAcc.consIndex.map (·.loc) = [.consIdx] ∧
    Gen.localAcc.setProdIndex.map (·.loc) = [.prodIdx] ∧ Gen.localAcc.setWorkIndex.map (·.loc) = [.workIdx] ∧ Gen.localAcc.setConsIndex.map (·.loc) = [.consIdx] ∧
    Gen.localAcc.prodAlive.map (·.loc) = [.prodAlive] ∧ Gen.localAcc.workAlive.map (·.loc) = [.workAlive] ∧ Gen.localAcc.consAlive.map (·.loc) = [.consAlive] ∧
    Gen.localAcc.setProdAlive.map (·.loc) = [.aliveIters, .prodAlive] ∧ Gen.localAcc.setWorkAlive.map (·.loc) = [.aliveIters, .workAlive] ∧
    Gen.localAcc.setConsAlive.map (·.loc) = [.aliveIters, .consAlive] ∧
    Gen.concAcc.releaseIter.map absAcc = [(.aliveIters, .dec, false)] ∧ Gen.concAcc.releaseIterResult = .oldEq 1 ∧
    Gen.localAcc.releaseIter.map absAcc = [(.aliveIters, .dec, false), (.aliveIters, .rd, false)] ∧ Gen.localAcc.releaseIterResult = .newEq 0 :=
  ⟨rfl, rfl, rfl, rfl, rfl, rfl, rfl, rfl, rfl, rfl, rfl, rfl, rfl, rfl, rfl, rfl⟩

/-- The async detached wrapper moves exactly like the sync one. -/
theorem C13_async_detached_eq_sync (i c s L n a : Nat) :
    Gen.adetGoBack.index' i c s L n a = Gen.detGoBack.index' i c s L n a ∧ Gen.adetGoBack.cached' i c s L n a = Gen.detGoBack.cached' i c s L n a ∧
    Gen.adetGoBack.pub' i c s L n a = Gen.detGoBack.pub' i c s L n a ∧ Gen.adetGoBack.safe i c s L n a = Gen.detGoBack.safe i c s L n a ∧
    Gen.adetAdvance.index' i c s L n a = Gen.detAdvance.index' i c s L n a ∧ Gen.adetAdvance.cached' i c s L n a = Gen.detAdvance.cached' i c s L n a ∧
    Gen.adetAdvance.pub' i c s L n a = Gen.detAdvance.pub' i c s L n a ∧
    Gen.adetSync.index' i c s L n a = Gen.detSync.index' i c s L n a ∧ Gen.adetSync.pub' i c s L n a = Gen.detSync.pub' i c s L n a :=
  ⟨rfl, rfl, rfl, rfl, rfl, rfl, rfl, rfl, rfl⟩

end MRB.Props.C13
