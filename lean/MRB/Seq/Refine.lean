/-
  MRB.Seq.Refine — the physical machine refines the specification: under `Rel` and `Allowed`, one step
  of `MRB.step` produces the outcome `Sp.step` prescribes and re-establishes `Rel`.
-/
import MRB.Seq.Rel

set_option linter.unusedVariables false

namespace MRB

theorem availRet_eq_cached (r : Role) (i c sx L : Nat) : availCached r i c sx L = availRet r i c sx L := by
  cases r <;> rfl

/-- What `_available()` computes from the physical indices is the true availability of the specification. -/
theorem availRet_eq {s : St} {a : Sp} (h : Rel s a) (r : Role) (hr : r = .W → s.hasW = true) :
    availRet r (s.it r).idx (s.it r).cached (succIdx s r) s.len = a.avail r := by
  have hL : 0 < s.len := h.len_pos
  have hw := h.hasW
  cases r
  · -- producer: looks at the consumer
    simp only [availRet, St.it, succIdx, succFld, Gen.prodSucc, St.pub, Sp.avail, Sp.limit, Sp.pos]
    rw [h.idxP, h.pubC, h.len_eq]
    have h1 := h.leC; have h2 := h.ordC; have h3 := h.ordP; have h4 := h.leP; have h5 := h.ordW; have h6 := h.leW
    apply Gen.prodAvail_ret_eq _ _ _ hL h.len_lt
    · cases hW : a.hasW <;> simp [hW] at h2 h5 <;> omega
    · cases hW : a.hasW <;> simp [hW] at h2 h5 <;> omega
  · -- worker: looks at the producer
    have hW : a.hasW = true := by rw [hw]; exact hr rfl
    simp only [availRet, St.it, succIdx, succFld, Gen.workSucc, St.pub, Sp.avail, Sp.limit, Sp.pos]
    rw [h.idxW, h.pubP]
    have h1 := h.leC; have h2 := h.ordC; have h3 := h.ordP; have h4 := h.leP; have h5 := h.ordW hW; have h6 := h.leW
    simp [hW] at h2
    apply Gen.workAvail_ret_eq _ _ _ hL h.len_lt <;> omega
  · -- consumer: looks at the worker if there is one, else at the producer
    simp only [availRet, St.it, succIdx, succFld, Gen.consSucc, Sp.avail, Sp.limit, Sp.pos]
    have h1 := h.leC; have h2 := h.ordC; have h3 := h.ordP; have h4 := h.leP; have h5 := h.ordW; have h6 := h.leW
    cases hW : a.hasW
    · have : s.hasW = false := by rw [← hw]; exact hW
      simp [this, St.pub, hW] at *
      rw [h.idxC, h.pubP]
      apply Gen.consAvail_ret_eq _ _ _ hL h.len_lt <;> omega
    · have : s.hasW = true := by rw [← hw]; exact hW
      simp [this, St.pub, hW] at *
      rw [h.idxC, h.pubW]
      apply Gen.consAvail_ret_eq _ _ _ hL h.len_lt <;> omega

/-- Changing only the remembered availability of `r` to something not above the true availability keeps `Rel`. -/
theorem Rel.setCached {s : St} {a : Sp} (h : Rel s a) (r : Role) (c : Nat) (hc : c ≤ a.avail r) :
    Rel (s.setIt r { s.it r with cached := c }) a := by
  cases r
  · exact { h with caP := by simpa [St.setIt, St.it, Sp.avail, Sp.limit, Sp.pos, h.len_eq] using hc }
  · exact { h with caW := by intro _; simpa [St.setIt, St.it, Sp.avail, Sp.limit, Sp.pos] using hc }
  · exact { h with caC := by simpa [St.setIt, St.it, Sp.avail, Sp.limit, Sp.pos] using hc }

theorem Rel.cached_le {s : St} {a : Sp} (h : Rel s a) (r : Role) (hr : r = .W → s.hasW = true) :
    (s.it r).cached ≤ a.avail r := by
  cases r
  · simpa [St.it, Sp.avail, Sp.limit, Sp.pos, h.len_eq] using h.caP
  · have : a.hasW = true := by rw [h.hasW]; exact hr rfl
    simpa [St.it, Sp.avail, Sp.limit, Sp.pos] using h.caW this
  · simpa [St.it, Sp.avail, Sp.limit, Sp.pos] using h.caC

theorem refresh_spec {s : St} {a : Sp} (h : Rel s a) (r : Role) (hr : r = .W → s.hasW = true) :
    Rel (refresh s r).1 a ∧ (refresh s r).2 = a.avail r := by
  unfold refresh
  simp only [availRet_eq_cached, availRet_eq h r hr]
  exact ⟨h.setCached r _ (Nat.le_refl _), trivial⟩

theorem check_spec {s : St} {a : Sp} (h : Rel s a) (r : Role) (n : Nat) (hr : r = .W → s.hasW = true) :
    Rel (check s r n).1 a ∧ (check s r n).2 = decide (n ≤ a.avail r) ∧
    ((check s r n).2 = true → n ≤ ((check s r n).1.it r).cached) ∧
    (∀ r', ((check s r n).1.it r').idx = (s.it r').idx) := by
  have hc := h.cached_le r hr
  unfold check
  simp only [availRet_eq h r hr, Gen.check_ret_eq, Gen.check_cached_eq]
  refine ⟨?_, ?_, ?_, ?_⟩
  · apply h.setCached; split <;> omega
  · by_cases h1 : n ≤ a.avail r <;> simp [h1] <;> omega
  · intro hh
    have : (s.setIt r { s.it r with cached := if (s.it r).cached ≥ n then (s.it r).cached else a.avail r }).it r =
        { s.it r with cached := if (s.it r).cached ≥ n then (s.it r).cached else a.avail r } := by cases r <;> rfl
    rw [this]; simp at hh ⊢; split <;> omega
  · intro r'; cases r <;> cases r' <;> rfl

end MRB

namespace MRB

theorem getD_set (l : List Nat) (i j v : Nat) (hi : i < l.length) :
    (l.set i v).getD j 0 = if j = i then v else l.getD j 0 := by
  simp only [List.getD_eq_getElem?_getD, List.getElem?_set]
  by_cases h : i = j
  · subst h; simp [hi]
  · have : ¬ j = i := fun e => h e.symm
    simp [h, this]

theorem getD_take (l : List Nat) (n j : Nat) (hj : j < n) : (l.take n).getD j 0 = l.getD j 0 := by
  simp only [List.getD_eq_getElem?_getD, List.getElem?_take, hj, if_true]

theorem getD_append_left (l m : List Nat) (j : Nat) (hj : j < l.length) : (l ++ m).getD j 0 = l.getD j 0 := by
  simp only [List.getD_eq_getElem?_getD, List.getElem?_append_left hj]

theorem getD_append_right (l m : List Nat) (j : Nat) (hj : l.length ≤ j) : (l ++ m).getD j 0 = m.getD (j - l.length) 0 := by
  simp only [List.getD_eq_getElem?_getD, List.getElem?_append_right hj]

/-- The worker moves to logical position `q'` (and possibly publishes it). -/
theorem Rel.moveW {s : St} {a : Sp} (h : Rel s a) (hW : a.hasW = true) (q' c' : Nat) (publish : Bool)
    (h1 : a.pubW ≤ q') (h2 : q' ≤ a.pubP) (hc : c' ≤ a.pubP - q') (hd : publish = false → a.detW = true) :
    Rel { s with w := { s.w with idx := q' % s.len, cached := c' }, pubW := if publish then q' % s.len else s.pubW }
        { a with posW := q', pubW := if publish then q' else a.pubW } := by
  have o1 := h.ordC; have o2 := h.caC
  simp [hW] at o1 o2
  cases publish
  · exact { h with
      idxW := rfl, caW := fun _ => hc, leW := h1, ordW := fun _ => h2, pubW := h.pubW
      eqW := fun e => by have := hd rfl; simp_all }
  · refine { h with idxW := rfl, caW := fun _ => hc, leW := Nat.le_refl _, ordW := fun _ => h2, pubW := rfl, eqW := fun _ => rfl, ordC := ?_, caC := ?_ }
    · simp [hW]; omega
    · simp [hW]; omega

/-- The consumer moves to logical position `q'`; when it publishes, `mask'` accounts for the positions passed. -/
theorem Rel.moveC {s : St} {a : Sp} (h : Rel s a) (q' c' : Nat) (publish : Bool) (mask' : List Bool) (del' : List Nat)
    (h1 : a.pubC ≤ q') (h2 : q' ≤ (if a.hasW then a.pubW else a.pubP)) (hc : c' ≤ (if a.hasW then a.pubW else a.pubP) - q')
    (hd : publish = false → a.detC = true) (hm : mask'.length = if publish then q' else a.pubC) :
    Rel { s with c := { s.c with idx := q' % s.len, cached := c' }, pubC := if publish then q' % s.len else s.pubC }
        { a with posC := q', pubC := if publish then q' else a.pubC, mask := mask', delivered := del' } := by
  have o1 := h.ordP; have o2 := h.caP
  cases publish
  · exact { h with
      idxC := rfl, caC := hc, leC := h1, ordC := h2, pubC := h.pubC, mask_len := by simpa using hm
      eqC := fun e => by have := hd rfl; simp_all }
  · refine { h with idxC := rfl, caC := hc, leC := Nat.le_refl _, ordC := h2, pubC := rfl, eqC := fun _ => rfl,
                    mask_len := by simpa using hm, ordP := ?_, caP := ?_, content := ?_ }
    · simp; omega
    · simp; omega
    · intro q hq1 hq2; simp at hq1; exact h.content q (by omega) hq2

/-- The producer moves to logical position `q'`; `hist'` are the items accepted so far afterwards. -/
theorem Rel.moveP {s : St} {a : Sp} (h : Rel s a) (q' c' : Nat) (publish : Bool) (hist' : List Nat)
    (h1 : a.pubP ≤ q') (h2 : q' ≤ a.pubC + (s.len - 1)) (hc : c' ≤ a.pubC + (s.len - 1) - q')
    (hd : publish = false → a.detP = true) (hl : q' ≤ hist'.length)
    (hcont : ∀ q, a.pubC ≤ q → q < q' → s.slots.getD (q % s.len) 0 = hist'.getD q 0) :
    Rel { s with p := { s.p with idx := q' % s.len, cached := c' }, pubP := if publish then q' % s.len else s.pubP }
        { a with posP := q', pubP := if publish then q' else a.pubP, hist := hist' } := by
  have o1 := h.ordW; have o2 := h.caW; have o3 := h.ordC; have o4 := h.caC
  cases publish
  · exact { h with
      idxP := rfl, caP := hc, leP := h1, ordP := h2, pubP := h.pubP, hist_len := hl, content := hcont
      eqP := fun e => by have := hd rfl; simp_all }
  · refine { h with idxP := rfl, caP := hc, leP := Nat.le_refl _, ordP := h2, pubP := rfl, eqP := fun _ => rfl,
                    hist_len := hl, content := hcont, ordW := ?ow, caW := ?cw, ordC := ?oc, caC := ?cc }
    case ow => intro hW; have := o1 hW; simp; omega
    case cw => intro hW; have := o2 hW; have := o1 hW; simp; omega
    case oc => cases hW : a.hasW <;> simp [hW] at o3 ⊢ <;> omega
    case cc => cases hW : a.hasW <;> simp [hW] at o3 o4 ⊢ <;> omega

end MRB

namespace MRB

/-- `s'` differs from `s` at most in slots, destructor log, fault, liveness bookkeeping. -/
def FrameEq (s s' : St) : Prop :=
  s'.len = s.len ∧ s'.hasW = s.hasW ∧ s'.p = s.p ∧ s'.w = s.w ∧ s'.c = s.c ∧
  s'.pubP = s.pubP ∧ s'.pubW = s.pubW ∧ s'.pubC = s.pubC ∧ s'.slots.length = s.slots.length

theorem FrameEq.refl (s : St) : FrameEq s s := ⟨rfl, rfl, rfl, rfl, rfl, rfl, rfl, rfl, rfl⟩

theorem FrameEq.trans {s s' s'' : St} (f : FrameEq s s') (g : FrameEq s' s'') : FrameEq s s'' := by
  obtain ⟨a1, a2, a3, a4, a5, a6, a7, a8, a9⟩ := f
  obtain ⟨b1, b2, b3, b4, b5, b6, b7, b8, b9⟩ := g
  exact ⟨b1.trans a1, b2.trans a2, b3.trans a3, b4.trans a4, b5.trans a5, b6.trans a6, b7.trans a7, b8.trans a8, b9.trans a9⟩

theorem Rel.frame {s s' : St} {a : Sp} (h : Rel s a) (f : FrameEq s s') (hist' : List Nat) (hl : a.posP ≤ hist'.length)
    (hc : ∀ q, a.pubC ≤ q → q < a.posP → s'.slots.getD (q % s.len) 0 = hist'.getD q 0) :
    Rel s' { a with hist := hist' } := by
  obtain ⟨e1, e2, e3, e4, e5, e6, e7, e8, e9⟩ := f
  exact {
    len_pos := by rw [e1]; exact h.len_pos
    len_eq := by rw [e1]; exact h.len_eq
    slots_len := by rw [e9, e1]; exact h.slots_len
    hasW := by rw [e2]; exact h.hasW
    idxP := by rw [e3, e1]; exact h.idxP
    idxW := by rw [e4, e1]; exact h.idxW
    idxC := by rw [e5, e1]; exact h.idxC
    pubP := by rw [e6, e1]; exact h.pubP
    pubW := by rw [e7, e1]; exact h.pubW
    pubC := by rw [e8, e1]; exact h.pubC
    detP := by rw [e3]; exact h.detP
    detW := by rw [e4]; exact h.detW
    detC := by rw [e5]; exact h.detC
    leP := h.leP, leW := h.leW, leC := h.leC, eqP := h.eqP, eqW := h.eqW, eqC := h.eqC
    ordP := by rw [e1]; exact h.ordP
    ordW := h.ordW, ordC := h.ordC
    caP := by rw [e3, e1]; exact h.caP
    caW := by rw [e4]; exact h.caW
    caC := by rw [e5]; exact h.caC
    hist_len := hl
    content := by intro q h1 h2; rw [e1]; exact hc q h1 h2
    mask_len := h.mask_len
    len_lt := by rw [e1]; exact h.len_lt }

/-- A per-slot store (`*p = v`, `p.write(v)`, the `*_init` choice) changes exactly that slot. -/
def StoreOk (store : St → Nat → Nat → St) : Prop :=
  ∀ s i v, FrameEq s (store s i v) ∧ (store s i v).slots = s.slots.set i v

theorem setFault_frame (s : St) (f : Fault) : FrameEq s (s.setFault f) ∧ (s.setFault f).slots = s.slots := by
  unfold St.setFault; split <;> exact ⟨FrameEq.refl _, rfl⟩

theorem assignSlot_ok : StoreOk assignSlot := by
  intro s i v
  unfold assignSlot
  simp only [St.setSlot]
  split
  · split
    · have := setFault_frame s .dropZero
      obtain ⟨⟨a1, a2, a3, a4, a5, a6, a7, a8, a9⟩, hs⟩ := this
      refine ⟨⟨a1, a2, a3, a4, a5, a6, a7, a8, ?_⟩, ?_⟩ <;> simp [hs]
    · exact ⟨⟨rfl, rfl, rfl, rfl, rfl, rfl, rfl, rfl, by simp⟩, rfl⟩
  · exact ⟨⟨rfl, rfl, rfl, rfl, rfl, rfl, rfl, rfl, by simp⟩, rfl⟩

theorem writeSlot_ok : StoreOk writeSlot := by
  intro s i v
  exact ⟨⟨rfl, rfl, rfl, rfl, rfl, rfl, rfl, rfl, by simp [writeSlot, St.setSlot]⟩, rfl⟩

theorem initSlot_ok : StoreOk initSlot := by
  intro s i v
  unfold initSlot
  split
  · exact writeSlot_ok s i v
  · exact assignSlot_ok s i v

/-- Element `k` of a window of `n` slots starting at ring index `i`. -/
theorem chunkSlot_eq (i L n k : Nat) (hi : i < L) (hn : n ≤ L) (hk : k < n) : chunkSlot i L n k = (i + k) % L := by
  unfold chunkSlot; exact Gen.nextChunkMut_cover i L n k hi hn hk

theorem chunkSlotRO_eq (i L n k : Nat) (hi : i < L) (hn : n ≤ L) (hk : k < n) : chunkSlotRO i L n k = (i + k) % L := by
  unfold chunkSlotRO; exact Gen.nextChunk_cover i L n k hi hn hk

theorem mod_add_mod' (p k L : Nat) : (p % L + k) % L = (p + k) % L := Nat.mod_add_mod p L k

/-- Filling the first `m` slots of a granted window of `n` slots at the producer's position. -/
theorem storeWindow_prefix {store : St → Nat → Nat → St} (hs : StoreOk store) {s : St} {a : Sp} (h : Rel s a)
    (n : Nat) (hn : n ≤ a.avail .P) (vs : List Nat) (m : Nat) (hm : m ≤ n) :
    let s' := (List.range m).foldl (fun acc k => store acc (chunkSlot (a.posP % s.len) s.len n k) (vs.getD k 0)) s
    FrameEq s s' ∧
    (∀ q, a.pubC ≤ q → q < a.posP → s'.slots.getD (q % s.len) 0 = s.slots.getD (q % s.len) 0) ∧
    (∀ k, k < m → s'.slots.getD ((a.posP + k) % s.len) 0 = vs.getD k 0) := by
  have hL : 0 < s.len := h.len_pos
  have hav : a.avail .P = a.pubC + (s.len - 1) - a.posP := by simp [Sp.avail, Sp.limit, Sp.pos, h.len_eq]
  have hle : a.pubC ≤ a.posP := by
    have h1 := h.leC; have h2 := h.ordC; have h4 := h.leP; have h5 := h.ordW; have h6 := h.leW
    cases hW : a.hasW <;> simp [hW] at h2 h5 <;> omega
  induction m with
  | zero => exact ⟨FrameEq.refl _, fun _ _ _ => rfl, fun k hk => absurd hk (Nat.not_lt_zero _)⟩
  | succ m ih =>
    obtain ⟨f, h1, h2⟩ := ih (by omega)
    simp only [List.range_succ, List.foldl_append, List.foldl_cons, List.foldl_nil]
    generalize (List.range m).foldl (fun acc k => store acc (chunkSlot (a.posP % s.len) s.len n k) (vs.getD k 0)) s = t at f h1 h2 ⊢
    obtain ⟨g, hsl⟩ := hs t (chunkSlot (a.posP % s.len) s.len n m) (vs.getD m 0)
    have hck : chunkSlot (a.posP % s.len) s.len n m = (a.posP + m) % s.len := by
      rw [chunkSlot_eq _ _ _ _ (Nat.mod_lt _ hL) (by omega) (by omega), mod_add_mod']
    have hlen : (a.posP + m) % s.len < t.slots.length := by
      rw [f.2.2.2.2.2.2.2.2, h.slots_len]; exact Nat.mod_lt _ hL
    refine ⟨f.trans g, ?_, ?_⟩
    · intro q hq1 hq2
      rw [hsl, hck, getD_set _ _ _ _ hlen]
      have : q % s.len ≠ (a.posP + m) % s.len := mod_ne_of_lt_lap hL (by omega) (by omega) (by omega)
      simp [this]; exact h1 q hq1 hq2
    · intro k hk
      rw [hsl, hck, getD_set _ _ _ _ hlen]
      by_cases hkm : k = m
      · subst hkm; simp
      · have : (a.posP + k) % s.len ≠ (a.posP + m) % s.len := mod_ne_of_lt_lap hL (by omega) (by omega) (by omega)
        simp [this]; exact h2 k (by omega)

end MRB

namespace MRB

theorem Rel.availP_le {s : St} {a : Sp} (h : Rel s a) : a.avail .P ≤ s.len - 1 ∧ a.pubC ≤ a.posP := by
  have h1 := h.leC; have h2 := h.ordC; have h4 := h.leP; have h5 := h.ordW; have h6 := h.leW
  simp only [Sp.avail, Sp.limit, Sp.pos, h.len_eq]
  cases hW : a.hasW <;> simp [hW] at h2 h5 <;> omega

theorem Rel.chain {s : St} {a : Sp} (h : Rel s a) : a.pubC ≤ a.pubP ∧ a.pubC ≤ a.posC ∧ a.posP - a.pubC ≤ s.len - 1 := by
  have h1 := h.leC; have h2 := h.ordC; have h3 := h.ordP; have h4 := h.leP; have h5 := h.ordW; have h6 := h.leW
  cases hW : a.hasW <;> simp [hW] at h2 h5 <;> omega

theorem Rel.availW_le {s : St} {a : Sp} (h : Rel s a) (hW : a.hasW = true) : a.avail .W ≤ s.len - 1 := by
  have h1 := h.leC; have h2 := h.ordC; have h3 := h.ordP; have h4 := h.leP; have h5 := h.ordW hW; have h6 := h.leW
  simp only [Sp.avail, Sp.limit, Sp.pos]
  simp [hW] at h2; omega

theorem Rel.availC_le {s : St} {a : Sp} (h : Rel s a) : a.avail .C ≤ s.len - 1 := by
  have h1 := h.leC; have h2 := h.ordC; have h3 := h.ordP; have h4 := h.leP; have h5 := h.ordW; have h6 := h.leW
  simp only [Sp.avail, Sp.limit, Sp.pos]
  cases hW : a.hasW <;> simp [hW] at h2 h5 ⊢ <;> omega

/-- `advance(n)` of the producer (attached: `_advance`; detached: `advance_local`). -/
theorem advance_P {s : St} {a : Sp} (h : Rel s a) (n : Nat) (vs : List Nat) (hn : n ≤ a.avail .P)
    (hvl : vs.length = n) (hvs : ∀ k, k < n → s.slots.getD ((a.posP + k) % s.len) 0 = vs.getD k 0) :
    Rel (if s.p.det then advanceLocalOnly s .P n else advanceGlobal s .P n) (a.move .P n vs) := by
  have hL : 0 < s.len := h.len_pos
  obtain ⟨hav, hle⟩ := h.availP_le
  have hav' : a.avail .P = a.pubC + (s.len - 1) - a.posP := by simp [Sp.avail, Sp.limit, Sp.pos, h.len_eq]
  have hca := h.caP
  have hop := h.ordP
  have hidx : Gen.advanceLocal.index' s.p.idx s.p.cached (succIdx s .P) s.len n 0 = (a.posP + n) % s.len := by
    rw [h.idxP]; exact Gen.advanceLocal_index_eq _ _ _ hL (by omega) _ _ _
  have key := h.moveP (a.posP + n) (s.p.cached - n) (!a.detP) (a.hist.take a.posP ++ vs)
    (by have := h.leP; omega) (by omega) (by omega) (by cases a.detP <;> simp)
    (by simp [List.length_take, Nat.min_eq_left h.hist_len, hvl])
    (by
      intro q hq1 hq2
      by_cases hq : q < a.posP
      · rw [getD_append_left _ _ _ (by simp [List.length_take, Nat.min_eq_left h.hist_len]; exact hq), getD_take _ _ _ hq]
        exact h.content q hq1 hq
      · rw [getD_append_right _ _ _ (by simp [List.length_take, Nat.min_eq_left h.hist_len]; omega)]
        simp only [List.length_take, Nat.min_eq_left h.hist_len]
        have := hvs (q - a.posP) (by omega)
        rw [← this]; congr 2; omega)
  rw [h.detP]
  cases hd : a.detP
  · simp only [hd, Bool.not_false, if_true] at key
    simp only [Bool.false_eq_true, if_false, advanceGlobal, applyGen, St.it, St.setIt, St.setPub, pubFld, Gen.prodPub,
      Gen.advance_pub_eq, Gen.advance_index_eq, Gen.advance_cached_eq, hidx, Sp.move, Sp.det, hd, Sp.setPos, Sp.pos, Sp.publish]
    exact key
  · simp only [hd, Bool.not_true, Bool.false_eq_true, if_false] at key
    simp only [if_true, advanceLocalOnly, applyGen, St.it, St.setIt, Gen.detAdvance.pub', Gen.detAdvance.index', Gen.detAdvance.cached',
      Gen.advanceLocal_cached_eq, hidx, Sp.move, Sp.det, hd, Sp.setPos, Sp.pos]
    exact key

end MRB

namespace MRB

theorem advance_W {s : St} {a : Sp} (h : Rel s a) (hW : a.hasW = true) (n : Nat) (vs : List Nat) (hn : n ≤ a.avail .W) :
    Rel (if s.w.det then advanceLocalOnly s .W n else advanceGlobal s .W n) (a.move .W n vs) := by
  have hL : 0 < s.len := h.len_pos
  have hav := h.availW_le hW
  have hav' : a.avail .W = a.pubP - a.posW := by simp [Sp.avail, Sp.limit, Sp.pos]
  have hca := h.caW hW
  have hop := h.ordW hW
  have hidx : Gen.advanceLocal.index' s.w.idx s.w.cached (succIdx s .W) s.len n 0 = (a.posW + n) % s.len := by
    rw [h.idxW]; exact Gen.advanceLocal_index_eq _ _ _ hL (by omega) _ _ _
  have key := h.moveW hW (a.posW + n) (s.w.cached - n) (!a.detW)
    (by have := h.leW; omega) (by omega) (by omega) (by cases a.detW <;> simp)
  rw [h.detW]
  cases hd : a.detW
  · simp only [hd, Bool.not_false, if_true] at key
    simp only [Bool.false_eq_true, if_false, advanceGlobal, applyGen, St.it, St.setIt, St.setPub, pubFld, Gen.workPub,
      Gen.advance_pub_eq, Gen.advance_index_eq, Gen.advance_cached_eq, hidx, Sp.move, Sp.det, hd, Sp.setPos, Sp.pos, Sp.publish]
    exact key
  · simp only [hd, Bool.not_true, Bool.false_eq_true, if_false] at key
    simp only [if_true, advanceLocalOnly, applyGen, St.it, St.setIt, Gen.detAdvance.pub', Gen.detAdvance.index', Gen.detAdvance.cached',
      Gen.advanceLocal_cached_eq, hidx, Sp.move, Sp.det, hd, Sp.setPos, Sp.pos]
    exact key

theorem advance_C {s : St} {a : Sp} (h : Rel s a) (n : Nat) (vs : List Nat) (hn : n ≤ a.avail .C) :
    Rel (if s.c.det then advanceLocalOnly s .C n else advanceGlobal s .C n) (a.move .C n vs) := by
  have hL : 0 < s.len := h.len_pos
  have hav := h.availC_le
  have hav' : a.avail .C = (if a.hasW then a.pubW else a.pubP) - a.posC := by simp [Sp.avail, Sp.limit, Sp.pos]
  have hca := h.caC
  have hop := h.ordC
  have hle := h.leC
  have hidx : Gen.advanceLocal.index' s.c.idx s.c.cached (succIdx s .C) s.len n 0 = (a.posC + n) % s.len := by
    rw [h.idxC]; exact Gen.advanceLocal_index_eq _ _ _ hL (by omega) _ _ _
  rw [h.detC]
  cases hd : a.detC
  · have key := h.moveC (a.posC + n) (s.c.cached - n) true
      (a.mask ++ List.replicate (a.posC + n - a.pubC) true)
      (a.delivered ++ Sp.window { a with posC := a.posC + n } a.pubC (a.posC + n - a.pubC))
      (by omega) (by omega) (by omega) (by simp) (by simp [h.mask_len]; omega)
    simp only [if_true, hd] at key
    simp only [Bool.false_eq_true, if_false, advanceGlobal, applyGen, St.it, St.setIt, St.setPub, pubFld, Gen.consPub,
      Gen.advance_pub_eq, Gen.advance_index_eq, Gen.advance_cached_eq, hidx, Sp.move, Sp.det, hd, Sp.setPos, Sp.pos, Sp.publish]
    exact key
  · have key := h.moveC (a.posC + n) (s.c.cached - n) false a.mask a.delivered
      (by omega) (by omega) (by omega) (by simp [hd]) (by simp [h.mask_len])
    simp only [Bool.false_eq_true, if_false, hd] at key
    simp only [if_true, advanceLocalOnly, applyGen, St.it, St.setIt, Gen.detAdvance.pub', Gen.detAdvance.index', Gen.detAdvance.cached',
      Gen.advanceLocal_cached_eq, hidx, Sp.move, Sp.det, hd, Sp.setPos, Sp.pos]
    exact key

end MRB

namespace MRB

theorem setIndex_target_mod (p i L : Nat) (hL : 0 < L) (hi : i < L) : (p + (i + L - p % L) % L) % L = i := by
  rw [Nat.add_mod_mod]
  have h1 := Nat.div_add_mod p L
  have h2 : p % L < L := Nat.mod_lt _ hL
  have : p + (i + L - p % L) = (i + L) + L * (p / L) := by omega
  rw [this, Nat.add_mul_mod_self_left, Nat.add_mod_right, Nat.mod_eq_of_lt hi]

/-! ### changing the detached flag -/

theorem Rel.setDetP {s : St} {a : Sp} (h : Rel s a) (b : Bool) (hb : b = false → a.pubP = a.posP) :
    Rel { s with p := { s.p with det := b } } { a with detP := b } :=
  { h with detP := rfl, eqP := hb }

theorem Rel.setDetW {s : St} {a : Sp} (h : Rel s a) (b : Bool) (hb : b = false → a.pubW = a.posW) :
    Rel { s with w := { s.w with det := b } } { a with detW := b } :=
  { h with detW := rfl, eqW := hb }

theorem Rel.setDetC {s : St} {a : Sp} (h : Rel s a) (b : Bool) (hb : b = false → a.pubC = a.posC) :
    Rel { s with c := { s.c with det := b } } { a with detC := b } :=
  { h with detC := rfl, eqC := hb }

/-! ### local repositioning of a detached iterator (`go_back`, `set_index`, detached `reset_index`), publication (`sync_index`) -/

/-- Any repositioning of the producer that does not accept new items. -/
theorem reposition_P {s : St} {a : Sp} (h : Rel s a) (q' c' : Nat) (publish : Bool)
    (h1 : a.pubP ≤ q') (h2 : q' ≤ a.posP) (hc : c' ≤ a.pubC + (s.len - 1) - q') (hd : publish = false → a.detP = true) :
    Rel { s with p := { s.p with idx := q' % s.len, cached := c' }, pubP := if publish then q' % s.len else s.pubP }
        { a with posP := q', pubP := if publish then q' else a.pubP } := by
  have := h.moveP q' c' publish a.hist h1 (by have := h.ordP; omega) hc hd (by have := h.hist_len; omega)
    (fun q hq1 hq2 => h.content q hq1 (by omega))
  exact this

theorem goBack_rel {s : St} {a : Sp} (h : Rel s a) (r : Role) (n : Nat) (hr : r = .W → s.hasW = true)
    (hd : a.det r = true) (hn : n ≤ a.pos r - a.pubOf r) :
    Rel (applyGen s r Gen.detGoBack.index' Gen.detGoBack.cached' Gen.detGoBack.pub' n) (a.setPos r (a.pos r - n)) := by
  have hL : 0 < s.len := h.len_pos
  cases r
  · obtain ⟨hav, hle⟩ := h.availP_le
    obtain ⟨hch1, hch2, hch3⟩ := h.chain
    have hop := h.ordP; have hlp := h.leP; have hca := h.caP
    simp only [Sp.pos, Sp.pubOf, Sp.det] at hn hd
    have hidx : Gen.detGoBack.index' s.p.idx s.p.cached (succIdx s .P) s.len n 0 = (a.posP - n) % s.len := by
      rw [h.idxP]; exact Gen.detGoBack_index_eq _ _ _ hL (by omega) (by omega) _ _ _
    have key := reposition_P h (a.posP - n) (s.p.cached + n) false (by omega) (by omega) (by omega) (fun _ => hd)
    simp only [Bool.false_eq_true, if_false] at key
    simp only [applyGen, St.it, St.setIt, Gen.detGoBack_pub_eq, Gen.detGoBack_cached_eq, hidx, Sp.setPos, Sp.pos]
    exact key
  · have hW : a.hasW = true := by rw [h.hasW]; exact hr rfl
    have hav := h.availW_le hW
    have hop := h.ordW hW; have hlp := h.leW; have hca := h.caW hW
    have o1 := h.ordC; have o2 := h.leC; have o3 := h.ordP; have o4 := h.leP
    simp [hW] at o1
    simp only [Sp.pos, Sp.pubOf, Sp.det] at hn hd
    have hidx : Gen.detGoBack.index' s.w.idx s.w.cached (succIdx s .W) s.len n 0 = (a.posW - n) % s.len := by
      rw [h.idxW]; exact Gen.detGoBack_index_eq _ _ _ hL (by omega) (by omega) _ _ _
    have key := h.moveW hW (a.posW - n) (s.w.cached + n) false (by omega) (by omega) (by omega) (fun _ => hd)
    simp only [Bool.false_eq_true, if_false] at key
    simp only [applyGen, St.it, St.setIt, Gen.detGoBack_pub_eq, Gen.detGoBack_cached_eq, hidx, Sp.setPos, Sp.pos]
    exact key
  · have hav := h.availC_le
    have hop := h.ordC; have hlp := h.leC; have hca := h.caC
    have o3 := h.ordP; have o4 := h.leP; have o5 := h.ordW; have o6 := h.leW
    simp only [Sp.pos, Sp.pubOf, Sp.det] at hn hd
    have hidx : Gen.detGoBack.index' s.c.idx s.c.cached (succIdx s .C) s.len n 0 = (a.posC - n) % s.len := by
      rw [h.idxC]; exact Gen.detGoBack_index_eq _ _ _ hL (by omega)
        (by cases hW : a.hasW <;> simp [hW] at hop o5 <;> omega) _ _ _
    have key := h.moveC (a.posC - n) (s.c.cached + n) false a.mask a.delivered (by omega)
      (by cases hW : a.hasW <;> simp [hW] at hop ⊢ <;> omega)
      (by cases hW : a.hasW <;> simp [hW] at hop hca ⊢ <;> omega) (fun _ => hd) (by simp [h.mask_len])
    simp only [Bool.false_eq_true, if_false] at key
    simp only [applyGen, St.it, St.setIt, Gen.detGoBack_pub_eq, Gen.detGoBack_cached_eq, hidx, Sp.setPos, Sp.pos]
    exact key

theorem setIndex_rel {s : St} {a : Sp} (h : Rel s a) (r : Role) (i : Nat) (hr : r = .W → s.hasW = true)
    (hd : a.det r = true) (hi : i < s.len)
    (hq : a.pubOf r + (i + s.len - a.pubOf r % s.len) % s.len ≤ a.limit r)
    (hqP : r = .P → a.pubOf r + (i + s.len - a.pubOf r % s.len) % s.len ≤ a.posP) :
    Rel (applyGen s r Gen.detSetIndex.index' Gen.detSetIndex.cached' Gen.detSetIndex.pub' i)
        (a.setPos r (a.pubOf r + (i + a.len - a.pubOf r % a.len) % a.len)) := by
  have hL : 0 < s.len := h.len_pos
  rw [h.len_eq]
  cases r
  · have hq' := hqP rfl
    simp only [Sp.pubOf, Sp.det, Sp.limit, h.len_eq] at hq hd hq'
    have key := reposition_P h (a.pubP + (i + s.len - a.pubP % s.len) % s.len) 0 false (by omega) hq' (by omega) (fun _ => hd)
    rw [setIndex_target_mod _ _ _ hL hi] at key
    simp only [Bool.false_eq_true, if_false] at key
    simp only [applyGen, St.it, St.setIt, Gen.detSetIndex.pub', Gen.detSetIndex.index', Gen.detSetIndex.cached', Sp.setPos, Sp.pubOf]
    exact key
  · have hW : a.hasW = true := by rw [h.hasW]; exact hr rfl
    simp only [Sp.pubOf, Sp.det, Sp.limit] at hq hd
    have key := h.moveW hW (a.pubW + (i + s.len - a.pubW % s.len) % s.len) 0 false (by omega) hq (by omega) (fun _ => hd)
    rw [setIndex_target_mod _ _ _ hL hi] at key
    simp only [Bool.false_eq_true, if_false] at key
    simp only [applyGen, St.it, St.setIt, Gen.detSetIndex.pub', Gen.detSetIndex.index', Gen.detSetIndex.cached', Sp.setPos, Sp.pubOf]
    exact key
  · simp only [Sp.pubOf, Sp.det, Sp.limit] at hq hd
    have key := h.moveC (a.pubC + (i + s.len - a.pubC % s.len) % s.len) 0 false a.mask a.delivered (by omega) hq (by omega)
      (fun _ => hd) (by simp [h.mask_len])
    rw [setIndex_target_mod _ _ _ hL hi] at key
    simp only [Bool.false_eq_true, if_false] at key
    simp only [applyGen, St.it, St.setIt, Gen.detSetIndex.pub', Gen.detSetIndex.index', Gen.detSetIndex.cached', Sp.setPos, Sp.pubOf]
    exact key

end MRB

namespace MRB

/-- Logical position published by the iterator ahead of `r` (without the producer's `len-1` slack). -/
def Sp.leadPub (a : Sp) : Role → Nat
  | .P => a.pubC
  | .W => a.pubP
  | .C => if a.hasW then a.pubW else a.pubP

theorem succIdx_eq {s : St} {a : Sp} (h : Rel s a) (r : Role) : succIdx s r = a.leadPub r % s.len := by
  cases r
  · simp [succIdx, succFld, Gen.prodSucc, St.pub, Sp.leadPub, h.pubC]
  · simp [succIdx, succFld, Gen.workSucc, St.pub, Sp.leadPub, h.pubP]
  · simp only [succIdx, succFld, Gen.consSucc, Sp.leadPub, ← h.hasW]
    cases a.hasW <;> simp [St.pub, h.pubW, h.pubP]

/-- `reset_index` of the worker / consumer (attached: also publishes; detached: local only). -/
theorem reset_W {s : St} {a : Sp} (h : Rel s a) (hW : a.hasW = true) :
    Rel (if s.w.det then applyGen s .W Gen.detReset.index' Gen.detReset.cached' Gen.detReset.pub' 0
         else applyGen s .W Gen.workReset.index' Gen.workReset.cached' Gen.workReset.pub' 0)
        (if a.detW then a.setPos .W (a.limit .W) else (a.setPos .W (a.limit .W)).publish .W (a.limit .W)) := by
  have hs := succIdx_eq h .W
  simp only [Sp.leadPub] at hs
  have hlw := h.leW; have how := h.ordW hW
  rw [h.detW]
  cases hd : a.detW
  · have key := h.moveW hW a.pubP 0 true (by omega) (Nat.le_refl _) (Nat.zero_le _) (by simp)
    simp only [if_true] at key
    simp only [Bool.false_eq_true, if_false, applyGen, St.it, St.setIt, St.setPub, pubFld, Gen.workPub, Gen.workReset.index', Gen.workReset.cached',
      Gen.workReset.pub', hs, Sp.setPos, Sp.limit, Sp.publish]
    exact key
  · have key := h.moveW hW a.pubP 0 false (by omega) (Nat.le_refl _) (Nat.zero_le _) (fun _ => hd)
    simp only [Bool.false_eq_true, if_false] at key
    simp only [if_true, applyGen, St.it, St.setIt, Gen.detReset.index', Gen.detReset.cached', Gen.detReset.pub', hs, Sp.setPos, Sp.limit]
    exact key

theorem reset_C {s : St} {a : Sp} (h : Rel s a) :
    Rel (if s.c.det then applyGen s .C Gen.detReset.index' Gen.detReset.cached' Gen.detReset.pub' 0
         else applyGen s .C Gen.consReset.index' Gen.consReset.cached' Gen.consReset.pub' 0)
        (if a.detC then a.setPos .C (a.limit .C)
         else { a with posC := a.limit .C, pubC := a.limit .C, mask := a.mask ++ List.replicate (a.limit .C - a.pubC) false }) := by
  have hs := succIdx_eq h .C
  simp only [Sp.leadPub] at hs
  have hlc := h.leC; have hoc := h.ordC
  rw [h.detC]
  cases hd : a.detC
  · have key := h.moveC (if a.hasW then a.pubW else a.pubP) 0 true
      (a.mask ++ List.replicate ((if a.hasW then a.pubW else a.pubP) - a.pubC) false) a.delivered
      (by omega) (Nat.le_refl _) (Nat.zero_le _) (by simp) (by simp [h.mask_len]; omega)
    simp only [if_true, hd] at key
    simp only [Bool.false_eq_true, if_false, applyGen, St.it, St.setIt, St.setPub, pubFld, Gen.consPub, Gen.consReset.index', Gen.consReset.cached',
      Gen.consReset.pub', hs, Sp.setPos, Sp.limit]
    exact key
  · have key := h.moveC (if a.hasW then a.pubW else a.pubP) 0 false a.mask a.delivered
      (by omega) (Nat.le_refl _) (Nat.zero_le _) (fun _ => hd) (by simp [h.mask_len])
    simp only [Bool.false_eq_true, if_false] at key
    simp only [if_true, applyGen, St.it, St.setIt, Gen.detReset.index', Gen.detReset.cached', Gen.detReset.pub', hs, Sp.setPos, Sp.limit]
    exact key

/-- `sync_index`: publish the current position. -/
theorem sync_rel {s : St} {a : Sp} (h : Rel s a) (r : Role) (hr : r = .W → s.hasW = true) :
    Rel (applyGen s r Gen.detSync.index' Gen.detSync.cached' Gen.detSync.pub' 0) (a.publish r (a.pos r)) := by
  cases r
  · have hca := h.caP
    have key := reposition_P h a.posP s.p.cached true h.leP (Nat.le_refl _) hca (by simp)
    rw [← h.idxP] at key
    simp only [if_true] at key
    simp only [applyGen, St.it, St.setIt, St.setPub, pubFld, Gen.prodPub, Gen.detSync.index', Gen.detSync.cached', Gen.detSync.pub', Sp.publish, Sp.pos]
    exact key
  · have hW : a.hasW = true := by rw [h.hasW]; exact hr rfl
    have key := h.moveW hW a.posW s.w.cached true h.leW (h.ordW hW) (h.caW hW) (by simp)
    rw [← h.idxW] at key
    simp only [if_true] at key
    simp only [applyGen, St.it, St.setIt, St.setPub, pubFld, Gen.workPub, Gen.detSync.index', Gen.detSync.cached', Gen.detSync.pub', Sp.publish, Sp.pos]
    exact key
  · have hle := h.leC
    have key := h.moveC a.posC s.c.cached true (a.mask ++ List.replicate (a.posC - a.pubC) true)
      (a.delivered ++ a.window a.pubC (a.posC - a.pubC)) h.leC h.ordC h.caC (by simp) (by simp [h.mask_len]; omega)
    rw [← h.idxC] at key
    simp only [if_true] at key
    simp only [applyGen, St.it, St.setIt, St.setPub, pubFld, Gen.consPub, Gen.detSync.index', Gen.detSync.cached', Gen.detSync.pub', Sp.publish, Sp.pos]
    exact key

theorem setDet_rel {s : St} {a : Sp} (h : Rel s a) (r : Role) (b : Bool) (hb : b = false → a.pubOf r = a.pos r) :
    Rel (s.setIt r { s.it r with det := b }) (a.setDet r b) := by
  cases r
  · exact h.setDetP b hb
  · exact h.setDetW b hb
  · exact h.setDetC b hb

theorem attach_rel {s : St} {a : Sp} (h : Rel s a) (r : Role) (hr : r = .W → s.hasW = true) :
    Rel ((applyGen s r Gen.detSync.index' Gen.detSync.cached' Gen.detSync.pub' 0).setIt r
          { (applyGen s r Gen.detSync.index' Gen.detSync.cached' Gen.detSync.pub' 0).it r with det := false })
        ((a.publish r (a.pos r)).setDet r false) := by
  apply setDet_rel (sync_rel h r hr) r false
  intro _
  cases r <;> simp [Sp.publish, Sp.pubOf, Sp.pos]

end MRB

namespace MRB

theorem Rel.idx_lt {s : St} {a : Sp} (h : Rel s a) (r : Role) : (s.it r).idx < s.len := by
  have hL : 0 < s.len := h.len_pos
  cases r
  · simp only [St.it, h.idxP]; exact Nat.mod_lt _ hL
  · simp only [St.it, h.idxW]; exact Nat.mod_lt _ hL
  · simp only [St.it, h.idxC]; exact Nat.mod_lt _ hL

theorem Rel.idx_eq {s : St} {a : Sp} (h : Rel s a) (r : Role) : (s.it r).idx = a.pos r % s.len := by
  cases r
  · exact h.idxP
  · exact h.idxW
  · exact h.idxC

theorem Rel.avail_le {s : St} {a : Sp} (h : Rel s a) (r : Role) (hr : r = .W → s.hasW = true) : a.avail r ≤ s.len - 1 := by
  cases r
  · exact h.availP_le.1
  · exact h.availW_le (by rw [h.hasW]; exact hr rfl)
  · exact h.availC_le

/-- Everything a worker/consumer may use lies among the items in flight. -/
theorem Rel.window_in_flight {s : St} {a : Sp} (h : Rel s a) (r : Role) (hr : r = .W → s.hasW = true) (hrP : r ≠ .P)
    (k : Nat) (hk : k < a.avail r) : a.pubC ≤ a.pos r + k ∧ a.pos r + k < a.posP := by
  have h1 := h.leC; have h2 := h.ordC; have h3 := h.ordP; have h4 := h.leP; have h5 := h.ordW; have h6 := h.leW
  cases r
  · exact absurd rfl hrP
  · have hW : a.hasW = true := by rw [h.hasW]; exact hr rfl
    simp only [Sp.avail, Sp.limit, Sp.pos] at hk ⊢
    simp [hW] at h2; have := h5 hW; omega
  · simp only [Sp.avail, Sp.limit, Sp.pos] at hk ⊢
    cases hW : a.hasW <;> simp [hW] at h2 h5 hk <;> omega

theorem Rel.slot_read {s : St} {a : Sp} (h : Rel s a) (q : Nat) (h1 : a.pubC ≤ q) (h2 : q < a.posP) :
    s.slotAt (q % s.len) = a.valAt q := h.content q h1 h2

theorem window_vals {s : St} {a : Sp} (h : Rel s a) (r : Role) (hr : r = .W → s.hasW = true) (hrP : r ≠ .P)
    (n : Nat) (hn : n ≤ a.avail r) :
    (List.range n).map (fun k => s.slotAt (chunkSlot (s.it r).idx s.len n k)) = a.window (a.pos r) n := by
  have hL : 0 < s.len := h.len_pos
  have hav := h.avail_le r hr
  unfold Sp.window
  apply List.map_congr_left
  intro k hk
  have hk' : k < n := List.mem_range.mp hk
  rw [chunkSlot_eq _ _ _ _ (h.idx_lt r) (by omega) hk', h.idx_eq r, mod_add_mod']
  obtain ⟨w1, w2⟩ := h.window_in_flight r hr hrP k (by omega)
  exact h.slot_read _ w1 w2

theorem window_vals_RO {s : St} {a : Sp} (h : Rel s a) (r : Role) (hr : r = .W → s.hasW = true) (hrP : r ≠ .P)
    (n : Nat) (hn : n ≤ a.avail r) :
    (List.range n).map (fun k => s.slotAt (chunkSlotRO (s.it r).idx s.len n k)) = a.window (a.pos r) n := by
  have hL : 0 < s.len := h.len_pos
  have hav := h.avail_le r hr
  unfold Sp.window
  apply List.map_congr_left
  intro k hk
  have hk' : k < n := List.mem_range.mp hk
  rw [chunkSlotRO_eq _ _ _ _ (h.idx_lt r) (by omega) hk', h.idx_eq r, mod_add_mod']
  obtain ⟨w1, w2⟩ := h.window_in_flight r hr hrP k (by omega)
  exact h.slot_read _ w1 w2

theorem chunkInBounds_true (i L n : Nat) (hi : i < L) (hn : n ≤ L) : chunkInBounds i L n = true := by
  obtain ⟨_, h2, h3, _, _⟩ := Gen.nextChunkMut_lens i L n hi hn
  simp [chunkInBounds, h2, h3]

/-- A single granted slot (`next_ref`, `next_ref_mut`, `next_ref_mut_init`). -/
theorem grantOne_spec {s : St} {a : Sp} (h : Rel s a) (r : Role) (hr : r = .W → s.hasW = true) :
    Rel (grantOne s r).1 a ∧ (grantOne s r).2.abs (decide (r = .P)) = (a.grantOne r).2 ∧ (a.grantOne r).1 = a := by
  obtain ⟨h1, hok, hca, hidx⟩ := check_spec h r 1 hr
  unfold grantOne Sp.grantOne
  generalize hc : check s r 1 = c at h1 hok hca hidx
  obtain ⟨s1, ok⟩ := c
  simp only at h1 hok hca hidx ⊢
  by_cases hav : 1 ≤ a.avail r
  · simp only [hav, decide_true] at hok
    subst hok
    simp only [if_true]
    have hr1 : r = .W → s1.hasW = true := fun e => by rw [← h1.hasW, h.hasW]; exact hr e
    refine ⟨h1, ?_, by simp [hav]⟩
    by_cases hP : r = .P
    · subst hP; simp [Out.abs, hav]
    · simp only [hP, decide_false, Out.abs, Bool.false_eq_true, if_false, hav, if_true]
      congr 1
      obtain ⟨w1, w2⟩ := h1.window_in_flight r hr1 hP 0 (by omega)
      rw [h1.idx_eq r]
      exact h1.slot_read _ w1 w2
  · simp only [hav, decide_false] at hok
    subst hok
    simp [h1, Out.abs, hav]

/-- A granted window of `n` slots (`next_chunk_mut`). -/
theorem grantWindow_spec {s : St} {a : Sp} (h : Rel s a) (r : Role) (n : Nat) (hr : r = .W → s.hasW = true) :
    Rel (grantWindow s r n).1 a ∧ (grantWindow s r n).2.abs (decide (r = .P)) = (a.grantWin r n).2 ∧ (a.grantWin r n).1 = a ∧
    ((grantWindow s r n).2 = .none ↔ ¬ n ≤ a.avail r) ∧
    (∀ r', ((grantWindow s r n).1.it r').idx = (s.it r').idx) := by
  obtain ⟨h1, hok, hca, hidx⟩ := check_spec h r n hr
  unfold grantWindow Sp.grantWin
  generalize hc : check s r n = c at h1 hok hca hidx
  obtain ⟨s1, ok⟩ := c
  simp only at h1 hok hca hidx ⊢
  have hr1 : r = .W → s1.hasW = true := fun e => by rw [← h1.hasW, h.hasW]; exact hr e
  have hlim := h1.avail_le r hr1
  by_cases hav : n ≤ a.avail r
  · simp only [hav, decide_true] at hok
    subst hok
    have hb : chunkInBounds (s1.it r).idx s1.len n = true := chunkInBounds_true _ _ _ (h1.idx_lt r) (by omega)
    simp only [if_true, hb]
    refine ⟨h1, ?_, by simp [hav], ?_, hidx⟩
    · by_cases hP : r = .P
      · subst hP; simp [Out.abs, winOut, hav]
      · simp only [hP, decide_false, Out.abs, winOut, Bool.false_eq_true, if_false, hav, if_true]
        congr 1
        exact window_vals h1 r hr1 hP n hav
    · simp [winOut, hav]
  · simp only [hav, decide_false] at hok
    subst hok
    simp [h1, Out.abs, hav]
    exact hidx

theorem grantWindowRO_spec {s : St} {a : Sp} (h : Rel s a) (n : Nat) :
    Rel (grantWindowRO s .C n).1 a ∧ (grantWindowRO s .C n).2.abs false = (a.grantWin .C n).2 := by
  obtain ⟨h1, hok, hca, hidx⟩ := check_spec h .C n (by simp)
  unfold grantWindowRO Sp.grantWin
  generalize hc : check s .C n = c at h1 hok hca hidx
  obtain ⟨s1, ok⟩ := c
  simp only at h1 hok hca hidx ⊢
  have hlim := h1.avail_le .C (by simp)
  by_cases hav : n ≤ a.avail .C
  · simp only [hav, decide_true] at hok
    subst hok
    have hb : chunkInBounds (s1.it .C).idx s1.len n = true := chunkInBounds_true _ _ _ (h1.idx_lt .C) (by omega)
    simp only [if_true, hb]
    refine ⟨h1, ?_⟩
    simp only [Out.abs, winOutRO, Bool.false_eq_true, if_false, hav, if_true]
    congr 1
    exact window_vals_RO h1 .C (by simp) (by simp) n hav
  · simp only [hav, decide_false] at hok
    subst hok
    simp [h1, Out.abs, hav]

end MRB

namespace MRB

/-- Storing into a slot that holds no item in flight (ahead of the producer, within one lap of the consumer). -/
theorem store_free {store : St → Nat → Nat → St} (hs : StoreOk store) {s : St} {a : Sp} (h : Rel s a) (q v : Nat)
    (h1 : a.posP ≤ q) (h2 : q < a.pubC + s.len) :
    Rel (store s (q % s.len) v) a ∧ (store s (q % s.len) v).slots.getD (q % s.len) 0 = v ∧ FrameEq s (store s (q % s.len) v) := by
  have hL : 0 < s.len := h.len_pos
  obtain ⟨f, hsl⟩ := hs s (q % s.len) v
  have hlen : q % s.len < s.slots.length := by rw [h.slots_len]; exact Nat.mod_lt _ hL
  refine ⟨?_, ?_, f⟩
  · have := h.frame f a.hist h.hist_len (by
      intro q0 hq1 hq2
      rw [hsl, getD_set _ _ _ _ hlen]
      have : q0 % s.len ≠ q % s.len := mod_ne_of_lt_lap hL (by omega) (by omega) (by omega)
      simp [this]; exact h.content q0 hq1 hq2)
    exact this
  · rw [hsl, getD_set _ _ _ _ hlen]; simp

/-- Storing into an item in flight (a worker's or consumer's edit). -/
theorem store_item {store : St → Nat → Nat → St} (hs : StoreOk store) {s : St} {a : Sp} (h : Rel s a) (q v : Nat)
    (h1 : a.pubC ≤ q) (h2 : q < a.posP) :
    Rel (store s (q % s.len) v) { a with hist := a.hist.set q v } := by
  have hL : 0 < s.len := h.len_pos
  obtain ⟨f, hsl⟩ := hs s (q % s.len) v
  have hlen : q % s.len < s.slots.length := by rw [h.slots_len]; exact Nat.mod_lt _ hL
  obtain ⟨_, _, hch⟩ := h.chain
  have hhl := h.hist_len
  apply h.frame f (a.hist.set q v) (by simp; exact h.hist_len)
  intro q0 hq1 hq2
  rw [hsl, getD_set _ _ _ _ hlen, getD_set _ _ _ _ (by omega)]
  by_cases e : q0 = q
  · subst e; simp
  · have : q0 % s.len ≠ q % s.len := mod_ne_of_lt_lap hL e (by omega) (by omega)
    simp [this, e]; exact h.content q0 hq1 hq2

/-- Storing into a slot whose item has already been passed by the consumer's published position. -/
theorem store_behind {s : St} {a : Sp} (h : Rel s a) (q v : Nat) (h1 : q < a.pubC) (h2 : a.posP ≤ q + s.len) :
    Rel (s.setSlot (q % s.len) v) a := by
  have hL : 0 < s.len := h.len_pos
  have hlen : q % s.len < s.slots.length := by rw [h.slots_len]; exact Nat.mod_lt _ hL
  have f : FrameEq s (s.setSlot (q % s.len) v) := ⟨rfl, rfl, rfl, rfl, rfl, rfl, rfl, rfl, by simp [St.setSlot]⟩
  have := h.frame f a.hist h.hist_len (by
    intro q0 hq1 hq2
    simp only [St.setSlot]
    rw [getD_set _ _ _ _ hlen]
    have : q0 % s.len ≠ q % s.len := mod_ne_of_lt_lap hL (by omega) (by omega) (by omega)
    simp [this]; exact h.content q0 hq1 hq2)
  exact this

theorem poke_rel {s : St} {a : Sp} (h : Rel s a) (r : Role) (k v : Nat) (hr : r = .W → s.hasW = true) (hk : k < a.avail r) :
    Rel (assignSlot s (chunkSlot (s.it r).idx s.len (k + 1) k) v) (a.store r (a.pos r + k) v) := by
  have hL : 0 < s.len := h.len_pos
  have hav := h.avail_le r hr
  rw [chunkSlot_eq _ _ _ _ (h.idx_lt r) (by omega) (by omega), h.idx_eq r, mod_add_mod']
  by_cases hP : r = .P
  · subst hP
    obtain ⟨_, hle⟩ := h.availP_le
    simp only [Sp.avail, Sp.limit, Sp.pos, h.len_eq] at hk
    simp only [Sp.store, Sp.pos]
    exact (store_free assignSlot_ok h (a.posP + k) v (by omega) (by omega)).1
  · obtain ⟨w1, w2⟩ := h.window_in_flight r hr hP k hk
    have := store_item assignSlot_ok h (a.pos r + k) v w1 w2
    cases r
    · exact absurd rfl hP
    · exact this
    · exact this

theorem applyGen_it (s : St) (r : Role) (fi fc fp) (n : Nat) :
    ((applyGen s r fi fc fp n).it r).cached = fc (s.it r).idx (s.it r).cached (succIdx s r) s.len n 0 ∧
    ((applyGen s r fi fc fp n).it r).idx = fi (s.it r).idx (s.it r).cached (succIdx s r) s.len n 0 ∧
    ((applyGen s r fi fc fp n).it r).live = (s.it r).live ∧ ((applyGen s r fi fc fp n).it r).det = (s.it r).det ∧
    (applyGen s r fi fc fp n).hasW = s.hasW ∧ (applyGen s r fi fc fp n).len = s.len ∧ (applyGen s r fi fc fp n).slots = s.slots := by
  cases r <;> simp only [applyGen, St.it, St.setIt, succIdx] <;> split <;> simp [St.setPub, pubFld] <;>
    first | rfl | (cases Gen.prodPub <;> simp) | (cases Gen.workPub <;> simp) | (cases Gen.consPub <;> simp)

/-- `advanceGlobal` only touches the iterator and the published index. -/
theorem applyGen_setSlot (s : St) (r : Role) (fi fc fp) (n i v : Nat) :
    applyGen (s.setSlot i v) r fi fc fp n = (applyGen s r fi fc fp n).setSlot i v := by
  cases r <;> simp only [applyGen, St.it, St.setSlot, St.setIt, succIdx, St.pub] <;> split <;> rfl

/-- `push` / `push_init`. -/
theorem pushWith_spec {store : St → Nat → Nat → St} (hs : StoreOk store) {s : St} {a : Sp} (h : Rel s a) (v : Nat)
    (hd : a.detP = false) :
    Rel (pushWith store s v).1 (if 1 ≤ a.avail .P then a.move .P 1 [v] else a) ∧
    (pushWith store s v).2 = (if 1 ≤ a.avail .P then Out.ok else Out.err v) := by
  obtain ⟨h1, hok, hca, hidx⟩ := check_spec h .P 1 (by simp)
  unfold pushWith
  generalize hc : check s .P 1 = c at h1 hok hca hidx
  obtain ⟨s1, ok⟩ := c
  simp only at h1 hok hca hidx ⊢
  by_cases hav : 1 ≤ a.avail .P
  · simp only [hav, decide_true] at hok
    subst hok
    simp only [if_true, hav]
    obtain ⟨_, hle⟩ := h1.availP_le
    have havP : a.avail .P = a.pubC + (s1.len - 1) - a.posP := by simp [Sp.avail, Sp.limit, Sp.pos, h1.len_eq]
    have hi : (s1.it .P).idx = a.posP % s1.len := h1.idxP
    rw [hi]
    obtain ⟨h2, hval, f⟩ := store_free hs h1 a.posP v (Nat.le_refl _) (by omega)
    have key := advance_P h2 1 [v] hav rfl (by
      intro k hk
      have : k = 0 := by omega
      subst this
      simp only [Nat.add_zero, List.getD_cons_zero]
      rw [f.1]; exact hval)
    have hdet : (store s1 (a.posP % s1.len) v).p.det = false := by rw [h2.detP]; exact hd
    simp only [hdet, Bool.false_eq_true, if_false] at key
    exact ⟨key, trivial⟩
  · simp only [hav, decide_false] at hok
    subst hok
    simp [h1, hav]

/-- `push_slice*`. -/
theorem pushSliceWith_spec {store : St → Nat → Nat → St} (hs : StoreOk store) {s : St} {a : Sp} (h : Rel s a) (vs : List Nat)
    (hd : a.detP = false) :
    Rel (pushSliceWith store s vs).1 (if vs.length ≤ a.avail .P then a.move .P vs.length vs else a) ∧
    (pushSliceWith store s vs).2 = (if vs.length ≤ a.avail .P then Out.ok else Out.none) := by
  obtain ⟨h1, hok, hca, hidx⟩ := check_spec h .P vs.length (by simp)
  unfold pushSliceWith
  cases hc : check s .P vs.length with
  | mk s1 ok =>
  rw [hc] at h1 hok hca hidx
  dsimp only at h1 hok hca hidx
  simp only [hc]
  by_cases hav : vs.length ≤ a.avail .P
  · simp only [hav, decide_true] at hok
    subst hok
    simp only [if_true, hav]
    obtain ⟨hlim, hle⟩ := h1.availP_le
    have hb : chunkInBounds (s1.it .P).idx s1.len vs.length = true := chunkInBounds_true _ _ _ (h1.idx_lt .P) (by omega)
    simp only [hb, if_true]
    have hi : (s1.it .P).idx = a.posP % s1.len := h1.idxP
    rw [hi]
    obtain ⟨f, hpres, hvals⟩ := storeWindow_prefix hs h1 vs.length hav vs vs.length (Nat.le_refl _)
    unfold storeWindow
    generalize (List.range vs.length).foldl (fun acc k => store acc (chunkSlot (a.posP % s1.len) s1.len vs.length k) (vs.getD k 0)) s1 = s3 at f hpres hvals ⊢
    have h3 : Rel s3 a := by
      have := h1.frame f a.hist h1.hist_len (by
        intro q hq1 hq2; rw [hpres q hq1 hq2]; exact h1.content q hq1 hq2)
      exact this
    have key := advance_P h3 vs.length vs hav rfl (by intro k hk; rw [f.1]; exact hvals k hk)
    have hdet : s3.p.det = false := by rw [h3.detP]; exact hd
    simp only [hdet, Bool.false_eq_true, if_false] at key
    exact ⟨key, trivial⟩
  · simp only [hav, decide_false] at hok
    subst hok
    simp [h1, hav]

end MRB

namespace MRB

theorem readGuard_frame (s : St) (v : Nat) : FrameEq s (readGuard s v) ∧ (readGuard s v).slots = s.slots := by
  unfold readGuard; split
  · exact setFault_frame s _
  · exact ⟨FrameEq.refl _, rfl⟩

theorem Rel.sameSlots {s s' : St} {a : Sp} (h : Rel s a) (f : FrameEq s s') (hs : s'.slots = s.slots) : Rel s' a := by
  have := h.frame f a.hist h.hist_len (by intro q h1 h2; rw [hs]; exact h.content q h1 h2)
  exact this

theorem readGuard_rel {s : St} {a : Sp} (h : Rel s a) (v : Nat) : Rel (readGuard s v) a :=
  h.sameSlots (readGuard_frame s v).1 (readGuard_frame s v).2

theorem foldl_readGuard_rel {s : St} {a : Sp} (h : Rel s a) (vs : List Nat) : Rel (vs.foldl readGuard s) a := by
  induction vs generalizing s with
  | nil => exact h
  | cons v vs ih => exact ih (readGuard_rel h v)

theorem readGuard_det (s : St) (v : Nat) : (readGuard s v).c.det = s.c.det := by
  have := (readGuard_frame s v).1.2.2.2.2.1; rw [this]

theorem foldl_readGuard_det (s : St) (vs : List Nat) : (vs.foldl readGuard s).c.det = s.c.det := by
  induction vs generalizing s with
  | nil => rfl
  | cons v vs ih => rw [List.foldl_cons, ih, readGuard_det]

/-- Consumer operations that deliver one item (`pop`, `copy_item`, `clone_item`; `pop_move` also empties the slot). -/
theorem deliverOne_spec {s : St} {a : Sp} (h : Rel s a) (hd : a.detC = false) (g : St → Nat → St)
    (hg : ∀ t v, FrameEq t (g t v) ∧ (g t v).slots = t.slots) (zero : Bool) :
    let r := (let (s1, ok) := check s .C 1
              if ok then
                let i := (s1.it .C).idx
                let v := s1.slotAt i
                let s2 := g s1 v
                (advanceGlobal (if zero then s2.setSlot i 0 else s2) .C 1, Out.item v)
              else (s1, Out.none))
    Rel r.1 (if 1 ≤ a.avail .C then a.move .C 1 [] else a) ∧
    r.2 = (if 1 ≤ a.avail .C then Out.item (a.valAt a.posC) else Out.none) := by
  obtain ⟨h1, hok, hca, hidx⟩ := check_spec h .C 1 (by simp)
  cases hc : check s .C 1 with
  | mk s1 ok =>
  rw [hc] at h1 hok hca hidx
  dsimp only at h1 hok hca hidx
  simp only [hc]
  by_cases hav : 1 ≤ a.avail .C
  · simp only [hav, decide_true] at hok
    subst hok
    simp only [if_true, hav]
    have hi : (s1.it .C).idx = a.posC % s1.len := h1.idxC
    obtain ⟨w1, w2⟩ := h1.window_in_flight .C (by simp) (by simp) 0 (by omega)
    simp only [Sp.pos, Nat.add_zero] at w1 w2
    have hv : s1.slotAt (s1.it .C).idx = a.valAt a.posC := by rw [hi]; exact h1.slot_read _ w1 w2
    rw [hv]
    refine ⟨?_, rfl⟩
    have h2 : Rel (g s1 (a.valAt a.posC)) a := h1.sameSlots (hg _ _).1 (hg _ _).2
    have hdet : (g s1 (a.valAt a.posC)).c.det = false := by rw [h2.detC]; exact hd
    have key := advance_C h2 1 [] hav
    simp only [hdet, Bool.false_eq_true, if_false] at key
    cases zero
    · simpa using key
    · simp only [if_true]
      unfold advanceGlobal at key ⊢
      rw [applyGen_setSlot]
      have hlen : (g s1 (a.valAt a.posC)).len = s1.len := (hg _ _).1.1
      have hlen2 : (applyGen (g s1 (a.valAt a.posC)) .C Gen.advance.index' Gen.advance.cached' Gen.advance.pub' 1).len = s1.len := by
        rw [← hlen]; simp only [applyGen, St.it, St.setIt, St.setPub, pubFld, Gen.consPub, Gen.advance_pub_eq]
      rw [hi, ← hlen2]
      apply store_behind key
      · simp [Sp.move, Sp.det, hd, Sp.setPos, Sp.publish, Sp.pos]
      · have := h1.chain.2.2
        simp [Sp.move, Sp.det, hd, Sp.setPos, Sp.publish, Sp.pos, hlen2]
        omega
  · simp only [hav, decide_false] at hok
    subst hok
    simp [h1, hav]

end MRB

namespace MRB

theorem grantWindow_cases {s : St} {a : Sp} (h : Rel s a) (r : Role) (n : Nat) (hr : r = .W → s.hasW = true) :
    (n ≤ a.avail r → ∃ s1, grantWindow s r n = (s1, winOut s1 (s1.it r).idx n) ∧ Rel s1 a) ∧
    (¬ n ≤ a.avail r → ∃ s1, grantWindow s r n = (s1, .none) ∧ Rel s1 a) := by
  obtain ⟨h1, hok, hca, hidx⟩ := check_spec h r n hr
  unfold grantWindow
  cases hc : check s r n with
  | mk s1 ok =>
  rw [hc] at h1 hok hca hidx
  dsimp only at h1 hok hca hidx
  have hr1 : r = .W → s1.hasW = true := fun e => by rw [← h1.hasW, h.hasW]; exact hr e
  have hlim := h1.avail_le r hr1
  constructor
  · intro hav
    simp only [hav, decide_true] at hok
    subst hok
    have hb : chunkInBounds (s1.it r).idx s1.len n = true := chunkInBounds_true _ _ _ (h1.idx_lt r) (by omega)
    exact ⟨s1, by simp [hb], h1⟩
  · intro hav
    simp only [hav, decide_false] at hok
    subst hok
    exact ⟨s1, by simp, h1⟩

/-- `copy_slice` / `clone_slice`. -/
theorem deliverSlice_spec {s : St} {a : Sp} (h : Rel s a) (hd : a.detC = false) (n : Nat) (g : St → List Nat → St)
    (hg : ∀ t vs, Rel t a → Rel (g t vs) a) (hgd : ∀ t vs, (g t vs).c.det = t.c.det) :
    let r := (let (s1, o) := grantWindow s .C n
              match o with
              | .win _ _ _ _ vs => (advanceGlobal (g s1 vs) .C n, Out.vals vs)
              | _ => (s1, Out.none))
    Rel r.1 (if n ≤ a.avail .C then a.move .C n [] else a) ∧
    r.2 = (if n ≤ a.avail .C then Out.vals (a.window a.posC n) else Out.none) := by
  obtain ⟨c1, c2⟩ := grantWindow_cases h .C n (by simp)
  by_cases hav : n ≤ a.avail .C
  · obtain ⟨s1, e, h1⟩ := c1 hav
    simp only [e, winOut, hav, if_true]
    have hv := window_vals h1 .C (by simp) (by simp) n hav
    simp only [Sp.pos] at hv
    rw [hv]
    refine ⟨?_, rfl⟩
    have h2 := hg s1 (a.window a.posC n) h1
    have hdet : (g s1 (a.window a.posC n)).c.det = false := by rw [hgd, h1.detC]; exact hd
    have key := advance_C h2 n [] hav
    simp only [hdet, Bool.false_eq_true, if_false] at key
    exact key
  · obtain ⟨s1, e, h1⟩ := c2 hav
    simp [e, hav, h1]

theorem dropIter_rel {s : St} {a : Sp} (h : Rel s a) (r : Role) : Rel (dropIter s r) a := by
  unfold dropIter releaseStorage
  cases r <;> simp only [St.setIt, St.it] <;>
    by_cases c1 : s.liveCount - 1 = 0 ∧ s.heap = true <;> by_cases c2 : s.owned = true <;>
    simp only [c1, c2, if_true, if_false, Bool.false_eq_true] <;> exact { h with }

theorem resplit_rel {s : St} {a : Sp} (h : Rel s a) (withW : Bool) :
    Rel { s with hasW := withW, pubP := 0, pubW := 0, pubC := 0,
                 flagP := true, flagW := (if withW then true else s.flagW), flagC := true,
                 liveCount := s.liveCount + (if withW then 3 else 2),
                 p := {}, w := { live := withW }, c := {} }
        { len := a.len, hasW := withW } :=
  { len_pos := h.len_pos, len_eq := h.len_eq, slots_len := h.slots_len, hasW := rfl,
    idxP := by simp, idxW := by simp, idxC := by simp, pubP := by simp, pubW := by simp, pubC := by simp,
    detP := rfl, detW := rfl, detC := rfl,
    leP := Nat.le_refl _, leW := Nat.le_refl _, leC := Nat.le_refl _,
    eqP := fun _ => rfl, eqW := fun _ => rfl, eqC := fun _ => rfl,
    ordP := Nat.zero_le _, ordW := fun _ => Nat.le_refl _, ordC := by simp,
    caP := Nat.zero_le _, caW := fun _ => Nat.zero_le _, caC := Nat.zero_le _,
    hist_len := Nat.zero_le _, content := fun q _ hq => absurd hq (Nat.not_lt_zero _), mask_len := rfl, len_lt := h.len_lt }

end MRB

namespace MRB

theorem producerGrant_getWorkable (r : Role) : (Op.getWorkable r).producerGrant = decide (r = .P) := by cases r <;> rfl
theorem producerGrant_sliceExact (r : Role) (n : Nat) : (Op.sliceExact r n).producerGrant = decide (r = .P) := by cases r <;> rfl
theorem producerGrant_sliceAvail (r : Role) : (Op.sliceAvail r).producerGrant = decide (r = .P) := by cases r <;> rfl
theorem producerGrant_sliceMultipleOf (r : Role) (k : Nat) : (Op.sliceMultipleOf r k).producerGrant = decide (r = .P) := by cases r <;> rfl

theorem ite_pair {α β : Type} (c : Prop) [Decidable c] (x y : α) (o : β) :
    (if c then (x, o) else (y, o)) = (if c then x else y, o) := by split <;> rfl

theorem deliverOne_spec' {s : St} {a : Sp} (h : Rel s a) (hd : a.detC = false) (g : St → Nat → St)
    (hg : ∀ t v, FrameEq t (g t v) ∧ (g t v).slots = t.slots) (zero : Bool) :
    let r := (let (s1, ok) := check s .C 1
              if ok then
                let i := (s1.it .C).idx
                let v := s1.slotAt i
                let s2 := g s1 v
                (advanceGlobal (if zero then s2.setSlot i 0 else s2) .C 1, Out.item v)
              else (s1, Out.none))
    let x := (if 1 ≤ a.avail .C then (a.move .C 1 [], AOut.item (a.valAt a.posC)) else (a, AOut.none))
    Rel r.1 x.1 ∧ r.2.abs false = x.2 := by
  obtain ⟨g1, g2⟩ := deliverOne_spec h hd g hg zero
  intro r x
  by_cases hav : 1 ≤ a.avail .C
  · simp only [hav, if_true] at g1 g2
    simp only [x, hav, if_true]
    exact ⟨g1, by rw [g2]; rfl⟩
  · simp only [hav, if_false] at g1 g2
    simp only [x, hav, if_false]
    exact ⟨g1, by rw [g2]; rfl⟩

theorem deliverSlice_spec' {s : St} {a : Sp} (h : Rel s a) (hd : a.detC = false) (n : Nat) (g : St → List Nat → St)
    (hg : ∀ t vs, Rel t a → Rel (g t vs) a) (hgd : ∀ t vs, (g t vs).c.det = t.c.det) :
    let r := (let (s1, o) := grantWindow s .C n
              match o with
              | .win _ _ _ _ vs => (advanceGlobal (g s1 vs) .C n, Out.vals vs)
              | _ => (s1, Out.none))
    let x := (if n ≤ a.avail .C then (a.move .C n [], AOut.vals (a.window a.posC n)) else (a, AOut.none))
    Rel r.1 x.1 ∧ r.2.abs false = x.2 := by
  obtain ⟨g1, g2⟩ := deliverSlice_spec h hd n g hg hgd
  intro r x
  by_cases hav : n ≤ a.avail .C
  · simp only [hav, if_true] at g1 g2
    simp only [x, hav, if_true]
    exact ⟨g1, by rw [g2]; rfl⟩
  · simp only [hav, if_false] at g1 g2
    simp only [x, hav, if_false]
    exact ⟨g1, by rw [g2]; rfl⟩

theorem pushWith_spec' {store : St → Nat → Nat → St} (hs : StoreOk store) {s : St} {a : Sp} (h : Rel s a) (v : Nat)
    (hd : a.detP = false) :
    let x := (if 1 ≤ a.avail .P then (a.move .P 1 [v], AOut.ok) else (a, AOut.err v))
    Rel (pushWith store s v).1 x.1 ∧ (pushWith store s v).2.abs false = x.2 := by
  obtain ⟨g1, g2⟩ := pushWith_spec hs h v hd
  intro x
  by_cases hav : 1 ≤ a.avail .P
  · simp only [hav, if_true] at g1 g2
    simp only [x, hav, if_true]
    exact ⟨g1, by rw [g2]; rfl⟩
  · simp only [hav, if_false] at g1 g2
    simp only [x, hav, if_false]
    exact ⟨g1, by rw [g2]; rfl⟩

theorem pushSliceWith_spec' {store : St → Nat → Nat → St} (hs : StoreOk store) {s : St} {a : Sp} (h : Rel s a) (vs : List Nat)
    (hd : a.detP = false) :
    let x := (if vs.length ≤ a.avail .P then (a.move .P vs.length vs, AOut.ok) else (a, AOut.none))
    Rel (pushSliceWith store s vs).1 x.1 ∧ (pushSliceWith store s vs).2.abs false = x.2 := by
  obtain ⟨g1, g2⟩ := pushSliceWith_spec hs h vs hd
  intro x
  by_cases hav : vs.length ≤ a.avail .P
  · simp only [hav, if_true] at g1 g2
    simp only [x, hav, if_true]
    exact ⟨g1, by rw [g2]; rfl⟩
  · simp only [hav, if_false] at g1 g2
    simp only [x, hav, if_false]
    exact ⟨g1, by rw [g2]; rfl⟩

/-- **Refinement.** Under the invariant and the contract, one step of the physical machine re-establishes the
    invariant with the specification's next state, and returns what the specification prescribes. -/
theorem step_refines {s : St} {a : Sp} (h : Rel s a) (op : Op) (hal : Allowed s a op) :
    Rel (step s op).1 (a.step op).1 ∧ (step s op).2.abs op.producerGrant = (a.step op).2 := by
  cases op with
  | available r =>
    obtain ⟨h1, h2⟩ := refresh_spec h r hal.2
    simp only [step, Sp.step, Out.abs]
    exact ⟨h1, by rw [h2]⟩
  | advance r n vs =>
    obtain ⟨_, hr, hn, hv⟩ := hal
    simp only [step, Sp.step, ite_pair]
    cases r
    · exact ⟨advance_P h n vs hn (hv rfl).1 (hv rfl).2, rfl⟩
    · exact ⟨advance_W h (by rw [h.hasW]; exact hr rfl) n vs hn, rfl⟩
    · exact ⟨advance_C h n vs hn, rfl⟩
  | getWorkable r =>
    obtain ⟨h1, h2, h3⟩ := grantOne_spec h r hal.2
    simp only [step, Sp.step, producerGrant_getWorkable]
    exact ⟨by rw [h3]; exact h1, h2⟩
  | sliceExact r n =>
    obtain ⟨h1, h2, h3, _, _⟩ := grantWindow_spec h r n hal.2
    simp only [step, Sp.step, producerGrant_sliceExact]
    exact ⟨by rw [h3]; exact h1, h2⟩
  | sliceAvail r =>
    obtain ⟨h1, h2⟩ := refresh_spec h r hal.2
    simp only [step, Sp.step, producerGrant_sliceAvail]
    cases hc : refresh s r with
    | mk s1 av =>
    rw [hc] at h1 h2; dsimp only at h1 h2; subst h2
    simp only [Gen.sliceAvail_count_eq]
    by_cases h0 : a.avail r = 0
    · simp only [h0, if_true]; exact ⟨h1, rfl⟩
    · have hr1 : r = .W → s1.hasW = true := fun e => by rw [← h1.hasW, h.hasW]; exact hal.2 e
      obtain ⟨g1, g2, g3, _, _⟩ := grantWindow_spec h1 r (a.avail r) hr1
      simp only [h0, if_false]
      exact ⟨by rw [g3]; exact g1, g2⟩
  | sliceMultipleOf r k =>
    obtain ⟨h1, h2⟩ := refresh_spec h r hal.2
    simp only [step, Sp.step, producerGrant_sliceMultipleOf]
    cases hc : refresh s r with
    | mk s1 av =>
    rw [hc] at h1 h2; dsimp only at h1 h2; subst h2
    by_cases hk : k = 0
    · simp only [hk, if_true]; exact ⟨h1, rfl⟩
    · simp only [hk, if_false, Gen.sliceMultipleOf_count_eq]
      by_cases h0 : a.avail r - a.avail r % k = 0
      · simp only [h0, if_true]; exact ⟨h1, rfl⟩
      · have hr1 : r = .W → s1.hasW = true := fun e => by rw [← h1.hasW, h.hasW]; exact hal.2 e
        obtain ⟨g1, g2, g3, _, _⟩ := grantWindow_spec h1 r (a.avail r - a.avail r % k) hr1
        simp only [h0, if_false]
        exact ⟨by rw [g3]; exact g1, g2⟩
  | poke r k v =>
    obtain ⟨_, hr, hk⟩ := hal
    simp only [step, Sp.step, Out.abs]
    exact ⟨poke_rel h r k v hr hk, trivial⟩
  | push v => exact pushWith_spec' assignSlot_ok h v hal.2
  | pushInit v => exact pushWith_spec' initSlot_ok h v hal.2
  | pushSlice vs => exact pushSliceWith_spec' writeSlot_ok h vs hal.2.1
  | pushSliceInit vs => exact pushSliceWith_spec' writeSlot_ok h vs hal.2.1
  | pushSliceClone vs => exact pushSliceWith_spec' assignSlot_ok h vs hal.2.1
  | pushSliceCloneInit vs => exact pushSliceWith_spec' initSlot_ok h vs hal.2.1
  | nextItemMut =>
    obtain ⟨h1, h2, h3⟩ := grantOne_spec h .P (by simp)
    simp only [step, Sp.step, Op.producerGrant]
    exact ⟨by rw [h3]; exact h1, by simpa using h2⟩
  | nextItemMutInit =>
    obtain ⟨h1, h2, h3⟩ := grantOne_spec h .P (by simp)
    simp only [step, Sp.step, Op.producerGrant]
    exact ⟨by rw [h3]; exact h1, by simpa using h2⟩
  | nextSlicesMut n =>
    obtain ⟨h1, h2, h3, _, _⟩ := grantWindow_spec h .P n (by simp)
    simp only [step, Sp.step, Op.producerGrant]
    exact ⟨by rw [h3]; exact h1, by simpa using h2⟩
  | resetIndex r =>
    obtain ⟨_, hr, hP⟩ := hal
    cases r
    · exact absurd rfl hP
    · have := reset_W h (by rw [h.hasW]; exact hr rfl)
      have hdd := h.detW
      simp only [step, Sp.step, St.it, Out.abs]
      cases hd : a.detW <;> rw [hd] at hdd <;>
        simp only [hd, hdd, Bool.false_eq_true, if_true, if_false] at this ⊢ <;> exact ⟨this, trivial⟩
    · have := reset_C h
      have hdd := h.detC
      simp only [step, Sp.step, St.it, Out.abs]
      cases hd : a.detC <;> rw [hd] at hdd <;>
        simp only [hd, hdd, Bool.false_eq_true, if_true, if_false] at this ⊢ <;> exact ⟨this, trivial⟩
  | peekRef =>
    obtain ⟨h1, h2, h3⟩ := grantOne_spec h .C (by simp)
    simp only [step, Sp.step, Op.producerGrant]
    exact ⟨by rw [h3]; exact h1, by simpa using h2⟩
  | peekSlice n =>
    obtain ⟨h1, h2⟩ := grantWindowRO_spec h n
    simp only [step, Sp.step, Op.producerGrant]
    refine ⟨?_, h2⟩
    unfold Sp.grantWin; split <;> exact h1
  | peekAvailable =>
    obtain ⟨h1, h2⟩ := refresh_spec h .C (by simp)
    simp only [step, Sp.step, Op.producerGrant]
    cases hc : refresh s .C with
    | mk s1 av =>
    rw [hc] at h1 h2; dsimp only at h1 h2; subst h2
    obtain ⟨g1, g2⟩ := grantWindowRO_spec h1 (a.avail .C)
    refine ⟨?_, g2⟩
    unfold Sp.grantWin; split <;> exact g1
  | popMove => exact deliverOne_spec' h hal.2 readGuard (fun t v => readGuard_frame t v) true
  | pop => exact deliverOne_spec' h hal.2 (fun t _ => t) (fun t _ => ⟨FrameEq.refl t, rfl⟩) false
  | copyItem => exact deliverOne_spec' h hal.2 (fun t _ => t) (fun t _ => ⟨FrameEq.refl t, rfl⟩) false
  | cloneItem => exact deliverOne_spec' h hal.2 readGuard (fun t v => readGuard_frame t v) false
  | copySlice n => exact deliverSlice_spec' h hal.2 n (fun t _ => t) (fun _ _ ht => ht) (fun _ _ => rfl)
  | cloneSlice n =>
    exact deliverSlice_spec' h hal.2 n (fun t vs => vs.foldl readGuard t) (fun t vs ht => foldl_readGuard_rel ht vs)
      (fun t vs => foldl_readGuard_det t vs)
  | detach r =>
    obtain ⟨_, hr, hd⟩ := hal
    simp only [step, Sp.step, Out.abs]
    exact ⟨setDet_rel h r true (by simp), trivial⟩
  | attach r =>
    obtain ⟨_, hr, hd⟩ := hal
    simp only [step, Sp.step, Out.abs]
    exact ⟨attach_rel h r hr, trivial⟩
  | setIndex r i =>
    obtain ⟨_, hr, hd, hi, hq, hqP⟩ := hal
    simp only [step, Sp.step, Out.abs]
    exact ⟨setIndex_rel h r i hr hd hi hq hqP, trivial⟩
  | goBack r n =>
    obtain ⟨_, hr, hd, hn⟩ := hal
    simp only [step, Sp.step, Out.abs]
    exact ⟨goBack_rel h r n hr hd hn, trivial⟩
  | syncIndex r =>
    obtain ⟨_, hr, hd⟩ := hal
    simp only [step, Sp.step, Out.abs]
    exact ⟨sync_rel h r hr, trivial⟩
  | dropIt r =>
    simp only [step, Sp.step, Out.abs]
    exact ⟨dropIter_rel h r, trivial⟩
  | resplit w =>
    simp only [step, Sp.step, Out.abs]
    exact ⟨resplit_rel h w, trivial⟩

end MRB
