use mutringbuf::*;
fn d1() {
    let buf = ConcurrentHeapRB::from((100u64..108).collect::<Vec<_>>());
    let (mut p, mut c) = buf.split();
    for i in 0..5 { p.push(i).unwrap(); }
    let a = c.available();
    c.reset_index();
    let r = c.pop();
    println!("D1: avail_before={a} pop_after_reset={:?} cons_idx={} prod_idx={} prod_avail={}", r, c.index(), p.index(), p.available());
}
fn d2() {
    let buf = LocalHeapRB::<u64>::default(8);
    let (mut p, w, _c) = buf.split_mut();
    for i in 0..5 { p.push(i).unwrap(); }
    let mut d = w.detach();
    d.available();
    unsafe { d.advance(2); }
    // idx 2; go_back(3) is a contract violation here (only 2 behind). Use a wrap scenario instead:
    drop(d);
    // scenario with wrap: len 8, producer and consumer go around so that worker idx=2 with 3 unpublished behind it
    let buf = LocalHeapRB::<u64>::default(8);
    let (mut p, w, mut c) = buf.split_mut();
    for i in 0..7 { p.push(i).unwrap(); }
    let mut w = w;
    w.available(); unsafe { w.advance(7); }      // worker at 7
    c.available(); unsafe { c.advance(7); }      // consumer at 7
    for i in 0..4 { p.push(10+i).unwrap(); }     // producer at 3 (7,0,1,2 filled)
    let mut d = w.detach();
    d.available(); unsafe { d.advance(3); }      // local idx 2, published 7
    unsafe { d.go_back(3); }                     // must be 7
    println!("D2: go_back(3) from idx 2 len 8 -> {} (must be 7)", d.index());
}
fn d3() {
    let buf = LocalHeapRB::<u64>::default(8);
    let (mut p, w, _c) = buf.split_mut();
    for i in 0..5 { p.push(i).unwrap(); }
    let mut d = w.detach();
    let a = d.available();
    unsafe { d.set_index(4); }
    let r = d.get_workable_slice_exact(5).map(|(h,t)| (h.len(), t.len()));
    println!("D3: avail={a} set_index(4) get_workable_slice_exact(5)={:?} (must be None, 1 available)", r);
    d.reset_index();
    println!("D3b: after detached reset_index idx={} get_workable={:?} (must be None)", d.index(), d.get_workable().map(|x| *x));
}
fn d4() {
    let mut buf = ConcurrentStackRB::<u64, 4>::default();
    {
        let (mut p, mut c) = buf.split();
        for i in 1..=3 { p.push(i).unwrap(); }
        for _ in 0..3 { c.pop().unwrap(); }
    }
    let (mut p, mut c) = buf.split();
    println!("D4: after re-split prod.available={} cons.available={} cons.pop={:?} (must be 3,0,None)", p.available(), c.available(), c.pop());
}
fn main() { d1(); d2(); d3(); d4(); }
