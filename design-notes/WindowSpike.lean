/-
  DESIGN ATTACHMENT (feasibility spike, NOT part of the framework): cyclic window lemmas over a List of slots,
  the two facts the sequential refinement (C01/C06) is built from. Checks in < 1 s with core Lean only.
-/
/- spike: cyclic window over slots as a function-free List model -/
def window (sl : List Nat) (i n : Nat) : List Nat :=
  (List.range n).map (fun k => sl.getD ((i + k) % sl.length) 0)

theorem window_length (sl : List Nat) (i n : Nat) : (window sl i n).length = n := by
  simp [window]

theorem window_succ (sl : List Nat) (i n : Nat) :
    window sl i (n+1) = window sl i n ++ [sl.getD ((i + n) % sl.length) 0] := by
  simp [window, List.range_succ]

/-- writing the slot just past a window of length d < L leaves the window intact and appends -/
theorem window_set_end (sl : List Nat) (c d v : Nat) (hd : d < sl.length) (hc : c < sl.length) :
    window (sl.set ((c + d) % sl.length) v) c (d+1) = window sl c d ++ [v] := by
  have hL : 0 < sl.length := by omega
  rw [window_succ]
  congr 1
  · -- old part untouched
    simp only [window, List.length_set]
    apply List.map_congr_left
    intro k hk
    simp only [List.mem_range] at hk
    rw [List.getD_eq_getElem?_getD, List.getD_eq_getElem?_getD, List.getElem?_set_ne]
    intro heq
    -- (c+d) % L = (c+k) % L with k < d < L impossible
    have h1 : (c + d) % sl.length = (c + k) % sl.length := heq
    have : (c + d - (c + k)) % sl.length = 0 := Nat.sub_mod_eq_zero_of_mod_eq h1
    have h2 : c + d - (c + k) < sl.length := by omega
    rw [Nat.mod_eq_of_lt h2] at this
    omega
  · simp only [List.length_set]
    rw [List.getD_eq_getElem?_getD, List.getElem?_set_self (by simpa using Nat.mod_lt _ hL)]
    rfl

/-- popping: the window from c+1 of length d is the tail -/
theorem window_tail (sl : List Nat) (c d : Nat) (hc : c < sl.length) :
    window sl c (d+1) = sl.getD c 0 :: window sl ((c + 1) % sl.length) d := by
  have hL : 0 < sl.length := by omega
  simp only [window, List.range_succ_eq_map, List.map_cons, List.map_map]
  congr 1
  · simp [Nat.mod_eq_of_lt hc]
  · apply List.map_congr_left
    intro k _
    simp only [Function.comp]
    congr 1
    rw [Nat.add_mod ((c+1) % sl.length) k, Nat.mod_mod, ← Nat.add_mod]
    congr 1; omega
#print axioms window_set_end
#print axioms window_tail
