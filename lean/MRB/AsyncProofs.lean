/-
  MRB.AsyncProofs — `poll` equals one synchronous attempt; `Pending` has no effect.
-/
import MRB.Async
import MRB.Seq.Run
import MRB.Seq.Life

set_option linter.unusedVariables false

namespace MRB

/-- The operations that exist as futures on the async iterators. -/
def Op.isAsync : Op → Bool
  | .getWorkable _ | .sliceExact _ _ | .sliceAvail _ | .sliceMultipleOf _ _
  | .push _ | .pushSlice _ | .pushSliceClone _ | .nextItemMut | .nextItemMutInit | .nextSlicesMut _
  | .peekRef | .peekSlice _ | .peekAvailable | .popMove | .pop | .copyItem | .cloneItem | .copySlice _ | .cloneSlice _ => true
  | _ => false

def AOut.refused : AOut → Bool
  | .none | .err _ => true
  | _ => false

theorem Out.granted_abs (o : Out) (b : Bool) : o.granted = !(o.abs b).refused := by
  cases o <;> cases b <;> simp [Out.granted, Out.abs, AOut.refused]

/-- A refused operation leaves the specification state untouched. -/
theorem Sp.refused_unchanged (a : Sp) (op : Op) (hop : op.isAsync = true) (h : (a.step op).2.refused = true) : (a.step op).1 = a := by
  cases op <;> simp only [Op.isAsync] at hop <;> simp only [Sp.step, Sp.grantOne, Sp.grantWin] at h ⊢ <;>
    (repeat' split) <;> simp_all [AOut.refused]

theorem allowed_transfer {s s1 : St} {a : Sp} (h : Rel s a) (h1 : Rel s1 a) (hl : s1.life = s.life) (op : Op) (hop : op.isAsync = true)
    (hal : Allowed s a op) : Allowed s1 a op := by
  have e1 : s1.p.live = s.p.live := by have := congrArg Life.pl hl; simpa [St.life] using this
  have e2 : s1.w.live = s.w.live := by have := congrArg Life.wl hl; simpa [St.life] using this
  have e3 : s1.c.live = s.c.live := by have := congrArg Life.cl hl; simpa [St.life] using this
  have ew : s1.hasW = s.hasW := by rw [← h1.hasW, h.hasW]
  have el : s1.len = s.len := by rw [← h1.len_eq, h.len_eq]
  have eit : ∀ r, (s1.it r).live = (s.it r).live := by intro r; cases r <;> simp [St.it, e1, e2, e3]
  cases op <;> simp only [Op.isAsync] at hop <;> simp only [Allowed] at hal ⊢ <;> simp_all

theorem isAsync_not_drop (op : Op) (hop : op.isAsync = true) : (∀ r, op ≠ .dropIt r) ∧ (∀ w, op ≠ .resplit w) := by
  cases op <;> simp [Op.isAsync] at hop <;> simp

/-- **Polling = one synchronous attempt.** If the synchronous operation is carried out, `poll` resolves with exactly its
    result and state; otherwise it returns `Pending` and the state still represents the same abstract state. -/
theorem poll_spec {s : St} {a : Sp} (h : Rel s a) (op : Op) (hop : op.isAsync = true) (hal : Allowed s a op) :
    ((a.step op).2.refused = false → poll s op = ((step s op).1, .ready (step s op).2)) ∧
    ((a.step op).2.refused = true → (poll s op).2 = .pending ∧ Rel (poll s op).1 a ∧ (poll s op).1.life = s.life) := by
  obtain ⟨r1, r2⟩ := step_refines h op hal
  obtain ⟨nd, nr⟩ := isAsync_not_drop op hop
  have g1 : (step s op).2.granted = !(a.step op).2.refused := by rw [Out.granted_abs _ op.producerGrant, r2]
  constructor
  · intro hr
    unfold poll
    simp only [g1, hr, Bool.not_false, if_true]
  · intro hr
    have hu := Sp.refused_unchanged a op hop hr
    rw [hu] at r1
    have l1 := life_step s op nd nr
    have hal1 := allowed_transfer h r1 l1 op hop hal
    obtain ⟨q1, q2⟩ := step_refines r1 op hal1
    have g2 : (step (step s op).1 op).2.granted = !(a.step op).2.refused := by rw [Out.granted_abs _ op.producerGrant, q2]
    rw [hu] at q1
    have l2 := life_step (step s op).1 op nd nr
    unfold poll
    simp only [g1, g2, hr, Bool.not_true, Bool.false_eq_true, if_false]
    exact ⟨trivial, q1, by rw [l2, l1]⟩

/-- **No lost wake-up window.** If the first attempt of a poll is refused and another stage makes the operation possible while
    the waker is being registered, the same poll still completes (second attempt): the task does not go to sleep on a
    condition that is already true. -/
theorem pollWith_completes {s : St} {a : Sp} (h : Rel s a) (op e : Op) (hop : op.isAsync = true) (hal : Allowed s a op)
    (href : (a.step op).2.refused = true)
    (hale : Allowed (step s op).1 a e)
    (hal2 : Allowed (step (step s op).1 e).1 (a.step e).1 op)
    (hen : ((a.step e).1.step op).2.refused = false) :
    ∃ o, (pollWith s op e).2 = .ready o ∧ o = (step (step (step s op).1 e).1 op).2 := by
  obtain ⟨r1, r2⟩ := step_refines h op hal
  have g1 : (step s op).2.granted = !(a.step op).2.refused := by rw [Out.granted_abs _ op.producerGrant, r2]
  have hu := Sp.refused_unchanged a op hop href
  rw [hu] at r1
  obtain ⟨e1, _⟩ := step_refines r1 e hale
  obtain ⟨_, q2⟩ := step_refines e1 op hal2
  have g2 : (step (step (step s op).1 e).1 op).2.granted = !((a.step e).1.step op).2.refused := by
    rw [Out.granted_abs _ op.producerGrant, q2]
  refine ⟨_, ?_, rfl⟩
  unfold pollWith
  simp only [g1, href, Bool.not_true, Bool.false_eq_true, if_false, g2, hen, Bool.not_false, if_true]

end MRB
