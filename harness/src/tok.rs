//! Item universes. `u64` exercises the `Copy` API; `Tok` is an owned (`Drop + Clone`) token whose
//! constructions and destructions are recorded in a thread-local ledger. A `Tok` is never all-zero
//! bytes while alive (non-zero id and canary), which is the representation the crate reserves for
//! "empty"; a destructor run on all-zero bytes, or on a broken canary, is recorded rather than trusted.
use std::cell::RefCell;
use std::collections::HashMap;

pub const CANARY: u64 = 0xC0FFEE_0DDBA11;
/// Id of tokens the harness uses as throw-away destination values; their drops are not recorded.
pub const INERT: u64 = u64::MAX;

#[derive(Default)]
pub struct Ledger {
    pub next_id: u64,
    pub created: HashMap<u64, u32>,
    pub dropped: HashMap<u64, u32>,
    /// drops in order since the last `take_drops`
    pub log: Vec<u64>,
    pub drop_zero: u32,
    pub bad_canary: u32,
    /// clone id -> id of the token it was cloned from (for item types without room for it)
    pub origins: HashMap<u64, u64>,
}

thread_local!(pub static LEDGER: RefCell<Ledger> = RefCell::new(Ledger { next_id: 1, ..Default::default() }));

pub fn reset_ledger() { LEDGER.with(|l| *l.borrow_mut() = Ledger { next_id: 1, ..Default::default() }); }
pub fn take_drops() -> Vec<u64> { LEDGER.with(|l| std::mem::take(&mut l.borrow_mut().log)) }
pub fn peek_next_id() -> u64 { LEDGER.with(|l| l.borrow().next_id) }
pub fn fresh_id() -> u64 { LEDGER.with(|l| { let mut l = l.borrow_mut(); let i = l.next_id; l.next_id += 1; i }) }

#[repr(C)]
pub struct Tok {
    pub id: u64,
    pub canary: u64,
    /// id of the token this one was cloned from (0 = constructed directly)
    pub origin: u64,
}

impl Tok {
    pub fn with_id(id: u64) -> Tok {
        if id != INERT { LEDGER.with(|l| *l.borrow_mut().created.entry(id).or_insert(0) += 1); }
        Tok { id, canary: CANARY, origin: 0 }
    }
    pub fn inert() -> Tok { Tok { id: INERT, canary: CANARY, origin: 0 } }
}

impl Clone for Tok {
    fn clone(&self) -> Tok {
        let id = fresh_id();
        LEDGER.with(|l| *l.borrow_mut().created.entry(id).or_insert(0) += 1);
        Tok { id, canary: CANARY, origin: self.id }
    }
}

impl Drop for Tok {
    fn drop(&mut self) {
        LEDGER.with(|l| {
            let mut l = l.borrow_mut();
            if self.id == 0 && self.canary == 0 { l.drop_zero += 1; return; }
            if self.canary != CANARY { l.bad_canary += 1; return; }
            if self.id == INERT { return; }
            *l.dropped.entry(self.id).or_insert(0) += 1;
            l.log.push(self.id);
        });
    }
}

/// What the harness needs from an item type.
pub trait Item: Sized + 'static {
    const OWNED: bool;
    fn make(v: u64) -> Self;
    /// value as the model sees it (0 = all-zero bytes)
    fn val(&self) -> u64;
    /// a destination value for copy/clone operations whose destruction is not recorded
    fn scratch() -> Self;
    /// the value the model associates with a clone result: for tokens the id of the source
    fn origin_or_val(&self) -> u64;
}

impl Item for u64 {
    const OWNED: bool = false;
    fn make(v: u64) -> u64 { v }
    fn val(&self) -> u64 { *self }
    fn scratch() -> u64 { 0xDEAD_BEEF_DEAD_BEEF }
    fn origin_or_val(&self) -> u64 { *self }
}

impl Item for Tok {
    const OWNED: bool = true;
    fn make(v: u64) -> Tok { Tok::with_id(v) }
    fn val(&self) -> u64 { if self.id == 0 && self.canary == 0 { 0 } else { self.id } }
    fn scratch() -> Tok { Tok::inert() }
    fn origin_or_val(&self) -> u64 { if self.origin != 0 { self.origin } else { self.val() } }
}

/// A second owned item type: 12 bytes, 4-byte aligned, and the only non-zero bytes of a live value are
/// its last four. Emptiness tests that look at whole machine words only, or skip trailing bytes, get it wrong.
#[repr(C)]
pub struct Tok12 {
    pub z0: u32,
    pub z1: u32,
    pub id: u32,
}

impl Tok12 {
    pub fn with_id(id: u64) -> Tok12 {
        if id != INERT { LEDGER.with(|l| *l.borrow_mut().created.entry(id).or_insert(0) += 1); }
        Tok12 { z0: 0, z1: 0, id: id as u32 }
    }
}

impl Clone for Tok12 {
    fn clone(&self) -> Tok12 {
        let id = fresh_id();
        LEDGER.with(|l| *l.borrow_mut().created.entry(id).or_insert(0) += 1);
        // the origin is kept out of band (ledger) because the layout has no room for it
        LEDGER.with(|l| { l.borrow_mut().origins.insert(id, self.id as u64); });
        Tok12 { z0: 0, z1: 0, id: id as u32 }
    }
}

impl Drop for Tok12 {
    fn drop(&mut self) {
        LEDGER.with(|l| {
            let mut l = l.borrow_mut();
            if self.z0 != 0 || self.z1 != 0 { l.bad_canary += 1; return; }
            if self.id == 0 { l.drop_zero += 1; return; }
            if self.id == INERT as u32 { return; }
            *l.dropped.entry(self.id as u64).or_insert(0) += 1;
            l.log.push(self.id as u64);
        });
    }
}

impl Item for Tok12 {
    const OWNED: bool = true;
    fn make(v: u64) -> Tok12 { Tok12::with_id(v) }
    fn val(&self) -> u64 { self.id as u64 }
    fn scratch() -> Tok12 { Tok12 { z0: 0, z1: 0, id: INERT as u32 } }
    fn origin_or_val(&self) -> u64 { LEDGER.with(|l| l.borrow().origins.get(&(self.id as u64)).copied()).unwrap_or(self.id as u64) }
}

/// A `Copy` item type whose size (12 bytes) differs from its alignment (4) and is not a power of two: byte counts
/// computed from the alignment, or from a rounded size, copy the wrong amount. The third word is a checksum of the
/// value, so a partially copied item does not read back as a plausible value.
#[repr(C)]
#[derive(Clone, Copy, PartialEq, Debug, Default)]
pub struct C12 { pub lo: u32, pub hi: u32, pub chk: u32 }

fn chk_of(v: u64) -> u32 { ((v as u32) ^ ((v >> 32) as u32)).wrapping_mul(0x9E37_79B1) | 1 }

impl Item for C12 {
    const OWNED: bool = false;
    fn make(v: u64) -> C12 { if v == 0 { C12::default() } else { C12 { lo: v as u32, hi: (v >> 32) as u32, chk: chk_of(v) } } }
    fn val(&self) -> u64 {
        let v = self.lo as u64 | ((self.hi as u64) << 32);
        if self.lo == 0 && self.hi == 0 && self.chk == 0 { 0 } else if self.chk == chk_of(v) { v } else { (1u64 << 62) | (v & 0xFFFF_FFFF) }
    }
    fn scratch() -> C12 { C12::make(0xDEAD_BEEF_DEAD_BEEF) }
    fn origin_or_val(&self) -> u64 { self.val() }
}
