/-
  C02 — concurrent pipeline: the consumed sequence is always a prefix of the produced one.
  Disciplined clients on the machine of MRB.Conc: the producer writes `inp q` at position `q` before moving past it, the
  worker applies `f` exactly once to each item before moving past it, the consumer logs what it reads before moving past
  it; publications and (possibly stale) loads interleave arbitrarily. Slice operations are sequences of one-item steps
  without publication in between, so every slice/item mix is covered. Detached moves are part of it for the two ends of
  the pipeline: the consumer may go back over items it has read but not released (its log is cut back accordingly: it
  re-reads the same values), the producer may withdraw unpublished items and write them again. `reset_index` and a detached
  *worker* going back (which would apply `f` twice) are not part of this content theorem (they are covered for race freedom
  by C03 and sequentially by C01/C11/C12).
-/
import MRB.Conc.Data

namespace MRB.Props.C02
open MRB MRB.Conc

/-- Under every interleaving and every release/acquire-consistent choice of stale index values, what the consumer has
    observed so far is exactly the first `pos_C` accepted items, in order, each carrying the worker's transformation
    (two-stage: unchanged): a prefix of the produced sequence — nothing lost, duplicated, reordered or half-processed. -/
theorem C02_prefix {L : Nat} {hasW : Bool} {inp f : Nat → Nat} (hL : 1 ≤ L) {d : DSt} (r : DReach L hasW inp f d) :
    d.log = (List.range d.c.tC.pos).map (fun q => if hasW then f (inp q) else inp q) := by
  have h := (dreach_inv hL r).log
  have hp := r.machine.params.2
  rw [h, hp]; rfl

/-- What is still in the buffer is the rest of the produced sequence: processed items between consumer and worker, raw
    items between worker and producer. Together with `C02_prefix`: consumed items followed by the items still in the
    buffer are the accepted pushes. -/
theorem C02_buffer_holds_the_rest {L : Nat} {hasW : Bool} {inp f : Nat → Nat} (hL : 1 ≤ L) {d : DSt} (r : DReach L hasW inp f d) :
    (∀ q, d.c.tC.pos ≤ q → q < (if hasW then d.c.tW.pos else d.c.tP.pos) → d.mem (q % L) = (if hasW then f (inp q) else inp q)) ∧
    (hasW = true → ∀ q, d.c.tW.pos ≤ q → q < d.c.tP.pos → d.mem (q % L) = inp q) := by
  have h := dreach_inv hL r
  obtain ⟨pL, pW⟩ := r.machine.params
  have bC := (reach_inv hL r.machine).1.j1b .C
  simp only [St.thr, St.hist] at bC
  constructor
  · intro q h1 h2; have := h.done q (by omega) (by rw [pW]; exact h2); rw [pL, pW] at this; exact this
  · intro hW q h1 h2; have := h.raw (by rw [pW]; exact hW) q h1 h2; rw [pL] at this; exact this

/-- Items the consumer has read but not yet released (a detached consumer between `advance` and `sync`) are still intact
    in the buffer: from the consumer's *published* position on, every slot up to the next stage holds its processed item,
    whatever the producer did meanwhile. This is what makes `Detached::go_back` safe: re-reading yields the same values. -/
theorem C02_unreleased_items_intact {L : Nat} {hasW : Bool} {inp f : Nat → Nat} (hL : 1 ≤ L) {d : DSt} (r : DReach L hasW inp f d) :
    ∀ q, lastVal d.c.hC ≤ q → q < (if hasW then d.c.tW.pos else d.c.tP.pos) → d.mem (q % L) = (if hasW then f (inp q) else inp q) := by
  have h := dreach_inv hL r
  obtain ⟨pL, pW⟩ := r.machine.params
  intro q h1 h2; have := h.done q h1 (by rw [pW]; exact h2); rw [pL, pW] at this; exact this

/-- The stages never overtake each other on their true positions (concurrent form of C04), whatever they have read. -/
theorem C02_true_positions_ordered {L : Nat} {hasW : Bool} (hL : 1 ≤ L) {s : St} (r : Reach L hasW s) :
    (hasW = true → s.tC.pos ≤ s.tW.pos ∧ s.tW.pos ≤ s.tP.pos ∧ s.tP.pos ≤ s.tC.pos + (L - 1)) ∧
    (hasW = false → s.tC.pos ≤ s.tP.pos ∧ s.tP.pos ≤ s.tC.pos + (L - 1)) := by
  obtain ⟨o3, o2⟩ := (reach_inv hL r).1.order
  obtain ⟨pL, pW⟩ := r.params
  rw [pL, pW] at o3 o2
  exact ⟨fun h => by have := o3 h; omega, fun h => by have := o2 h; omega⟩

/-- The machine underneath is race free (C03), which is what justifies a single global memory for slot contents. -/
theorem C02_rests_on_race_freedom {L : Nat} {hasW : Bool} {inp f : Nat → Nat} (hL : 1 ≤ L) {d : DSt} (r : DReach L hasW inp f d) :
    d.c.raced = false := (reach_inv hL r.machine).2

/-- Non-vacuity: three stages, one item produced, processed and consumed through published indices. -/
example : ∃ d, DReach 2 true (fun q => 10 + q) (fun x => x * 2) d ∧ d.log = [20] := by
  let inp : Nat → Nat := fun q => 10 + q
  let f : Nat → Nat := fun x => x * 2
  have r0 : DReach 2 true inp f ⟨init 2 true, fun _ => 0, []⟩ := DReach.init _
  have r1 := DReach.step r0 (DStep.refresh _ .P ⟨0, VC.zero, true⟩ (List.mem_cons_self ..) (Nat.le_refl _) (by decide))
  have r2 := DReach.step r1 (DStep.produce _ (by decide))
  have r3 := DReach.step r2 (DStep.publish _ .P (by decide))
  have r4 := DReach.step r3 (DStep.refresh _ .W ⟨1, _, true⟩ (List.mem_append_right _ (List.mem_cons_self ..)) (by decide) (by decide))
  have r5 := DReach.step r4 (DStep.work _ (by decide) (by decide))
  have r6 := DReach.step r5 (DStep.publish _ .W (by decide))
  have r7 := DReach.step r6 (DStep.refresh _ .C ⟨1, _, true⟩ (List.mem_append_right _ (List.mem_cons_self ..)) (by decide) (by decide))
  have r8 := DReach.step r7 (DStep.consume _ (by decide))
  exact ⟨_, r8, by decide⟩

/-- Non-vacuity of the detached moves: two stages, the producer writes two items, withdraws one, writes it again and
    publishes; the consumer reads both, goes back over one, reads it again — its log is the input prefix throughout. -/
example : ∃ d, DReach 4 false (fun q => 10 + q) id d ∧ d.log = [10, 11] ∧ d.c.tC.pos = 2 ∧ lastVal d.c.hC = 0 := by
  let inp : Nat → Nat := fun q => 10 + q
  have r0 : DReach 4 false inp id ⟨init 4 false, fun _ => 0, []⟩ := DReach.init _
  have r1 := DReach.step r0 (DStep.refresh _ .P ⟨0, VC.zero, true⟩ (List.mem_cons_self ..) (Nat.le_refl _) (by decide))
  have r2 := DReach.step r1 (DStep.produce _ (by decide))
  have r3 := DReach.step r2 (DStep.produce _ (by decide))
  have r4 := DReach.step r3 (DStep.pback _ 1 (by decide))
  have r5 := DReach.step r4 (DStep.produce _ (by decide))
  have r6 := DReach.step r5 (DStep.publish _ .P (by decide))
  have r7 := DReach.step r6 (DStep.refresh _ .C ⟨2, _, true⟩ (List.mem_append_right _ (List.mem_cons_self ..)) (by decide) (by decide))
  have r8 := DReach.step r7 (DStep.consume _ (by decide))
  have r9 := DReach.step r8 (DStep.consume _ (by decide))
  have r10 := DReach.step r9 (DStep.cback _ 1 (by decide))
  have r11 := DReach.step r10 (DStep.consume _ (by decide))
  exact ⟨_, r11, by decide, by decide, by decide⟩

end MRB.Props.C02
