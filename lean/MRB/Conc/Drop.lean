/-
  MRB.Conc.Drop — the drop protocol under concurrency (C07): each iterator's drop clears its liveness flag and then
  decrements the counter of live iterators with ONE atomic read-modify-write; the thread that saw the counter at 1 frees
  the buffer. All interleavings of two or three droppers; the orderings of the read-modify-write are the generated ones.
-/
import MRB.Conc.Machine

set_option linter.unusedVariables false

namespace MRB.Conc
open MRB

inductive DPhase
  | absent        -- no such iterator (worker of a two-stage split)
  | live          -- iterator exists
  | cleared       -- its drop has cleared the flag
  | decLast       -- its read-modify-write saw 1: it must free
  | decOther      -- its read-modify-write saw more: it must not touch the buffer again
  | finished      -- drop returned
  deriving DecidableEq, Repr

structure DropSt where
  count : Nat               -- the counter of live iterators
  phP : DPhase
  phW : DPhase
  phC : DPhase
  vcP : VC
  vcW : VC
  vcC : VC
  ctr : VC                  -- view carried by the counter's latest message (release sequence of the RMWs)
  stampP : Nat := 0         -- own clock component at the moment of the decrement
  stampW : Nat := 0
  stampC : Nat := 0
  freed : Nat := 0
  uaf : Bool := false       -- some thread touched the buffer after it was freed
  deriving Repr

namespace DropSt
def ph (s : DropSt) : Role → DPhase | .P => s.phP | .W => s.phW | .C => s.phC
def vc (s : DropSt) : Role → VC | .P => s.vcP | .W => s.vcW | .C => s.vcC
def stamp (s : DropSt) : Role → Nat | .P => s.stampP | .W => s.stampW | .C => s.stampC
def setPh (s : DropSt) (t : Role) (p : DPhase) : DropSt :=
  match t with | .P => { s with phP := p } | .W => { s with phW := p } | .C => { s with phC := p }
def setVc (s : DropSt) (t : Role) (v : VC) : DropSt :=
  match t with | .P => { s with vcP := v } | .W => { s with vcW := v } | .C => { s with vcC := v }
def setStamp (s : DropSt) (t : Role) (n : Nat) : DropSt :=
  match t with | .P => { s with stampP := n } | .W => { s with stampW := n } | .C => { s with stampC := n }
end DropSt

/-- Orderings of `release_iter`'s read-modify-write in the current source. -/
def rmwAcq : Bool := Gen.concAcc.releaseIter.all fun a => isAcq a.ord
def rmwRel : Bool := Gen.concAcc.releaseIter.all fun a => isRel a.ord
/-- It is a single read-modify-write and "last" means "the value before was 1". -/
def rmwSingle : Bool := decide (Gen.concAcc.releaseIter.map (·.kind) = [.fetchSub]) && decide (Gen.concAcc.releaseIterResult = .oldEq 1)

def dinit (hasW : Bool) : DropSt :=
  { count := if hasW then 3 else 2, phP := .live, phW := if hasW then .live else .absent, phC := .live,
    vcP := VC.zero, vcW := VC.zero, vcC := VC.zero, ctr := VC.zero }

/-- `set_*_alive(false)`: a store into the buffer. -/
def clearFlag (s : DropSt) (t : Role) : DropSt :=
  let s1 := (s.setVc t ((s.vc t).tick t)).setPh t .cleared
  { s1 with uaf := s1.uaf || decide (0 < s.freed) }

/-- `release_iter()`: the atomic decrement. -/
def decrement (s : DropSt) (t : Role) : DropSt :=
  let v0 := (s.vc t).tick t
  let v1 := if rmwAcq then v0.join s.ctr else v0
  let s1 := ((s.setVc t v1).setStamp t (v1.get t)).setPh t (if s.count = 1 then .decLast else .decOther)
  { s1 with count := s.count - 1, ctr := if rmwRel then s.ctr.join v1 else s.ctr, uaf := s1.uaf || decide (0 < s.freed) }

def free (s : DropSt) (t : Role) : DropSt :=
  let s1 := s.setPh t .finished
  { s1 with freed := s.freed + 1 }

def finish (s : DropSt) (t : Role) : DropSt := s.setPh t .finished

inductive DropStep : DropSt → DropSt → Prop
  | clear (s t) : s.ph t = .live → DropStep s (clearFlag s t)
  | dec (s t) : s.ph t = .cleared → DropStep s (decrement s t)
  | free (s t) : s.ph t = .decLast → DropStep s (free s t)
  | finish (s t) : s.ph t = .decOther → DropStep s (finish s t)

inductive DropReach (hasW : Bool) : DropSt → Prop
  | init : DropReach hasW (dinit hasW)
  | step {s s'} : DropReach hasW s → DropStep s s' → DropReach hasW s'

def pending (p : DPhase) : Nat := match p with | .live | .cleared => 1 | _ => 0
def isLast (p : DPhase) : Nat := match p with | .decLast => 1 | _ => 0
def decremented (p : DPhase) : Bool := match p with | .decLast | .decOther | .finished => true | _ => false

structure DropInv (s : DropSt) : Prop where
  cnt : s.count = pending s.phP + pending s.phW + pending s.phC
  last : isLast s.phP + isLast s.phW + isLast s.phC + s.freed ≤ 1
  lastZero : isLast s.phP + isLast s.phW + isLast s.phC + s.freed = 1 → s.count = 0
  zeroLast : s.count = 0 → isLast s.phP + isLast s.phW + isLast s.phC + s.freed = 1 ∨ (s.phP = .absent ∧ s.phC = .absent)
  noUaf : s.uaf = false
  -- happens-before: whoever has decremented is covered by the counter's view, hence by every later decrementer
  cover : ∀ u, decremented (s.ph u) = true → s.stamp u ≤ s.ctr.get u
  ctrLe : ∀ u, isLast (s.ph u) = 1 → ∀ v, s.ctr.get v ≤ (s.vc u).get v

theorem rmw_is_acqrel : rmwAcq = true ∧ rmwRel = true ∧ rmwSingle = true := ⟨rfl, rfl, rfl⟩

end MRB.Conc

namespace MRB.Conc
open MRB

theorem VC.get_join' (a b : VC) (u : Role) : (a.join b).get u = max (a.get u) (b.get u) := by cases u <;> rfl
theorem get_tick_ge (v : VC) (t u : Role) : v.get u ≤ (v.tick t).get u := by
  cases t <;> cases u <;> simp [VC.tick, VC.get]
theorem get_join_ge_left (a b : VC) (u : Role) : a.get u ≤ (a.join b).get u := by rw [VC.get_join']; exact Nat.le_max_left _ _
theorem get_join_ge_right (a b : VC) (u : Role) : b.get u ≤ (a.join b).get u := by rw [VC.get_join']; exact Nat.le_max_right _ _

/-- Sum of `g` over the three phases, with the phase of `t` replaced by `p`. -/
def sumPh (g : DPhase → Nat) (s : DropSt) : Nat := g s.phP + g s.phW + g s.phC

theorem sumPh_update (g : DPhase → Nat) (s s' : DropSt) (t : Role) (p : DPhase)
    (h : ∀ u, s'.ph u = if u = t then p else s.ph u) : sumPh g s' + g (s.ph t) = sumPh g s + g p := by
  have hP := h .P; have hW := h .W; have hC := h .C
  simp only [DropSt.ph] at hP hW hC
  unfold sumPh
  cases t <;> simp only [DropSt.ph, reduceCtorEq, if_true, if_false] at hP hW hC ⊢ <;> rw [hP, hW, hC] <;> omega

structure DropInv' (s : DropSt) : Prop where
  cnt : s.count = sumPh pending s
  last : sumPh isLast s + s.freed ≤ 1
  lastZero : sumPh isLast s + s.freed = 1 → s.count = 0
  zeroLast : s.count = 0 → sumPh isLast s + s.freed = 1
  noUaf : s.uaf = false
  cover : ∀ u, decremented (s.ph u) = true → s.stamp u ≤ s.ctr.get u
  ctrLe : ∀ u, isLast (s.ph u) = 1 → ∀ v, s.ctr.get v ≤ (s.vc u).get v

theorem dinit_inv (hasW : Bool) : DropInv' (dinit hasW) := by
  cases hasW <;> refine ⟨?_, ?_, ?_, ?_, rfl, ?_, ?_⟩ <;>
    simp [dinit, sumPh, pending, isLast, decremented, DropSt.ph] <;> (try (intro u; cases u <;> simp [decremented, isLast]))

theorem isLast_le (p : DPhase) : isLast p ≤ 1 := by cases p <;> simp [isLast]

theorem drop_step_inv {s s' : DropSt} (h : DropInv' s) (st : DropStep s s') : DropInv' s' := by
  obtain ⟨cnt, last, lastZero, zeroLast, noUaf, cover, ctrLe⟩ := h
  have hacq : rmwAcq = true := rfl
  have hrel : rmwRel = true := rfl
  cases st with
  | clear t ht =>
    have hph : ∀ u, (clearFlag s t).ph u = if u = t then .cleared else s.ph u := by
      intro u; cases t <;> cases u <;> simp [clearFlag, DropSt.setPh, DropSt.setVc, DropSt.ph]
    have sp := sumPh_update pending s _ t _ hph
    have sl := sumPh_update isLast s _ t _ hph
    rw [ht] at sp sl
    simp only [pending, isLast] at sp sl
    have hp : 1 ≤ s.count := by rw [cnt]; unfold sumPh; cases t <;> simp only [DropSt.ph] at ht <;> rw [ht] <;> simp [pending] <;> omega
    have hfreed : s.freed = 0 := by
      rcases Nat.eq_zero_or_pos s.freed with h0 | h0
      · exact h0
      · have := lastZero (by omega); omega
    have hvc : ∀ u v, (s.vc u).get v ≤ ((clearFlag s t).vc u).get v := by
      intro u v; cases t <;> cases u <;> simp [clearFlag, DropSt.setPh, DropSt.setVc, DropSt.vc] <;> exact get_tick_ge _ _ _
    have e1 : (clearFlag s t).count = s.count ∧ (clearFlag s t).freed = s.freed ∧ (clearFlag s t).ctr = s.ctr ∧
        (∀ u, (clearFlag s t).stamp u = s.stamp u) := by
      cases t <;> refine ⟨rfl, rfl, rfl, fun u => by cases u <;> rfl⟩
    obtain ⟨c1, c2, c3, c5⟩ := e1
    refine ⟨?_, ?_, ?_, ?_, ?_, ?_, ?_⟩
    · rw [c1, cnt]; omega
    · rw [c2]; omega
    · rw [c1, c2]; intro hh; apply lastZero; omega
    · rw [c1, c2]; intro hh; have := zeroLast hh; omega
    · cases t <;> simp [clearFlag, DropSt.setPh, DropSt.setVc, noUaf, hfreed]
    · intro u hu; rw [c5, c3]; apply cover; rw [hph] at hu; split at hu
      · simp [decremented] at hu
      · exact hu
    · intro u hu v; rw [c3]; rw [hph] at hu; split at hu
      · simp [isLast] at hu
      · exact Nat.le_trans (ctrLe u hu v) (hvc u v)
  | dec t ht =>
    have hph : ∀ u, (decrement s t).ph u = if u = t then (if s.count = 1 then .decLast else .decOther) else s.ph u := by
      intro u; cases t <;> cases u <;> simp [decrement, DropSt.setPh, DropSt.setVc, DropSt.setStamp, DropSt.ph]
    have sp := sumPh_update pending s _ t _ hph
    have sl := sumPh_update isLast s _ t _ hph
    rw [ht] at sp sl
    have hp : 1 ≤ s.count := by rw [cnt]; unfold sumPh; cases t <;> simp only [DropSt.ph] at ht <;> rw [ht] <;> simp [pending] <;> omega
    have hfreed : s.freed = 0 := by
      rcases Nat.eq_zero_or_pos s.freed with h0 | h0
      · exact h0
      · have := lastZero (by omega); omega
    have hnolast : sumPh isLast s = 0 := by
      rcases Nat.eq_zero_or_pos (sumPh isLast s) with h0 | h0
      · exact h0
      · have := lastZero (by omega); omega
    have hvcT : (decrement s t).vc t = ((s.vc t).tick t).join s.ctr := by
      cases t <;> simp [decrement, DropSt.setPh, DropSt.setVc, DropSt.setStamp, DropSt.vc, hacq]
    have hstT : (decrement s t).stamp t = (((s.vc t).tick t).join s.ctr).get t := by
      cases t <;> simp [decrement, DropSt.setPh, DropSt.setVc, DropSt.setStamp, DropSt.stamp, hacq]
    have hstO : ∀ u, u ≠ t → (decrement s t).stamp u = s.stamp u := by
      intro u hu; cases t <;> cases u <;> simp_all [decrement, DropSt.setPh, DropSt.setVc, DropSt.setStamp, DropSt.stamp]
    have hctr : (decrement s t).ctr = s.ctr.join (((s.vc t).tick t).join s.ctr) := by
      cases t <;> simp [decrement, DropSt.setPh, DropSt.setVc, DropSt.setStamp, DropSt.vc, hacq, hrel]
    have e1 : (decrement s t).count = s.count - 1 ∧ (decrement s t).freed = s.freed := by cases t <;> exact ⟨rfl, rfl⟩
    obtain ⟨c1, c2⟩ := e1
    by_cases h1 : s.count = 1
    · simp only [h1, if_true, pending, isLast] at sp sl hph
      refine ⟨?_, ?_, ?_, ?_, ?_, ?_, ?_⟩
      · rw [c1, cnt]; omega
      · rw [c2]; omega
      · rw [c1, c2]; intro _; omega
      · rw [c1, c2]; intro _; omega
      · cases t <;> simp [decrement, DropSt.setPh, DropSt.setVc, DropSt.setStamp, noUaf, hfreed]
      · intro u hu
        by_cases hut : u = t
        · subst hut; rw [hstT, hctr]; exact get_join_ge_right _ _ _
        · rw [hstO u hut, hctr]; rw [hph, if_neg hut] at hu
          exact Nat.le_trans (cover u hu) (get_join_ge_left _ _ _)
      · intro u hu v
        rw [hph] at hu
        by_cases hut : u = t
        · subst hut; rw [hvcT, hctr, VC.get_join']
          exact Nat.max_le.2 ⟨get_join_ge_right _ _ _, Nat.le_refl _⟩
        · rw [if_neg hut] at hu
          exfalso
          have : isLast (s.ph u) ≤ sumPh isLast s := by unfold sumPh; cases u <;> simp only [DropSt.ph] <;> omega
          omega
    · simp only [h1, if_false, pending, isLast] at sp sl hph
      refine ⟨?_, ?_, ?_, ?_, ?_, ?_, ?_⟩
      · rw [c1, cnt]; omega
      · rw [c2]; omega
      · rw [c1, c2]; intro _; omega
      · rw [c1, c2]; intro _; omega
      · cases t <;> simp [decrement, DropSt.setPh, DropSt.setVc, DropSt.setStamp, noUaf, hfreed]
      · intro u hu
        by_cases hut : u = t
        · subst hut; rw [hstT, hctr]; exact get_join_ge_right _ _ _
        · rw [hstO u hut, hctr]; rw [hph, if_neg hut] at hu
          exact Nat.le_trans (cover u hu) (get_join_ge_left _ _ _)
      · intro u hu v
        rw [hph] at hu
        by_cases hut : u = t
        · subst hut; simp [isLast] at hu
        · rw [if_neg hut] at hu
          exfalso
          have : isLast (s.ph u) ≤ sumPh isLast s := by unfold sumPh; cases u <;> simp only [DropSt.ph] <;> omega
          omega
  | free t ht =>
    have hph : ∀ u, (free s t).ph u = if u = t then .finished else s.ph u := by
      intro u; cases t <;> cases u <;> simp [free, DropSt.setPh, DropSt.ph]
    have sp := sumPh_update pending s _ t _ hph
    have sl := sumPh_update isLast s _ t _ hph
    rw [ht] at sp sl
    simp only [pending, isLast] at sp sl
    have e1 : (free s t).count = s.count ∧ (free s t).freed = s.freed + 1 ∧ (free s t).ctr = s.ctr ∧ (free s t).uaf = s.uaf ∧
        (∀ u, (free s t).stamp u = s.stamp u) ∧ (∀ u, (free s t).vc u = s.vc u) := by
      cases t <;> refine ⟨rfl, rfl, rfl, rfl, fun u => by cases u <;> rfl, fun u => by cases u <;> rfl⟩
    obtain ⟨c1, c2, c3, c4, c5, c6⟩ := e1
    have hl1 : 1 ≤ sumPh isLast s := by unfold sumPh; cases t <;> simp only [DropSt.ph] at ht <;> rw [ht] <;> simp [isLast] <;> omega
    have hz := lastZero (by omega)
    refine ⟨?_, ?_, ?_, ?_, ?_, ?_, ?_⟩
    · rw [c1, cnt]; omega
    · rw [c2]; omega
    · rw [c1, c2]; intro _; exact hz
    · rw [c1, c2]; intro _; omega
    · rw [c4]; exact noUaf
    · intro u hu; rw [c5, c3]
      by_cases hut : u = t
      · subst hut; apply cover; rw [ht]; rfl
      · rw [hph, if_neg hut] at hu; exact cover u hu
    · intro u hu v; rw [c3, c6]; rw [hph] at hu
      by_cases hut : u = t
      · subst hut; simp [isLast] at hu
      · rw [if_neg hut] at hu; exact ctrLe u hu v
  | finish t ht =>
    have hph : ∀ u, (finish s t).ph u = if u = t then .finished else s.ph u := by
      intro u; cases t <;> cases u <;> simp [finish, DropSt.setPh, DropSt.ph]
    have sp := sumPh_update pending s _ t _ hph
    have sl := sumPh_update isLast s _ t _ hph
    rw [ht] at sp sl
    simp only [pending, isLast] at sp sl
    have e1 : (finish s t).count = s.count ∧ (finish s t).freed = s.freed ∧ (finish s t).ctr = s.ctr ∧ (finish s t).uaf = s.uaf ∧
        (∀ u, (finish s t).stamp u = s.stamp u) ∧ (∀ u, (finish s t).vc u = s.vc u) := by
      cases t <;> refine ⟨rfl, rfl, rfl, rfl, fun u => by cases u <;> rfl, fun u => by cases u <;> rfl⟩
    obtain ⟨c1, c2, c3, c4, c5, c6⟩ := e1
    refine ⟨?_, ?_, ?_, ?_, ?_, ?_, ?_⟩
    · rw [c1, cnt]; omega
    · rw [c2]; omega
    · rw [c1, c2]; intro hh; apply lastZero; omega
    · rw [c1, c2]; intro hh; have := zeroLast hh; omega
    · rw [c4]; exact noUaf
    · intro u hu; rw [c5, c3]
      by_cases hut : u = t
      · subst hut; apply cover; rw [ht]; rfl
      · rw [hph, if_neg hut] at hu; exact cover u hu
    · intro u hu v; rw [c3, c6]; rw [hph] at hu
      by_cases hut : u = t
      · subst hut; simp [isLast] at hu
      · rw [if_neg hut] at hu; exact ctrLe u hu v

theorem drop_reach_inv {hasW : Bool} {s : DropSt} (r : DropReach hasW s) : DropInv' s := by
  induction r with
  | init => exact dinit_inv hasW
  | step _ st ih => exact drop_step_inv ih st

end MRB.Conc
