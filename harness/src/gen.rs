//! State-aware generation of contract-respecting operation histories, one profile per property.
use crate::ops::{Op, Role};
use crate::oracle::Oracle;
use crate::rng::Rng;

#[derive(Clone, Debug)]
pub struct Profile {
    pub name: &'static str,
    pub weights: Vec<(&'static str, u32)>,
    pub owned: bool,
    /// probability (percent) that a generated request deliberately exceeds the availability
    pub refuse_pct: usize,
    pub max_ops: usize,
    /// allow re-splitting stack buffers
    pub resplit: bool,
    /// never generate a *granted* window that crosses the physical end of the storage
    pub no_straddle: bool,
}

const FIFO: &[(&str, u32)] = &[("push", 10), ("pushi", 2), ("pushs", 8), ("pushsi", 2), ("pushsc", 3), ("pushsci", 1), ("nsm", 3), ("nim", 2), ("nimi", 2),
    ("poke", 8), ("adv", 9), ("avail", 4), ("gw", 3), ("se", 5), ("sa", 2), ("sm", 2), ("peek", 3), ("peeks", 4), ("peeka", 2),
    ("pop", 8), ("popm", 1), ("copy", 4), ("clone", 3), ("copys", 5), ("clones", 3)];

fn with(base: &[(&'static str, u32)], extra: &[(&'static str, u32)]) -> Vec<(&'static str, u32)> {
    let mut v: Vec<(&'static str, u32)> = base.to_vec();
    for (k, w) in extra { if let Some(e) = v.iter_mut().find(|(n, _)| n == k) { e.1 = *w } else { v.push((*k, *w)) } }
    v
}

pub fn profile(name: &str) -> Profile {
    let p = |name: &'static str, weights: Vec<(&'static str, u32)>, owned: bool, refuse_pct: usize, resplit: bool| Profile { name, weights, owned, refuse_pct, max_ops: 60, resplit, no_straddle: false };
    match name {
        "fifo" => p("fifo", FIFO.to_vec(), false, 10, false),
        "avail" => p("avail", with(FIFO, &[("avail", 8)]), false, 40, false),
        "reset" => p("reset", with(FIFO, &[("reset", 8), ("avail", 2)]), false, 15, false),
        "detached" => p("detached", with(FIFO, &[("detach", 6), ("attach", 3), ("seti", 5), ("back", 7), ("sync", 3), ("reset", 3), ("push", 14), ("adv", 14)]), false, 15, false),
        "order" => p("order", with(FIFO, &[("reset", 4), ("detach", 3), ("attach", 2), ("seti", 2), ("back", 3), ("sync", 2), ("drop", 1)]), false, 15, false),
        "drops" => p("drops", with(FIFO, &[("drop", 8)]), false, 10, true),
        "own" => p("own", vec![("push", 8), ("pushi", 9), ("pushsc", 4), ("pushsci", 7), ("popm", 9), ("clone", 4), ("clones", 4), ("peek", 2), ("peeks", 2), ("gw", 2), ("se", 3),
            ("poke", 4), ("adv", 6), ("avail", 3), ("reset", 2), ("drop", 2), ("nimi", 1), ("sa", 1)], true, 15, false),
        "construct" => p("construct", with(FIFO, &[("drop", 10), ("resplit", 30), ("reset", 2)]), false, 10, true),
        "async" => p("async", vec![("push", 12), ("pushs", 7), ("pushsc", 3), ("nsm", 2), ("nim", 1), ("nimi", 1), ("adv", 8), ("avail", 3), ("gw", 3), ("se", 4), ("sa", 2), ("sm", 2),
            ("peek", 3), ("peeks", 4), ("peeka", 2), ("pop", 8), ("popm", 1), ("copy", 4), ("clone", 3), ("copys", 5), ("clones", 3), ("reset", 2), ("drop", 1)], false, 35, false),
        "asyncown" => p("asyncown", vec![("push", 14), ("pushsc", 5), ("adv", 6), ("avail", 3), ("gw", 2), ("se", 3), ("peek", 2), ("peeks", 2), ("popm", 9), ("clone", 4), ("clones", 4), ("reset", 1), ("drop", 1)], true, 35, false),
        "vmem" => { let mut x = p("vmem", with(FIFO, &[("reset", 3), ("detach", 2), ("attach", 2), ("back", 2), ("sync", 1), ("drop", 1)]), false, 15, false); x.no_straddle = true; x }
        "vmemseam" => p("vmemseam", with(FIFO, &[("pushs", 14), ("copys", 10), ("peeks", 8), ("se", 8)]), false, 5, false),
        "vmemown" => { let mut x = profile("own"); x.name = "vmemown"; x.no_straddle = true; x }
        "all" => p("all", with(FIFO, &[("reset", 4), ("detach", 3), ("attach", 2), ("seti", 2), ("back", 3), ("sync", 2), ("drop", 1), ("resplit", 10)]), false, 15, true),
        _ => panic!("unknown profile {name}"),
    }
}

/// Interesting request sizes around the boundaries of the current state.
fn count(o: &Oracle, r: Role, rng: &mut Rng, refuse_pct: usize) -> usize {
    let a = o.avail(r);
    if rng.chance(refuse_pct, 100) { return *rng.pick(&[a + 1, a + 2, o.len, o.len + 1]); }
    let to_end = o.len - o.idx(r);
    let cands = [0, 1, a, a.saturating_sub(1), to_end, to_end + 1, to_end.saturating_sub(1), rng.below(a + 1), rng.below(a + 1)];
    let c = *rng.pick(&cands);
    c.min(a)
}

pub fn pick_role(o: &Oracle, rng: &mut Rng) -> Option<Role> {
    let live: Vec<Role> = crate::ops::ROLES.iter().copied().filter(|r| o.live[r.i()]).collect();
    if live.is_empty() { None } else { Some(*rng.pick(&live)) }
}

pub struct Gen {
    pub next_val: u64,
}

impl Gen {
    pub fn new() -> Gen { Gen { next_val: 1000 } }
    fn val(&mut self, rng: &mut Rng, owned: bool) -> u64 {
        if !owned && rng.chance(1, 40) { return 0; }
        self.next_val += 1;
        self.next_val
    }
    fn vals(&mut self, n: usize, rng: &mut Rng, owned: bool) -> Vec<u64> { (0..n).map(|_| self.val(rng, owned)).collect() }

    /// Proposes the next operation (allowed by the contract in the oracle's state), or `None`.
    pub fn next_op(&mut self, o: &Oracle, rng: &mut Rng, pr: &Profile) -> Option<Op> {
        let ws: Vec<u32> = pr.weights.iter().map(|(_, w)| *w).collect();
        for _ in 0..40 {
            let kind = pr.weights[rng.weighted(&ws)].0;
            let role = pick_role(o, rng);
            let op = match kind {
                "resplit" => if pr.resplit && !o.heap && o.all_dropped() { Some(Op::Resplit(rng.chance(1, 2))) } else { None },
                _ if role.is_none() => None,
                "push" => Some(Op::Push(self.val(rng, pr.owned))),
                "pushi" => Some(Op::PushI(self.val(rng, pr.owned))),
                "pushs" | "pushsi" | "pushsc" | "pushsci" => {
                    if !o.live[0] { None } else {
                        let n = count(o, Role::P, rng, pr.refuse_pct);
                        let v = self.vals(n, rng, pr.owned);
                        Some(match kind { "pushs" => Op::PushS(v), "pushsi" => Op::PushSI(v), "pushsc" => Op::PushSC(v), _ => Op::PushSCI(v) })
                    }
                }
                "nsm" => if o.live[0] { Some(Op::Nsm(count(o, Role::P, rng, pr.refuse_pct))) } else { None },
                "nim" => Some(Op::Nim),
                "nimi" => Some(Op::Nimi),
                "poke" => {
                    let rs: Vec<Role> = crate::ops::ROLES.iter().copied().filter(|r| o.live[r.i()] && o.granted[r.i()] > 0).collect();
                    if rs.is_empty() { None } else { let r = *rng.pick(&rs); let k = rng.below(o.granted[r.i()]); Some(Op::Poke(r, k, self.val(rng, true))) }
                }
                "adv" => {
                    let r = role.unwrap();
                    let a = o.avail(r);
                    let n = if o.granted[r.i()] > 0 && rng.chance(2, 3) { rng.range(0, o.granted[r.i()].min(a)) } else { { let x = rng.below(a + 1); *rng.pick(&[0, 1, a, x]) } }.min(a);
                    let vs = if r == Role::P { o.window(o.pos[0], n) } else { vec![] };
                    Some(Op::Adv(r, n, vs))
                }
                "avail" => Some(Op::Avail(role.unwrap())),
                "gw" => Some(Op::Gw(role.unwrap())),
                "se" => { let r = role.unwrap(); Some(Op::Se(r, count(o, r, rng, pr.refuse_pct))) }
                "sa" => Some(Op::Sa(role.unwrap())),
                "sm" => Some(Op::Sm(role.unwrap(), *rng.pick(&[1usize, 2, 3, 4, 0, 2, 3]))),
                "peek" => Some(Op::Peek),
                "peeks" => if o.live[2] { Some(Op::PeekS(count(o, Role::C, rng, pr.refuse_pct))) } else { None },
                "peeka" => Some(Op::PeekA),
                "pop" => Some(Op::Pop),
                "popm" => Some(Op::PopM),
                "copy" => Some(Op::Copy),
                "clone" => Some(Op::Clone),
                "copys" => if o.live[2] { Some(Op::CopyS(count(o, Role::C, rng, pr.refuse_pct))) } else { None },
                "clones" => if o.live[2] { Some(Op::CloneS(count(o, Role::C, rng, pr.refuse_pct))) } else { None },
                "reset" => Some(Op::Reset(*rng.pick(&[Role::W, Role::C]))),
                "detach" => Some(Op::Detach(role.unwrap())),
                "attach" => Some(Op::Attach(role.unwrap())),
                "sync" => Some(Op::Sync(role.unwrap())),
                "seti" => {
                    let r = role.unwrap();
                    if !o.det[r.i()] { None } else {
                        // a position inside the unpublished window [publ, limit]
                        let lo = o.publ[r.i()]; let hi = o.limit(r).max(lo);
                        Some(Op::SetI(r, rng.range(lo, hi) % o.len))
                    }
                }
                "back" => {
                    let r = role.unwrap();
                    if !o.det[r.i()] { None } else { let m = o.pos[r.i()] - o.publ[r.i()]; { let x = rng.below(m + 1); Some(Op::Back(r, *rng.pick(&[m, x, 1.min(m), 0]))) } }
                }
                "drop" => Some(Op::Drop(role.unwrap())),
                _ => None,
            };
            if let Some(op) = op {
                if let Some(r) = op.role() { if r == Role::W && !o.has_w { continue; } }
                if pr.no_straddle && straddles(o, &op) { continue; }
                if o.allowed(&op) { return Some(op); }
            }
        }
        None
    }
}

/// Would `op` be granted a window that crosses the physical end of the storage?
pub fn straddles(o: &Oracle, op: &Op) -> bool {
    use Op::*;
    let (r, n) = match op {
        Se(r, n) => (*r, *n), Nsm(n) => (Role::P, *n), PeekS(n) | CopyS(n) | CloneS(n) => (Role::C, *n),
        PushS(v) | PushSI(v) | PushSC(v) | PushSCI(v) => (Role::P, v.len()),
        Sa(r) => (*r, o.avail(*r)), PeekA => (Role::C, o.avail(Role::C)),
        Sm(r, k) if *k > 0 => { let a = o.avail(*r); (*r, a - a % k) }
        _ => return false,
    };
    n <= o.avail(r) && o.idx(r) + n > o.len
}
