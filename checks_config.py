"""Per-property configuration of ./check: theorem module, correspondence profiles, extra engines."""

SEQ_TRUST = ["usize modelled as Nat with len < 2^63", "slots hold Nat values, 0 = all-zero bytes",
             "user code between a grant and the matching advance touches only the granted window"]

def prof(name, quick=400, thorough=6000, **kw):
    d = dict(name=name, cases_quick=quick, cases_thorough=thorough, seeds_thorough=4)
    d.update(kw)
    return d

PROPS = {
    "C01": dict(module="MRB.Props.C01", level="proof", profiles=[prof("fifo", 500, exhaustive=5), prof("reset", 150, 1500), prof("detached", 150, 1500)], also_tags=[],
                search=[("conc", ["C02", "C03"])],
                gen_items=["advanceLocal", "advance", "check", "prodAvail", "workAvail", "consAvail", "nextChunk", "nextChunkMut", "wiring", "skeletons"],
                trusted=SEQ_TRUST,
                explanation="FIFO refinement theorem over the generated kernel + differential correspondence (profile fifo)."),
    "C02": dict(module="MRB.Props.C02", level="proof", profiles=[], engines=["conc"], search=[("conc", ["C03"])], gen_items=["concAcc", "wiring", "skeletons"],
                trusted=["release/acquire fragment of C11 in view-based operational form (exact for single-writer locations)", "slot contents as one global memory, justified by the race-freedom theorem",
                         "disciplined clients: producer writes before moving on, worker applies f once per item, consumer reads before moving on"]),
    "C03": dict(module="MRB.Props.C03", level="proof", profiles=[prof("detached", 200, 2000), prof("reset", 150, 1500)], engines=["conc"], search=[("conc", ["C02"])], gen_items=["concAcc", "wiring", "skeletons"],
                trusted=["release/acquire fragment of C11 in view-based operational form (exact for single-writer locations)", "compiler and hardware respect it",
                         "user code accesses only the granted window"]),
    "C10": dict(module="MRB.Props.C10", level="proof", profiles=[], engines=["conc"], gen_items=["concAcc", "skeletons", "loops", "check"],
                trusted=["OS scheduling and real time are not modelled"]),
    "C04": dict(module="MRB.Props.C04", level="proof", profiles=[prof("order", 500, exhaustive=5), prof("async", 150, 1500, features=["async"], binary="asyncdiff")], engines=["conc"],
                gen_items=["advanceLocal", "advance", "check", "prodAvail", "workAvail", "consAvail", "wiring", "skeletons"], trusted=SEQ_TRUST),
    "C05": dict(module="MRB.Props.C05", level="proof", search=[("conc", ["C05"])], profiles=[prof("avail", 500, exhaustive=5), prof("reset", 150, 1500), prof("construct", 150, 1500), prof("detached", 150, 1500)],
                gen_items=["check", "prodAvail", "workAvail", "consAvail", "sliceAvail", "sliceMultipleOf", "skeletons"], trusted=SEQ_TRUST),
    "C06": dict(module="MRB.Props.C06", level="proof", profiles=[prof("fifo", 500, exhaustive=5)],
                gen_items=["nextChunk", "nextChunkMut", "advanceLocal"], trusted=SEQ_TRUST),
    "C11": dict(module="MRB.Props.C11", level="proof", profiles=[prof("reset", 500, exhaustive=5)],
                gen_items=["workReset", "consReset", "check", "skeletons"], trusted=SEQ_TRUST),
    "C12": dict(module="MRB.Props.C12", level="proof", profiles=[prof("detached", 500)], engines=["adetprobe"],
                gen_items=["detSetIndex", "detReset", "detAdvance", "detGoBack", "detSync", "adetAdvance", "adetGoBack", "adetSync", "skeletons"], trusted=SEQ_TRUST),
    "C07": dict(module="MRB.Props.C07", level="proof", profiles=[prof("drops", 500), prof("async", 150, 1500, features=["async"], binary="asyncdiff")], engines=["conc"],
                gen_items=["skeletons", "concAcc", "localAcc"], trusted=SEQ_TRUST + ["allocator outside the model"]),
    "C08": dict(module="MRB.Props.C08", level="proof", profiles=[prof("own", 600), prof("asyncown", 150, 1500, features=["async"], binary="asyncdiff")], also_tags=[],
                gen_items=["storeKinds", "pins"], trusted=SEQ_TRUST + ["live values are never all-zero bytes (property assumption)"]),
    "C09": dict(module="MRB.Props.C09", level="proof", profiles=[prof("own", 600), prof("vmemown", 5, 40, features=["vmem"], seeds_thorough=2)],
                gen_items=["storeKinds", "pins"], trusted=SEQ_TRUST + ["live values are never all-zero bytes (property assumption)"]),
    "C13": dict(module="MRB.Props.C13", level="translation_validation", profiles=[prof("all", 800), prof("own", 300), prof("async", 200, 2000, features=["async"], binary="asyncdiff"), prof("asyncown", 100, 1000, features=["async"], binary="asyncdiff")], engines=["adetprobe"],
                also_tags=["C01", "C04", "C05", "C06", "C07", "C08", "C09", "C11", "C12", "C14", "C18"],
                gen_items=["concAcc", "localAcc", "adetGoBack", "adetAdvance", "adetSync"], trusted=SEQ_TRUST),
    "C14": dict(module="MRB.Props.C14", level="proof",
                profiles=[prof("async", 400, features=["async"], binary="asyncdiff"), prof("asyncown", 300, features=["async"], binary="asyncdiff")],
                engines=["wakeprobe"], gen_items=["asyncDelegation"], trusted=SEQ_TRUST + ["Rust's Future/Waker machinery; futures are polled by hand with a counting waker"]),
    "C15": dict(module="MRB.Props.C15", level="proof",
                profiles=[prof("async", 400, features=["async"], binary="asyncdiff")], engines=["wakeprobe"],
                gen_items=["sendSync"], trusted=SEQ_TRUST + ["wake-ups are observed through the waker passed to poll"]),
    "C16": dict(module="MRB.Props.C16", level="proof", profiles=[], engines=["c16"], gen_items=["sendSync"],
                trusted=["rustc's trait solver is the ground truth for Send/Sync; the auto-trait rule is modelled over the finite universe wrapper x role x buffer kind x (item Send?, item Sync?)"],
                explanation="decide over the whole finite universe from the regenerated impl table + rustc probes"),
    "C17": dict(module="MRB.Props.C17", level="proof", engines=["vmemprobe"],
                profiles=[prof("vmem", 16, 200, features=["vmem"], seeds_thorough=2), prof("vmemseam", 5, 40, features=["vmem"], seeds_thorough=2), prof("vmemown", 5, 40, features=["vmem"], seeds_thorough=2),
                          prof("async", 8, 60, features=["async", "vmem"], binary="asyncdiff", seeds_thorough=2)],
                gen_items=["pageSizeMul", "nextChunkVm", "nextChunkMutVm", "vmemCalls", "construction"],
                trusted=["kernel mmap/munmap/sysconf behaviour is assumed", "page size 4096 in the harness"]),
    "C18": dict(module="MRB.Props.C18", level="proof", profiles=[prof("construct", 500)], gen_items=["construction"], trusted=SEQ_TRUST),
}
