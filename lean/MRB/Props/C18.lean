/-
  C18 — construction and every split start a consistent, correctly sized session.
-/
import MRB.Seq.Run

namespace MRB.Props.C18
open MRB

/-- A buffer built from `n ≥ 1` items has length `n`, keeps the supplied contents in order, starts with all
    indices at 0, and is related to the fresh specification state (so every theorem about reachable states applies). -/
theorem C18_construction (slots : List Nat) (hasW heap owned : Bool) (hlen : 1 ≤ slots.length) :
    let s := St.init slots hasW heap owned
    s.len = slots.length ∧ s.slots = slots ∧ s.p.idx = 0 ∧ s.w.idx = 0 ∧ s.c.idx = 0 ∧ s.pubP = 0 ∧ s.pubW = 0 ∧ s.pubC = 0 ∧
    Rel s (Sp.init slots.length hasW) :=
  ⟨rfl, rfl, rfl, rfl, rfl, rfl, rfl, rfl, rel_init slots hasW heap owned hlen⟩

/-- Usable capacity is `n - 1`: right after construction the producer has `n - 1` free slots and worker
    and consumer have nothing; the availabilities sum to `len - 1`. -/
theorem C18_fresh_availabilities (n : Nat) (hasW : Bool) :
    (Sp.init n hasW).avail .P = n - 1 ∧ (Sp.init n hasW).avail .W = 0 ∧ (Sp.init n hasW).avail .C = 0 := by
  cases hasW <;> simp [Sp.init, Sp.avail, Sp.limit, Sp.pos]

/-- The same holds immediately after *any* later split of a stack buffer (whatever the previous session did,
    with or without worker in either session): fresh indices, fresh availabilities, and the invariant. -/
theorem C18_resplit_consistent {s : St} {a : Sp} (r : Reach s a) (w : Bool) (hal : Allowed s a (.resplit w)) :
    let s' := (step s (.resplit w)).1
    let a' := (a.step (.resplit w)).1
    Rel s' a' ∧ a'.avail .P = s'.len - 1 ∧ a'.avail .W = 0 ∧ a'.avail .C = 0 ∧ a'.hist = [] ∧ a'.delivered = [] ∧
    s'.pubP = 0 ∧ s'.pubW = 0 ∧ s'.pubC = 0 ∧ s'.p.idx = 0 ∧ s'.w.idx = 0 ∧ s'.c.idx = 0 ∧ s'.len = s.len := by
  have h' := (step_refines r.rel (.resplit w) hal).1
  refine ⟨h', ?_, ?_, ?_, rfl, rfl, rfl, rfl, rfl, rfl, rfl, rfl, rfl⟩ <;>
    cases w <;> simp [Sp.step, Sp.avail, Sp.limit, Sp.pos, step, r.rel.len_eq]

/-- After a (re-)split the consumer can obtain only items pushed in the new session: whatever it is
    delivered afterwards is an item accepted after the split. -/
theorem C18_new_session_delivers_only_new_items {s : St} {a : Sp} (r : Reach s a) (w : Bool) (hal : Allowed s a (.resplit w))
    (ops : List Op) (hops : AllowedRun (step s (.resplit w)).1 (a.step (.resplit w)).1 ops) :
    let a'' := ((a.step (.resplit w)).1.run ops).1
    a''.delivered = pick a''.mask a''.hist := by
  have hr : Reach (step s (.resplit w)).1 (a.step (.resplit w)).1 := Reach.step _ r hal
  have : ∀ (ops : List Op) (s : St) (a : Sp), Reach s a → AllowedRun s a ops → Reach (run s ops).1 (a.run ops).1 := by
    intro ops
    induction ops with
    | nil => intro s a r _; exact r
    | cons op ops ih => intro s a r h; exact ih _ _ (Reach.step op r h.1) h.2
  exact (this ops _ _ hr hops).fifo

end MRB.Props.C18
