/-
  C10 — operations are non-blocking and publications are never lost.
  Partial: OS scheduling and real time are not modelled; "bounded number of own steps" is the bound on atomic operations
  and slot accesses per API call, read off the generated call skeletons and the generated table of loops.
-/
import MRB.Conc.Data
import MRB.Gen.Kernel
import MRB.Seq.Arith

namespace MRB.Props.C10
open MRB MRB.Conc

/-- No step of a thread has a guard on another thread's progress: in every reachable state every (existing) iterator can
    publish, can load the newest index of the iterator ahead, and can move by whatever it has been granted — whether
    the other threads run, are suspended for ever, or are gone. -/
theorem C10_always_enabled {L : Nat} {hasW : Bool} (hL : 1 ≤ L) {s : St} (r : Reach L hasW s) (t : Role) (ht : t = .W → s.hasW = true) :
    Step s (publish s t) ∧
    (∃ m, m ∈ s.hist (lead s.hasW t) ∧ m.val = lastVal (s.hist (lead s.hasW t)) ∧ Step s (refresh s t m)) ∧
    (∀ n, n ≤ (s.thr t).cached → Step s (moveLocal s t n)) := by
  have inv := (reach_inv hL r).1
  refine ⟨Step.publish s t ht, ?_, fun n hn => Step.moveLocal s t n hn ht⟩
  -- the newest message exists (histories are never empty) and is never older than what was read before
  have hne : s.hist (lead s.hasW t) ≠ [] := r.hist_ne_nil _
  obtain ⟨m, hm⟩ := List.getLast?_isSome.2 hne |> Option.isSome_iff_exists.1
  have hmem : m ∈ s.hist (lead s.hasW t) := List.mem_of_getLast? hm
  have hval : m.val = lastVal (s.hist (lead s.hasW t)) := by simp [lastVal, hm]
  exact ⟨m, hmem, hval, Step.refresh s t m hmem (by rw [hval]; exact inv.j2k t) ht⟩

/-- Publications are never lost: whoever loads the newest index of the iterator ahead remembers exactly the true distance
    to that iterator's published position (plus the `L-1` slack for the producer); in particular if the iterator ahead
    has published anything beyond the reader's position, the reader can move. -/
theorem C10_found_at_fresh_look (s : St) (t : Role) (m : Msg) (hm : m.val = lastVal (s.hist (lead s.hasW t))) :
    ((refresh s t m).thr t).cached = lastVal (s.hist (lead s.hasW t)) + slack s.L t - (s.thr t).pos ∧
    ((s.thr t).pos < lastVal (s.hist (lead s.hasW t)) + slack s.L t → 1 ≤ ((refresh s t m).thr t).cached) := by
  have e : ((refresh s t m).thr t).cached = m.val + slack s.L t - (s.thr t).pos := by simp [refresh]
  rw [e, hm]; exact ⟨rfl, fun h => by omega⟩

/-- …and a thread that has synchronised with *any* later message of the same writer also knows every earlier access
    that message covered (monotone views): what was published before is found. -/
theorem C10_found_after_sync {L : Nat} {hasW : Bool} (hL : 1 ≤ L) {s : St} (r : Reach L hasW s) (t : Role) (m : Msg)
    (ht : t = .W → s.hasW = true) (hm : m ∈ s.hist (lead s.hasW t)) (hc : (s.thr t).k ≤ m.val) :
    (s.thr t).k ≤ ((refresh s t m).thr t).k ∧ (∀ u, ((s.thr t).vc).get u ≤ (((refresh s t m).thr t).vc).get u) ∧
    (∀ u, m.vc.get u ≤ (((refresh s t m).thr t).vc).get u) := by
  have inv := (reach_inv hL r).1
  have hrel := inv.jrel _ m hm
  have hacq := ldAcq_all (lead s.hasW t)
  refine ⟨by simpa [refresh] using hc, ?_, ?_⟩ <;> intro u <;> simp only [refresh, thr_setThr, if_true, hacq, hrel, Bool.and_self, VC.get_join, VC.get_tick]
  · split <;> omega
  · omega

/-- **The pipeline is never stuck.** Whenever the producer has published an item the consumer has not yet moved past,
some downstream stage can make progress by its own steps alone: either a stage finds at least one item at a fresh look
at the newest index of the stage ahead of it, or the worker holds progress it has not published yet and can publish it
(`C10_always_enabled`). No stage ever has to wait for a step of a stage *behind* it, and nothing has to be retried more
than once after the stage ahead has published. -/
theorem C10_pipeline_never_stuck (s : St) (h : (s.thr .C).pos < lastVal s.hP) :
    (∃ t, (t = .W ∨ t = .C) ∧ (t = .W → s.hasW = true) ∧
        ∀ m : Msg, m.val = lastVal (s.hist (lead s.hasW t)) → 1 ≤ ((refresh s t m).thr t).cached) ∨
    (s.hasW = true ∧ lastVal s.hW < (s.thr .W).pos) := by
  have key : (∃ t, (t = Role.W ∨ t = Role.C) ∧ (t = Role.W → s.hasW = true) ∧ (s.thr t).pos < lastVal (s.hist (lead s.hasW t))) ∨
      (s.hasW = true ∧ lastVal s.hW < (s.thr .W).pos) := by
    cases hw : s.hasW
    · left; exact ⟨.C, Or.inr rfl, by simp, by simpa [lead, hw, St.hist] using h⟩
    · by_cases h1 : (s.thr .W).pos < lastVal s.hP
      · left; exact ⟨.W, Or.inl rfl, fun _ => rfl, by simpa [lead, St.hist] using h1⟩
      · by_cases h2 : (s.thr .C).pos < lastVal s.hW
        · left; exact ⟨.C, Or.inr rfl, by simp, by simpa [lead, hw, St.hist] using h2⟩
        · right; exact ⟨rfl, by omega⟩
  rcases key with ⟨t, ht, hW, hlt⟩ | hr
  · left
    exact ⟨t, ht, hW, fun m hm => (C10_found_at_fresh_look s t m hm).2 (by omega)⟩
  · right; exact hr

/-- Bounded number of own steps per call (tie to the source): an availability computation loads one index, `check` makes at
    most one such computation — and makes it whenever what it remembers is not enough, so a retrying stage always takes a fresh look —, an advance stores one index, and the only function with a loop that does not end by itself is `wait_for` (the documented
    busy-wait); `poll` performs at most four events (two attempts at most), whichever way it is written (`Gen.pollTraces`); `for` loops over a closed range or over slices — the two per-slot `*_init`
    copies — end by themselves and are listed apart (`Gen.boundedLoops`). -/
theorem C10_source_straight_line :
    Gen.skelProdAvailable = [⟨.succIndex, .none⟩] ∧ Gen.skelWorkAvailable = [⟨.succIndex, .none⟩] ∧ Gen.skelConsAvailable = [⟨.succIndex, .none⟩] ∧
    Gen.skelCheck = [⟨.available', .none⟩] ∧ (∀ i c s L n a, Gen.check.cached' i c s L n a = if c ≥ n then c else a) ∧
    (∀ i c s L n a, Gen.check.ret i c s L n a = decide (c ≥ n ∨ a ≥ n)) ∧ Gen.skelAdvance = [⟨.advanceLocal, .count⟩, ⟨.setAtomicIndex, .index⟩] ∧
    Gen.skelConsReset.map (·.name) = [.succIndex, .setAtomicIndex] ∧ Gen.skelWorkReset.map (·.name) = [.succIndex, .setAtomicIndex] ∧
    Gen.skelDropProd.map (·.name) = [.setProdAlive, .releaseIter, .drop] ∧
    Gen.loops = [("wait_for", "while")] ∧ Gen.pollTraces.all (fun t => decide (t.length ≤ 4) && !t.contains .unknown) = true :=
  ⟨rfl, rfl, rfl, rfl, fun i c s L n a => Gen.check_cached_eq i c s L n a, fun i c s L n a => Gen.check_ret_eq i c s L n a, rfl, rfl, rfl, rfl, rfl, rfl⟩

end MRB.Props.C10
