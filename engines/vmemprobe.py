"""C17 engine: the mapping-level part of the vmem configuration.
 - binary `vmemprobe` (built with --features vmem) observes the real crate: page rounding of the requested length,
   both views unmapped on drop (/proc/self/maps), contents of from(vec), mirror (slice vs item access across the
   physical end, element sizes 1..16 bytes, 1-3 pages), destruction of items on release;
 - the Lean driver prints the verdicts of the decision procedures of MRB.Vmem on the regenerated mmap/memcpy/munmap
   tables (`c17`) and evaluates the regenerated rounding function (`c17round`);
 - the two are compared: a `false` verdict is a model-level violation, a disagreement is a broken correspondence."""
import json, os, re, subprocess

MARK = {
    "mirror": "model verdict mirror=false: on the regenerated mmap table the pages behind the second view are not the pages behind the first [window crosses the physical end: index+count > len]",
    "contents": "model verdict contents=false: no copy goes from the source slice into the new mapping, which stays zero (from(vec) contents lost)",
    "destroys": "model verdict destroys=false: Drop for HeapStorage (vmem) contains no destruction of the items [release of the storage]",
    "unmap": "model verdict unmap=false: the munmap length is not (extent of the mappings) x len x size_of::<T>() bytes",
    "placed": "model verdict placed=false: a later mmap call is not MAP_FIXED at a named block (its address is only a hint)",
    "returnsBase": "model verdict returnsBase=false: vmem_helper::new does not return the start of the first mapping",
}
EXTRA_OF = {"destroys": "from_vec_owned"}
PROBE_OF = {"mirror": "mirror", "contents": "from_vec_contents", "destroys": "drop_items", "unmap": "unmap"}


def run(pid, tier, seed, ctx):
    tdir = os.path.join(ctx["cache"], "target-vmem")
    env = dict(os.environ, CARGO_NET_OFFLINE="true", CARGO_TARGET_DIR=tdir)
    feats = ["vmem"]
    b = subprocess.run(["cargo", "build", "--offline", "--features", "vmem", "--bin", "vmemprobe"], cwd=os.path.join(ctx["verif"], "harness"), env=env, stdout=subprocess.PIPE, stderr=subprocess.STDOUT, text=True)
    if b.returncode != 0:
        return dict(summary={"cases": 0}, violations=[], divergences=[{"kind": "build", "features": feats, "detail": "vmemprobe does not build:\n" + b.stdout[-1500:], "case": None}], samples=[])
    p = subprocess.run([os.path.join(tdir, "debug", "vmemprobe")], stdout=subprocess.PIPE, stderr=subprocess.PIPE, text=True)
    if p.returncode != 0:
        return dict(summary={"cases": 0}, violations=[{"kind": "oracle", "tags": ["C17"], "features": feats, "case": "# vmemprobe", "failures": [{"detail": f"vmemprobe died (rc={p.returncode}): " + p.stderr[-500:]}]}], divergences=[], samples=[])
    rows = json.loads(p.stdout)
    viol = [{"kind": "oracle", "tags": ["C17"], "features": feats, "case": "# vmemprobe check `%s`\n# %s" % (r["check"], r["detail"]), "failures": [{"detail": r["detail"]}]} for r in rows if not r["ok"]]
    div = []
    n = len(rows)
    if ctx.get("driver"):
        rnd = [r for r in rows if r["check"] == "rounding"]
        lines = ["c17"] + [f"c17round {r['ps']} {r['req']}" for r in rnd]
        # a few more requests through the real function are already in rows; the model is asked the same ones
        d = subprocess.run([ctx["driver"]], input="\n".join(lines) + "\n", stdout=subprocess.PIPE, stderr=subprocess.PIPE, text=True)
        outl = d.stdout.strip().splitlines()
        if d.returncode != 0 or len(outl) != len(lines):
            div.append({"kind": "driver", "features": feats, "detail": "Lean driver did not answer the c17 lines: " + (d.stderr or d.stdout)[-300:], "case": "\n".join(lines)})
        else:
            verdict = dict(kv.split("=") for kv in outl[0].split())
            n += len(verdict) + len(rnd)
            for k, v in verdict.items():
                if v != "true":
                    viol.append({"kind": "model", "tags": ["C17"], "features": feats, "case": f"# driver line `c17` -> {outl[0]}", "failures": [{"detail": MARK.get(k, f"model verdict {k}=false")}]})
                if k in PROBE_OF:
                    obs = all(r["ok"] for r in rows if r["check"] in (PROBE_OF[k], EXTRA_OF.get(k)))
                    if obs != (v == "true"):
                        div.append({"kind": "correspondence", "features": feats, "detail": f"model verdict {k}={v} but the implementation's `{PROBE_OF[k]}` observations say {str(obs).lower()}", "case": f"# vmemprobe `{PROBE_OF[k]}` rows vs driver line `c17`"})
            for r, o in zip(rnd, outl[1:]):
                if str(r["got"]) != o.strip():
                    div.append({"kind": "correspondence", "features": feats, "detail": f"get_page_size_mul({r['req']}) = {r['got']} with page size {r['ps']}, regenerated model says {o.strip()}", "case": f"c17round {r['ps']} {r['req']}"})
    return dict(summary={"cases": n, "steps": n, "distinct_nontrivial": len({r["detail"] for r in rows})}, violations=viol, divergences=div, samples=[r["detail"] for r in rows[:2]])
