//! Finite tables extracted syntactically from the sources: stage wiring (G2), index/flag accessors of
//! both buffer variants (G3), call-order skeletons of the composite operations (G8), the drop protocol (G4),
//! Send/Sync impls (G5), wake sites (G6), vmem system-call arguments (G7).
use crate::sym::{find_fn, q};
use crate::{Item, Src};
use syn::visit::Visit;
use syn::{Expr, Stmt};

// ---------------------------------------------------------------- G2 wiring

fn fld_of_method(m: &str) -> Option<&'static str> {
    match m {
        "prod_index" | "set_prod_index" => Some(".prod"),
        "work_index" | "set_work_index" => Some(".work"),
        "cons_index" | "set_cons_index" => Some(".cons"),
        _ => None,
    }
}

fn wiring_expr(e: &Expr, setter: bool) -> Result<String, String> {
    match e {
        Expr::Paren(p) => wiring_expr(&p.expr, setter),
        Expr::Block(b) => match b.block.stmts.as_slice() {
            [Stmt::Expr(e, _)] => wiring_expr(e, setter),
            _ => Err("block with several statements".into()),
        },
        Expr::MethodCall(m) => {
            let recv = q(&m.receiver);
            if recv != "self.buffer" && recv != "self.buffer()" { return Err(format!("receiver `{recv}`")); }
            let name = m.method.to_string();
            if setter != name.starts_with("set_") { return Err(format!("unexpected accessor `{name}`")); }
            if setter && (m.args.len() != 1 || q(&m.args[0]) != "index") { return Err("setter does not store its argument".into()); }
            fld_of_method(&name).map(|s| s.to_string()).ok_or(format!("accessor `{name}`"))
        }
        Expr::If(i) => {
            if q(&i.cond) != "W" { return Err(format!("condition `{}`", q(&i.cond))); }
            let t = match i.then_branch.stmts.as_slice() { [Stmt::Expr(e, _)] => wiring_expr(e, setter)?, _ => return Err("then".into()) };
            let f = wiring_expr(&i.else_branch.as_ref().ok_or("no else")?.1, setter)?;
            Ok(format!("if w then {t} else {f}"))
        }
        _ => Err(format!("expression `{}`", q(e))),
    }
}

fn wiring(src: &mut Src) -> Result<String, String> {
    let mut o = String::new();
    for (path, owner, lean) in [
        ("src/iterators/sync_iterators/prod_iter.rs", "ProdIter", "prod"),
        ("src/iterators/sync_iterators/work_iter.rs", "WorkIter", "work"),
        ("src/iterators/sync_iterators/cons_iter.rs", "ConsIter", "cons"),
    ] {
        let file = src.file(path)?;
        let own = format!("PrivateMRBIterator<T>for{owner}");
        let f = find_fn(file, &own, "succ_index").ok_or(format!("succ_index of {owner}"))?;
        let e = match f.block.stmts.as_slice() { [Stmt::Expr(e, _)] => e, _ => return Err(format!("succ_index of {owner}: body")) };
        o.push_str(&format!("def {lean}Succ (w : Bool) : Fld := {}\n", wiring_expr(e, false)?));
        let f = find_fn(file, &own, "set_atomic_index").ok_or(format!("set_atomic_index of {owner}"))?;
        let e = match f.block.stmts.as_slice() { [Stmt::Expr(e, _)] => e, _ => return Err(format!("set_atomic_index of {owner}: body")) };
        o.push_str(&format!("def {lean}Pub : Fld := {}\n", wiring_expr(e, true)?));
    }
    Ok(o)
}

// ---------------------------------------------------------------- G3 accessors

#[derive(Default)]
struct AccVisitor {
    out: Vec<String>, guard: u32, err: Option<String>,
    /// helper functions of the same type (`Self::h(..)` / `self.h(..)`): executed in place, parameters bound to the fields passed
    helpers: std::collections::HashMap<String, (Vec<String>, syn::Block)>,
    /// a parameter or local that stands for `self.<field>` (value: field name)
    fields: std::collections::HashMap<String, String>,
    /// a local bound to `self.<field>.get()` (value: field name)
    cells: std::collections::HashMap<String, String>,
    depth: u32,
}

impl AccVisitor {
    /// `self.<field>`, `&self.<field>`, or a name standing for one
    fn field_of(&self, e: &Expr) -> Option<String> {
        match e {
            Expr::Paren(p) => self.field_of(&p.expr),
            Expr::Reference(r) => self.field_of(&r.expr),
            Expr::Path(_) => self.fields.get(&q(e)).cloned(),
            _ => self_field(e),
        }
    }
    /// `*self.<field>.get()`, `*<field alias>.get()`, `*<cell alias>`
    fn deref_of(&self, e: &Expr) -> Option<String> {
        let e = match e { Expr::Paren(p) => &*p.expr, e => e };
        if let Expr::Unary(u) = e { if matches!(u.op, syn::UnOp::Deref(_)) {
            match &*u.expr {
                Expr::MethodCall(m) if m.method == "get" => return self.field_of(&m.receiver),
                Expr::Path(_) => return self.cells.get(&q(&u.expr)).cloned(),
                _ => {}
            }
        } }
        None
    }
    fn inline(&mut self, name: &str, args: Vec<&Expr>) -> bool {
        let (ps, b) = match self.helpers.get(name) { Some(h) if self.depth < 3 => h.clone(), _ => return false };
        if ps.len() != args.len() { return false; }
        let mut sub = AccVisitor { helpers: self.helpers.clone(), guard: self.guard, depth: self.depth + 1, ..Default::default() };
        for (p, a) in ps.iter().zip(args.iter()) {
            match self.field_of(a) { Some(f) => { sub.fields.insert(p.clone(), f); } None => { self.visit_expr(a); } }
        }
        sub.out = std::mem::take(&mut self.out);
        sub.visit_block(&b);
        self.out = sub.out;
        if sub.err.is_some() { self.err = sub.err; }
        true
    }
}

fn ord_name(e: &Expr) -> Option<&'static str> {
    let t = q(e);
    let t = t.rsplit("::").next().unwrap_or("").to_string();
    match t.as_str() {
        "Acquire" => Some(".acquire"), "Release" => Some(".release"), "Relaxed" => Some(".relaxed"),
        "AcqRel" => Some(".acqRel"), "SeqCst" => Some(".seqCst"), _ => None,
    }
}

fn self_field(e: &Expr) -> Option<String> {
    if let Expr::Field(f) = e { if q(&f.base) == "self" { if let syn::Member::Named(n) = &f.member { return Some(n.to_string()); } } }
    None
}

/// `*self.<field>.get()`
fn cell_deref(e: &Expr) -> Option<String> {
    let e = match e { Expr::Paren(p) => &*p.expr, e => e };
    if let Expr::Unary(u) = e { if matches!(u.op, syn::UnOp::Deref(_)) {
        if let Expr::MethodCall(m) = &*u.expr { if m.method == "get" { return self_field(&m.receiver); } }
    } }
    None
}

fn fld_lean(f: &str) -> String {
    match f {
        "prod_idx" => ".prodIdx".into(), "work_idx" => ".workIdx".into(), "cons_idx" => ".consIdx".into(),
        "prod_alive" => ".prodAlive".into(), "work_alive" => ".workAlive".into(), "cons_alive" => ".consAlive".into(),
        "alive_iters" => ".aliveIters".into(),
        o => format!("(.other \"{o}\")"),
    }
}

impl<'ast> Visit<'ast> for AccVisitor {
    fn visit_local(&mut self, l: &'ast syn::Local) {
        if let Some(init) = &l.init {
            self.visit_expr(&init.expr);
            let name = match &l.pat { syn::Pat::Ident(i) => Some(i.ident.to_string()), syn::Pat::Type(t) => match &*t.pat { syn::Pat::Ident(i) => Some(i.ident.to_string()), _ => None }, _ => None };
            if let Some(n) = name {
                if let Some(f) = self.field_of(&init.expr) { self.fields.insert(n, f); }
                else if let Expr::MethodCall(m) = &*init.expr { if m.method == "get" && m.args.is_empty() { if let Some(f) = self.field_of(&m.receiver) { self.cells.insert(n, f); } } }
            }
        }
    }
    fn visit_expr(&mut self, e: &'ast Expr) {
        match e {
            Expr::Call(c) if q(&c.func).starts_with("Self::") && self.helpers.contains_key(q(&c.func).trim_start_matches("Self::")) => {
                let name = q(&c.func).trim_start_matches("Self::").to_string();
                let args: Vec<&Expr> = c.args.iter().collect();
                if !self.inline(&name, args) { syn::visit::visit_expr(self, e); }
            }
            Expr::MethodCall(m) if q(&m.receiver) == "self" && self.helpers.contains_key(&m.method.to_string()) => {
                let args: Vec<&Expr> = m.args.iter().collect();
                if !self.inline(&m.method.to_string(), args) { syn::visit::visit_expr(self, e); }
            }
            Expr::If(i) => {
                self.visit_expr(&i.cond);
                self.guard += 1;
                self.visit_block(&i.then_branch);
                if let Some((_, e)) = &i.else_branch { self.visit_expr(e); }
                self.guard -= 1;
            }
            Expr::MethodCall(m) => {
                let name = m.method.to_string();
                if let Some(f) = self.field_of(&m.receiver) {
                    let kind = match name.as_str() { "load" => Some(".load"), "store" => Some(".store"), "fetch_add" => Some(".fetchAdd"), "fetch_sub" => Some(".fetchSub"),
                        "swap" | "compare_exchange" | "compare_exchange_weak" | "fetch_and" | "fetch_or" | "fetch_update" => { self.err = Some(format!("atomic operation `{name}`")); None }
                        _ => None };
                    if let Some(k) = kind {
                        for a in &m.args { self.visit_expr(a); }
                        match m.args.last().and_then(ord_name) {
                            Some(o) => self.out.push(format!("⟨{}, {k}, {o}, {}⟩", fld_lean(&f), self.guard > 0)),
                            None => self.err = Some(format!("ordering of `{}`", q(e))),
                        }
                        return;
                    }
                }
                syn::visit::visit_expr(self, e);
            }
            Expr::Assign(a) => {
                self.visit_expr(&a.right);
                match self.deref_of(&a.left) {
                    Some(f) => self.out.push(format!("⟨{}, .write, .plain, {}⟩", fld_lean(&f), self.guard > 0)),
                    None => self.visit_expr(&a.left),
                }
            }
            Expr::Binary(b) if matches!(b.op, syn::BinOp::AddAssign(_) | syn::BinOp::SubAssign(_)) => {
                self.visit_expr(&b.right);
                let k = if matches!(b.op, syn::BinOp::AddAssign(_)) { ".addAssign" } else { ".subAssign" };
                match self.deref_of(&b.left) {
                    Some(f) => self.out.push(format!("⟨{}, {k}, .plain, {}⟩", fld_lean(&f), self.guard > 0)),
                    None => self.err = Some(format!("compound assignment `{}`", q(e))),
                }
            }
            _ => {
                if let Some(f) = self.deref_of(e) { self.out.push(format!("⟨{}, .read, .plain, {}⟩", fld_lean(&f), self.guard > 0)); return; }
                syn::visit::visit_expr(self, e);
            }
        }
    }
}

const ACCESSORS: [&str; 13] = ["prod_index", "work_index", "cons_index", "set_prod_index", "set_work_index", "set_cons_index",
    "prod_alive", "work_alive", "cons_alive", "set_prod_alive", "set_work_alive", "set_cons_alive", "release_iter"];

fn accessors(src: &mut Src, path: &str, owner: &str, lean: &str) -> Result<String, String> {
    let file = src.file(path)?;
    let mut o = String::new();
    // inherent helper methods of the buffer type (not the accessors themselves)
    let mut helpers = std::collections::HashMap::new();
    for it in &file.items { if let syn::Item::Impl(i) = it { if i.trait_.is_none() {
        let ty = &i.self_ty; if !quote::quote!(#ty).to_string().replace(' ', "").contains(owner.split('<').next().unwrap_or(owner)) { continue; }
        for ii in &i.items { if let syn::ImplItem::Fn(g) = ii {
            let n = g.sig.ident.to_string();
            if !ACCESSORS.contains(&n.as_str()) && !g.attrs.iter().any(|a| a.path().is_ident("cfg")) { helpers.insert(n, (fn_params(&g.sig), g.block.clone())); }
        } }
    } } }
    for name in ACCESSORS {
        let f = find_fn(file, &format!("IterManagerfor{owner}"), name).ok_or(format!("`{name}` of IterManager for {owner} not found"))?;
        let mut v = AccVisitor { helpers: helpers.clone(), ..Default::default() };
        v.visit_block(f.block);
        if let Some(e) = v.err { return Err(format!("{name}: {e}")); }
        let camel: String = { let mut s = String::new(); let mut up = false; for c in name.chars() { if c == '_' { up = true } else if up { s.push(c.to_ascii_uppercase()); up = false } else { s.push(c) } } s };
        o.push_str(&format!("def {lean}.{camel} : List Acc := [{}]\n", v.out.join(", ")));
        if name == "release_iter" {
            // the boolean result: `<fetch_sub> == 1` (old value) or `<read> == 0` (new value)
            let last = match f.block.stmts.last() { Some(Stmt::Expr(e, None)) => e.clone(), _ => return Err("release_iter: no result expression".into()) };
            let last = match last { Expr::Unsafe(u) => match u.block.stmts.last() { Some(Stmt::Expr(e, None)) => e.clone(), _ => return Err("release_iter: unsafe".into()) }, e => e };
            // a local that names the value tested (`let before = ….fetch_sub(..); before == 1`)
            let mut named: std::collections::HashMap<String, Expr> = std::collections::HashMap::new();
            fn lets_of(b: &syn::Block, out: &mut std::collections::HashMap<String, Expr>) { for st in &b.stmts { match st {
                Stmt::Local(l) => { if let (syn::Pat::Ident(i), Some(init)) = (&l.pat, &l.init) { out.insert(i.ident.to_string(), (*init.expr).clone()); } }
                Stmt::Expr(Expr::Unsafe(u), _) => lets_of(&u.block, out),
                _ => {} } } }
            lets_of(f.block, &mut named);
            let res = match &last {
                Expr::Binary(b) if matches!(b.op, syn::BinOp::Eq(_)) => {
                    let rhs = q(&b.right);
                    let lhs: Expr = match &*b.left { Expr::Path(_) => named.get(&q(&b.left)).cloned().unwrap_or((*b.left).clone()), l => l.clone() };
                    match &lhs {
                        Expr::MethodCall(m) if m.method == "fetch_sub" => format!(".oldEq {rhs}"),
                        l if v.deref_of(l).is_some() => format!(".newEq {rhs}"),
                        _ => return Err(format!("release_iter: result `{}`", q(&last))),
                    }
                }
                _ => return Err(format!("release_iter: result `{}`", q(&last))),
            };
            o.push_str(&format!("def {lean}.releaseIterResult : LastTest := {res}\n"));
        }
    }
    Ok(o)
}

// ---------------------------------------------------------------- G8 call-order skeletons

// Writes of the two private plain fields (`set_local_index`, `set_cached_avail`) are not part of a skeleton: their effect is in
// the symbolically executed definitions (`index'`, `cached'`); a skeleton is the order of the externally visible actions.
const SKEL_CALLS: [&str; 28] = ["check", "take_inner", "inner_duplicate", "inner_ref", "inner_ref_mut", "as_mut_ptr", "_advance", "advance",
    "advance_local", "set_atomic_index", "next_ref_mut_init", "next_ref_mut", "next_ref", "next", "next_duplicate", "next_chunk", "next_chunk_mut",
    "succ_index", "_available", "available", "sync_index", "get_workable_slice_exact", "peek_slice",
    "release_iter", "drop", "set_prod_alive", "set_work_alive", "set_cons_alive"];

#[derive(Default)]
struct SkelVisitor {
    out: Vec<String>,
    /// `let x = <expr>` bindings seen so far (normalised text), used to name arguments by what they are, not by how a local is called
    lets: std::collections::HashMap<String, String>,
    /// parameter names of the function (an argument that is a parameter is `.count`)
    params: Vec<String>,
    /// private helper methods of the same `impl`, inlined when called on `self`
    helpers: std::collections::HashMap<String, (Vec<String>, syn::Block)>,
    /// locals that stand for the iterator itself
    aliases: std::collections::HashMap<String, String>,
    depth: usize,
}

impl SkelVisitor {
    fn resolve(&self, t: &str) -> String {
        let mut t = t.to_string();
        for _ in 0..4 { match self.lets.get(&t) { Some(v) => t = v.clone(), None => break } }
        t
    }
    /// Replaces a leading alias of the iterator (`let it = self.inner.inner_mut();`, `let Self { inner, .. } = self;`) by what it stands for.
    fn expand(&self, t: &str) -> String {
        let head: String = t.chars().take_while(|c| c.is_alphanumeric() || *c == '_').collect();
        match self.aliases.get(&head) { Some(full) if !head.is_empty() => format!("{full}{}", &t[head.len()..]), _ => t.to_string() }
    }
    fn arg(&self, args: &syn::punctuated::Punctuated<Expr, syn::token::Comma>) -> String {
        match args.len() {
            0 => ".none".into(),
            1 => {
                let raw = q(&args[0]);
                let raw = self.expand(raw.trim_start_matches('*'));
                if self.params.contains(&raw) { return ".count".into(); }
                let t = self.expand(&self.resolve(&raw));
                if let Ok(n) = t.parse::<u64>() { format!("(.lit {n})") }
                else if self.params.contains(&t) || t.strip_suffix(".len()").map(|x| self.params.contains(&x.to_string())).unwrap_or(false) { ".count".into() }
                else if ["self._index()", "self.index()", "self.index", "self.inner.index()", "self.inner.inner().index()", "self.inner.inner_mut().index()"].contains(&t.as_str()) { ".index".into() }
                else { format!("(.other \"{}\")", t.replace('"', "'")) }
            }
            _ => ".many".into(),
        }
    }
}

fn camel(name: &str) -> String {
    let mut s = String::new(); let mut up = false;
    for c in name.trim_start_matches('_').chars() { if c == '_' { up = true } else if up { s.push(c.to_ascii_uppercase()); up = false } else { s.push(c) } }
    if name.starts_with('_') { s.push('\''); }
    s
}

impl<'ast> Visit<'ast> for SkelVisitor {
    fn visit_local(&mut self, l: &'ast syn::Local) {
        if let Some(init) = &l.init { self.visit_expr(&init.expr); }
        if let Some(init) = &l.init {
            let it = self.expand(&q(&init.expr));
            match &l.pat {
                syn::Pat::Struct(ps) if it == "self" => { for f in &ps.fields { if let (syn::Member::Named(n), syn::Pat::Ident(i)) = (&f.member, &*f.pat) { self.aliases.insert(i.ident.to_string(), format!("self.{n}")); } } return; }
                syn::Pat::Ident(i) if ["self.inner", "self.inner.inner_mut()", "self.inner.inner()", "self.inner_mut()", "self.inner()"].contains(&it.as_str()) => { self.aliases.insert(i.ident.to_string(), it); return; }
                _ => {}
            }
        }
        let name = match &l.pat { syn::Pat::Ident(i) => Some(i.ident.to_string()), syn::Pat::Type(t) => match &*t.pat { syn::Pat::Ident(i) => Some(i.ident.to_string()), _ => None }, _ => None };
        if let (Some(n), Some(init)) = (name, &l.init) { let v = self.expand(&self.resolve(&q(&init.expr))); self.lets.insert(n, v); }
    }
    fn visit_expr(&mut self, e: &'ast Expr) {
        match e {
            Expr::MethodCall(m) => {
                self.visit_expr(&m.receiver);
                for a in &m.args { self.visit_expr(a); }
                let name = m.method.to_string();
                // `as_mut_ptr` / `as_ptr` of one of the caller's own slices (a parameter) is not an access to the storage
                let recv = self.expand(&q(&m.receiver));
                let on_param = self.params.iter().any(|p| recv == *p || recv.starts_with(&format!("{p}.")) || recv.starts_with(&format!("{p}[")));
                if name == "sync_index" && self.helpers.contains_key("sync_index") && self.depth < 3 && ["self", "self.inner"].contains(&recv.as_str()) {
                    // `Detached::sync_index` called by a sibling method: what it does (the publication) counts as done here
                    let (_, b) = self.helpers["sync_index"].clone();
                    let mut inner = SkelVisitor { helpers: self.helpers.clone(), depth: self.depth + 1, ..Default::default() };
                    inner.visit_block(&b);
                    self.out.extend(inner.out);
                }
                else if SKEL_CALLS.contains(&name.as_str()) && !(on_param && (name == "as_mut_ptr" || name == "as_ptr")) { let a = self.arg(&m.args); self.out.push(format!("⟨.{}, {}⟩", camel(&name), a)); }
                else if ["self", "self.inner", "self.inner.inner_mut()", "self.inner.inner()"].contains(&recv.as_str()) && self.depth < 3 {
                    if let Some((ps, b)) = self.helpers.get(&name).cloned() {
                        // a private helper of the same impl, or a default method of the iterator traits: what it does counts as done here
                        let mut inner = SkelVisitor { helpers: self.helpers.clone(), depth: self.depth + 1, ..Default::default() };
                        for (p, a) in ps.iter().zip(m.args.iter()) {
                            let raw = q(a); let raw = raw.trim_start_matches('*').to_string();
                            if self.params.contains(&raw) { inner.params.push(p.clone()); } else { inner.lets.insert(p.clone(), self.resolve(&raw)); }
                        }
                        inner.visit_block(&b);
                        self.out.extend(inner.out);
                    }
                }
            }
            Expr::Call(c) => {
                for a in &c.args { self.visit_expr(a); }
                let f = q(&c.func);
                if f == "f" { self.out.push("⟨.userF, .many⟩".into()); }
                else { self.visit_expr(&c.func); }
            }
            _ => syn::visit::visit_expr(self, e),
        }
    }
}

fn fn_params(sig: &syn::Signature) -> Vec<String> {
    sig.inputs.iter().filter_map(|a| match a { syn::FnArg::Typed(t) => match &*t.pat { syn::Pat::Ident(i) => Some(i.ident.to_string()), _ => Some("_".into()) }, _ => None }).collect()
}

fn skeleton(src: &mut Src, path: &str, owner: &str, func: &str, cfg_not_vmem: bool) -> Result<String, String> {
    // default methods of the iterator traits that are not themselves skeleton actions: inlined where they are called
    let mut trait_helpers = std::collections::HashMap::new();
    if let Ok(tf) = src.file("src/iterators/iterator_trait.rs") {
        for it in &tf.items { if let syn::Item::Trait(t) = it { if t.ident == "PrivateMRBIterator" || t.ident == "MRBIterator" {
            for ti in &t.items { if let syn::TraitItem::Fn(f) = ti { if let Some(d) = &f.default {
                let n = f.sig.ident.to_string();
                let cfgd = f.attrs.iter().any(|a| a.path().is_ident("cfg"));
                if !cfgd && !SKEL_CALLS.contains(&n.as_str()) && n != func { trait_helpers.insert(n, (fn_params(&f.sig), d.clone())); }
            } } }
        } } }
    }
    let file = src.file(path)?;
    // pick the right cfg variant when there are two
    let mut blk = None;
    fn scan<'a>(items: &'a [syn::Item], owner: &str, func: &str, cfg_not_vmem: bool, blk: &mut Option<&'a syn::Block>) {
        let pick = |attrs: &[syn::Attribute]| { let a: String = attrs.iter().map(|a| quote::quote!(#a).to_string().replace(' ', "")).collect(); !(cfg_not_vmem && a.contains("cfg(feature=\"vmem\")")) };
        for it in items { match it {
            syn::Item::Impl(i) => { let ty = &i.self_ty; let mut head = quote::quote!(#ty).to_string().replace(' ', "");
                if let Some((_, tr, _)) = &i.trait_ { head = format!("{}for{}", quote::quote!(#tr).to_string().replace(' ', ""), head); }
                if !head.contains(owner) { continue; }
                for ii in &i.items { if let syn::ImplItem::Fn(f) = ii { if f.sig.ident == func && pick(&f.attrs) { *blk = Some(&f.block); } } } }
            syn::Item::Trait(t) => { if t.ident != owner { continue; }
                for ti in &t.items { if let syn::TraitItem::Fn(f) = ti { if f.sig.ident == func && pick(&f.attrs) { if let Some(b) = &f.default { *blk = Some(b); } } } } }
            _ => {} } }
    }
    scan(&file.items, owner, func, cfg_not_vmem, &mut blk);
    if blk.is_none() && owner.starts_with("PrivateMRBIterator<T>for") {
        // not overridden by the type: the trait's default body
        return skeleton(src, "src/iterators/iterator_trait.rs", "PrivateMRBIterator", func, cfg_not_vmem);
    }
    let b = blk.ok_or(format!("fn `{func}` of `{owner}` not found in {path}"))?;
    let mut v = SkelVisitor::default();
    v.helpers = trait_helpers;
    // parameters of the function and private helpers of the same impl / trait
    for it in &file.items { match it {
        syn::Item::Impl(i) => { let ty = &i.self_ty; let mut head = quote::quote!(#ty).to_string().replace(' ', "");
            if let Some((_, tr, _)) = &i.trait_ { head = format!("{}for{}", quote::quote!(#tr).to_string().replace(' ', ""), head); }
            if !head.contains(owner) { continue; }
            for ii in &i.items { if let syn::ImplItem::Fn(f) = ii {
                if std::ptr::eq(&f.block, b) { v.params = f.sig.inputs.iter().filter_map(|a| match a { syn::FnArg::Typed(t) => match &*t.pat { syn::Pat::Ident(i) => Some(i.ident.to_string()), _ => None }, _ => None }).collect(); }
                else if matches!(f.vis, syn::Visibility::Inherited) && !SKEL_CALLS.contains(&f.sig.ident.to_string().as_str()) { v.helpers.insert(f.sig.ident.to_string(), (fn_params(&f.sig), f.block.clone())); }
                else if f.sig.ident == "sync_index" { v.helpers.insert("sync_index".into(), (fn_params(&f.sig), f.block.clone())); }
            } } }
        syn::Item::Trait(t) => { if t.ident != owner { continue; }
            for ti in &t.items { if let syn::TraitItem::Fn(f) = ti { if let Some(d) = &f.default {
                if std::ptr::eq(d, b) { v.params = f.sig.inputs.iter().filter_map(|a| match a { syn::FnArg::Typed(t) => match &*t.pat { syn::Pat::Ident(i) => Some(i.ident.to_string()), _ => None }, _ => None }).collect(); }
            } } } }
        _ => {} } }
    v.visit_block(b);
    Ok(format!("[{}]", v.out.join(", ")))
}

fn skeletons(src: &mut Src) -> Result<String, String> {
    let it = "src/iterators/iterator_trait.rs";
    let p = "src/iterators/sync_iterators/prod_iter.rs";
    let c = "src/iterators/sync_iterators/cons_iter.rs";
    let d = "src/iterators/sync_iterators/detached.rs";
    let w = "src/iterators/sync_iterators/work_iter.rs";
    let b = "src/ring_buffer/wrappers/buf_ref.rs";
    let mut o = String::new();
    for (path, owner, func, lean) in [
        (it, "PrivateMRBIterator", "_advance", "skelAdvance"),
        (it, "PrivateMRBIterator", "next", "skelNext"),
        (it, "PrivateMRBIterator", "next_duplicate", "skelNextDuplicate"),
        (it, "PrivateMRBIterator", "next_ref", "skelNextRef"),
        (it, "PrivateMRBIterator", "next_ref_mut", "skelNextRefMut"),
        (it, "PrivateMRBIterator", "next_ref_mut_init", "skelNextRefMutInit"),
        (it, "PrivateMRBIterator", "next_chunk", "skelNextChunk"),
        (it, "PrivateMRBIterator", "next_chunk_mut", "skelNextChunkMut"),
        (it, "MRBIterator", "advance", "skelPubAdvance"),
        (it, "MRBIterator", "get_workable", "skelGetWorkable"),
        (it, "MRBIterator", "get_workable_slice_exact", "skelGetWorkableSliceExact"),
        (p, "ProdIter<'buf,B>", "_push", "skelPush"),
        (p, "ProdIter<'buf,B>", "_push_slice", "skelPushSlice"),
        (c, "ConsIter<'buf,B,W>", "_extract_item", "skelExtractItem"),
        (c, "ConsIter<'buf,B,W>", "_extract_slice", "skelExtractSlice"),
        (c, "ConsIter<'buf,B,W>", "pop", "skelPop"),
        (c, "ConsIter<'buf,B,W>", "pop_move", "skelPopMove"),
        (c, "ConsIter<'buf,B,W>", "peek_ref", "skelPeekRef"),
        (c, "ConsIter<'buf,B,W>", "peek_slice", "skelPeekSlice"),
        (c, "ConsIter<'buf,B,W>", "peek_available", "skelPeekAvailable"),
        (d, "Detached<I>", "attach", "skelAttach"),
        (d, "Detached<I>", "reset_index", "skelDetReset"),
        (d, "Detached<I>", "set_index", "skelDetSetIndex"),
        (d, "Detached<I>", "go_back", "skelDetGoBack"),
        (d, "Detached<I>", "advance", "skelDetAdvance"),
        (d, "Detached<I>", "sync_index", "skelDetSync"),
        (c, "ConsIter<'buf,B,W>", "reset_index", "skelConsReset"),
        (w, "WorkIter<'buf,B>", "reset_index", "skelWorkReset"),
        (p, "PrivateMRBIterator<T>forProdIter", "_available", "skelProdAvailable"),
        (w, "PrivateMRBIterator<T>forWorkIter", "_available", "skelWorkAvailable"),
        (c, "PrivateMRBIterator<T>forConsIter", "_available", "skelConsAvailable"),
        (it, "PrivateMRBIterator", "check", "skelCheck"),
        (it, "PrivateMRBIterator", "advance_local", "skelAdvanceLocal"),
        (b, "BufRef<'_,B>", "set_prod_alive", "skelDropProd"),
        (b, "BufRef<'_,B>", "set_work_alive", "skelDropWork"),
        (b, "BufRef<'_,B>", "set_cons_alive", "skelDropCons"),
    ] {
        o.push_str(&format!("def {lean} : List Call := {}\n", skeleton(src, path, owner, func, true)?));
    }
    Ok(o)
}

// ---------------------------------------------------------------- G9 store kinds and pinned cell primitives

/// Classifies the body of a per-slot / per-slice store closure `f` of the producer.
fn classify_store(b: &syn::Block) -> Result<String, String> {
    let txt = { let mut t = String::new(); for st in &b.stmts { t.push_str(&quote::quote!(#st).to_string().replace(' ', "")); } t };
    // strip one level of `unsafe { .. }`
    let t = txt.strip_prefix("unsafe{").and_then(|x| x.strip_suffix('}')).unwrap_or(&txt).to_string();
    let norm = |x: &str| x.replace("binding_h", "binding").replace("(xas*mutT)", "P").replace("xas*mutT", "P");
    let t = norm(&t);
    Ok(match t.as_str() {
        "*binding=value;" => ".assign".into(),
        "ifUnsafeSyncCell::check_zeroed(binding){binding.write(value);}else{*binding=value;}" => ".initBranch".into(),
        "copy_from_slice_unchecked(slice,binding);" => ".copyAll".into(),
        "binding.clone_from_slice(slice);" => ".cloneAll".into(),
        "for(x,y)inbinding.iter_mut().zip(slice){ifUnsafeSyncCell::check_zeroedP{unsafe{P.write(*y);}}else{*x=*y;}}" => ".perSlotInitCopy".into(),
        "for(x,y)inbinding.iter_mut().zip(slice){ifUnsafeSyncCell::check_zeroedP{unsafe{P.write(y.clone());}}else{x.clone_from(y);}}" => ".perSlotInitClone".into(),
        other => match per_slot_init(other) {
            Some(k) => k.into(),
            None => format!("(.other \"{}\")", other.replace('\\', "").replace('"', "'")),
        },
    })
}

/// The per-slot `*_init` store written with another loop header or with indexing instead of `zip`: one loop that visits the
/// slots of `binding` and the items of `slice` pairwise from the start (zip, `0..min(len, len)`, or a `while` with a counter
/// that goes up by one), and in it the same test and the same two stores. The text is rewritten to the names of the `zip`
/// form (`x` the slot, `y` the item, `P` the slot as a raw pointer) and compared with the two known bodies.
fn per_slot_init(t: &str) -> Option<&'static str> {
    let (header_ok, body): (bool, String) = if let Some(r) = t.strip_prefix("for(x,y)inbinding.iter_mut().zip(slice){") {
        (true, r.strip_suffix('}')?.to_string())
    } else if let Some(r) = t.strip_prefix("letmuti=0;whilei<binding.len()&&i<slice.len(){").or_else(|| t.strip_prefix("letmuti=0;whilei<slice.len()&&i<binding.len(){")) {
        let b = r.strip_suffix('}')?;
        (true, b.strip_suffix("i+=1;")?.to_string())
    } else if let Some(r) = ["foriin0..binding.len().min(slice.len()){", "foriin0..slice.len().min(binding.len()){", "foriin0..core::cmp::min(binding.len(),slice.len()){", "foriin0..min(binding.len(),slice.len()){"].iter().find_map(|h| t.strip_prefix(h)) {
        (true, r.strip_suffix('}')?.to_string())
    } else { (false, String::new()) };
    if !header_ok || body.contains("continue") || body.contains("break") || body.contains("i+=") || body.contains("i=") && !body.contains("[i]=") { return None; }
    // inline `let slot[: *mut T] = <e>;` aliases of the slot
    let mut b = body;
    for _ in 0..3 {
        if let Some(rest) = b.strip_prefix("let") {
            if let Some(semi) = rest.find(';') {
                let decl = &rest[..semi];
                if let Some(eq) = decl.find('=') {
                    let name: String = decl[..eq].split(':').next().unwrap_or("").to_string();
                    let val = decl[eq + 1..].to_string();
                    if !name.is_empty() && name.chars().all(|c| c.is_alphanumeric() || c == '_') && (val == "&mutbinding[i]" || val == "&mutbinding[i]as*mutT" || val == "xas*mutT" || val == "binding.as_mut_ptr().add(i)") {
                        let tail = rest[semi + 1..].to_string();
                        // whole-word replacement of the alias by the pointer name `P`
                        let mut out = String::new(); let cs: Vec<char> = tail.chars().collect(); let n: Vec<char> = name.chars().collect(); let mut i = 0;
                        while i < cs.len() {
                            let at = i + n.len() <= cs.len() && cs[i..i + n.len()] == n[..] && (i == 0 || !(cs[i - 1].is_alphanumeric() || cs[i - 1] == '_')) && (i + n.len() == cs.len() || !(cs[i + n.len()].is_alphanumeric() || cs[i + n.len()] == '_'));
                            if at { out.push('P'); i += n.len(); } else { out.push(cs[i]); i += 1; }
                        }
                        b = out; continue;
                    }
                }
            }
        }
        break;
    }
    let b = b.replace("(xas*mutT)", "P").replace("xas*mutT", "P").replace("(&mutbinding[i])", "P").replace("&mutbinding[i]", "P")
        .replace("slice[i].clone()", "y.clone()").replace("&slice[i]", "y").replace("slice[i]", "*y")
        .replace("binding[i].clone_from(", "x.clone_from(").replace("binding[i]=", "*x=");
    match b.as_str() {
        "ifUnsafeSyncCell::check_zeroedP{unsafe{P.write(*y);}}else{*x=*y;}" | "ifUnsafeSyncCell::check_zeroed(P){unsafe{P.write(*y);}}else{*x=*y;}" => Some(".perSlotInitCopy"),
        "ifUnsafeSyncCell::check_zeroedP{unsafe{P.write(y.clone());}}else{x.clone_from(y);}" | "ifUnsafeSyncCell::check_zeroed(P){unsafe{P.write(y.clone());}}else{x.clone_from(y);}" => Some(".perSlotInitClone"),
        _ => None,
    }
}

fn store_kinds(src: &mut Src) -> Result<String, String> {
    let file = src.file("src/iterators/sync_iterators/prod_iter.rs")?;
    let mut o = String::new();
    for (func, lean) in [("push", "storePush"), ("push_init", "storePushInit"), ("push_slice", "storePushSlice"), ("push_slice_init", "storePushSliceInit"),
                         ("push_slice_clone", "storePushSliceClone"), ("push_slice_clone_init", "storePushSliceCloneInit")] {
        let f = find_fn(file, "ProdIter<'buf,B>", func).ok_or(format!("fn `{func}` not found"))?;
        // the nested `fn f(..) { .. }`
        let mut inner = None;
        for st in &f.block.stmts { if let Stmt::Item(syn::Item::Fn(g)) = st { if g.sig.ident == "f" { inner = Some(&g.block); } } }
        let b = inner.ok_or(format!("`{func}` has no nested store function `f`"))?;
        o.push_str(&format!("def {lean} : StoreKind := {}\n", classify_store(b)?));
    }
    Ok(o)
}

/// Replaces every occurrence of the identifier `name` (not a field / path segment) in a token stream.
fn subst_ident(ts: proc_macro2::TokenStream, name: &str, rep: &proc_macro2::TokenStream) -> proc_macro2::TokenStream {
    use proc_macro2::{TokenTree, Group};
    let toks: Vec<TokenTree> = ts.into_iter().collect();
    let mut out: Vec<TokenTree> = vec![];
    for (k, t) in toks.iter().enumerate() {
        let after_dot = k > 0 && matches!(&toks[k - 1], TokenTree::Punct(p) if p.as_char() == '.') && !(k > 1 && matches!(&toks[k - 2], TokenTree::Punct(p) if p.as_char() == '.'));
        match t {
            TokenTree::Ident(i) if i == name && !after_dot => out.extend(rep.clone()),
            TokenTree::Group(g) => out.push(TokenTree::Group(Group::new(g.delimiter(), subst_ident(g.stream(), name, rep)))),
            o => out.push(o.clone()),
        }
    }
    out.into_iter().collect()
}

/// Integer literals occurring in a normalised text (tokens made of digits only, not part of an identifier or a type suffix).
fn int_literals(t: &str) -> Vec<String> {
    let cs: Vec<char> = t.chars().collect();
    let mut out = vec![]; let mut i = 0;
    while i < cs.len() {
        if cs[i].is_ascii_digit() && (i == 0 || !(cs[i - 1].is_alphanumeric() || cs[i - 1] == '_')) {
            let mut j = i; while j < cs.len() && (cs[j].is_ascii_digit() || cs[j] == '_') { j += 1; }
            // skip a literal's type suffix
            let mut k = j; while k < cs.len() && (cs[k].is_alphanumeric() || cs[k] == '_') { k += 1; }
            out.push(cs[i..j].iter().collect()); i = k;
        } else { i += 1; }
    }
    out
}

/// What the cell primitives do, recognised from their shape (any of the usual spellings); the text is kept as a comment.
/// A body that is not recognised yields `false`, which the theorems that rely on the fact refuse.
fn pins(src: &mut Src) -> Result<String, String> {
    let mut o = String::new();
    let cell = "src/ring_buffer/wrappers/unsafe_sync_cell.rs";
    let mut text = std::collections::HashMap::new();
    for (path, owner, func, key) in [
        (cell, "UnsafeSyncCell<T>", "check_zeroed", "check_zeroed"),
        (cell, "UnsafeSyncCell<T>", "take_inner", "take_inner"),
        (cell, "UnsafeSyncCell<T>", "inner_duplicate", "inner_duplicate"),
        (cell, "DropforUnsafeSyncCell<T>", "drop", "drop"),
        ("src/iterators/mod.rs", "", "copy_from_slice_unchecked", "copy"),
    ] {
        let file = src.file(path)?;
        let f = find_fn(file, owner, func).ok_or(format!("fn `{func}` of `{owner}` not found"))?;
        let b = f.block;
        let t = inline_lets_text(b);
        o.push_str(&format!("-- {key}: {t}\n"));
        text.insert(key, (t, f.params.clone()));
    }
    let has = |k: &str, w: &str| text[k].0.contains(w);
    // check_zeroed: every one of the size_of::<T>() bytes is compared with 0, and nothing else decides
    let cz = &text["check_zeroed"].0;
    let only_zero_lits = int_literals(cz).iter().all(|l| l == "0");
    let span_ok = cz.contains("size_of::<T>()") && !["size_of::<T>()-", "size_of::<T>()/", "size_of::<T>()>>", "size_of::<T>()%", "-size_of", "min("].iter().any(|w| cz.contains(w));
    // `.all(|x| *x == 0)` / `!….any(|&x| x != 0)` with any parameter name
    let closure_test = |method: &str, op: &str| -> bool {
        let pat = format!(".{method}(|");
        if let Some(i) = cz.find(&pat) {
            let rest = &cz[i + pat.len()..];
            if let Some(j) = rest.find('|') {
                let par = &rest[..j]; let body = &rest[j + 1..];
                let (name, deref) = match par.strip_prefix('&') { Some(n) => (n, ""), None => (par, "*") };
                return !name.is_empty() && name.chars().all(|c| c.is_alphanumeric() || c == '_') && body.starts_with(&format!("{deref}{name}{op}0)"));
            }
        }
        false
    };
    let negated_any = closure_test("any", "!=") && { let i = cz.find(".any(|").unwrap_or(0); let head = &cz[..i]; head.starts_with("{!") || head.contains("!(") || head.contains("!unsafe") || head.contains("!bytes") || head.contains("{!") };
    let iter_form = closure_test("all", "==") || negated_any;
    let loop_form = cz.contains("in0..size_of::<T>()") && cz.contains("!=0{returnfalse;}") && cz.ends_with("true}");
    let check_zeroed = cz.contains("u8") && only_zero_lits && span_ok && (iter_form || loop_form);
    // take_inner: the old content is moved out and the slot is overwritten with zeros
    let ti = &text["take_inner"].0;
    let take_inner = ti.contains("MaybeUninit::<T>::zeroed()") || ti.contains("MaybeUninit::zeroed()");
    let take_inner = take_inner && ti.contains("assume_init()") && (ti.contains("mem::replace(") || ti.contains("replace(&mut") || (ti.contains("read(") && ti.contains("write(") && ti.find("read(") < ti.find("write(")));
    // inner_duplicate: a bitwise read that leaves the cell as it is
    let du = &text["inner_duplicate"].0;
    let duplicate = (du.contains("assume_init_read()") || du.contains("ptr::read(") || du.contains(".read()")) && !["zeroed", "write", "replace(", "take(", "swap("].iter().any(|w| du.contains(w));
    // Drop: the value is destroyed unless the cell is all zeros
    let dr = &text["drop"].0;
    let destroys = dr.contains("assume_init_drop()") || dr.contains("drop_in_place(");
    let guarded = dr.contains("if!UnsafeSyncCell::check_zeroed(") || dr.contains("if!Self::check_zeroed(") || dr.contains("if!UnsafeSyncCell::<T>::check_zeroed(")
        || ((dr.contains("ifUnsafeSyncCell::check_zeroed(") || dr.contains("ifSelf::check_zeroed(")) && (dr.contains("){return;}") || dr.contains("){return}") || dr.contains("){}else{")));
    let drop_ok = destroys && guarded && dr.contains("self.0");
    // copy_from_slice_unchecked(src, dst): all of `src`, from its start to the start of `dst`
    let cp = &text["copy"].0;
    let copy_ok = (cp.contains("copy_nonoverlapping(src.as_ptr(),dst.as_mut_ptr(),src.len())") || cp.contains("dst.copy_from_slice(src)")
        || cp.contains("dst.as_mut_ptr().copy_from_nonoverlapping(src.as_ptr(),src.len())") || cp.contains("src.as_ptr().copy_to_nonoverlapping(dst.as_mut_ptr(),src.len())")) && int_literals(cp).is_empty();
    let _ = has;
    o.push_str(&format!("def cellFacts : CellFacts := {{ checkZeroedAllBytes := {check_zeroed}, takeInnerLeavesZeros := {take_inner}, duplicateLeavesCell := {duplicate}, dropSkipsZeroed := {drop_ok}, copyWholeSlice := {copy_ok} }}\n"));
    Ok(o)
}

// ---------------------------------------------------------------- G7 vmem system calls

fn strip_cast(e: &Expr) -> &Expr {
    match e {
        Expr::Cast(c) => strip_cast(&c.expr),
        Expr::Paren(p) => strip_cast(&p.expr),
        _ => e,
    }
}

/// `size`, `N * size` (casts ignored) → N, in units of `size = size_of_val(value)`.
fn size_mul(e: &Expr) -> Result<u64, String> {
    let e = strip_cast(e);
    let s = q(e);
    if s == "size" || s == "size_of_val(value)" { return Ok(1); }
    if let Expr::Binary(b) = e {
        if matches!(b.op, syn::BinOp::Mul(_)) {
            let (l, r) = (strip_cast(&b.left), strip_cast(&b.right));
            if let Expr::Lit(syn::ExprLit { lit: syn::Lit::Int(i), .. }) = l { return Ok(i.base10_parse::<u64>().map_err(|e| e.to_string())? * size_mul(r)?); }
            if let Expr::Lit(syn::ExprLit { lit: syn::Lit::Int(i), .. }) = r { return Ok(i.base10_parse::<u64>().map_err(|e| e.to_string())? * size_mul(l)?); }
        }
    }
    Err(format!("length `{s}` is not a multiple of `size`"))
}

fn flatten_or(e: &Expr, out: &mut Vec<String>) {
    match strip_cast(e) {
        Expr::Binary(b) if matches!(b.op, syn::BinOp::BitOr(_)) => { flatten_or(&b.left, out); flatten_or(&b.right, out); }
        x => out.push(q(x)),
    }
}

fn flatten_mul(e: &Expr, out: &mut Vec<String>) {
    match strip_cast(e) {
        Expr::Binary(b) if matches!(b.op, syn::BinOp::Mul(_)) => { flatten_mul(&b.left, out); flatten_mul(&b.right, out); }
        x => out.push(q(x)),
    }
}

/// Replaces the uses of every simple, pure `let x = e;` of a block (at any depth) by `(e)`, so that what is analysed does not depend on
/// which sub-expressions the author chose to name. Lets whose initialiser calls a function (other than pointer arithmetic / `as_ptr`)
/// or that are listed in `protect` are left alone.
fn inline_pure_lets(b: &syn::Block, protect: &[&str]) -> Result<syn::Block, String> {
    use proc_macro2::{TokenStream, TokenTree, Group, Delimiter};
    fn collect(b: &syn::Block, protect: &[&str], out: &mut Vec<(String, TokenStream)>) {
        struct V<'p> { protect: &'p [&'p str], out: Vec<(String, TokenStream)> }
        impl<'ast, 'p> Visit<'ast> for V<'p> {
            fn visit_local(&mut self, l: &'ast syn::Local) {
                syn::visit::visit_local(self, l);
                let name = match &l.pat { syn::Pat::Ident(i) if i.mutability.is_none() => i.ident.to_string(), syn::Pat::Type(t) => match &*t.pat { syn::Pat::Ident(i) if i.mutability.is_none() => i.ident.to_string(), _ => return }, _ => return };
                if self.protect.contains(&name.as_str()) { return; }
                let init = match &l.init { Some(i) if i.diverge.is_none() => &i.expr, _ => return };
                struct Pure { ok: bool }
                impl<'a> Visit<'a> for Pure {
                    fn visit_expr_call(&mut self, _: &'a syn::ExprCall) { self.ok = false; }
                    fn visit_expr_macro(&mut self, _: &'a syn::ExprMacro) { self.ok = false; }
                    fn visit_expr_method_call(&mut self, m: &'a syn::ExprMethodCall) {
                        if !["as_ptr", "as_mut_ptr", "byte_add", "add", "len", "clone"].contains(&m.method.to_string().as_str()) { self.ok = false; }
                        syn::visit::visit_expr_method_call(self, m);
                    }
                    fn visit_expr_unsafe(&mut self, _: &'a syn::ExprUnsafe) { self.ok = false; }
                }
                let mut p = Pure { ok: true };
                p.visit_expr(init);
                if p.ok { self.out.push((name, quote::quote!(#init))); }
            }
        }
        let mut v = V { protect, out: vec![] };
        v.visit_block(b);
        out.extend(v.out);
    }
    fn subst(ts: TokenStream, name: &str, rep: &TokenStream) -> TokenStream {
        let mut out: Vec<TokenTree> = vec![];
        let mut prev_blocks = false; // previous token is `.` or `:` or `let`
        for t in ts {
            match t {
                TokenTree::Ident(ref i) if i == name && !prev_blocks => { out.push(TokenTree::Group(Group::new(Delimiter::Parenthesis, rep.clone()))); prev_blocks = false; }
                TokenTree::Group(g) => { let mut ng = Group::new(g.delimiter(), subst(g.stream(), name, rep)); ng.set_span(g.span()); out.push(TokenTree::Group(ng)); prev_blocks = false; }
                TokenTree::Punct(ref p) => { prev_blocks = p.as_char() == '.' || p.as_char() == ':'; out.push(t); }
                TokenTree::Ident(ref i) => { prev_blocks = i == "let"; out.push(t); }
                other => { prev_blocks = false; out.push(other); }
            }
        }
        out.into_iter().collect()
    }
    let mut lets = vec![];
    collect(b, protect, &mut lets);
    let mut ts = quote::quote!(#b);
    // later lets may mention earlier ones: substitute in reverse order of definition, twice
    for _ in 0..2 { for (n, rep) in lets.iter().rev() { ts = subst(ts, n, rep); } }
    syn::parse2::<syn::Block>(ts).map_err(|e| format!("after inlining the local bindings the body does not parse: {e}"))
}

/// Normalised text of a small function body for shape recognition: every immutable `let x[: T] = e;` of the top level (and of a
/// top-level `unsafe` block) is removed and its uses replaced by `e`, so that naming a sub-expression changes nothing.
/// Only used to *recognise* bodies built from pure expressions (constructors, cell primitives); never to reorder effects.
fn inline_lets_text(b: &syn::Block) -> String {
    use proc_macro2::{TokenStream, TokenTree, Group, Delimiter};
    fn subst(ts: TokenStream, name: &str, rep: &TokenStream) -> TokenStream {
        let mut out: Vec<TokenTree> = vec![];
        let mut blocked = false; // previous token is `.` or `:` (a field / path segment of that name is something else)
        let toks: Vec<TokenTree> = ts.into_iter().collect();
        let n = toks.len();
        for (k, t) in toks.iter().enumerate() {
            match t {
                TokenTree::Ident(i) if i == name && !blocked => {
                    // struct-literal shorthand `S { x, .. }` means `x: x`
                    let next_is_colon = matches!(toks.get(k + 1), Some(TokenTree::Punct(p)) if p.as_char() == ':');
                    if next_is_colon { out.push(t.clone()); } else { out.push(TokenTree::Group(Group::new(Delimiter::None, rep.clone()))); }
                    blocked = false;
                }
                TokenTree::Group(g) => {
                    let inner = if g.delimiter() == Delimiter::Brace { shorthand(g.stream(), name) } else { g.stream() };
                    out.push(TokenTree::Group(Group::new(g.delimiter(), subst(inner, name, rep)))); blocked = false;
                }
                TokenTree::Punct(p) => {
                    let prev_is = |c: char| k > 0 && matches!(&toks[k - 1], TokenTree::Punct(q) if q.as_char() == c);
                    // `.name` is a field or method, `::name` a path segment; `..name` and `..=name` are range ends
                    blocked = (p.as_char() == '.' && !prev_is('.')) || (p.as_char() == ':' && prev_is(':'));
                    out.push(t.clone());
                }
                other => { blocked = false; out.push(other.clone()); }
            }
            let _ = n;
        }
        out.into_iter().collect()
    }
    /// inside braces, `name ,` / `name }` directly after `{` or `,` is a shorthand field: spell it `name : name`
    fn shorthand(ts: TokenStream, name: &str) -> TokenStream {
        let toks: Vec<TokenTree> = ts.into_iter().collect();
        let mut out = vec![];
        for (k, t) in toks.iter().enumerate() {
            out.push(t.clone());
            if let TokenTree::Ident(i) = t { if i == name {
                let prev_ok = k == 0 || matches!(&toks[k - 1], TokenTree::Punct(p) if p.as_char() == ',');
                let next_ok = k + 1 == toks.len() || matches!(&toks[k + 1], TokenTree::Punct(p) if p.as_char() == ',');
                if prev_ok && next_ok { out.push(TokenTree::Punct(proc_macro2::Punct::new(':', proc_macro2::Spacing::Alone))); out.push(t.clone()); }
            } }
        }
        out.into_iter().collect()
    }
    fn go(stmts: &[Stmt]) -> TokenStream {
        let mut rest: Vec<TokenStream> = vec![];
        let mut pending: Vec<(String, TokenStream)> = vec![];
        for st in stmts {
            let mut ts = match st {
                Stmt::Expr(Expr::Unsafe(u), semi) if u.attrs.is_empty() => { let inner = go(&u.block.stmts); if semi.is_some() { quote::quote!(unsafe { #inner };) } else { quote::quote!(unsafe { #inner }) } }
                other => quote::quote!(#other),
            };
            for (n, rep) in pending.iter() { ts = subst(ts, n, rep); }
            if let Stmt::Local(l) = st {
                if l.attrs.is_empty() {
                    let name = match &l.pat { syn::Pat::Ident(i) if i.mutability.is_none() && i.by_ref.is_none() => Some(i.ident.to_string()), syn::Pat::Type(t) => match &*t.pat { syn::Pat::Ident(i) if i.mutability.is_none() && i.by_ref.is_none() => Some(i.ident.to_string()), _ => None }, _ => None };
                    let effectful = |t: &str| ["read(", "write(", "replace(", "take(", "swap(", "drop", "mmap(", "munmap(", "memcpy(", "copy", "fetch_", "store(", "load(", "set_", "forget(", "into_raw(", "from_raw("].iter().any(|w| t.contains(w));
                    if let (Some(n), Some(init)) = (name, &l.init) { if init.diverge.is_none() && !effectful(&q(&init.expr)) {
                        let e = &init.expr; let mut rep = quote::quote!(#e);
                        for (pn, prep) in pending.iter() { rep = subst(rep, pn, prep); }
                        pending.retain(|(pn, _)| *pn != n);
                        pending.push((n, rep));
                        continue;
                    } }
                }
            }
            rest.push(ts);
        }
        rest.into_iter().collect()
    }
    format!("{{{}}}", go(&b.stmts).to_string().replace(' ', "").replace('"', "'"))
}

struct Calls<'a> { found: Vec<(String, &'a syn::ExprCall)> }
impl<'a> Visit<'a> for Calls<'a> {
    fn visit_expr_call(&mut self, c: &'a syn::ExprCall) {
        let f = q(&c.func);
        for n in ["mmap", "memcpy", "munmap", "copy_nonoverlapping", "copy", "memmove", "mremap", "memfd_create", "shm_open", "ftruncate"] {
            if f == format!("libc::{n}") || f == format!("ptr::{n}") || f == format!("core::ptr::{n}") || f == n { self.found.push((n.to_string(), c)); }
        }
        syn::visit::visit_expr_call(self, c);
    }
}

fn vmem_calls(src: &mut Src) -> Result<String, String> {
    let mut o = String::new();
    let helper = "src/ring_buffer/storage/heap/vmem_helper.rs";
    let file = src.file(helper)?.clone();
    let f = find_fn(&file, "", "new").ok_or("vmem_helper::new not found")?;
    // `size` must be the byte size of the source slice
    let txt0 = { let b = f.block; quote::quote!(#b).to_string().replace(' ', "") };
    if !txt0.contains("letsize=size_of_val(value);") { return Err("vmem_helper::new: `let size = size_of_val(value);` not found".into()); }
    let inlined = inline_pure_lets(f.block, &["size"])?;
    let body = &inlined;
    let txt = quote::quote!(#body).to_string().replace(' ', "");
    o.push_str(&format!("def vmemAssertsPageMultiple : Bool := {}\n", txt.contains("assert_eq!(value.len()%page_size,0")));
    let mut v = Calls { found: vec![] };
    v.visit_block(body);
    let mut maps = vec![];
    let mut copies = vec![];
    // the name bound to the first mapping (the result of the first `mmap`); casts of it have been inlined away
    let first_map: String = { let i = txt.find("=libc::mmap(").ok_or("vmem_helper::new: no `let x = libc::mmap(..)`")?; txt[..i].rsplit("let").next().unwrap_or("").trim_start_matches("mut").to_string() };
    let fresh = |s: &str| s == first_map;
    for (n, c) in &v.found {
        let a: Vec<&Expr> = c.args.iter().collect();
        match n.as_str() {
            "mmap" => {
                if a.len() != 6 { return Err("mmap: 6 arguments expected".into()); }
                let addr = q(strip_cast(a[0]));
                let at = if addr == "ptr::null_mut()" || addr == "core::ptr::null_mut()" { "none".to_string() }
                    else if fresh(&addr) { "some 0".to_string() }
                    else if let Expr::MethodCall(m) = strip_cast(a[0]) {
                        if fresh(&q(&m.receiver)) && m.method == "byte_add" && m.args.len() == 1 { format!("some {}", size_mul(&m.args[0])?) } else { return Err(format!("mmap address `{addr}`")); }
                    } else { return Err(format!("mmap address `{addr}`")); };
                let len = size_mul(a[1])?;
                let mut prot = vec![]; flatten_or(a[2], &mut prot);
                if !(prot.contains(&"libc::PROT_READ".to_string()) && prot.contains(&"libc::PROT_WRITE".to_string())) { return Err("mmap: not readable and writable".into()); }
                let mut fl = vec![]; flatten_or(a[3], &mut fl);
                let fl: Vec<String> = fl.iter().map(|x| match x.as_str() {
                    "libc::MAP_PRIVATE" => ".priv".into(), "libc::MAP_SHARED" => ".shared".into(), "libc::MAP_ANONYMOUS" | "libc::MAP_ANON" => ".anon".into(),
                    "libc::MAP_FIXED" => ".fixed".into(), _ => ".other".to_string() }).collect();
                let fd = q(strip_cast(a[4]));
                let fd = if fd == "-1" { "false" } else { "true" };
                let off = q(strip_cast(a[5]));
                if off != "0" { return Err(format!("mmap offset `{off}`")); }
                maps.push(format!("{{ fixedAt := {at}, lenMul := {len}, flags := [{}], hasFd := {fd} }}", fl.join(", ")));
            }
            "memcpy" | "copy_nonoverlapping" | "copy" | "memmove" => {
                if a.len() != 3 { return Err(format!("{n}: 3 arguments expected")); }
                let end = |e: &Expr| -> Result<&'static str, String> {
                    let s = q(strip_cast(e));
                    if s == "value.as_ptr()" || s == "value.as_mut_ptr()" { Ok(".source") } else if fresh(&s) { Ok(".fresh") } else { Err(format!("copy end `{s}`")) }
                };
                // memcpy/memmove(dst, src, n); ptr::copy*(src, dst, n)
                let (d, s_) = if n == "memcpy" || n == "memmove" { (end(a[0])?, end(a[1])?) } else { (end(a[1])?, end(a[0])?) };
                let units = if n == "memcpy" || n == "memmove" { size_mul(a[2])? } else { let l = q(strip_cast(a[2])); if l == "value.len()" { 1 } else { return Err(format!("copy length `{l}`")); } };
                copies.push(format!("{{ dst := {d}, src := {s_}, lenMul := {units} }}"));
            }
            other => return Err(format!("vmem_helper::new calls `{other}`, which the mapping model does not cover")),
        }
    }
    o.push_str(&format!("def vmemMmapCalls : List MmapCall := [\n  {}]\n", maps.join(",\n  ")));
    o.push_str(&format!("def vmemCopies : List CopyCall := [{}]\n", copies.join(", ")));
    // what `new` returns
    let ret = match body.stmts.last() {
        Some(Stmt::Expr(Expr::Unsafe(u), None)) => match u.block.stmts.last() { Some(Stmt::Expr(e, None)) => q(strip_cast(e)), _ => return Err("vmem_helper::new: no tail expression".into()) },
        _ => return Err("vmem_helper::new: body does not end in an unsafe block".into()),
    };
    o.push_str(&format!("def vmemReturnsFirstMapping : Bool := {}\n", fresh(&ret)));

    // HeapStorage::drop under cfg(feature = "vmem")
    let file = src.file("src/ring_buffer/storage/heap/mod.rs")?.clone();
    let f = find_fn(&file, "DropforHeapStorage<T>", "drop").ok_or("Drop for HeapStorage not found")?;
    let stmts: Vec<&Stmt> = match f.block.stmts.as_slice() {
        [Stmt::Expr(Expr::Unsafe(u), _)] => u.block.stmts.iter().collect(),
        _ => f.block.stmts.iter().collect(),
    };
    let mut sel = vec![];
    for st in stmts {
        let attrs: &[syn::Attribute] = match st {
            Stmt::Local(l) => &l.attrs,
            Stmt::Expr(e, _) => match e { Expr::Call(c) => &c.attrs, Expr::MethodCall(c) => &c.attrs, Expr::Macro(c) => &c.attrs, Expr::Block(c) => &c.attrs, Expr::If(c) => &c.attrs, Expr::ForLoop(c) => &c.attrs, Expr::While(c) => &c.attrs, _ => &[] },
            Stmt::Macro(m) => &m.attrs,
            _ => &[],
        };
        let a: String = attrs.iter().map(|a| quote::quote!(#a).to_string().replace(' ', "")).collect();
        if a.contains("cfg(not(feature=\"vmem\"))") { continue; }
        sel.push(st);
    }
    let mut un = None;
    let mut destroys = false;
    for st in &sel {
        let t = quote::quote!(#st).to_string().replace(' ', "");
        if t.contains("drop_in_place") || t.contains("from_raw") || t.contains("assume_init_drop") || t.contains("ptr::read") || t.contains("take_inner") { destroys = true; }
        let mut v = Calls { found: vec![] };
        v.visit_stmt(st);
        for (n, c) in v.found { if n == "munmap" { un = Some(c.clone()); } }
    }
    let un = un.ok_or("HeapStorage::drop (vmem): no munmap call")?;
    let a: Vec<&Expr> = un.args.iter().collect();
    if a.len() != 2 { return Err("munmap: 2 arguments expected".into()); }
    let at = q(strip_cast(a[0]));
    if at != "self.inner" { return Err(format!("munmap address `{at}`")); }
    let mut fs = vec![]; flatten_mul(a[1], &mut fs);
    let (mut k, mut nl, mut ns) = (1u64, 0, 0);
    for f in fs {
        if let Ok(n) = f.parse::<u64>() { k *= n; }
        else if f == "self.len" { nl += 1; }
        else if f == "size_of::<T>()" || f == "core::mem::size_of::<T>()" || f == "size_of::<UnsafeSyncCell<T>>()" { ns += 1; }
        else { return Err(format!("munmap length factor `{f}`")); }
    }
    o.push_str(&format!("def vmemMunmap : MunmapLen := {{ const := {k}, lenPow := {nl}, sizePow := {ns} }}\n"));
    o.push_str(&format!("def vmemDropDestroysItems : Bool := {destroys}\n"));
    // HeapStorage::new (vmem): the length recorded is the length of the source
    let news: Vec<String> = file.items.iter().filter_map(|it| if let syn::Item::Impl(i) = it { Some(i) } else { None })
        .flat_map(|i| i.items.iter()).filter_map(|it| if let syn::ImplItem::Fn(f) = it { Some(f) } else { None })
        .filter(|f| f.sig.ident == "new" && f.attrs.iter().any(|a| quote::quote!(#a).to_string().replace(' ', "") == "#[cfg(feature=\"vmem\")]"))
        .map(|f| inline_lets_text(&f.block)).collect();
    if news.len() != 1 { return Err("HeapStorage::new (vmem) not found".into()); }
    let t = news[0].replace('"', "'");
    o.push_str(&format!("-- HeapStorage::new (vmem): {t}\n"));
    // shape facts: the mapping is built from the source (`vmem_helper::new(&value)`), the recorded length is the source's,
    // and the source box is freed as `MaybeUninit` cells (deallocated, items not destroyed: they were copied into the mapping)
    let maps = t.matches("vmem_helper::new(&value)").count() == 1 && !t.contains("vmem_helper::new(&value[");
    let len_direct = t.contains("len:value.len()");
    let no_lits = int_literals(&t).is_empty();
    let frees = t.contains("drop(") && t.contains("transmute::<Box<[UnsafeSyncCell<T>]>,Box<[core::mem::MaybeUninit<UnsafeSyncCell<T>>]>>(value)")
        || t.contains("drop(") && t.contains("transmute::<Box<[UnsafeSyncCell<T>]>,Box<[MaybeUninit<UnsafeSyncCell<T>>]>>(value)");
    // `Box::into_raw(value) as *mut [MaybeUninit<..>]` followed by `Box::from_raw` is the same deallocation without destructors
    let frees = frees || (t.contains("Box::into_raw(value)as*mut[") && t.contains("MaybeUninit<") && t.contains("Box::from_raw(") && t.contains("drop("));
    let no_leak = !t.contains("forget(") && !t.contains("ManuallyDrop") && !t.contains("Box::leak") && (!t.contains("into_raw") || t.contains("Box::from_raw("));
    o.push_str(&format!("def vmemNewFacts : VmemNewFacts := {{ mapsSource := {maps}, lenIsSourceLen := {}, freesSourceWithoutDestroying := {} }}\n", len_direct && no_lits, frees && no_leak));
    Ok(o)
}

// ---------------------------------------------------------------- G9 construction and split

/// The transcriber body of `macro_rules! name { (..) => { BODY } }` with `$Struct` replaced by an identifier, parsed as items.
fn macro_body_items(file: &syn::File, mac_name: &str) -> Result<syn::File, String> {
    fn find<'a>(items: &'a [syn::Item], name: &str) -> Option<&'a syn::ItemMacro> {
        for it in items { match it {
            syn::Item::Macro(m) if m.ident.as_ref().map(|i| i == name).unwrap_or(false) => return Some(m),
            syn::Item::Mod(md) => if let Some((_, its)) = &md.content { if let Some(m) = find(its, name) { return Some(m); } },
            _ => {} } }
        None
    }
    let m = find(&file.items, mac_name).ok_or(format!("macro_rules! {mac_name} not found"))?;
    let body = m.mac.tokens.clone().into_iter().filter_map(|t| match t { proc_macro2::TokenTree::Group(g) if g.delimiter() == proc_macro2::Delimiter::Brace => Some(g), _ => None }).last()
        .ok_or(format!("macro_rules! {mac_name}: no transcriber body"))?;
    fn subst(ts: proc_macro2::TokenStream) -> proc_macro2::TokenStream {
        let mut out = vec![];
        let mut it = ts.into_iter().peekable();
        while let Some(t) = it.next() {
            match t {
                proc_macro2::TokenTree::Punct(p) if p.as_char() == '$' => {
                    if let Some(proc_macro2::TokenTree::Ident(i)) = it.peek() { out.push(proc_macro2::TokenTree::Ident(proc_macro2::Ident::new(&format!("Mac{}", i), i.span()))); it.next(); }
                }
                proc_macro2::TokenTree::Group(g) => { let mut ng = proc_macro2::Group::new(g.delimiter(), subst(g.stream())); ng.set_span(g.span()); out.push(proc_macro2::TokenTree::Group(ng)); }
                other => out.push(other),
            }
        }
        out.into_iter().collect()
    }
    syn::parse2::<syn::File>(subst(body.stream())).map_err(|e| format!("macro_rules! {mac_name}: body does not parse as items: {e}"))
}

fn construction(src: &mut Src) -> Result<String, String> {
    let mut o = String::new();
    // (1) the split functions of `impl_splits!`
    let file = src.file("src/ring_buffer/storage/mod.rs")?.clone();
    let body = macro_body_items(&file, "impl_splits")?;
    // provided (default) methods of the `IterManager` trait other than the accessors themselves
    let mut provided: std::collections::HashMap<String, (Vec<String>, syn::Block)> = std::collections::HashMap::new();
    if let Ok(tf) = src.file("src/ring_buffer/variants/ring_buffer_trait.rs") {
        for it in &tf.items { if let syn::Item::Trait(t) = it { if t.ident == "IterManager" {
            for ti in &t.items { if let syn::TraitItem::Fn(g) = ti { if let Some(d) = &g.default {
                let n = g.sig.ident.to_string();
                if !ACCESSORS.contains(&n.as_str()) { provided.insert(n, (fn_params(&g.sig), d.clone())); }
            } } }
        } } }
    }
    let mut rows = vec![];
    for it in &body.items {
        let i = match it { syn::Item::Impl(i) => i, _ => continue };
        let tr = match &i.trait_ { Some((_, tr, _)) => quote::quote!(#tr).to_string().replace(' ', ""), None => continue };
        let storage = if tr.starts_with("HeapSplit") { ".heap" } else if tr.starts_with("StackSplit") { ".stack" } else { continue };
        for ii in &i.items {
            let f = match ii { syn::ImplItem::Fn(f) => f, _ => continue };
            let name = f.sig.ident.to_string();
            if name != "split" && name != "split_mut" { continue; }
            let (mut resets, mut alive, mut iters, mut bufref) = (vec![], vec![], vec![], String::new());
            // bindings of the function (`let prod = ProdIter::new(..)`), so that the returned tuple is read by what it holds
            let mut lets: std::collections::HashMap<String, String> = std::collections::HashMap::new();
            // calls of provided methods of `IterManager` (`self.rewind_indices();`, `self.announce_iters(true);`) are replaced by
            // their bodies, with the parameters substituted and `if <literal>` decided
            let mut expanded: Vec<Stmt> = vec![];
            for st in &f.block.stmts {
                let mut done = false;
                if let Stmt::Expr(Expr::MethodCall(m), Some(_)) = st { if q(&m.receiver) == "self" { if let Some((ps, hb)) = provided.get(&m.method.to_string()) { if ps.len() == m.args.len() {
                    let mut ts = quote::quote!(#hb);
                    for (p, a) in ps.iter().zip(m.args.iter()) { ts = subst_ident(ts, p, &quote::quote!(#a)); }
                    if let Ok(nb) = syn::parse2::<syn::Block>(ts) {
                        for hs in nb.stmts {
                            match &hs {
                                Stmt::Expr(Expr::If(i), _) if matches!(q(&i.cond).as_str(), "true" | "false") => {
                                    if q(&i.cond) == "true" { expanded.extend(i.then_branch.stmts.iter().cloned()); }
                                    else if let Some((_, e)) = &i.else_branch { if let Expr::Block(b) = &**e { expanded.extend(b.block.stmts.iter().cloned()); } }
                                }
                                _ => expanded.push(hs),
                            }
                        }
                        done = true;
                    }
                } } } }
                if !done { expanded.push(st.clone()); }
            }
            for st in &expanded {
                let t = quote::quote!(#st).to_string().replace(' ', "");
                for (m, fld) in [("set_prod_index", ".prod"), ("set_work_index", ".work"), ("set_cons_index", ".cons")] {
                    if t.starts_with(&format!("self.{m}(")) { if t == format!("self.{m}(0);") { resets.push(fld.to_string()); } else { return Err(format!("{name}: `{t}` does not reset the index to 0")); } }
                }
                for (m, r) in [("set_prod_alive", ".P"), ("set_work_alive", ".W"), ("set_cons_alive", ".C")] {
                    if t.starts_with(&format!("self.{m}(")) { if t == format!("self.{m}(true);") { alive.push(r.to_string()); } else { return Err(format!("{name}: `{t}`")); } }
                }
                if let Stmt::Local(l) = st {
                    if let (syn::Pat::Ident(i), Some(init)) = (&l.pat, &l.init) {
                        let rhs = q(&init.expr);
                        if let Some(k) = rhs.strip_prefix("BufRef::") { bufref = k.split('(').next().unwrap_or("").to_string(); }
                        lets.insert(i.ident.to_string(), rhs);
                    }
                }
                if let Stmt::Expr(Expr::Tuple(tp), None) = st {
                    for e in &tp.elems {
                        let mut x = q(e);
                        for _ in 0..3 { if let Some(v) = lets.get(&x) { x = v.clone(); } }
                        let r = if x.starts_with("ProdIter::new(") { ".P" } else if x.starts_with("WorkIter::new(") { ".W" } else if x.starts_with("ConsIter::new(") { ".C" } else { return Err(format!("{name}: tuple element `{x}`")); };
                        iters.push((iters.len(), r.to_string()));
                    }
                }
            }
            iters.sort();
            rows.push(format!("{{ storage := {storage}, withWorker := {}, resets := [{}], alive := [{}], iters := [{}], bufRef := \"{bufref}\" }}",
                name == "split_mut", resets.join(", "), alive.join(", "), iters.iter().map(|x| x.1.clone()).collect::<Vec<_>>().join(", ")));
        }
    }
    if rows.len() != 4 { return Err(format!("impl_splits!: expected 4 split functions, found {}", rows.len())); }
    o.push_str(&format!("def splits : List SplitInfo := [\n  {}]\n", rows.join(",\n  ")));
    // (2) the buffer constructors `_from`
    for (path, owner, lean) in [("src/ring_buffer/variants/concurrent_rb.rs", "ConcurrentMutRingBuf<S>", "concInit"), ("src/ring_buffer/variants/local_rb.rs", "LocalMutRingBuf<S>", "localInit")] {
        let file = src.file(path)?.clone();
        let f = find_fn(&file, owner, "_from").ok_or(format!("`_from` of {owner} not found"))?;
        let b = f.block;
        // the struct literal the constructor ends in, read field by field; locals and one level of associated helper are looked through
        let mut lets: std::collections::HashMap<String, Expr> = std::collections::HashMap::new();
        let mut asserts = false;
        let nonempty = |t: &str, v: &str| t == format!("assert!({v}.len()>0);") || t == format!("assert!({v}.len()!=0);") || t == format!("assert!(0<{v}.len());") || t == format!("assert_ne!({v}.len(),0);");
        let mut lit: Option<&syn::ExprStruct> = None;
        for st in &b.stmts {
            let t = quote::quote!(#st).to_string().replace(' ', "");
            if nonempty(&t, "value") { asserts = true; }
            match st {
                Stmt::Local(l) => { if let (syn::Pat::Ident(i), Some(init)) = (&l.pat, &l.init) { lets.insert(i.ident.to_string(), (*init.expr).clone()); } }
                Stmt::Expr(Expr::Struct(sl), None) => lit = Some(sl),
                _ => {}
            }
        }
        let lit = lit.ok_or(format!("`_from` of {owner} does not end in a struct literal"))?;
        fn unwrap_cell(e: &Expr) -> &Expr {
            // CachePadded::new(x), AtomicUsize::new(x), UnsafeCell::new(x), Cell::new(x), x.into(), (x)
            match e {
                Expr::Paren(p) => unwrap_cell(&p.expr),
                Expr::Call(c) if c.args.len() == 1 => { let f = q(&c.func); if ["CachePadded::new", "AtomicUsize::new", "AtomicBool::new", "UnsafeCell::new", "Cell::new"].iter().any(|w| f.ends_with(w)) || f.ends_with("::from") { unwrap_cell(&c.args[0]) } else { e } }
                Expr::MethodCall(m) if m.method == "into" && m.args.is_empty() => unwrap_cell(&m.receiver),
                _ => e,
            }
        }
        let konst = |e: &Expr| -> String {
            let e = unwrap_cell(e);
            let t = q(e);
            if t == "0" || t == "0usize" || t == "AtomicUsize::default()" || t == "usize::default()" { "0".into() }
            else if t == "false" || t == "AtomicBool::default()" || t == "bool::default()" { "false".into() }
            else if t == "Default::default()" { "default".into() } else { t }
        };
        let field = |name: &str| -> Option<Expr> {
            for fv in &lit.fields { if let syn::Member::Named(n) = &fv.member { if n == name {
                let mut e = fv.expr.clone();
                for _ in 0..3 { let t = q(&e); match lets.get(&t) { Some(v) => e = v.clone(), None => break } }
                return Some(e);
            } } }
            None
        };
        let is = |name: &str, want: &[&str]| field(name).map(|e| want.contains(&konst(&e).as_str())).unwrap_or(false);
        // inner_len: NonZeroUsize::new(value.len()).unwrap(), possibly through an associated helper taking `&value` / `value.len()`
        let mut len_ok = false;
        let mut len_panics_on_zero = false;
        if let Some(e) = field("inner_len") {
            let t = q(&e);
            let direct = |t: &str, v: &str| -> (bool, bool) {
                for suf in [".unwrap()", ".expect("] { if let Some(i) = t.find(suf) { if &t[..i] == format!("NonZeroUsize::new({v})") { return (true, true); } } }
                if t == format!("NonZeroUsize::new_unchecked({v})") { return (true, false); }
                (false, false)
            };
            let (ok, pz) = direct(&t, "value.len()");
            if ok { len_ok = true; len_panics_on_zero = pz; }
            else if let Expr::Call(c) = &e {
                let fname = q(&c.func);
                if let (Some(h), 1) = (fname.strip_prefix("Self::"), c.args.len()) {
                    if let Some(hf) = find_fn(&file, owner, h) {
                        let arg = q(&c.args[0]);
                        let par = hf.params.first().cloned().unwrap_or_default();
                        let what = if arg == "&value" { format!("{par}.len()") } else if arg == "value.len()" { par.clone() } else { String::new() };
                        if !what.is_empty() {
                            for st in &hf.block.stmts {
                                let t = quote::quote!(#st).to_string().replace(' ', "");
                                if arg == "&value" && nonempty(&t, &par) { asserts = true; }
                                if arg == "value.len()" && (t == format!("assert!({par}>0);") || t == format!("assert!({par}!=0);")) { asserts = true; }
                            }
                            if let Some(Stmt::Expr(te, None)) = hf.block.stmts.last() { let (ok, pz) = direct(&q(te), &what); len_ok = ok; len_panics_on_zero = pz; }
                        }
                    }
                }
            }
        }
        o.push_str(&format!("def {lean} : BufInit := {{ idxZero := {}, flagsFalse := {}, counterZero := {}, lenIsStorageLen := {}, refusesEmpty := {} }}\n",
            is("prod_idx", &["0", "default"]) && is("work_idx", &["0", "default"]) && is("cons_idx", &["0", "default"]),
            is("prod_alive", &["false", "default"]) && is("work_alive", &["false", "default"]) && is("cons_alive", &["false", "default"]),
            is("alive_iters", &["0", "default"]), len_ok, asserts || (len_ok && len_panics_on_zero)));
    }
    // (3) fresh iterators start at index 0 with nothing remembered
    let mut fresh = vec![];
    for (path, owner) in [("src/iterators/sync_iterators/prod_iter.rs", "ProdIter<'buf,B>"), ("src/iterators/sync_iterators/work_iter.rs", "WorkIter<'buf,B>"), ("src/iterators/sync_iterators/cons_iter.rs", "ConsIter<'buf,B,W>")] {
        let file = src.file(path)?.clone();
        let f = find_fn(&file, owner, "new").ok_or(format!("`new` of {owner} not found"))?;
        let t = inline_lets_text(f.block);
        let zero = |fld: &str| t.contains(&format!("{{{fld}:0,")) || t.contains(&format!(",{fld}:0,")) || t.contains(&format!(",{fld}:0}}")) || t.contains(&format!("{{{fld}:0}}"));
        fresh.push(zero("index") && zero("cached_avail"));
    }
    o.push_str(&format!("def iterNewZero : List Bool := [{}]\n", fresh.iter().map(|b| b.to_string()).collect::<Vec<_>>().join(", ")));
    // (4) lengths: From<Vec<T>> for HeapStorage, get_range_max (both configurations), the heap buffer constructors
    let file = src.file("src/ring_buffer/storage/heap/mod.rs")?.clone();
    let f = find_fn(&file, "From<Vec<T>>forHeapStorage<T>", "from").ok_or("From<Vec<T>> for HeapStorage<T> not found")?;
    let b = f.block;
    let t = inline_lets_text(b);
    o.push_str(&format!("-- From<Vec<T>> for HeapStorage: {t}\n"));
    // the whole vector becomes the boxed slice handed to the storage
    let boxed = ["value.into_boxed_slice()", "Box::<[T]>::from(value)", "Box::from(value)", "value.into()", "Box::<[UnsafeSyncCell<T>]>::from(value)"];
    let from_vec = boxed.iter().any(|x| t == format!("{{Self::from({x})}}") || t == format!("{{Self::new({x})}}") || t == format!("{{HeapStorage::from({x})}}") || t == format!("{{HeapStorage::new({x})}}"));
    let file = src.file("src/ring_buffer/storage/heap/rb.rs")?.clone();
    // get_range_max: one function with cfg'd statements, or one function per configuration
    let mut range = [String::new(), String::new()]; // [vmem, plain]
    let cfg_of = |attrs: &[syn::Attribute]| -> Option<bool> { let a: String = attrs.iter().map(|a| quote::quote!(#a).to_string().replace(' ', "")).collect(); if a.contains("cfg(feature=\"vmem\")") { Some(true) } else if a.contains("cfg(not(feature=\"vmem\"))") { Some(false) } else { None } };
    for it in &file.items { if let syn::Item::Fn(g) = it { if g.sig.ident == "get_range_max" {
        let fn_cfg = cfg_of(&g.attrs);
        for (k, vm) in [(0usize, true), (1usize, false)] {
            if fn_cfg.map(|c| c != vm).unwrap_or(false) { continue; }
            let mut val = String::new();
            let mut bound: std::collections::HashMap<String, String> = std::collections::HashMap::new();
            for st in &g.block.stmts {
                let (attrs, txt): (Vec<syn::Attribute>, String) = match st {
                    Stmt::Expr(Expr::Return(r), _) => (r.attrs.clone(), r.expr.as_ref().map(|e| q(e)).unwrap_or_default()),
                    Stmt::Expr(e, None) => (match e { Expr::Block(b) => b.attrs.clone(), Expr::Path(p) => p.attrs.clone(), Expr::Call(c) => c.attrs.clone(), _ => vec![] }, q(e)),
                    Stmt::Local(l) => {
                        // `#[cfg(..)] let range_max = <e>;` … `range_max`
                        if cfg_of(&l.attrs).map(|c| c != vm).unwrap_or(false) { continue; }
                        if let (syn::Pat::Ident(i), Some(init)) = (&l.pat, &l.init) { bound.insert(i.ident.to_string(), q(&init.expr)); }
                        continue;
                    }
                    _ => { val = format!("?{}", quote::quote!(#st).to_string().replace(' ', "")); break; }
                };
                if cfg_of(&attrs).map(|c| c != vm).unwrap_or(false) { continue; }
                // attributes are part of the quoted text of an expression: drop them
                let txt = match txt.rfind(']') { Some(i) if txt.starts_with("#[") => txt[i + 1..].to_string(), _ => txt };
                val = txt.trim_start_matches('{').trim_end_matches('}').trim_start_matches("return").trim_end_matches(';').to_string();
                if let Some(v) = bound.get(&val) { val = v.clone(); }
                break;
            }
            range[k] = val;
        }
    } } }
    o.push_str(&format!("-- get_range_max: vmem => {} ; otherwise => {}\n", range[0], range[1]));
    let range_vm = range[0].ends_with("vmem_helper::get_page_size_mul(capacity)") || range[0] == "get_page_size_mul(capacity)";
    let range_plain = range[1] == "capacity";
    let body = macro_body_items(&file, "impl_rb")?;
    let mut ctor = std::collections::HashMap::new();
    for it in &body.items { if let syn::Item::Impl(i) = it { for ii in &i.items { if let syn::ImplItem::Fn(f) = ii {
        let n = f.sig.ident.to_string();
        if n == "from" || n == "default" || n == "new_zeroed" { let t = inline_lets_text(&f.block); o.push_str(&format!("-- {n}: {t}\n")); ctor.insert(n, t); }
    } } } }
    let g = |k: &str| ctor.get(k).cloned().unwrap_or_default();
    let one_range = |t: &str| t.matches("get_range_max(capacity)").count() == 1 && int_literals(t).iter().all(|l| l == "0");
    let from_ok = ["{Self::_from(HeapStorage::from(value))}", "{Self::_from(value.into())}", "{Self::_from(HeapStorage::<T>::from(value))}", "{Self::_from(HeapStorage::from(value.into_boxed_slice()))}"].contains(&g("from").as_str());
    let nz = g("new_zeroed");
    let new_zeroed_ok = one_range(&nz) && nz.contains("0..get_range_max(capacity)") && nz.contains("UnsafeSyncCell::new_zeroed()") && nz.contains("Self::_from(") && !nz.contains(".take(") && !nz.contains(".skip(") && !nz.contains(".step_by(");
    let df = g("default");
    let default_ok = one_range(&df) && (df.contains("vec![T::default();get_range_max(capacity)]") || (df.contains("0..get_range_max(capacity)") && df.contains("T::default()"))) && (df.contains("Self::from(") || df.contains("Self::_from("));
    o.push_str(&format!("def ctorFacts : CtorFacts := {{ fromVecKeepsAll := {from_vec}, rangeMaxVmemIsPageMultiple := {range_vm}, rangeMaxPlainIsCapacity := {range_plain}, fromWrapsStorage := {from_ok}, newZeroedHasRangeMax := {new_zeroed_ok}, defaultHasRangeMax := {default_ok} }}\n"));
    Ok(o)
}

// ---------------------------------------------------------------- G5 Send/Sync impls, G6 wake sites

fn all_rs(dir: &std::path::Path, out: &mut Vec<std::path::PathBuf>) {
    if let Ok(rd) = std::fs::read_dir(dir) {
        let mut es: Vec<_> = rd.filter_map(|e| e.ok()).map(|e| e.path()).collect();
        es.sort();
        for p in es { if p.is_dir() { all_rs(&p, out) } else if p.extension().map(|e| e == "rs").unwrap_or(false) { out.push(p) } }
    }
}

fn ty_head(t: &syn::Type) -> String {
    let s = quote::quote!(#t).to_string().replace(' ', "");
    s.split('<').next().unwrap_or("").trim_start_matches('&').to_string()
}

fn ty_enum(n: &str) -> String {
    match n {
        "ProdIter" => ".prodIter".into(), "WorkIter" => ".workIter".into(), "ConsIter" => ".consIter".into(), "Detached" => ".detached".into(),
        "AsyncProdIter" => ".asyncProdIter".into(), "AsyncWorkIter" => ".asyncWorkIter".into(), "AsyncConsIter" => ".asyncConsIter".into(),
        "AsyncDetached" => ".asyncDetached".into(), "BufRef" => ".bufRef".into(), "UnsafeSyncCell" => ".unsafeSyncCell".into(), "MRBFuture" => ".mrbFuture".into(),
        "ConcurrentMutRingBuf" => ".concurrentMutRingBuf".into(), "LocalMutRingBuf" => ".localMutRingBuf".into(),
        "NonNull" => ".nonNull".into(), "usize" => ".usize".into(), "bool" => ".bool".into(), "PhantomData" => ".phantomData".into(),
        "Option" => ".option".into(), "UnsafeCell" => ".unsafeCell".into(), "I" => ".innerParam".into(), "'amutI" => ".innerParam".into(),
        o => format!("(.other \"{o}\")"),
    }
}

fn send_sync(src: &mut Src) -> Result<String, String> {
    let mut files = vec![];
    all_rs(&src.root.join("src"), &mut files);
    let mut impls: Vec<String> = vec![];
    let mut markers: Vec<String> = vec![];
    let mut fields: Vec<String> = vec![];
    let mut wakes: Vec<String> = vec![];
    for f in files {
        let rel = f.strip_prefix(&src.root).unwrap().to_string_lossy().to_string();
        if rel.ends_with("verif.rs") { continue; }
        let file = src.file(&rel)?.clone();
        fn walk(items: &[syn::Item], rel: &str, impls: &mut Vec<String>, markers: &mut Vec<String>, fields: &mut Vec<String>) {
            for it in items { match it {
                syn::Item::Impl(i) => {
                    if let Some((neg, tr, _)) = &i.trait_ {
                        let trn = quote::quote!(#tr).to_string().replace(' ', "");
                        let ty = ty_head(&i.self_ty);
                        if trn == "Send" || trn == "Sync" {
                            // bounds on the generic parameters
                            let mut conc = false; let mut item_send = false; let mut item_sync = false; let mut inner_send = false; let mut inner_sync = false; let mut other: Vec<String> = vec![];
                            let mut item_params: Vec<String> = vec![];
                            // which parameter is the item type: `MutRB<Item = T>`
                            for gp in &i.generics.params { if let syn::GenericParam::Type(tp) = gp { for b in &tp.bounds { let bs = quote::quote!(#b).to_string().replace(' ', "");
                                if let Some(p) = bs.find("Item=") { item_params.push(bs[p + 5..].trim_end_matches('>').to_string()); } } } }
                            let mut preds: Vec<(String, String)> = vec![];
                            for gp in &i.generics.params { if let syn::GenericParam::Type(tp) = gp { for b in &tp.bounds { preds.push((tp.ident.to_string(), quote::quote!(#b).to_string().replace(' ', ""))); } } }
                            if let Some(w) = &i.generics.where_clause { for p in &w.predicates { if let syn::WherePredicate::Type(pt) = p { let t = &pt.bounded_ty; for b in &pt.bounds { preds.push((quote::quote!(#t).to_string().replace(' ', ""), quote::quote!(#b).to_string().replace(' ', ""))); } } } }
                            for (p, b) in preds {
                                let is_item = item_params.contains(&p) || (p == "T" && ty == "UnsafeSyncCell");
                                match b.as_str() {
                                    "ConcurrentRB" => conc = true,
                                    "Send" => { if is_item { item_send = true } else if p == "I" { inner_send = true } else { other.push(format!("{p}:{b}")) } }
                                    "Sync" => { if is_item { item_sync = true } else if p == "I" { inner_sync = true } else { other.push(format!("{p}:{b}")) } }
                                    _ if b.starts_with("MutRB") || b == "MRBIterator" || b == "AsyncIterator" || b == "Storage" || b.starts_with("Storage<") || b.starts_with("MRBIterator<") => {}
                                    _ => other.push(format!("{p}:{b}")),
                                }
                            }
                            impls.push(format!("⟨{}, .{}, {}, {conc}, {item_send}, {item_sync}, {inner_send}, {inner_sync}, [{}]⟩", ty_enum(&ty),
                                if trn == "Send" { "send" } else { "sync" }, neg.is_some(), other.iter().map(|o| format!("\"{o}\"")).collect::<Vec<_>>().join(", ")));
                        }
                        if trn == "ConcurrentRB" { markers.push(ty_enum(&ty)); }
                    }
                }
                syn::Item::Struct(st) => {
                    let name = st.ident.to_string();
                    if ["BufRef", "ProdIter", "WorkIter", "ConsIter", "Detached", "AsyncProdIter", "AsyncWorkIter", "AsyncConsIter", "AsyncDetached", "UnsafeSyncCell", "MRBFuture"].contains(&name.as_str()) {
                        let fs: Vec<String> = st.fields.iter().map(|f| ty_enum(&ty_head(&f.ty))).collect();
                        fields.push(format!("({}, [{}])", ty_enum(&name), fs.join(", ")));
                    }
                }
                syn::Item::Mod(m) => { if let Some((_, its)) = &m.content { walk(its, rel, impls, markers, fields); } }
                _ => {}
            } }
        }
        walk(&file.items, &rel, &mut impls, &mut markers, &mut fields);
        // wake sites
        struct W<'a> { out: &'a mut Vec<String>, rel: &'a str }
        impl<'a, 'ast> Visit<'ast> for W<'a> {
            fn visit_expr_method_call(&mut self, m: &'ast syn::ExprMethodCall) {
                let n = m.method.to_string();
                if n == "wake" || n == "wake_by_ref" { self.out.push(format!("\"{}:{}\"", self.rel, n)); }
                syn::visit::visit_expr_method_call(self, m);
            }
            fn visit_macro(&mut self, m: &'ast syn::Macro) {
                let t = m.tokens.to_string().replace(' ', "");
                if t.contains(".wake()") || t.contains(".wake_by_ref()") { self.out.push(format!("\"{}:macro\"", self.rel)); }
            }
        }
        let mut w = W { out: &mut wakes, rel: &rel };
        w.visit_file(&file);
    }
    impls.sort(); markers.sort(); fields.sort();
    let mut o = String::new();
    o.push_str(&format!("def autoImpls : List AutoImpl := [\n  {}]\n", impls.join(",\n  ")));
    o.push_str(&format!("def concurrentMarkers : List TyName := [{}]\n", markers.join(", ")));
    o.push_str(&format!("def structFields : List (TyName × List TyName) := [\n  {}]\n", fields.join(",\n  ")));
    o.push_str(&format!("def wakeSites : List String := [{}]\n", wakes.join(", ")));
    Ok(o)
}

// ---------------------------------------------------------------- async delegation

/// For every `pub [unsafe] fn name(..)` of the async iterators that builds a future: the synchronous method its closure calls.
fn async_delegation(src: &mut Src) -> Result<String, String> {
    let mut pairs: Vec<String> = vec![];
    for rel in ["src/iterators/async_iterators/mod.rs", "src/iterators/async_iterators/prod_iter.rs", "src/iterators/async_iterators/work_iter.rs", "src/iterators/async_iterators/cons_iter.rs"] {
        let text = std::fs::read_to_string(src.root.join(rel)).map_err(|e| format!("{rel}: {e}"))?;
        let mut rest: &str = &text;
        while let Some(i) = rest.find("pub fn ").or_else(|| rest.find("pub unsafe fn ")) {
            let i = [rest.find("pub fn "), rest.find("pub unsafe fn ")].iter().flatten().copied().min().unwrap_or(i);
            let after = &rest[i..];
            let sig_end = match (after.find('{'), after.find(';')) { (Some(b), Some(sc)) if b < sc => b, (Some(b), None) => b, _ => { rest = &after[7..]; continue; } };
            let sig = &after[..sig_end];
            let name: String = sig.trim_start_matches("pub unsafe fn ").trim_start_matches("pub fn ").chars().take_while(|c| c.is_alphanumeric() || *c == '_').collect();
            let next = after[7..].find("pub fn ").map(|x| x + 7).unwrap_or(after.len());
            let next2 = after[7..].find("pub unsafe fn ").map(|x| x + 7).unwrap_or(after.len());
            let body = &after[..next.min(next2)];
            if sig.contains("MRBFuture") {
                let called: String = match body.find(".inner_mut().") { Some(k) => body[k + 13..].chars().take_while(|c| c.is_alphanumeric() || *c == '_').collect(), None => "?".into() };
                let n_calls = body.matches(".inner_mut().").count();
                pairs.push(format!("(\"{name}\", \"{called}\", {n_calls})"));
            }
            rest = &after[7..];
        }
    }
    pairs.sort(); pairs.dedup();
    let mut o = format!("def asyncDelegation : List (String × String × Nat) := [\n  {}]\n", pairs.join(",\n  "));
    // MRBFuture::poll as the set of event sequences it can perform (attempt ok / attempt failed / register the waker / Ready /
    // Pending), computed by a small interpreter over its syntax tree (`poll.rs`): loops, flags, `for x in [false, true]`,
    // early returns and private helper methods are followed, so the loop form and the unrolled form give the same set.
    let file = src.file("src/iterators/async_iterators/mod.rs")?.clone();
    let f = find_fn(&file, "MRBFuture", "poll").ok_or("MRBFuture::poll not found")?;
    let mut helpers: std::collections::HashMap<String, &syn::Block> = std::collections::HashMap::new();
    for it in &file.items { if let syn::Item::Impl(i) = it {
        let ty = &i.self_ty; if !quote::quote!(#ty).to_string().replace(' ', "").starts_with("MRBFuture") { continue; }
        for ii in &i.items { if let syn::ImplItem::Fn(g) = ii { if g.sig.ident != "poll" { helpers.insert(g.sig.ident.to_string(), &g.block); } } }
    } }
    let (traces, restores) = crate::poll::traces(f.block, helpers);
    let rows: Vec<String> = traces.iter().map(|t| format!("[{}]", t.iter().map(|e| format!(".{e}")).collect::<Vec<_>>().join(", "))).collect();
    o.push_str(&format!("def pollTraces : List (List PollEv) := [{}]\n", rows.join(", ")));
    o.push_str(&format!("def pollRestoresPayload : Bool := {restores}\n"));
    Ok(o)
}

// ---------------------------------------------------------------- loops

/// Every function under src/iterators and src/ring_buffer/wrappers that contains a loop, with the loop kinds.
fn loops(src: &mut Src) -> Result<String, String> {
    let mut files = vec![];
    all_rs(&src.root.join("src/iterators"), &mut files);
    all_rs(&src.root.join("src/ring_buffer/wrappers"), &mut files);
    all_rs(&src.root.join("src/ring_buffer/variants"), &mut files);
    let mut out: Vec<String> = vec![];
    struct L { kinds: Vec<&'static str> }
    impl<'ast> Visit<'ast> for L {
        fn visit_expr_while(&mut self, e: &'ast syn::ExprWhile) {
            // `while i < a && i < b { …; i += 1; }` with no other write to `i`, no `continue`: ends by itself like a `for` over a range
            fn counter_of(c: &Expr, out: &mut Vec<String>) -> bool {
                match c {
                    Expr::Paren(p) => counter_of(&p.expr, out),
                    Expr::Binary(b) if matches!(b.op, syn::BinOp::And(_)) => counter_of(&b.left, out) && counter_of(&b.right, out),
                    Expr::Binary(b) if matches!(b.op, syn::BinOp::Lt(_)) => { if let Expr::Path(_) = &*b.left { let l = q(&b.left); let r = q(&b.right); if !r.split(|c: char| !(c.is_alphanumeric() || c == '_')).any(|w| w == l) { out.push(l); return true; } } false }
                    _ => false,
                }
            }
            let mut cs = vec![];
            let mut bounded = counter_of(&e.cond, &mut cs) && !cs.is_empty() && cs.iter().all(|c| *c == cs[0]);
            if bounded {
                let i = &cs[0];
                let body = { let b = &e.body; quote::quote!(#b).to_string().replace(' ', "") };
                let incs = body.matches(&format!("{i}+=1;")).count();
                let last_is_inc = matches!(e.body.stmts.last(), Some(Stmt::Expr(Expr::Binary(b), Some(_))) if matches!(b.op, syn::BinOp::AddAssign(_)) && q(&b.left) == *i && q(&b.right) == "1");
                struct Wr<'x> { name: &'x str, n: usize }
                impl<'x, 'a> Visit<'a> for Wr<'x> {
                    fn visit_expr_assign(&mut self, a: &'a syn::ExprAssign) { if q(&a.left) == self.name { self.n += 1; } syn::visit::visit_expr_assign(self, a); }
                    fn visit_expr_binary(&mut self, b: &'a syn::ExprBinary) {
                        let compound = matches!(b.op, syn::BinOp::AddAssign(_) | syn::BinOp::SubAssign(_) | syn::BinOp::MulAssign(_) | syn::BinOp::DivAssign(_) | syn::BinOp::RemAssign(_) | syn::BinOp::ShlAssign(_) | syn::BinOp::ShrAssign(_) | syn::BinOp::BitAndAssign(_) | syn::BinOp::BitOrAssign(_) | syn::BinOp::BitXorAssign(_));
                        if compound && q(&b.left) == self.name { self.n += 1; }
                        syn::visit::visit_expr_binary(self, b);
                    }
                }
                let mut wr = Wr { name: i, n: 0 };
                wr.visit_block(&e.body);
                // the one write allowed is the final `i += 1;`
                let other_writes = wr.n.saturating_sub(1);
                bounded = incs >= 1 && last_is_inc && other_writes == 0 && !body.contains("continue") && !body.contains(&format!("&mut{i})")) && !body.contains(&format!("&mut{i},"));
            }
            self.kinds.push(if bounded { "for" } else { "while" });
            syn::visit::visit_expr_while(self, e);
        }
        fn visit_expr_loop(&mut self, e: &'ast syn::ExprLoop) { self.kinds.push("loop"); syn::visit::visit_expr_loop(self, e); }
        fn visit_expr_for_loop(&mut self, e: &'ast syn::ExprForLoop) {
            // a `for` over a closed range or over (zipped / enumerated) slices ends by itself; over anything else it may not
            fn bounded(e: &Expr) -> bool {
                match e {
                    Expr::Paren(p) => bounded(&p.expr),
                    Expr::Reference(r) => bounded(&r.expr),
                    Expr::Range(r) => r.start.is_some() && r.end.is_some(),
                    Expr::Path(_) | Expr::Field(_) => true,
                    Expr::MethodCall(m) => {
                        let n = m.method.to_string();
                        match n.as_str() {
                            "iter" | "iter_mut" | "into_iter" | "chunks" | "chunks_exact" | "chunks_mut" | "windows" => matches!(&*m.receiver, Expr::Path(_) | Expr::Field(_) | Expr::Paren(_) | Expr::Reference(_) | Expr::Range(_)) && bounded(&m.receiver),
                            "enumerate" | "rev" | "skip" | "take" | "copied" | "cloned" | "step_by" => n == "take" || bounded(&m.receiver),
                            "zip" => bounded(&m.receiver) || m.args.first().map(bounded).unwrap_or(false),
                            _ => false,
                        }
                    }
                    _ => false,
                }
            }
            self.kinds.push(if bounded(&e.expr) { "for" } else { "for?" });
            syn::visit::visit_expr_for_loop(self, e);
        }
    }
    struct F<'a> { rel: String, out: &'a mut Vec<String> }
    impl<'a, 'ast> Visit<'ast> for F<'a> {
        fn visit_impl_item_fn(&mut self, f: &'ast syn::ImplItemFn) { let mut l = L { kinds: vec![] }; l.visit_block(&f.block); if !l.kinds.is_empty() { self.out.push(format!("(\"{}\", \"{}\")", f.sig.ident, l.kinds.join("+"))); } }
        fn visit_trait_item_fn(&mut self, f: &'ast syn::TraitItemFn) { if let Some(b) = &f.default { let mut l = L { kinds: vec![] }; l.visit_block(b); if !l.kinds.is_empty() { self.out.push(format!("(\"{}\", \"{}\")", f.sig.ident, l.kinds.join("+"))); } } }
        fn visit_item_fn(&mut self, f: &'ast syn::ItemFn) { let mut l = L { kinds: vec![] }; l.visit_block(&f.block); if !l.kinds.is_empty() { self.out.push(format!("(\"{}\", \"{}\")", f.sig.ident, l.kinds.join("+"))); } }
    }
    for f in files {
        let rel = f.strip_prefix(&src.root).unwrap().to_string_lossy().to_string();
        let file = src.file(&rel)?.clone();
        let mut v = F { rel: rel.clone(), out: &mut out };
        v.visit_file(&file);
        let _ = v.rel;
    }
    out.sort(); out.dedup();
    // `MRBFuture::poll` is left out: how often it goes round is part of `pollShape` (`attemptsAtMost`), whether it is written as a loop or unrolled
    out.retain(|x| !x.starts_with("(\"poll\","));
    // functions whose every loop is a `for` over a closed range / slices are listed apart: they end by themselves
    let (b, u): (Vec<String>, Vec<String>) = out.into_iter().partition(|x| { let k = x.rsplit(", \"").next().unwrap_or("").trim_end_matches("\")"); k.split('+').all(|p| p == "for") });
    Ok(format!("def loops : List (String × String) := [{}]\ndef boundedLoops : List (String × String) := [{}]\n", u.join(", "), b.join(", ")))
}

pub fn table_items(src: &mut Src, items: &mut Vec<Item>) {
    let mut add = |name: &str, origin: &str, body: Result<String, String>| {
        items.push(Item { name: name.into(), file: "Tables", origin: origin.into(), body });
    };
    add("wiring", "succ_index / set_atomic_index of ProdIter, WorkIter, ConsIter", wiring(src));
    add("concAcc", "src/ring_buffer/variants/concurrent_rb.rs::IterManager", accessors(src, "src/ring_buffer/variants/concurrent_rb.rs", "ConcurrentMutRingBuf<S>", "concAcc"));
    add("localAcc", "src/ring_buffer/variants/local_rb.rs::IterManager", accessors(src, "src/ring_buffer/variants/local_rb.rs", "LocalMutRingBuf<S>", "localAcc"));
    add("skeletons", "call order of the composite operations", skeletons(src));
    add("storeKinds", "src/iterators/sync_iterators/prod_iter.rs: the store each push form performs", store_kinds(src));
    add("sendSync", "every `unsafe impl Send/Sync`, `impl ConcurrentRB`, struct fields, wake call sites under src/", send_sync(src));
    add("asyncDelegation", "src/iterators/async_iterators/*.rs: which synchronous method each future runs; MRBFuture::poll", async_delegation(src));
    add("loops", "every function of the iterators / buffer variants / wrappers that contains a loop", loops(src));
    add("construction", "impl_splits!, the buffers' `_from`, the iterators' `new`, From<Vec<T>> for HeapStorage, get_range_max, impl_rb!", construction(src));
    add("vmemCalls", "src/ring_buffer/storage/heap/vmem_helper.rs::new, Drop for HeapStorage (vmem): mmap/memcpy/munmap arguments", vmem_calls(src));
    add("pins", "cell primitives (check_zeroed, take_inner, inner_duplicate, Drop) and copy_from_slice_unchecked", pins(src));
}
