//! wakeprobe (cargo feature `async`): the parts of C14/C15 that single-threaded poll histories cannot reach.
//!  (a) re-check after registration: if the enabling operation of another stage happens *while* the waker is being registered
//!      (forced here: the waker's `clone` performs it), the same poll must already return `Ready` — otherwise the wake-up is lost;
//!  (b) the waker kept by an iterator is the one of the task that polled last (an earlier task's waker is released).
#[cfg(not(feature = "async"))]
fn main() { eprintln!("wakeprobe needs --features async"); std::process::exit(2); }

#[cfg(feature = "async")]
fn main() { imp::main() }

#[cfg(feature = "async")]
mod imp {
use mrb_harness::json::{arr, esc, obj};
use mutringbuf::iterators::async_iterators::AsyncIterator;
use mutringbuf::iterators::{AsyncConsIter, AsyncProdIter, AsyncWorkIter};
use mutringbuf::*;
use std::cell::RefCell;
use std::future::Future;
use std::pin::Pin;
use std::sync::atomic::{AtomicUsize, Ordering};
use std::sync::Arc;
use std::task::{Context, Poll, RawWaker, RawWakerVTable, Waker};

/// A waker whose `clone` runs a scripted action once (the "other stage" acting during registration) and counts clones/drops/wakes.
pub struct Probe { pub clones: AtomicUsize, pub drops: AtomicUsize, pub wakes: AtomicUsize, pub on_clone: RefCell<Option<Box<dyn FnMut()>>> }
unsafe impl Sync for Probe {}
unsafe impl Send for Probe {}

unsafe fn v_clone(d: *const ()) -> RawWaker {
    let p = &*(d as *const Probe);
    p.clones.fetch_add(1, Ordering::SeqCst);
    let act = p.on_clone.borrow_mut().take();
    if let Some(mut f) = act { f(); }
    Arc::increment_strong_count(d as *const Probe);
    RawWaker::new(d, &VT)
}
unsafe fn v_wake(d: *const ()) { let p = &*(d as *const Probe); p.wakes.fetch_add(1, Ordering::SeqCst); v_drop(d); }
unsafe fn v_wake_ref(d: *const ()) { let p = &*(d as *const Probe); p.wakes.fetch_add(1, Ordering::SeqCst); }
unsafe fn v_drop(d: *const ()) { let p = &*(d as *const Probe); p.drops.fetch_add(1, Ordering::SeqCst); Arc::decrement_strong_count(d as *const Probe); }
static VT: RawWakerVTable = RawWakerVTable::new(v_clone, v_wake, v_wake_ref, v_drop);

fn probe(on_clone: Option<Box<dyn FnMut()>>) -> (Arc<Probe>, Waker) {
    let p = Arc::new(Probe { clones: AtomicUsize::new(0), drops: AtomicUsize::new(0), wakes: AtomicUsize::new(0), on_clone: RefCell::new(on_clone) });
    let raw = Arc::into_raw(p.clone()) as *const ();
    (p, unsafe { Waker::from_raw(RawWaker::new(raw, &VT)) })
}
fn live(p: &Probe) -> isize { 1 + p.clones.load(Ordering::SeqCst) as isize - p.drops.load(Ordering::SeqCst) as isize }

struct Row { ok: bool, check: &'static str, detail: String, model: Option<(Vec<String>, String)> }

fn poll_once<F: Future + Unpin>(f: &mut F, w: &Waker) -> Poll<F::Output> { Pin::new(f).poll(&mut Context::from_waker(w)) }

pub fn main() {
    let mut rows: Vec<Row> = vec![];
    for len in [2usize, 3, 5] {
        // (a1) consumer awaits an item; the producer pushes while the consumer's waker is being registered
        {
            let buf = ConcurrentHeapRB::<u64>::from(vec![0u64; len]);
            let (p, c) = buf.split();
            let mut ac = AsyncConsIter::from_sync(c);
            let pp: *mut iterators::ProdIter<_> = Box::into_raw(Box::new(p));
            let (_pr, w) = probe(Some(Box::new(move || unsafe { let _ = (*pp).push(77); })));
            let r = { let mut fut = ac.pop(); poll_once(&mut fut, &w) };
            let ok = matches!(r, Poll::Ready(Some(77)));
            rows.push(Row { ok, check: "recheck", detail: format!("len {len}: consumer polls `pop` on an empty buffer; the producer pushes 77 while the waker is being registered; the poll returned {} (must be Ready(Some(77)): nobody will wake the task for that push)", match r { Poll::Ready(x) => format!("Ready({x:?})"), Poll::Pending => "Pending".into() }),
                model: Some((vec![format!("init {len} 0 1 0{}", " 0".repeat(len)), "pollwith pop :: push 77".into()], match r { Poll::Ready(Some(v)) => format!("ready item {v}"), Poll::Ready(None) => "ready none".into(), Poll::Pending => "pending".into() })) });
            drop(w); drop(ac); unsafe { drop(Box::from_raw(pp)); }
        }
        // (a2) producer awaits room; the consumer pops during registration
        {
            let buf = ConcurrentHeapRB::<u64>::from(vec![0u64; len]);
            let (mut p, c) = buf.split();
            for k in 0..len - 1 { p.push(10 + k as u64).unwrap(); }
            let mut ap = AsyncProdIter::from_sync(p);
            let cp: *mut iterators::ConsIter<_, false> = Box::into_raw(Box::new(c));
            let (_pr, w) = probe(Some(Box::new(move || unsafe { let _ = (*cp).pop(); })));
            let r = { let mut fut = ap.push(99); poll_once(&mut fut, &w) };
            let ok = matches!(r, Poll::Ready(Some(())));
            rows.push(Row { ok, check: "recheck", detail: format!("len {len}: producer polls `push` on a full buffer; the consumer pops one item while the waker is being registered; the poll returned {} (must be Ready)", match r { Poll::Ready(x) => format!("Ready({x:?})"), Poll::Pending => "Pending".into() }),
                model: Some(({ let mut l = vec![format!("init {len} 0 1 0{}", " 0".repeat(len))]; for k in 0..len - 1 { l.push(format!("push {}", 10 + k)); } l.push("pollwith push 99 :: pop".into()); l }, match r { Poll::Ready(Some(())) => "ready ok".into(), Poll::Ready(None) => "ready none".into(), Poll::Pending => "pending".into() })) });
            drop(w); drop(ap); unsafe { drop(Box::from_raw(cp)); }
        }
        // (a3) worker awaits an item; the producer pushes during registration
        {
            let buf = ConcurrentHeapRB::<u64>::from(vec![0u64; len]);
            let (p, wk, c) = buf.split_mut();
            let mut aw = AsyncWorkIter::from_sync(wk);
            let pp: *mut iterators::ProdIter<_> = Box::into_raw(Box::new(p));
            let (_pr, w) = probe(Some(Box::new(move || unsafe { let _ = (*pp).push(5); })));
            let r = { let mut fut = aw.get_workable(); match poll_once(&mut fut, &w) { Poll::Ready(x) => Poll::Ready(x.map(|v| *v)), Poll::Pending => Poll::Pending } };
            let ok = matches!(r, Poll::Ready(Some(5)));
            rows.push(Row { ok, check: "recheck", detail: format!("len {len}: worker polls `get_workable` with nothing to work on; the producer pushes 5 while the waker is being registered; the poll returned {} (must be Ready(Some(5)))", match r { Poll::Ready(x) => format!("Ready({x:?})"), Poll::Pending => "Pending".into() }),
                model: Some((vec![format!("init {len} 1 1 0{}", " 0".repeat(len)), "pollwith gw W :: push 5".into()], match r { Poll::Ready(Some(v)) => format!("ready item {v}"), Poll::Ready(None) => "ready none".into(), Poll::Pending => "pending".into() })) });
            drop(w); drop(aw); drop(c); unsafe { drop(Box::from_raw(pp)); }
        }
        // (b) two tasks poll the same iterator one after the other: the iterator keeps the second task's waker and releases the first
        {
            let buf = ConcurrentHeapRB::<u64>::from(vec![0u64; len]);
            let (p, c) = buf.split();
            let mut ac = AsyncConsIter::from_sync(c);
            let (pa, wa) = probe(None);
            let (pb, wb) = probe(None);
            let r1 = { let mut f = ac.pop(); poll_once(&mut f, &wa) };
            let r2 = { let mut f = ac.pop(); poll_once(&mut f, &wb) };
            drop(wa); drop(wb);
            let (la, lb) = (live(&pa), live(&pb));
            // each probe: the creating handle was dropped above, so `live` counts what the iterator still holds (plus nothing else)
            let ok = r1.is_pending() && r2.is_pending() && la == 0 && lb >= 1;
            rows.push(Row { ok, check: "latest_waker", detail: format!("len {len}: task A then task B poll `pop` on an empty buffer (both Pending: {} {}); wakers still held afterwards: A {la}, B {lb} (must be 0 and at least 1: the task to wake is the one that polled last)", r1.is_pending(), r2.is_pending()), model: None });
            drop(ac); drop(p);
        }
    }
    // the same scenarios on the Lean model (`pollWith`: the other stage acts between the two attempts of one poll)
    let a: Vec<String> = std::env::args().collect();
    let mut drv = a.iter().position(|x| x == "--driver").map(|i| mrb_harness::driver::Driver::spawn(&a[i + 1]).expect("cannot start the Lean driver"));
    let mut extra: Vec<Row> = vec![];
    if let Some(d) = drv.as_mut() {
        for r in &rows {
            if let Some((lines, mine)) = &r.model {
                let mut last = String::new();
                for l in lines { last = d.ask(l); }
                if &last != mine { extra.push(Row { ok: false, check: "model", detail: format!("implementation `{mine}`, Lean model `{last}` for: {}", lines.join(" ; ")), model: None }); }
            }
        }
    }
    rows.extend(extra);
    let js: Vec<String> = rows.iter().map(|r| obj(&[("check", esc(r.check)), ("ok", r.ok.to_string()), ("detail", esc(&r.detail))])).collect();
    println!("{}", arr(&js));
}
}
