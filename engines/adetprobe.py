"""C12/C13 engine: small-scope exhaustive check of `AsyncDetached` (binary `adetprobe`, feature `async`): every buffer length
1..=9, every ring position, worker and consumer, every contract-respecting (advance a, go_back b), observed after `attach`,
against an independent expectation and against the Lean model (same history as plain lines through the driver)."""
import json, os, subprocess


def run(pid, tier, seed, ctx):
    tdir = os.path.join(ctx["cache"], "target-async")
    env = dict(os.environ, CARGO_NET_OFFLINE="true", CARGO_TARGET_DIR=tdir)
    feats = ["async"]
    b = subprocess.run(["cargo", "build", "--offline", "--features", "async", "--bin", "adetprobe"], cwd=os.path.join(ctx["verif"], "harness"), env=env, stdout=subprocess.PIPE, stderr=subprocess.STDOUT, text=True)
    if b.returncode != 0:
        return dict(summary={"cases": 0}, violations=[], divergences=[{"kind": "build", "features": feats, "detail": "adetprobe does not build:\n" + b.stdout[-1500:], "case": None}], samples=[])
    cmd = [os.path.join(tdir, "debug", "adetprobe")] + (["--driver", ctx["driver"]] if ctx.get("driver") else [])
    p = subprocess.run(cmd, stdout=subprocess.PIPE, stderr=subprocess.PIPE, text=True)
    if p.returncode != 0:
        return dict(summary={"cases": 0}, violations=[{"kind": "oracle", "tags": [pid], "features": feats, "case": "# adetprobe", "failures": [{"detail": f"adetprobe died (rc={p.returncode}): memory-unsafe behaviour of AsyncDetached\n" + p.stderr[-500:]}]}], divergences=[], samples=[])
    js = json.loads(p.stdout)
    viol, div = [], []
    for f in js["failures"]:
        tags = [t for t in f["tags"].split(",") if t]
        rec = {"kind": "oracle" if tags else "model", "tags": tags, "features": feats, "case": f["case"], "failures": [{"detail": f["detail"]}]}
        (viol if pid in tags else div).append(rec)
    n = int(js["cases"])
    return dict(summary={"cases": n, "steps": 6 * n, "distinct_nontrivial": n, "exhaustive_scope": "AsyncDetached: len 1..9 x position x items x advance x go_back x {W, C}"}, violations=viol[:3], divergences=div[:3],
                samples=["# AsyncDetached, role W: len=8, position 6, 5 items, advance(4), go_back(3), attach"])
