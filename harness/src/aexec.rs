//! Async layer (cargo feature `async`): every operation goes through the `Async*Iter` wrappers and `MRBFuture::poll`,
//! driven by hand with a counting waker. Futures can be kept pending across operations of the other iterators.
#![cfg(feature = "async")]
use crate::exec::{CopyApi, FREED};
use crate::ops::{Obs, Op, Out, Role, ROLES};
use crate::tok::{self, Item};
use mutringbuf::iterators::async_iterators::AsyncIterator;
use mutringbuf::iterators::{AsyncConsIter, AsyncProdIter, AsyncWorkIter, ConsIter, ProdIter, WorkIter};
use mutringbuf::{MRBIterator, MutRB};
use std::cell::RefCell;
use std::future::Future;
use std::pin::Pin;
use std::sync::atomic::{AtomicUsize, Ordering};
use std::sync::Arc;
use std::task::{Context, Poll, Wake, Waker};

pub struct CountWaker(pub AtomicUsize);
impl Wake for CountWaker {
    fn wake(self: Arc<Self>) { self.0.fetch_add(1, Ordering::SeqCst); }
    fn wake_by_ref(self: &Arc<Self>) { self.0.fetch_add(1, Ordering::SeqCst); }
}

/// The waker of one poll ("the task that polls now"): forwards wake-ups to the session's counter. After a `Pending` the
/// iterator must hold a clone of it (its reference count tells).
pub struct TaskWaker(pub Arc<CountWaker>);
impl Wake for TaskWaker {
    fn wake(self: Arc<Self>) { self.0 .0.fetch_add(1, Ordering::SeqCst); }
    fn wake_by_ref(self: &Arc<Self>) { self.0 .0.fetch_add(1, Ordering::SeqCst); }
}

#[derive(Clone, PartialEq, Eq, Debug)]
pub enum Polled { Ready(Out), Pending }
impl Polled {
    pub fn line(&self) -> String { match self { Polled::Ready(o) => format!("ready {}", o.line()), Polled::Pending => "pending".into() } }
}

type Held = Box<dyn FnMut(&mut Context<'_>) -> Poll<Out>>;

thread_local!(static AFTER: RefCell<Vec<Box<dyn std::any::Any>>> = RefCell::new(Vec::new()));
fn after<X: 'static>(x: X) { AFTER.with(|a| a.borrow_mut().push(Box::new(x))); }

pub struct ASess<B: MutRB<Item = T> + 'static, T: AsyncCopyApi, const W: bool> {
    p: Option<Box<AsyncProdIter<'static, B>>>,
    w: Option<Box<AsyncWorkIter<'static, B>>>,
    c: Option<Box<AsyncConsIter<'static, B, W>>>,
    held: [Option<Held>; 3],
    /// wake count seen when the held future last returned Pending
    pub held_wakes: [usize; 3],
    pub held_op: [Option<Op>; 3],
    base: *const T,
    pub len: usize,
    pub last: Obs,
    free_base: usize,
    pub waker_count: Arc<CountWaker>,
    /// after the last poll that returned `Pending`: does the iterator hold the waker of the task that polled?
    pub last_registered: Option<bool>,
}

fn slot_off<T>(base: *const T, p: *const T) -> usize { ((p as usize).wrapping_sub(base as usize)) / std::mem::size_of::<T>().max(1) }

#[cfg(not(feature = "vmem"))]
fn win_mut<T: Item>(base: *const T, w: (&mut [T], &mut [T])) -> Out {
    let mut vals: Vec<u64> = w.0.iter().map(|x| x.val()).collect(); vals.extend(w.1.iter().map(|x| x.val()));
    Out::Win { ho: slot_off(base, w.0.as_ptr()), hl: w.0.len(), to: if w.1.is_empty() { 0 } else { slot_off(base, w.1.as_ptr()) }, tl: w.1.len(), vals }
}
#[cfg(not(feature = "vmem"))]
fn win_ro<T: Item>(base: *const T, w: (&[T], &[T])) -> Out {
    let mut vals: Vec<u64> = w.0.iter().map(|x| x.val()).collect(); vals.extend(w.1.iter().map(|x| x.val()));
    Out::Win { ho: slot_off(base, w.0.as_ptr()), hl: w.0.len(), to: if w.1.is_empty() { 0 } else { slot_off(base, w.1.as_ptr()) }, tl: w.1.len(), vals }
}
#[cfg(feature = "vmem")]
fn win_mut<T: Item>(base: *const T, w: &mut [T]) -> Out { Out::Win { ho: slot_off(base, w.as_ptr()), hl: w.len(), to: 0, tl: 0, vals: w.iter().map(|x| x.val()).collect() } }
#[cfg(feature = "vmem")]
fn win_ro<T: Item>(base: *const T, w: &[T]) -> Out { Out::Win { ho: slot_off(base, w.as_ptr()), hl: w.len(), to: 0, tl: 0, vals: w.iter().map(|x| x.val()).collect() } }

/// A future plus whatever it borrows (dropped after it: fields drop in declaration order).
struct HeldFut<F> { fut: Pin<Box<F>>, _keep: Box<dyn std::any::Any> }

pub fn hold_with<F: Future<Output = Option<O>> + 'static, O>(fut: F, keep: Box<dyn std::any::Any>, map: impl Fn(O) -> Out + 'static) -> Held {
    let mut h = HeldFut { fut: Box::pin(fut), _keep: keep };
    Box::new(move |cx: &mut Context<'_>| {
        let h = &mut h; // capture the whole struct (edition-2021 closures would otherwise capture `h.fut` only and drop `_keep`)
        match h.fut.as_mut().poll(cx) {
            Poll::Ready(Some(o)) => Poll::Ready(map(o)),
            Poll::Ready(None) => Poll::Ready(Out::None),
            Poll::Pending => Poll::Pending,
        }
    })
}

pub fn hold<F: Future<Output = Option<O>> + 'static, O>(fut: F, map: impl Fn(O) -> Out + 'static) -> Held { hold_with(fut, Box::new(()), map) }

impl<B: MutRB<Item = T> + 'static, T: AsyncCopyApi, const W: bool> ASess<B, T, W> {
    pub fn new(p: ProdIter<'static, B>, w: Option<WorkIter<'static, B>>, c: ConsIter<'static, B, W>) -> Self {
        let mut p = p;
        let len = p.buf_len();
        #[cfg(not(feature = "vmem"))]
        let base = unsafe { p.get_next_slices_mut(0).expect("zero-length window").0.as_ptr() as *const T };
        #[cfg(feature = "vmem")]
        let base = unsafe { p.get_next_slices_mut(0).expect("zero-length window").as_ptr() as *const T };
        let mut s = ASess { p: Some(Box::new(AsyncProdIter::from_sync(p))), w: w.map(|w| Box::new(AsyncWorkIter::from_sync(w))), c: Some(Box::new(AsyncConsIter::from_sync(c))),
            held: [None, None, None], held_wakes: [0; 3], held_op: [None, None, None], base, len, last: Obs::default(), free_base: FREED.load(Ordering::SeqCst),
            waker_count: Arc::new(CountWaker(AtomicUsize::new(0))), last_registered: None };
        s.last = s.observe(vec![]);
        s
    }

    pub fn wakes(&self) -> usize { self.waker_count.0.load(Ordering::SeqCst) }
    pub fn live(&self, r: Role) -> bool { match r { Role::P => self.p.is_some(), Role::W => self.w.is_some(), Role::C => self.c.is_some() } }

    pub fn observe(&mut self, drops: Vec<u64>) -> Obs {
        let mut o = self.last.clone();
        o.drops = drops;
        if let Some(p) = &self.p { o.idx[0] = p.index(); o.ca[0] = p.inner().verif_cached_avail(); }
        if let Some(w) = &self.w { o.idx[1] = w.index(); o.ca[1] = w.inner().verif_cached_avail(); }
        if let Some(c) = &self.c { o.idx[2] = c.index(); o.ca[2] = c.inner().verif_cached_avail(); }
        if let Some(p) = &self.p { o.publ = [p.prod_index(), p.work_index(), p.cons_index()]; o.fl = [p.is_prod_alive(), p.is_work_alive(), p.is_cons_alive()]; }
        else if let Some(c) = &self.c { o.publ = [c.prod_index(), c.work_index(), c.cons_index()]; o.fl = [c.is_prod_alive(), c.is_work_alive(), c.is_cons_alive()]; }
        else if let Some(w) = &self.w { o.publ = [w.prod_index(), w.work_index(), w.cons_index()]; o.fl = [w.is_prod_alive(), w.is_work_alive(), w.is_cons_alive()]; }
        else { o.fl = [false; 3]; }
        o.freed = FREED.load(Ordering::SeqCst) - self.free_base;
        o.drop_zero = tok::LEDGER.with(|l| l.borrow().drop_zero > 0);
        self.last = o.clone();
        o
    }

    /// Creates the future of an async operation (not yet polled).
    fn make(&mut self, op: &Op) -> Held {
        use Op::*;
        let base = self.base;
        // the futures borrow their iterator for as long as they live; the boxes never move
        let p: *mut AsyncProdIter<'static, B> = self.p.as_mut().map(|b| &mut **b as *mut _).unwrap_or(std::ptr::null_mut());
        let w: *mut AsyncWorkIter<'static, B> = self.w.as_mut().map(|b| &mut **b as *mut _).unwrap_or(std::ptr::null_mut());
        let c: *mut AsyncConsIter<'static, B, W> = self.c.as_mut().map(|b| &mut **b as *mut _).unwrap_or(std::ptr::null_mut());
        macro_rules! common { ($ptr:expr, $r:expr) => {{ let it = unsafe { &mut *$ptr }; match op {
            Gw(_) => hold(it.get_workable(), |x: &mut T| Out::Item(x.val())),
            Se(_, n) => hold(it.get_workable_slice_exact(*n), move |x| win_mut(base, x)),
            Sa(_) => hold(it.get_workable_slice_avail(), move |x| win_mut(base, x)),
            Sm(_, k) => hold(it.get_workable_slice_multiple_of(*k), move |x| win_mut(base, x)),
            _ => unreachable!() } }} }
        match op {
            Gw(r) | Se(r, _) | Sa(r) | Sm(r, _) => match r { Role::P => common!(p, r), Role::W => common!(w, r), Role::C => common!(c, r) },
            Push(v) => hold(unsafe { &mut *p }.push(T::make(*v)), |_: ()| Out::Ok),
            PushS(vs) => { let b: Box<[T]> = vs.iter().map(|v| T::make(*v)).collect::<Vec<T>>().into_boxed_slice(); let s: &'static [T] = unsafe { &*(&*b as *const [T]) }; T::async_push_slice(unsafe { &mut *p }, s, Box::new(b)) }
            PushSC(vs) => { let b: Box<[T]> = vs.iter().map(|v| T::clone_src(*v)).collect::<Vec<T>>().into_boxed_slice(); let s: &'static [T] = unsafe { &*(&*b as *const [T]) };
                hold_with(unsafe { &mut *p }.push_slice_clone(s), Box::new(b), |_: ()| Out::Ok) }
            Nim => hold(unsafe { (&mut *p).get_next_item_mut() }, |x: &mut T| Out::Item(x.val())),
            Nimi => hold(unsafe { &mut *p }.get_next_item_mut_init(), |x: *mut T| Out::Item(unsafe { (*x).val() })),
            Nsm(n) => hold(unsafe { (&mut *p).get_next_slices_mut(*n) }, move |x| win_mut(base, x)),
            Peek => hold(unsafe { &mut *c }.peek_ref(), |x: &T| Out::Item(x.val())),
            PeekS(n) => hold(unsafe { &mut *c }.peek_slice(*n), move |x| win_ro(base, x)),
            PeekA => hold(unsafe { &mut *c }.peek_available(), move |x| win_ro(base, x)),
            Pop => T::async_pop(unsafe { &mut *c }),
            PopM => hold(unsafe { (&mut *c).pop_move() }, |x: T| { let v = x.val(); after(x); Out::Item(v) }),
            Copy => T::async_copy_item(unsafe { &mut *c }),
            Clone => { let mut b: Box<T> = Box::new(T::scratch()); let dp: *mut T = &mut *b; let d: &'static mut T = unsafe { &mut *dp };
                hold_with(unsafe { &mut *c }.clone_item(d), Box::new(b), move |_: ()| Out::Item(unsafe { (*dp).origin_or_val() })) }
            CopyS(n) => T::async_copy_slice(unsafe { &mut *c }, *n),
            CloneS(n) => { let mut b: Box<[T]> = (0..*n).map(|_| T::scratch()).collect::<Vec<T>>().into_boxed_slice(); let dp: *mut [T] = &mut *b; let d: &'static mut [T] = unsafe { &mut *dp };
                hold_with(unsafe { &mut *c }.clone_slice(d), Box::new(b), move |_: ()| Out::Vals(unsafe { (*dp).iter().map(|x| x.origin_or_val()).collect() })) }
            _ => panic!("harness: {:?} has no async form", op),
        }
    }

    fn poll_held(&mut self, r: Role) -> Polled {
        let task = Arc::new(TaskWaker(self.waker_count.clone()));
        let waker: Waker = task.clone().into();
        let res = {
            let mut cx = Context::from_waker(&waker);
            let f = self.held[r.i()].as_mut().expect("no future");
            f(&mut cx)
        };
        drop(waker);
        self.last_registered = None;
        match res {
            Poll::Ready(o) => { let done = self.held[r.i()].take(); after(done); self.held_op[r.i()] = None; Polled::Ready(o) }
            // `task` itself is one reference; anything beyond it is a clone kept by the iterator
            Poll::Pending => { self.last_registered = Some(Arc::strong_count(&task) >= 2); self.held_wakes[r.i()] = self.wakes(); Polled::Pending }
        }
    }

    fn finish(&mut self) -> Obs {
        let drops = tok::take_drops();
        AFTER.with(|a| a.borrow_mut().clear());
        tok::take_drops();
        self.observe(drops)
    }

    /// `hold R <op>`: create the future, poll once, keep it if pending. `keep = false`: drop it right away (`poll <op>`).
    pub fn hold_op(&mut self, r: Role, op: &Op, keep: bool) -> (Polled, Obs) {
        tok::take_drops();
        let f = self.make(op);
        self.held[r.i()] = Some(f);
        self.held_op[r.i()] = Some(op.clone());
        let res = self.poll_held(r);
        let drops_now = tok::take_drops();
        if !keep && res == Polled::Pending { let f = self.held[r.i()].take(); after(f); self.held_op[r.i()] = None; }
        AFTER.with(|a| a.borrow_mut().clear());
        tok::take_drops();
        let obs = self.observe(drops_now);
        (res, obs)
    }

    pub fn repoll(&mut self, r: Role) -> (Polled, Obs) {
        tok::take_drops();
        let res = self.poll_held(r);
        let obs = self.finish();
        (res, obs)
    }

    pub fn drop_fut(&mut self, r: Role) -> Obs {
        tok::take_drops();
        let f = self.held[r.i()].take(); after(f); self.held_op[r.i()] = None;
        let d = tok::take_drops();
        AFTER.with(|a| a.borrow_mut().clear());
        tok::take_drops();
        self.observe(d)
    }

    /// Operations that are synchronous also on the async wrappers.
    pub fn sync(&mut self, op: &Op) -> (Out, Obs) {
        use Op::*;
        tok::take_drops();
        let out = match op {
            Avail(r) => Out::Num(match r { Role::P => self.p.as_mut().unwrap().available(), Role::W => self.w.as_mut().unwrap().available(), Role::C => self.c.as_mut().unwrap().available() }),
            Adv(r, n, _) => { unsafe { match r { Role::P => self.p.as_mut().unwrap().advance(*n), Role::W => self.w.as_mut().unwrap().advance(*n), Role::C => self.c.as_mut().unwrap().advance(*n) } }; Out::Ok }
            Reset(Role::W) => { self.w.as_mut().unwrap().reset_index(); Out::Ok }
            Reset(Role::C) => { self.c.as_mut().unwrap().reset_index(); Out::Ok }
            Drop(r) => { let f = self.held[r.i()].take(); after(f); self.held_op[r.i()] = None; match r { Role::P => self.p = None, Role::W => self.w = None, Role::C => self.c = None }; Out::Ok }
            _ => panic!("harness: {:?} is not a synchronous operation of the async wrappers", op),
        };
        let obs = self.finish();
        (out, obs)
    }

    pub fn roles(&self) -> Vec<Role> { ROLES.iter().copied().filter(|r| self.live(*r)).collect() }
}

/// The `Copy`-only part of the async API.
pub trait AsyncCopyApi: CopyApi {
    fn async_push_slice<B: MutRB<Item = Self> + 'static>(p: &'static mut AsyncProdIter<'static, B>, s: &'static [Self], keep: Box<dyn std::any::Any>) -> Held;
    fn async_pop<B: MutRB<Item = Self> + 'static, const W: bool>(c: &'static mut AsyncConsIter<'static, B, W>) -> Held;
    fn async_copy_item<B: MutRB<Item = Self> + 'static, const W: bool>(c: &'static mut AsyncConsIter<'static, B, W>) -> Held;
    fn async_copy_slice<B: MutRB<Item = Self> + 'static, const W: bool>(c: &'static mut AsyncConsIter<'static, B, W>, n: usize) -> Held;
    /// the source value of a clone push
    fn clone_src(v: u64) -> Self;
}

impl AsyncCopyApi for u64 {
    fn async_push_slice<B: MutRB<Item = u64> + 'static>(p: &'static mut AsyncProdIter<'static, B>, s: &'static [u64], keep: Box<dyn std::any::Any>) -> Held { hold_with(p.push_slice(s), keep, |_: ()| Out::Ok) }
    fn async_pop<B: MutRB<Item = u64> + 'static, const W: bool>(c: &'static mut AsyncConsIter<'static, B, W>) -> Held { hold(c.pop(), |x: u64| Out::Item(x)) }
    fn async_copy_item<B: MutRB<Item = u64> + 'static, const W: bool>(c: &'static mut AsyncConsIter<'static, B, W>) -> Held {
        let mut b: Box<u64> = Box::new(u64::scratch()); let dp: *mut u64 = &mut *b; let d: &'static mut u64 = unsafe { &mut *dp };
        hold_with(c.copy_item(d), Box::new(b), move |_: ()| Out::Item(unsafe { *dp }))
    }
    fn async_copy_slice<B: MutRB<Item = u64> + 'static, const W: bool>(c: &'static mut AsyncConsIter<'static, B, W>, n: usize) -> Held {
        let mut b: Box<[u64]> = vec![u64::scratch(); n].into_boxed_slice(); let dp: *mut [u64] = &mut *b; let d: &'static mut [u64] = unsafe { &mut *dp };
        hold_with(c.copy_slice(d), Box::new(b), move |_: ()| Out::Vals(unsafe { (*dp).to_vec() }))
    }
    fn clone_src(v: u64) -> u64 { v }
}

impl AsyncCopyApi for crate::tok::Tok {
    fn async_push_slice<B: MutRB<Item = Self> + 'static>(_: &'static mut AsyncProdIter<'static, B>, _: &'static [Self], _: Box<dyn std::any::Any>) -> Held { unreachable!("Copy API on an owned item") }
    fn async_pop<B: MutRB<Item = Self> + 'static, const W: bool>(_: &'static mut AsyncConsIter<'static, B, W>) -> Held { unreachable!("Copy API on an owned item") }
    fn async_copy_item<B: MutRB<Item = Self> + 'static, const W: bool>(_: &'static mut AsyncConsIter<'static, B, W>) -> Held { unreachable!("Copy API on an owned item") }
    fn async_copy_slice<B: MutRB<Item = Self> + 'static, const W: bool>(_: &'static mut AsyncConsIter<'static, B, W>, _: usize) -> Held { unreachable!("Copy API on an owned item") }
    fn clone_src(_v: u64) -> Self { crate::tok::Tok::with_id(tok::fresh_id()) }
}
