//! Global allocator of the harness: (1) every fresh (non-zeroed) allocation is filled with 0xA5, so that memory the crate
//! treats as "zeroed" without having zeroed it does not happen to be zero; (2) the allocation that holds a heap buffer
//! (its address is reported by the BOX hook event) is watched, so that "released" means deallocated and not merely
//! "the release event was emitted".
use std::alloc::{GlobalAlloc, Layout, System};
use std::sync::atomic::{AtomicUsize, Ordering};

pub struct Watch;

const N: usize = 8;
static ADDR: [AtomicUsize; N] = [AtomicUsize::new(0), AtomicUsize::new(0), AtomicUsize::new(0), AtomicUsize::new(0), AtomicUsize::new(0), AtomicUsize::new(0), AtomicUsize::new(0), AtomicUsize::new(0)];
static FREES: [AtomicUsize; N] = [AtomicUsize::new(0), AtomicUsize::new(0), AtomicUsize::new(0), AtomicUsize::new(0), AtomicUsize::new(0), AtomicUsize::new(0), AtomicUsize::new(0), AtomicUsize::new(0)];
static NEXT: AtomicUsize = AtomicUsize::new(0);

unsafe impl GlobalAlloc for Watch {
    unsafe fn alloc(&self, l: Layout) -> *mut u8 {
        let p = System.alloc(l);
        if !p.is_null() { std::ptr::write_bytes(p, 0xA5, l.size()); }
        p
    }
    unsafe fn alloc_zeroed(&self, l: Layout) -> *mut u8 { System.alloc_zeroed(l) }
    unsafe fn dealloc(&self, p: *mut u8, l: Layout) {
        let a = p as usize;
        // 1 = has been deallocated (the address may be handed out again afterwards: later frees of it are somebody else's)
        for i in 0..N { if ADDR[i].load(Ordering::Relaxed) == a { FREES[i].store(1, Ordering::Relaxed); } }
        System.dealloc(p, l)
    }
    unsafe fn realloc(&self, p: *mut u8, l: Layout, new_size: usize) -> *mut u8 {
        let q = System.realloc(p, l, new_size);
        if !q.is_null() && new_size > l.size() { std::ptr::write_bytes(q.add(l.size()), 0xA5, new_size - l.size()); }
        q
    }
}

/// Start watching the allocation at `addr` (forgets the oldest watch when full).
pub fn watch(addr: usize) {
    let i = NEXT.fetch_add(1, Ordering::Relaxed) % N;
    FREES[i].store(0, Ordering::Relaxed);
    ADDR[i].store(addr, Ordering::Relaxed);
}
/// 1 if the allocation at `addr` has been deallocated since it was watched, else 0 (None: not watched).
pub fn frees_of(addr: usize) -> Option<usize> {
    for i in 0..N { if ADDR[i].load(Ordering::Relaxed) == addr { return Some(FREES[i].load(Ordering::Relaxed)); } }
    None
}
pub fn unwatch_all() { for i in 0..N { ADDR[i].store(0, Ordering::Relaxed); FREES[i].store(0, Ordering::Relaxed); } }
