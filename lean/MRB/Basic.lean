/-
  MRB.Basic — vocabulary shared by the generated files (MRB/Gen/*.lean, written by rs2lean from the
  Rust sources) and the hand-written model. Core Lean only (no imports), so that the driver links.
-/
namespace MRB

/-- The three published indices of a buffer. -/
inductive Fld | prod | work | cons
  deriving DecidableEq, Repr, Inhabited

/-- The three iterator roles. -/
inductive Role | P | W | C
  deriving DecidableEq, Repr, Inhabited

/-- Memory orderings as written at the call sites (`plain` = non-atomic access of the local buffer). -/
inductive MemOrd | relaxed | acquire | release | acqRel | seqCst | plain
  deriving DecidableEq, Repr, Inhabited

/-- Shared locations of a buffer. -/
inductive Loc
  | prodIdx | workIdx | consIdx | prodAlive | workAlive | consAlive | aliveIters
  | other (name : String)
  deriving DecidableEq, Repr, Inhabited

inductive AccKind | load | store | fetchAdd | fetchSub | read | write | addAssign | subAssign
  deriving DecidableEq, Repr, Inhabited

/-- One access to a shared location performed by an `IterManager` method (`guarded`: inside an `if`). -/
structure Acc where
  loc : Loc
  kind : AccKind
  ord : MemOrd
  guarded : Bool
  deriving DecidableEq, Repr, Inhabited

/-- How `release_iter` computes "I was the last one". -/
inductive LastTest
  | oldEq (n : Nat)   -- value before the decrement equals n
  | newEq (n : Nat)   -- value after the decrement equals n
  deriving DecidableEq, Repr, Inhabited

/-- Names of the calls recorded in call-order skeletons. -/
inductive CallName
  | check | takeInner | innerDuplicate | innerRef | innerRefMut | asMutPtr
  | advance' | advance | advanceLocal | setAtomicIndex
  | nextRefMutInit | nextRefMut | nextRef | next | nextDuplicate | nextChunk | nextChunkMut
  | succIndex | setLocalIndex | setCachedAvail | available' | available | syncIndex
  | getWorkableSliceExact | peekSlice
  | releaseIter | drop | setProdAlive | setWorkAlive | setConsAlive
  | userF
  deriving DecidableEq, Repr, Inhabited

inductive CallArg | none | lit (n : Nat) | count | index | many | other (s : String)
  deriving DecidableEq, Repr, Inhabited

structure Call where
  name : CallName
  arg : CallArg
  deriving DecidableEq, Repr, Inhabited

/-- The shape the data path of a slice operation must have, however its accesses are split up: the grant of `count` slots
comes first, then nothing but accesses by the caller's closure (at least one), and the advance by `count` — the local move
followed by the publication — comes last. -/
def Call.bracketed (grant : CallName) (l : List Call) : Bool :=
  match l with
  | g :: rest =>
    (g.name == grant && g.arg == .count) &&
    (match rest.reverse with
     | a :: mid => (a.name == .advance && a.arg == .count) && !mid.isEmpty && mid.all (fun c => c.name == .userF)
     | [] => false)
  | [] => false

/-- What a push form does to the slot(s) it was granted. -/
inductive StoreKind
  | assign             -- `*p = v`: destroys the old content first
  | initBranch         -- empty slot: `p.write(v)`; occupied slot: `*p = v`
  | copyAll            -- bitwise copy of the whole slice (`Copy` items)
  | cloneAll           -- `clone_from_slice`: assigns a clone to every slot
  | perSlotInitCopy    -- per slot: write if empty, assign otherwise (`Copy` items)
  | perSlotInitClone   -- per slot: write a clone if empty, `clone_from` otherwise
  | other (src : String)
  deriving DecidableEq, Repr, Inhabited

/-- Type constructors that occur in the Send/Sync analysis. -/
inductive TyName
  | prodIter | workIter | consIter | detached | asyncProdIter | asyncWorkIter | asyncConsIter | asyncDetached
  | bufRef | unsafeSyncCell | mrbFuture | concurrentMutRingBuf | localMutRingBuf
  | nonNull | usize | bool | phantomData | option | unsafeCell | innerParam
  | other (s : String)
  deriving DecidableEq, Repr, Inhabited

inductive AutoTrait | send | sync
  deriving DecidableEq, Repr, Inhabited

/-- One `impl Send/Sync for <ty>` found in the source, with the bounds that matter. -/
structure AutoImpl where
  ty : TyName
  tr : AutoTrait
  negative : Bool
  reqConcurrent : Bool      -- `B: ConcurrentRB`
  reqItemSend : Bool        -- `T: Send` for the item type
  reqItemSync : Bool
  reqInnerSend : Bool       -- `I: Send` for the wrapped iterator
  reqInnerSync : Bool
  otherBounds : List String
  deriving DecidableEq, Repr, Inhabited

/-- Flags of an `mmap` call that matter for what backs the pages. -/
inductive MapFlag | priv | shared | anon | fixed | other
  deriving DecidableEq, Repr, Inhabited

/-- One `mmap` call of `vmem_helper::new`.  Addresses and lengths are in units of
`size = size_of_val(value)` (the byte length of one view), relative to the first mapping. -/
structure MmapCall where
  fixedAt : Option Nat     -- `none`: address `null` (the kernel picks; this is the base); `some k`: base + k·size
  lenMul : Nat             -- length = lenMul · size
  flags : List MapFlag
  hasFd : Bool             -- `false`: fd = -1
  deriving DecidableEq, Repr, Inhabited

inductive CopyEnd | source | fresh
  deriving DecidableEq, Repr, Inhabited

/-- One block copy of `vmem_helper::new` (direction as the callee sees it). -/
structure CopyCall where
  dst : CopyEnd
  src : CopyEnd
  lenMul : Nat
  deriving DecidableEq, Repr, Inhabited

/-- The length argument of `munmap`: `const · len^lenPow · size_of::<T>()^sizePow` bytes. -/
structure MunmapLen where
  const : Nat
  lenPow : Nat
  sizePow : Nat
  deriving DecidableEq, Repr, Inhabited

inductive StorageKind | heap | stack
  deriving DecidableEq, Repr, Inhabited

/-- One `split` / `split_mut` of `impl_splits!`: which published indices it resets to 0, which liveness flags it sets,
which iterators it creates (in tuple order) and how it wraps the buffer. -/
structure SplitInfo where
  storage : StorageKind
  withWorker : Bool
  resets : List Fld
  alive : List Role
  iters : List Role
  bufRef : String
  deriving DecidableEq, Repr, Inhabited

/-- What a buffer's `_from` puts into its fields. -/
structure BufInit where
  idxZero : Bool          -- the three published indices start at 0
  flagsFalse : Bool       -- the three liveness flags start false
  counterZero : Bool      -- the counter of live iterators starts at 0
  lenIsStorageLen : Bool  -- `inner_len` is the storage's length
  refusesEmpty : Bool     -- `assert!(value.len() > 0)`
  deriving DecidableEq, Repr, Inhabited

/-- What the primitives of a storage cell do, as the translator recognises it from their source (any of the usual
spellings; the text itself is kept as a comment in the generated file). The model's `takeInner`, `duplicate`, `isZero`,
cell destructor and slice copy are written to these facts; their behaviour is compared with the real code on every run. -/
structure CellFacts where
  checkZeroedAllBytes : Bool   -- `check_zeroed` compares each of the `size_of::<T>()` bytes with 0 and nothing else
  takeInnerLeavesZeros : Bool  -- `take_inner` moves the content out and overwrites the slot with zeros
  duplicateLeavesCell : Bool   -- `inner_duplicate` is a bitwise read; the cell keeps its bytes
  dropSkipsZeroed : Bool       -- the cell destructor destroys the content unless `check_zeroed`
  copyWholeSlice : Bool        -- `copy_from_slice_unchecked(src, dst)` copies all `src.len()` items from start to start
  deriving DecidableEq, Repr, Inhabited

/-- How the heap constructors size the buffer. -/
structure CtorFacts where
  fromVecKeepsAll : Bool             -- `HeapStorage::from(Vec<T>)`: the whole vector becomes the boxed slice
  rangeMaxVmemIsPageMultiple : Bool  -- `get_range_max(capacity)` under `vmem` is `get_page_size_mul(capacity)`
  rangeMaxPlainIsCapacity : Bool     -- … and `capacity` itself otherwise
  fromWrapsStorage : Bool            -- `from(Vec<T>)` of a heap buffer is `_from(HeapStorage::from(value))`
  newZeroedHasRangeMax : Bool        -- `new_zeroed(capacity)` builds `get_range_max(capacity)` zeroed cells
  defaultHasRangeMax : Bool          -- `default(capacity)` builds `get_range_max(capacity)` default items
  deriving DecidableEq, Repr, Inhabited

/-- `HeapStorage::new` under `vmem`. -/
structure VmemNewFacts where
  mapsSource : Bool                    -- the mapping is built by `vmem_helper::new(&value)`
  lenIsSourceLen : Bool                -- the recorded length is `value.len()`
  freesSourceWithoutDestroying : Bool  -- the source box is deallocated as `MaybeUninit` cells (its items now live in the mapping)
  deriving DecidableEq, Repr, Inhabited

/-- The observable events of one `MRBFuture::poll`: an attempt at the synchronous operation (a call with the iterator as
first argument) that succeeds or fails, the registration of the waker, and the result. `unknown` ends a sequence the
translator's interpreter (`rs2lean/src/poll.rs`) could not follow. -/
inductive PollEv | attemptOk | attemptFail | register | ready | pending | unknown
  deriving DecidableEq, Repr, Inhabited

end MRB
