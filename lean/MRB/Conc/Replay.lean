/-
  MRB.Conc.Replay — replays a recorded execution of the real crate on the concurrent machine, step by step.

  The scheduler harness records, in the order they happened: every load an iterator made of the published index of the
  iterator ahead of it (with the number of the message it was given), every store of its own index, every slot access.
  Each record is mapped to the machine step it must be (`refresh`, `moveLocal` + `publish`, `access`) and the step's
  guard — the premise of the `Step` constructors the theorems quantify over — is checked:
    * a load reads a message of the right history that is not older than the one read before (coherence);
    * an iterator never moves further than the availability it has established (`n ≤ cached`);
    * an access lies inside the window `[pos, pos + cached)`.
  A recorded execution that passes is an execution of the machine, so `reach_inv` and its corollaries speak about it;
  one that does not is reported with the guard it broke. Values are cross-checked on the way (message value and stored
  value modulo the buffer length). Core Lean only (linked into the driver).
-/
import MRB.Conc.Machine
import MRB.Conc.Drop

namespace MRB.Conc

def roleOf : String → Option Role
  | "P" => some .P | "W" => some .W | "C" => some .C | _ => none

def roleCh : Role → String | .P => "P" | .W => "W" | .C => "C"

/-- One trace line. Answers start with `ok` or `fail`. -/
def replayLine (s : St) (ws : List String) : St × String :=
  match ws with
  | ["cld", t, i, v] =>
    match roleOf t, i.toNat?, v.toNat? with
    | some t, some i, some v =>
      if t = .W ∧ s.hasW = false then (s, "fail worker-of-a-two-stage-buffer") else
      match (s.hist (lead s.hasW t))[i]? with
      | none => (s, s!"fail no-message-{i}-in-the-history-of-{roleCh (lead s.hasW t)}")
      | some m =>
        if m.val % s.L ≠ v then (s, s!"fail value message={m.val % s.L} loaded={v}")
        else if (s.thr t).k ≤ m.val then
          let s1 := refresh s t m
          (s1, s!"ok k={m.val} cached={(s1.thr t).cached}")
        else (s, s!"fail coherence last-read={(s.thr t).k} now={m.val}")
    | _, _, _ => (s, "fail bad-line")
  | ["cst", t, v] =>
    match roleOf t, v.toNat? with
    | some t, some v =>
      if t = .W ∧ s.hasW = false then (s, "fail worker-of-a-two-stage-buffer") else
      let th := s.thr t
      let n := (v + s.L - th.pos % s.L) % s.L
      if n ≤ th.cached then
        let s1 := publish (moveLocal s t n) t
        (s1, s!"ok moved={n} pos={(s1.thr t).pos % s.L} cached={(s1.thr t).cached} published={lastVal (s1.hist t) % s.L}")
      else (s, s!"fail moved-beyond-established-availability moved={n} cached={th.cached}")
    | _, _ => (s, "fail bad-line")
  | ["cac", t, slot] =>
    match roleOf t, slot.toNat? with
    | some t, some slot =>
      if t = .W ∧ s.hasW = false then (s, "fail worker-of-a-two-stage-buffer") else
      let th := s.thr t
      let off := (slot + s.L - th.pos % s.L) % s.L
      if off < th.cached then
        let s1 := access s t (th.pos + off)
        (s1, s!"ok raced={s1.raced}")
      else (s, s!"fail access-outside-window offset={off} cached={th.cached}")
    | _, _ => (s, "fail bad-line")
  | ["cq", t] =>
    match roleOf t with
    | some t => (s, s!"ok pos={(s.thr t).pos % s.L} cached={(s.thr t).cached} raced={s.raced}")
    | none => (s, "fail bad-line")
  | _ => (s, "fail bad-line")

/-- Every accepted trace line is a step of the machine (`Step`), so an accepted trace ends in a reachable state. -/
theorem replayLine_step (s : St) (ws : List String) :
    (replayLine s ws).1 = s ∨ Step s (replayLine s ws).1 ∨ ∃ s1, Step s s1 ∧ Step s1 (replayLine s ws).1 := by
  unfold replayLine
  split
  · -- cld
    rename_i t i v
    split
    · rename_i t' i' v' _ _ _
      by_cases hw : t' = Role.W ∧ s.hasW = false
      · left; simp [hw]
      · simp only [hw, if_false]
        split
        · left; rfl
        · rename_i m hm
          by_cases hv : m.val % s.L ≠ v'
          · left; simp [hv]
          · simp only [hv, if_false]
            by_cases hk : (s.thr t').k ≤ m.val
            · right; left
              simp only [hk, if_true]
              exact Step.refresh s t' m (List.mem_of_getElem? hm) hk (fun e => by
                cases hs : s.hasW
                · exact absurd ⟨e, hs⟩ hw
                · rfl)
            · left; simp [hk]
    · left; rfl
  · -- cst
    rename_i t v
    split
    · rename_i t' v' _ _
      by_cases hw : t' = Role.W ∧ s.hasW = false
      · left; simp [hw]
      · simp only [hw, if_false]
        have hW : t' = Role.W → s.hasW = true := fun e => by
          cases hs : s.hasW
          · exact absurd ⟨e, hs⟩ hw
          · rfl
        by_cases hn : (v' + s.L - (s.thr t').pos % s.L) % s.L ≤ (s.thr t').cached
        · right; right
          simp only [hn, if_true]
          refine ⟨moveLocal s t' ((v' + s.L - (s.thr t').pos % s.L) % s.L), Step.moveLocal s t' _ hn hW, ?_⟩
          exact Step.publish _ t' (by
            intro e
            have := hW e
            cases t' <;> simpa [moveLocal, St.setThr] using this)
        · left; simp [hn]
    · left; rfl
  · -- cac
    rename_i t slot
    split
    · rename_i t' sl _ _
      by_cases hw : t' = Role.W ∧ s.hasW = false
      · left; simp [hw]
      · simp only [hw, if_false]
        have hW : t' = Role.W → s.hasW = true := fun e => by
          cases hs : s.hasW
          · exact absurd ⟨e, hs⟩ hw
          · rfl
        by_cases ho : (sl + s.L - (s.thr t').pos % s.L) % s.L < (s.thr t').cached
        · right; left
          simp only [ho, if_true]
          exact Step.access s t' _ (Nat.le_add_right _ _) (by omega) hW
        · left; simp [ho]
    · left; rfl
  · left; split <;> rfl
  · left; rfl

/-- Hence the state after any replayed trace is a reachable state of the machine: the invariant `CInv` (race freedom,
exclusive windows, remembered availability never above the true one) holds of it. -/
theorem replayLine_reach {L : Nat} {hasW : Bool} {s : St} (r : Reach L hasW s) (ws : List String) :
    Reach L hasW (replayLine s ws).1 := by
  rcases replayLine_step s ws with h | h | ⟨s1, h1, h2⟩
  · rw [h]; exact r
  · exact Reach.step r h
  · exact Reach.step (Reach.step r h1) h2

def replay (s : St) : List (List String) → St
  | [] => s
  | l :: ls => replay (replayLine s l).1 ls

theorem replay_reach {L : Nat} {hasW : Bool} (ls : List (List String)) {s : St} (r : Reach L hasW s) : Reach L hasW (replay s ls) := by
  induction ls generalizing s with
  | nil => exact r
  | cons l ls ih => exact ih (replayLine_reach r l)

/-! ### the drop protocol -/

/-- One record of the drop protocol: `cdf T` (T stored `false` into its liveness flag), `cdd T old` (T's read-modify-write on the
counter of live iterators returned `old`), `cdx T` (T released the storage). Each must be an enabled `DropStep`; the value the
real read-modify-write returned must be the machine's counter. A thread whose decrement was not the last one is `finish`ed at once
(it performs no further step of the protocol). -/
def dropReplayLine (s : DropSt) (ws : List String) : DropSt × String :=
  match ws with
  | ["cdf", t] =>
    match roleOf t with
    | some t => if s.ph t = .live then (clearFlag s t, "ok") else (s, s!"fail flag-cleared-in-phase-{repr (s.ph t)}")
    | none => (s, "fail bad-line")
  | ["cdd", t, old] =>
    match roleOf t, old.toNat? with
    | some t, some old =>
      if s.ph t = .cleared then
        if old = s.count then
          if (decrement s t).ph t = .decOther then (finish (decrement s t) t, s!"ok last=false") else (decrement s t, s!"ok last=true")
        else (s, s!"fail counter real={old} machine={s.count}")
      else (s, s!"fail decrement-before-flag-clear phase={repr (s.ph t)}")
    | _, _ => (s, "fail bad-line")
  | ["cdx", t] =>
    match roleOf t with
    | some t => if s.ph t = .decLast then (free s t, "ok") else (s, s!"fail released-by-a-thread-that-is-not-the-last phase={repr (s.ph t)}")
    | none => (s, "fail bad-line")
  | _ => (s, "fail bad-line")

theorem dropReplayLine_reach {hasW : Bool} {s : DropSt} (r : DropReach hasW s) (ws : List String) :
    DropReach hasW (dropReplayLine s ws).1 := by
  unfold dropReplayLine
  split
  · split
    · rename_i t _
      by_cases h : s.ph t = .live
      · rw [if_pos h]; exact DropReach.step r (DropStep.clear s t h)
      · rw [if_neg h]; exact r
    · exact r
  · split
    · rename_i t old _ _
      by_cases hc : s.ph t = .cleared
      · rw [if_pos hc]
        by_cases ho : old = s.count
        · rw [if_pos ho]
          have r1 := DropReach.step r (DropStep.dec s t hc)
          by_cases h2 : (decrement s t).ph t = .decOther
          · rw [if_pos h2]; exact DropReach.step r1 (DropStep.finish _ t h2)
          · rw [if_neg h2]; exact r1
        · rw [if_neg ho]; exact r
      · rw [if_neg hc]; exact r
    · exact r
  · split
    · rename_i t _
      by_cases h : s.ph t = .decLast
      · rw [if_pos h]; exact DropReach.step r (DropStep.free s t h)
      · rw [if_neg h]; exact r
    · exact r
  · exact r

end MRB.Conc
