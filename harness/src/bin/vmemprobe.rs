//! vmemprobe (cargo feature `vmem`): the parts of C17 that are about the mappings themselves.
#[cfg(not(feature = "vmem"))]
fn main() { eprintln!("vmemprobe needs --features vmem"); std::process::exit(2); }

#[cfg(feature = "vmem")]
fn main() { imp::main() }

#[cfg(feature = "vmem")]
mod imp {
use mrb_harness::json::{arr, esc, obj};
use mrb_harness::tok::{self, Tok};
use mutringbuf::vmem_helper::{get_page_size_mul, page_size};
use mutringbuf::*;

fn mapped_bytes(lo: usize, hi: usize) -> usize {
    let maps = std::fs::read_to_string("/proc/self/maps").unwrap_or_default();
    let mut n = 0;
    for l in maps.lines() {
        let r = l.split_whitespace().next().unwrap_or("");
        if let Some((a, b)) = r.split_once('-') {
            if let (Ok(a), Ok(b)) = (usize::from_str_radix(a, 16), usize::from_str_radix(b, 16)) {
                let s = a.max(lo); let e = b.min(hi);
                if e > s { n += e - s; }
            }
        }
    }
    n
}

fn round_check<T: Default + Clone + 'static>(name: &str, out: &mut Vec<String>) {
    let ps = page_size();
    for c in [1usize, ps - 1, ps, ps + 1, 2 * ps - 1, 2 * ps, 2 * ps + 1, 3 * ps - 1, 3 * ps] {
        let want = ((c + ps - 1) / ps) * ps;
        let g = get_page_size_mul(c);
        let buf = ConcurrentHeapRB::<T>::default(c);
        let (p, cns) = buf.split();
        let bl = p.buf_len();
        // capacity: exactly len-1 slots are free in a fresh buffer
        let mut p = p; let av = p.available();
        drop(p); drop(cns);
        let ok = g == want && bl == want && av == want - 1;
        out.push(obj(&[("check", esc("rounding")), ("ok", ok.to_string()), ("ps", ps.to_string()), ("req", c.to_string()), ("got", g.to_string()), ("detail", esc(&format!("{name}: request {c} -> get_page_size_mul {g}, buf_len {bl}, fresh producer availability {av}; least multiple of the page size {ps} is {want}")))]));
    }
}

fn unmap_check<T: Default + Clone + 'static>(name: &str, pages: usize, out: &mut Vec<String>) {
    let ps = page_size();
    let n = pages * ps;
    let buf = LocalHeapRB::<T>::default(n);
    let (mut p, c) = buf.split();
    let base = unsafe { p.get_next_slices_mut(0).unwrap().as_ptr() as usize };
    let span = 2 * n * std::mem::size_of::<T>();
    let before = mapped_bytes(base, base + span);
    drop(p); drop(c);
    let after = mapped_bytes(base, base + span);
    let ok = before == span && after == 0;
    out.push(obj(&[("check", esc("unmap")), ("ok", ok.to_string()), ("detail", esc(&format!("{name} x {n} elements: {before} of {span} bytes of the two views mapped while an iterator lives, {after} still mapped after the last iterator was dropped")))]));
}

fn mirror_check<T: Default + Clone + Copy + PartialEq + std::fmt::Debug + 'static>(name: &str, mk: fn(u64) -> T, out: &mut Vec<String>) {
    let ps = page_size();
    for pages in 1..=3usize {
        let n = pages * ps;
        // item-wise writes around the seam, slice-wise read across it
        {
            let buf = LocalHeapRB::<T>::default(n);
            let (mut p, mut c) = buf.split();
            let k = n - 3;
            let fill: Vec<T> = (0..k as u64).map(mk).collect();
            p.push_slice(&fill).unwrap();
            let mut d = vec![T::default(); k]; c.copy_slice(&mut d).unwrap();
            for i in 0..6u64 { p.push(mk(70 + i)).unwrap(); }
            let w = c.peek_slice(6).map(|s| s.to_vec());
            let ok = w == Some((70..76).map(mk).collect::<Vec<T>>());
            out.push(obj(&[("check", esc("mirror")), ("ok", ok.to_string()), ("detail", esc(&format!("{name} x {n}: 6 items pushed one by one from index {k} (3 before, 3 after the physical end) read as one slice: {:?} [window crosses the physical end: index+count > len]", w)))]));
        }
        // slice-wise write across the seam, item-wise reads
        {
            let buf = LocalHeapRB::<T>::default(n);
            let (mut p, mut c) = buf.split();
            let k = n - 2;
            let fill: Vec<T> = (0..k as u64).map(mk).collect();
            p.push_slice(&fill).unwrap();
            let mut d = vec![T::default(); k]; c.copy_slice(&mut d).unwrap();
            let vals: Vec<T> = (90..95).map(mk).collect();
            p.push_slice(&vals).unwrap();
            let got: Vec<T> = (0..5).filter_map(|_| c.pop()).collect();
            let ok = got == vals;
            out.push(obj(&[("check", esc("mirror")), ("ok", ok.to_string()), ("detail", esc(&format!("{name} x {n}: 5 items pushed as one slice from index {k} (2 before, 3 after the physical end) popped one by one: {:?} [window crosses the physical end: index+count > len]", got)))]));
        }
    }
}

pub fn main() {
    let mut out: Vec<String> = vec![];
    let ps = page_size();
    round_check::<u8>("u8", &mut out); round_check::<u16>("u16", &mut out); round_check::<u64>("u64", &mut out); round_check::<u128>("u128", &mut out);
    for pages in 1..=3 { unmap_check::<u8>("u8", pages, &mut out); unmap_check::<u16>("u16", pages, &mut out); unmap_check::<u64>("u64", pages, &mut out); unmap_check::<u128>("u128", pages, &mut out); }
    // (a) a buffer built from existing data holds that data
    {
        let v: Vec<u64> = (1..=ps as u64).collect();
        let buf = ConcurrentHeapRB::from(v);
        let (mut p, mut c) = buf.split();
        unsafe { p.advance(8) };
        let got: Vec<u64> = (0..8).filter_map(|_| c.pop()).collect();
        let ok = got == (1..=8).collect::<Vec<u64>>();
        out.push(obj(&[("check", esc("from_vec_contents")), ("ok", ok.to_string()), ("detail", esc(&format!("from(vec![1, 2, ..]) reads back {:?} (contents of the vector must be preserved)", got)))]));
    }
    // (b) every slot is reachable at two addresses one buffer length apart
    mirror_check::<u8>("u8", |x| x as u8, &mut out); mirror_check::<u16>("u16", |x| x as u16, &mut out);
    mirror_check::<u64>("u64", |x| x, &mut out); mirror_check::<u128>("u128", |x| x as u128, &mut out);
    // (c) dropping the buffer destroys its items exactly once
    {
        tok::reset_ledger();
        let buf = unsafe { ConcurrentHeapRB::<Tok>::new_zeroed(ps) };
        let (mut p, c) = buf.split();
        for _ in 0..5 { let _ = p.push_init(Tok::with_id(tok::fresh_id())); }
        drop(p); drop(c);
        let bad: Vec<(u64, u32)> = tok::LEDGER.with(|l| { let l = l.borrow(); let mut b: Vec<(u64, u32)> = l.created.keys().map(|id| (*id, l.dropped.get(id).copied().unwrap_or(0))).filter(|(_, d)| *d != 1).collect(); b.sort(); b });
        out.push(obj(&[("check", esc("drop_items")), ("ok", bad.is_empty().to_string()), ("detail", esc(&format!("5 owned items in a released buffer: tokens not destroyed exactly once (id, destructor runs): {:?} [release of the storage]", bad)))]));
    }
    // (d) ownership of the items of a source vector: moved into the buffer, destroyed exactly once
    {
        tok::reset_ledger();
        let v: Vec<Tok> = (0..ps).map(|_| Tok::with_id(tok::fresh_id())).collect();
        let buf = LocalHeapRB::from(v);
        let (mut p, mut c) = buf.split();
        unsafe { p.advance(6) };
        let popped: Vec<u64> = (0..4).filter_map(|_| unsafe { c.pop_move() }).map(|t| t.id).collect();
        drop(p); drop(c);
        let bad: Vec<(u64, u32)> = tok::LEDGER.with(|l| { let l = l.borrow(); let mut b: Vec<(u64, u32)> = l.created.keys().map(|id| (*id, l.dropped.get(id).copied().unwrap_or(0))).filter(|(_, d)| *d != 1).collect(); b.sort(); b.truncate(8); b });
        let ok = bad.is_empty() && popped == vec![1, 2, 3, 4];
        out.push(obj(&[("check", esc("from_vec_owned")), ("ok", ok.to_string()), ("detail", esc(&format!("buffer built from a vector of {ps} owned items, 4 popped ({:?}), then released: tokens not destroyed exactly once (id, destructor runs, first 8): {:?} [release of the storage]", popped, bad)))]));
    }
    println!("{}", arr(&out));
}
}
