//! Runs cases: implementation vs Lean model (line diff) vs oracle (property verdicts); shrinks failures.
use crate::driver::Driver;
use crate::exec::{ClonePush, Sess, FREED};
use crate::gen::{Gen, Profile};
use crate::ops::{Obs, Op, Out, Role, ROLES};
use crate::oracle::{abs, AOut, Oracle};
use crate::rng::Rng;
use crate::tok::{self, Tok, Tok12, C12};
use mutringbuf::*;
use std::collections::BTreeMap;
use std::io::Write;
use std::sync::atomic::Ordering;

#[derive(Clone, Debug, PartialEq, Eq)]
pub enum Universe { U64, Tok, Tok12, C12 }
impl Universe { pub fn owned(&self) -> bool { matches!(self, Universe::Tok | Universe::Tok12) } }

#[derive(Clone, Debug)]
pub struct CaseSpec {
    pub conc: bool,
    pub heap: bool,
    pub has_w: bool,
    pub len: usize,
    pub uni: Universe,
    pub zeroed: bool,
    pub ops: Vec<Op>,
}

impl CaseSpec {
    pub fn header(&self) -> String {
        format!("case conc={} heap={} w={} len={} uni={:?} zeroed={}", self.conc as u8, self.heap as u8, self.has_w as u8, self.len, self.uni, self.zeroed as u8)
    }
    pub fn parse_header(l: &str) -> Option<CaseSpec> {
        let mut c = CaseSpec { conc: true, heap: true, has_w: false, len: 1, uni: Universe::U64, zeroed: false, ops: vec![] };
        let mut it = l.split_whitespace();
        if it.next()? != "case" { return None; }
        for kv in it {
            let (k, v) = kv.split_once('=')?;
            match k {
                "conc" => c.conc = v == "1", "heap" => c.heap = v == "1", "w" => c.has_w = v == "1", "zeroed" => c.zeroed = v == "1",
                "len" => c.len = v.parse().ok()?,
                "uni" => c.uni = match v { "U64" => Universe::U64, "Tok" => Universe::Tok, "Tok12" => Universe::Tok12, "C12" => Universe::C12, _ => return None },
                _ => return None,
            }
        }
        Some(c)
    }
    pub fn text(&self) -> String {
        let mut s = self.header();
        for o in &self.ops { s.push('\n'); s.push_str(&o.line()); }
        s
    }
    pub fn parse(text: &str) -> Option<CaseSpec> {
        let mut lines = text.lines().filter(|l| !l.trim().is_empty() && !l.starts_with('#'));
        let mut c = CaseSpec::parse_header(lines.next()?)?;
        for l in lines { c.ops.push(Op::parse(l)?); }
        Some(c)
    }
}

#[derive(Clone, Debug)]
pub struct Failure {
    /// "oracle" (the implementation violates the reference), "model" (implementation and Lean model differ),
    /// "spec" (Lean machine and Lean spec differ), "annot" (ghost annotation rejected)
    pub kind: &'static str,
    pub tags: Vec<&'static str>,
    pub step: usize,
    pub op: String,
    pub detail: String,
}

pub enum Source<'a> {
    Gen { rng: &'a mut Rng, profile: &'a Profile, gen: Gen, remaining: usize, prefix: Vec<Op>, prefix_at: usize },
    Replay { ops: Vec<Op>, at: usize },
}

#[derive(Default, Clone)]
pub struct Stats {
    pub ops: BTreeMap<&'static str, usize>,
    pub refused: usize,
    pub granted: usize,
    pub wraps: usize,
    pub steps: usize,
}

pub struct Ctx<'a> {
    pub oracle: Oracle,
    pub source: Source<'a>,
    pub driver: Option<&'a mut Driver>,
    pub failures: Vec<Failure>,
    pub executed: Vec<Op>,
    pub stats: Stats,
    pub log: Option<&'a mut std::fs::File>,
    pub stop_on_failure: bool,
    pub uni: Universe,
    pub final_obs: Obs,
    /// (vmem) an earlier granted window of this history crossed the physical end of the storage
    pub seam_seen: bool,
}

enum End { Done, Resplit(bool) }

fn tags_out(op: &Op, exp: &AOut, got: &AOut) -> Vec<&'static str> {
    use Op::*;
    let success_differs = matches!(exp, AOut::None | AOut::Err(_)) != matches!(got, AOut::None | AOut::Err(_));
    let mut t = vec![];
    // granted although nothing (or not that much) is available to this iterator: the slots belong to another stage (C03: one iterator at a time)
    if matches!(exp, AOut::None | AOut::Err(_)) && !matches!(got, AOut::None | AOut::Err(_)) { t.push("C03"); }
    match op {
        Avail(_) => t.push("C05"),
        Pop | PopM | Copy | Clone | Peek => { if success_differs { t.push("C05"); t.push("C04"); } else { t.push("C01"); } }
        // slice forms: a wrong value is also a wrong window (C06: the slice must hold exactly the ring positions requested)
        CopyS(_) | CloneS(_) | PeekS(_) | PeekA => { if success_differs { t.push("C05"); t.push("C04"); } else { t.push("C01"); t.push("C06"); } }
        Gw(_) | Se(..) | Sa(_) | Sm(..) | Nim | Nimi | Nsm(_) => { if success_differs { t.push("C05"); t.push("C04"); } else { t.push("C01"); t.push("C06"); } }
        Push(_) | PushI(_) | PushS(_) | PushSI(_) | PushSC(_) | PushSCI(_) => { t.push("C05"); t.push("C04"); }
        _ => t.push("C04"),
    }
    t
}

impl<'a> Ctx<'a> {
    fn next_op(&mut self) -> Option<Op> {
        loop {
            match &mut self.source {
                Source::Gen { rng, profile, gen, remaining, prefix, prefix_at } => {
                    if *prefix_at < prefix.len() { let op = prefix[*prefix_at].clone(); *prefix_at += 1; return Some(op); }
                    if *remaining == 0 { return None; }
                    *remaining -= 1;
                    return gen.next_op(&self.oracle, rng, profile);
                }
                Source::Replay { ops, at } => {
                    if *at >= ops.len() { return None; }
                    let mut op = ops[*at].clone();
                    *at += 1;
                    // re-derive ghost annotations; skip operations the contract does not allow here (shrinking)
                    if let Op::Adv(Role::P, n, _) = &op { let n = *n; if n <= self.oracle.avail(Role::P) { op = Op::Adv(Role::P, n, self.oracle.window(self.oracle.pos[0], n)); } }
                    if self.oracle.allowed(&op) { return Some(op); }
                }
            }
        }
    }

    fn fail(&mut self, kind: &'static str, tags: Vec<&'static str>, op: &Op, detail: String) {
        // a failure in a history that contains a reset / detached move / re-split also concerns the property about those
        let mut tags = tags;
        if kind == "oracle" {
            let seen = |f: fn(&Op) -> bool, ex: &Vec<Op>, cur: &Op| ex.iter().any(|o| f(o)) || f(cur);
            if seen(|o| matches!(o, Op::Reset(_)), &self.executed, op) && !tags.contains(&"C11") { tags.push("C11"); }
            if seen(|o| matches!(o, Op::Detach(_) | Op::Back(..) | Op::SetI(..) | Op::Sync(_) | Op::Attach(_)), &self.executed, op) && !tags.contains(&"C12") { tags.push("C12"); }
            if seen(|o| matches!(o, Op::Resplit(_)), &self.executed, op) && !tags.contains(&"C18") { tags.push("C18"); }
            // the very first thing a freshly constructed and split buffer says about itself is wrong: construction (C18)
            if self.executed.iter().all(|o| matches!(o, Op::Avail(_))) && !tags.contains(&"C18") { tags.push("C18"); }
        }
        self.failures.push(Failure { kind, tags, step: self.executed.len(), op: op.line(), detail });
    }

    /// Token ids are allocated at execution time: rewrite the values of pushes for owned universes.
    fn concretize(&mut self, op: Op) -> Op {
        if !self.uni.owned() { return op; }
        match op {
            Op::Push(_) => Op::Push(tok::fresh_id()),
            Op::PushI(_) => Op::PushI(tok::fresh_id()),
            Op::Poke(r, k, _) => Op::Poke(r, k, tok::fresh_id()),
            Op::PushSC(v) => { let n = v.len(); let first = tok::peek_next_id() + n as u64; Op::PushSC((0..n as u64).map(|i| first + i).collect()) }
            Op::PushSCI(v) => { let n = v.len(); let first = tok::peek_next_id() + n as u64; Op::PushSCI((0..n as u64).map(|i| first + i).collect()) }
            o => o,
        }
    }

    /// Compares one executed step with the oracle and the Lean model.
    fn judge(&mut self, op: &Op, idx_before: [usize; 3], out: &Out, obs: &Obs) {
        *self.stats.ops.entry(op.kind()).or_insert(0) += 1;
        self.stats.steps += 1;
        let before = self.oracle.clone();
        let exp = self.oracle.apply(op);
        for r in ROLES { if self.oracle.pos[r.i()] / self.oracle.len != before.pos[r.i()] / before.len { self.stats.wraps += 1; } }
        let got = abs(op, out);
        let expo = exp.out.clone().unwrap();
        match &expo { AOut::None | AOut::Err(_) => self.stats.refused += 1, AOut::Item(_) | AOut::Vals(_) | AOut::Granted(_) => self.stats.granted += 1, _ => {} }
        let seam = if crate::gen::straddles(&before, op) { " [window crosses the physical end: index+count > len]" }
            else if self.seam_seen { " [after an earlier granted window crosses the physical end: index+count > len]" } else { "" };
        if crate::gen::straddles(&before, op) && !matches!(expo, AOut::None | AOut::Err(_)) { self.seam_seen = true; }
        if got != expo { let mut t = tags_out(op, &expo, &got); if cfg!(feature = "vmem") { t.push("C17"); } self.fail("oracle", t, op, format!("outcome: expected {:?}, implementation returned {:?}{seam}", expo, out)); }
        // geometry of granted windows (C06)
        if let Out::Win { ho, hl, to, tl, vals } = out {
            if let Some(r) = op.role() {
                let idx = idx_before[r.i()]; let len = self.oracle.len;
                // the size that was asked for (not the size that came back)
                let n = match op { Op::Se(_, n) | Op::Nsm(n) | Op::PeekS(n) => *n, Op::Sa(_) | Op::PeekA => before.avail(r),
                    Op::Sm(_, k) if *k > 0 => { let a = before.avail(r); a - a % k } _ => vals.len() };
                #[cfg(not(feature = "vmem"))]
                let (eho, ehl, eto, etl) = if idx + n >= len { (idx, len.saturating_sub(idx), 0, (idx + n).saturating_sub(len)) } else { (idx, n, 0, 0) };
                #[cfg(feature = "vmem")]
                let (eho, ehl, eto, etl) = (idx, n, 0, 0);
                if (*ho, *hl, *to, *tl) != (eho, ehl, eto, etl) || ho + hl > 2 * len || to + tl > len || vals.len() != n {
                    self.fail("oracle", if cfg!(feature = "vmem") { vec!["C06", "C17"] } else { vec!["C06"] }, op, format!("window geometry: expected head ({eho},{ehl}) tail ({eto},{etl}), got head ({ho},{hl}) tail ({to},{tl}), len {len}"));
                }
            }
        }
        // indices, published indices, flags, release
        for r in ROLES {
            if self.oracle.live[r.i()] || before.live[r.i()] {
                if self.oracle.live[r.i()] && obs.idx[r.i()] != self.oracle.idx(r) {
                    let mut t = vec!["C04"]; if self.oracle.det[r.i()] { t.push("C12"); } if matches!(op, Op::Reset(_)) { t.push("C11"); }
                    self.fail("oracle", t, op, format!("index of {:?}: expected {}, got {}", r, self.oracle.idx(r), obs.idx[r.i()]));
                }
            }
        }
        if !self.oracle.buffer_gone() {
            let roles: &[Role] = if self.oracle.has_w { &ROLES } else { &[Role::P, Role::C] };
            for r in roles {
                if obs.publ[r.i()] != self.oracle.pub_idx(*r) {
                    let mut t = vec!["C04"]; if before.det.iter().any(|d| *d) { t.push("C12"); } if matches!(op, Op::Reset(_)) { t.push("C11"); } if matches!(op, Op::Resplit(_)) { t.push("C18"); }
                    self.fail("oracle", t, op, format!("published index of {:?}: expected {}, got {}", r, self.oracle.pub_idx(*r), obs.publ[r.i()]));
                }
            }
            if obs.fl != self.oracle.flags { self.fail("oracle", vec!["C07"], op, format!("liveness flags: expected {:?}, got {:?}", self.oracle.flags, obs.fl)); }
        }
        if obs.freed != self.oracle.freed { self.fail("oracle", vec!["C07"], op, format!("buffer releases: expected {}, observed {}", self.oracle.freed, obs.freed)); }
        if self.oracle.owned {
            if obs.drops != exp.drops {
                let rel = if self.oracle.freed > before.freed { " [release of the storage]" } else { "" };
                let mut t = vec!["C08", "C09"]; if cfg!(feature = "vmem") { t.push("C17"); }
                self.fail("oracle", t, op, format!("destructor runs: expected {:?}, observed {:?}{rel}", exp.drops, obs.drops));
            }
            if obs.drop_zero { self.fail("oracle", vec!["C09"], op, "a destructor ran on an empty (all-zero) slot".into()); }
        }
        // Lean model
        if let Some(d) = self.driver.as_mut() {
            let ans = d.ask(&op.line());
            let (ans, spec) = match ans.split_once(" SPECDIFF ") { Some((a, s)) => (a.to_string(), Some(s.to_string())), None => (ans, None) };
            if let Some(s) = spec { self.fail("spec", vec![], op, format!("Lean machine and Lean spec disagree: {s}")); }
            let mine = format!("{} | {}", out.line(), obs.line());
            if ans != mine {
                // (vmem) contents seen through a window across the physical end, or after one, depend on the mirror: same marker as the oracle's
                let seam = if cfg!(feature = "vmem") && (crate::gen::straddles(&before, op) || self.seam_seen) { " [window crosses the physical end: index+count > len]" } else { "" };
                self.fail("model", vec![], op, format!("implementation: {mine}\n        model: {ans}{seam}"));
            }
        }
        self.final_obs = obs.clone();
    }
}

fn session<'b, B: MutRB<Item = T>, T: ClonePush, const W: bool>(
    p: iterators::ProdIter<'b, B>, w: Option<iterators::WorkIter<'b, B>>, c: iterators::ConsIter<'b, B, W>,
    ctx: &mut Ctx, pending: Option<Op>, last: Option<Obs>,
) -> (End, Obs) {
    let mut s = Sess::<B, T, W>::new(p, w, c, last);
    if s.len != ctx.oracle.len {
        ctx.failures.push(Failure { kind: "oracle", tags: vec!["C18"], step: ctx.executed.len(), op: "<split>".into(),
            detail: format!("buf_len() is {} for a buffer constructed with {} slots", s.len, ctx.oracle.len) });
    }
    if let Some(op) = pending {
        // the re-split itself is the operation being observed
        let obs = s.last.clone();
        ctx.judge(&op, obs.idx, &Out::Ok, &obs);
        ctx.executed.push(op);
    }
    loop {
        if ctx.stop_on_failure && !ctx.failures.is_empty() { break; }
        let op = match ctx.next_op() { Some(o) => o, None => break };
        let op = ctx.concretize(op);
        if let Op::Resplit(wn) = op {
            let o = s.last.clone();
            return (End::Resplit(wn), o);
        }
        if let Some(l) = ctx.log.as_mut() { let _ = writeln!(l, "{}", op.line()); let _ = l.flush(); }
        let idx_before = s.last.idx;
        let (out, obs) = s.exec_any(&op);
        for c in s.complaints.drain(..) { ctx.failures.push(Failure { kind: "oracle", tags: vec!["C05"], step: ctx.executed.len(), op: op.line(), detail: c }); }
        ctx.judge(&op, idx_before, &out, &obs);
        ctx.executed.push(op);
    }
    // drop whatever is left, as explicit operations, so that the release is checked too
    if !(ctx.stop_on_failure && !ctx.failures.is_empty()) {
        for r in [Role::W, Role::P, Role::C] {
            if ctx.oracle.live[r.i()] {
                let op = Op::Drop(r);
                if let Some(l) = ctx.log.as_mut() { let _ = writeln!(l, "{}", op.line()); let _ = l.flush(); }
                let idx_before = s.last.idx;
                let (out, obs) = s.exec_any(&op);
                ctx.judge(&op, idx_before, &out, &obs);
                ctx.executed.push(op);
            }
        }
    }
    let o = s.last.clone();
    (End::Done, o)
}

fn init_vals(len: usize, zeroed: bool, uni: &Universe) -> Vec<u64> {
    if zeroed { vec![0; len] } else if !uni.owned() { (0..len as u64).map(|i| 100 + i).collect() } else { (0..len).map(|_| tok::fresh_id()).collect() }
}

macro_rules! heap_case {
    ($Buf:ident, $T:ty, $spec:expr, $ctx:expr, $vals:expr) => {{
        // every other buffer is built from a vector with spare capacity: the buffer's length is the vector's length, not its capacity
        let buf: $Buf<$T> = if $spec.zeroed { unsafe { $Buf::<$T>::new_zeroed($spec.len) } } else {
            let mut v: Vec<$T> = Vec::with_capacity($spec.len + if $spec.conc { 5 } else { 0 });
            v.extend($vals.iter().map(|v| <$T as crate::tok::Item>::make(*v)));
            $Buf::<$T>::from(v)
        };
        if $spec.has_w { let (p, w, c) = buf.split_mut(); session::<_, $T, true>(p, Some(w), c, $ctx, None, None); }
        else { let (p, c) = buf.split(); session::<_, $T, false>(p, None, c, $ctx, None, None); }
    }};
}

macro_rules! stack_case {
    ($Buf:ident, $T:ty, $N:literal, $spec:expr, $ctx:expr, $vals:expr) => {{
        let mut buf: $Buf<$T, $N> = if $spec.zeroed { unsafe { $Buf::<$T, $N>::new_zeroed() } } else { $Buf::<$T, $N>::from(std::array::from_fn::<$T, $N, _>(|i| <$T as crate::tok::Item>::make($vals[i]))) };
        let bufp: *mut $Buf<$T, $N> = &mut buf;
        let mut has_w = $spec.has_w;
        let mut pending: Option<Op> = None;
        let mut last: Option<Obs> = None;
        loop {
            let (end, o) = if has_w { let (p, w, c) = unsafe { (*bufp).split_mut() }; session::<_, $T, true>(p, Some(w), c, $ctx, pending.take(), last.take()) }
                      else { let (p, c) = unsafe { (*bufp).split() }; session::<_, $T, false>(p, None, c, $ctx, pending.take(), last.take()) };
            match end { End::Done => break, End::Resplit(w) => { has_w = w; pending = Some(Op::Resplit(w)); let mut o = o; o.idx = [0; 3]; o.ca = [0; 3]; last = Some(o); } }
        }
        drop(buf);
    }};
}

macro_rules! stack_sizes {
    ($Buf:ident, $T:ty, $spec:expr, $ctx:expr, $vals:expr) => {
        match $spec.len {
            1 => stack_case!($Buf, $T, 1, $spec, $ctx, $vals), 2 => stack_case!($Buf, $T, 2, $spec, $ctx, $vals),
            3 => stack_case!($Buf, $T, 3, $spec, $ctx, $vals), 4 => stack_case!($Buf, $T, 4, $spec, $ctx, $vals),
            5 => stack_case!($Buf, $T, 5, $spec, $ctx, $vals), 6 => stack_case!($Buf, $T, 6, $spec, $ctx, $vals),
            7 => stack_case!($Buf, $T, 7, $spec, $ctx, $vals), 8 => stack_case!($Buf, $T, 8, $spec, $ctx, $vals),
            9 => stack_case!($Buf, $T, 9, $spec, $ctx, $vals), 16 => stack_case!($Buf, $T, 16, $spec, $ctx, $vals),
            n => panic!("harness: no stack buffer of length {n}"),
        }
    };
}

pub const STACK_LENS: [usize; 10] = [1, 2, 3, 4, 5, 6, 7, 8, 9, 16];

macro_rules! universe_case {
    ($T:ty, $spec:expr, $ctx:expr, $vals:expr) => {
        match ($spec.conc, $spec.heap) {
            (true, true) => heap_case!(ConcurrentHeapRB, $T, $spec, $ctx, $vals),
            (false, true) => heap_case!(LocalHeapRB, $T, $spec, $ctx, $vals),
            #[cfg(not(feature = "vmem"))]
            (true, false) => stack_sizes!(ConcurrentStackRB, $T, $spec, $ctx, $vals),
            #[cfg(not(feature = "vmem"))]
            (false, false) => stack_sizes!(LocalStackRB, $T, $spec, $ctx, $vals),
            #[cfg(feature = "vmem")]
            _ => panic!("harness: no stack buffers under vmem"),
        }
    };
}

pub struct CaseResult {
    pub failures: Vec<Failure>,
    pub executed: Vec<Op>,
    pub stats: Stats,
    pub final_obs: Obs,
}

/// Runs one case. `source` yields the operations; `driver` (optional) is the Lean model.
pub fn run_case<'a>(spec: &CaseSpec, source: Source<'a>, driver: Option<&'a mut Driver>, log: Option<&'a mut std::fs::File>, stop_on_failure: bool) -> CaseResult {
    tok::reset_ledger();
    FREED.store(0, Ordering::SeqCst);
    crate::exec::LAST_BOX.store(0, Ordering::SeqCst);
    let vals = init_vals(spec.len, spec.zeroed, &spec.uni);
    let owned = spec.uni.owned();
    let oracle = Oracle::new(vals.clone(), spec.has_w, spec.heap, owned);
    let mut ctx = Ctx { oracle, source, driver, failures: vec![], executed: vec![], stats: Stats::default(), log, stop_on_failure, uni: spec.uni.clone(), final_obs: Obs::default(), seam_seen: false };
    if let Some(l) = ctx.log.as_mut() { let _ = writeln!(l, "{}", spec.header()); let _ = l.flush(); }
    if let Some(d) = ctx.driver.as_mut() {
        let line = format!("{} {} {} {} {} {}", if cfg!(feature = "vmem") { "initvm" } else { "init" }, spec.len, spec.has_w as u8, spec.heap as u8, owned as u8, vals.iter().map(|v| v.to_string()).collect::<Vec<_>>().join(" "));
        let a = d.ask(&line);
        if !a.starts_with("ok ") { ctx.failures.push(Failure { kind: "model", tags: vec![], step: 0, op: line, detail: format!("driver refused the case: {a}") }); }
    }
    {
        let ctxr = &mut ctx;
        match spec.uni {
            Universe::U64 => universe_case!(u64, spec, ctxr, vals),
            Universe::Tok => universe_case!(Tok, spec, ctxr, vals),
            Universe::Tok12 => universe_case!(Tok12, spec, ctxr, vals),
            Universe::C12 => universe_case!(C12, spec, ctxr, vals),
        }
    }
    // a heap buffer that the life-cycle oracle counts as released must really have been deallocated, exactly once
    // (the hook event alone would also be emitted by a release that forgets the deallocation)
    if spec.heap && !cfg!(feature = "vmem") && !(stop_on_failure && !ctx.failures.is_empty()) {
        let addr = crate::exec::LAST_BOX.load(Ordering::SeqCst);
        if addr != 0 {
            let frees = crate::alloc_watch::frees_of(addr).unwrap_or(0);
            if frees != ctx.oracle.freed.min(1) {
                ctx.failures.push(Failure { kind: "oracle", tags: vec!["C07"], step: ctx.executed.len(), op: "<end of case>".into(),
                    detail: format!("the allocation holding the heap buffer {} deallocated, the life cycle requires {} release(s) (release events observed: {})", if frees == 0 { "has not been" } else { "has been" }, ctx.oracle.freed, ctx.final_obs.freed) });
            }
        }
    }
    // ownership ledger: by now every token ever created must have been destroyed exactly once
    if owned && !(stop_on_failure && !ctx.failures.is_empty()) {
        let (bad, dz, bc) = tok::LEDGER.with(|l| {
            let l = l.borrow();
            let mut bad: Vec<(u64, u32)> = vec![];
            for (id, _) in l.created.iter() { let d = l.dropped.get(id).copied().unwrap_or(0); if d != 1 { bad.push((*id, d)); } }
            bad.sort();
            (bad, l.drop_zero, l.bad_canary)
        });
        if !bad.is_empty() || bc > 0 {
            // a destructor that ran on something that is not a token (broken canary) was run on a slot that never held a value: C09 as well
            ctx.failures.push(Failure { kind: "oracle", tags: if bc > 0 { vec!["C08", "C09"] } else { vec!["C08"] }, step: ctx.executed.len(), op: "<end of case>".into(),
                detail: format!("tokens not destroyed exactly once (id, destructor runs): {:?}; broken canaries: {bc}", &bad[..bad.len().min(8)]) });
        }
        if dz > 0 { ctx.failures.push(Failure { kind: "oracle", tags: vec!["C09"], step: ctx.executed.len(), op: "<end of case>".into(), detail: format!("{dz} destructor run(s) on all-zero slots") }); }
    }
    CaseResult { failures: ctx.failures, executed: ctx.executed, stats: ctx.stats, final_obs: ctx.final_obs }
}

/// Delta-debugging on the operation list: keeps the first failure's kind (and a common tag) alive.
pub fn shrink(spec: &CaseSpec, ops: Vec<Op>, want_kind: &'static str, want_tag: Option<&'static str>, driver_path: Option<&str>) -> Vec<Op> {
    let still_fails = |ops: &Vec<Op>| -> bool {
        let mut d = driver_path.and_then(|p| Driver::spawn(p).ok());
        let r = run_case(spec, Source::Replay { ops: ops.clone(), at: 0 }, d.as_mut(), None, true);
        r.failures.iter().any(|f| f.kind == want_kind && want_tag.map(|t| f.tags.contains(&t)).unwrap_or(true))
    };
    let mut cur = ops;
    let mut chunk = (cur.len() / 2).max(1);
    let mut budget = 400;
    while chunk >= 1 && budget > 0 {
        let mut i = 0;
        let mut progressed = false;
        while i < cur.len() && budget > 0 {
            let mut cand = cur.clone();
            let end = (i + chunk).min(cand.len());
            cand.drain(i..end);
            budget -= 1;
            if still_fails(&cand) { cur = cand; progressed = true; } else { i += chunk; }
        }
        if chunk == 1 && !progressed { break; }
        if !progressed { chunk /= 2; }
    }
    cur
}
