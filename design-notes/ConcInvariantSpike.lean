/-
  DESIGN ATTACHMENT (feasibility spike, NOT part of the verification framework, not built by any check).
  Written during the design phase to choose representations for MRB/Conc (DESIGN.md section 3.6, appendix A).
  Checks with plain `lean ConcInvariantSpike.lean` in ~5 s; axioms: propext, Classical.choice, Quot.sound.
  Contents: 3-stage primitive release/acquire machine over logical positions, invariant J1..J5 (`CInv`),
  race freedom of an in-window access (`access_no_race`) and preservation of the invariant by the three
  step kinds `refresh` (acquire), `advance` (move+release publish) and `access`.
  Missing relative to the design: physical (mod len) availability formulas, orderings as generated
  parameters, reset/go_back/detached moves, the 2-stage wiring, the content invariant for C02, reachability wrapper.
-/
/- Throw-away spike: 3-stage primitive RA machine, logical positions, invariant J1..J5.  -/
inductive Tid | P | W | C deriving DecidableEq, Repr

structure VC where
  p : Nat
  w : Nat
  c : Nat
deriving Repr, DecidableEq

namespace VC
def get (v : VC) : Tid → Nat | .P => v.p | .W => v.w | .C => v.c
def join (a b : VC) : VC := ⟨max a.p b.p, max a.w b.w, max a.c b.c⟩
def tick (v : VC) : Tid → VC
  | .P => { v with p := v.p + 1 } | .W => { v with w := v.w + 1 } | .C => { v with c := v.c + 1 }
def zero : VC := ⟨0,0,0⟩
end VC

structure Msg where
  val : Nat
  vc  : VC
deriving Repr

structure Thr where
  pos : Nat
  cached : Nat
  k : Nat          -- logical value of the last message read from the leader (ghost for seen)
  vc : VC
deriving Repr

/-- last access record of thread `u` on a slot -/
structure Rec where
  stamp : Nat
  q : Nat
deriving Repr

structure St where
  L : Nat
  tP : Thr
  tW : Thr
  tC : Thr
  hP : List Msg
  hW : List Msg
  hC : List Msg
  acc : Nat → Tid → Option Rec    -- slot → thread → last access
  raced : Bool

namespace St
def thr (s : St) : Tid → Thr | .P => s.tP | .W => s.tW | .C => s.tC
def hist (s : St) : Tid → List Msg | .P => s.hP | .W => s.hW | .C => s.hC
def setThr (s : St) (t : Tid) (x : Thr) : St :=
  match t with | .P => { s with tP := x } | .W => { s with tW := x } | .C => { s with tC := x }
def pushMsg (s : St) (t : Tid) (m : Msg) : St :=
  match t with | .P => { s with hP := s.hP ++ [m] } | .W => { s with hW := s.hW ++ [m] } | .C => { s with hC := s.hC ++ [m] }
end St

def lead : Tid → Tid | .W => .P | .C => .W | .P => .C
def slack (L : Nat) : Tid → Nat | .P => L - 1 | _ => 0
/-- how far behind `t`'s published value the accesses of `u` are certified -/
def shift (L : Nat) : Tid → Tid → Nat
  | .W, .C => L - 1 | .P, .W => L - 1 | .P, .C => L - 1 | _, _ => 0
/-- thread certificate bound: accesses of u below this are in t's clock -/
def bound (s : St) : Tid → Tid → Nat
  | .W, .P => s.tW.k | .W, .C => s.tW.k - (s.L - 1)
  | .C, _ => s.tC.k | .P, _ => s.tP.k
  | .W, .W => 0

def lastVal (h : List Msg) : Nat := (h.getLast?.map (·.val)).getD 0

structure CInv (s : St) : Prop where
  hL : 1 ≤ s.L
  j1a : ∀ t, ∀ m ∈ s.hist t, m.val ≤ lastVal (s.hist t)
  j1b : ∀ t, lastVal (s.hist t) ≤ (s.thr t).pos
  j2  : ∀ t, (s.thr t).pos + (s.thr t).cached ≤ (s.thr t).k + slack s.L t
  j2k : ∀ t, (s.thr t).k ≤ lastVal (s.hist (lead t))
  j3  : ∀ j u r, s.acc j u = some r → r.q % s.L = j ∧ r.q < (s.thr u).k + slack s.L u ∧ r.stamp ≤ ((s.thr u).vc).get u
  j4  : ∀ t, ∀ m ∈ s.hist t, ∀ j u r, s.acc j u = some r → r.q + shift s.L t u < m.val → r.stamp ≤ m.vc.get u
  j5  : ∀ t u, t ≠ u → ∀ j r, s.acc j u = some r → r.q < bound s t u → r.stamp ≤ ((s.thr t).vc).get u

/-- Race check for an access of `t` on slot `j`. -/
def racy (s : St) (t : Tid) (j : Nat) : Prop :=
  ∃ u r, u ≠ t ∧ s.acc j u = some r ∧ ¬ r.stamp ≤ ((s.thr t).vc).get u

theorem mod_lt_step {L q q' : Nat} (hL : 1 ≤ L) (h1 : q' % L = q % L) (h2 : q' < q + L) : q' ≤ q := by
  rcases Nat.lt_or_ge q q' with h | h
  · exfalso
    have hd : (q' - q) % L = 0 := by
      have := Nat.sub_mod_eq_zero_of_mod_eq h1
      simpa using this
    have hlt : q' - q < L := by omega
    rw [Nat.mod_eq_of_lt hlt] at hd
    omega
  · exact h

theorem mod_lt_add {L a b : Nat} (hL : 1 ≤ L) (h1 : a % L = b % L) (h2 : a < b) : a + L ≤ b := by
  rcases Nat.lt_or_ge b (a + L) with h | h
  · exfalso
    have hd : (b - a) % L = 0 := Nat.sub_mod_eq_zero_of_mod_eq h1.symm
    rw [Nat.mod_eq_of_lt (by omega)] at hd
    omega
  · exact h

/-- The heart of C03: under the invariant, an access inside the granted window does not race. -/
theorem access_no_race (s : St) (h : CInv s) (t : Tid) (q : Nat)
    (hq1 : (s.thr t).pos ≤ q) (hq2 : q < (s.thr t).pos + (s.thr t).cached) :
    ¬ racy s t (q % s.L) := by
  rintro ⟨u, r, hut, hacc, hbad⟩
  apply hbad
  obtain ⟨hmod, hlt, _⟩ := h.j3 _ _ _ hacc
  apply h.j5 t u (Ne.symm hut) _ r hacc
  have hL := h.hL
  have hA : r.q < q + s.L → r.q ≤ q := fun hh => mod_lt_step hL hmod hh
  have hB : r.q < q → r.q + s.L ≤ q := fun hh => mod_lt_add hL hmod hh
  have j2 := h.j2; have j2k := h.j2k; have j1b := h.j1b
  have j2P := j2 .P; have j2W := j2 .W; have j2C := j2 .C
  have kP := j2k .P; have kW := j2k .W; have kC := j2k .C
  have bP := j1b .P; have bW := j1b .W; have bC := j1b .C
  simp only [St.thr, St.hist, lead, slack] at *
  cases t <;> cases u <;> simp only [bound, slack, St.thr, ne_eq, reduceCtorEq, not_true_eq_false, not_false_eq_true] at * <;> omega
#print axioms access_no_race

/-! ### steps -/
@[simp] theorem thr_setThr (s : St) (t u : Tid) (x : Thr) :
    (s.setThr t x).thr u = if u = t then x else s.thr u := by
  cases t <;> cases u <;> simp [St.setThr, St.thr]
@[simp] theorem hist_setThr (s : St) (t u : Tid) (x : Thr) : (s.setThr t x).hist u = s.hist u := by
  cases t <;> cases u <;> rfl
@[simp] theorem acc_setThr (s : St) (t : Tid) (x : Thr) : (s.setThr t x).acc = s.acc := by
  cases t <;> rfl
@[simp] theorem L_setThr (s : St) (t : Tid) (x : Thr) : (s.setThr t x).L = s.L := by
  cases t <;> rfl

theorem VC.get_join (a b : VC) (u : Tid) : (a.join b).get u = max (a.get u) (b.get u) := by
  cases u <;> rfl
theorem VC.get_tick (a : VC) (t u : Tid) : (a.tick t).get u = if u = t then a.get u + 1 else a.get u := by
  cases t <;> cases u <;> simp [VC.tick, VC.get]

/-- acquire-load of message `m` of the leader (release/acquire: the view is joined). -/
def refresh (s : St) (t : Tid) (m : Msg) : St :=
  let th := s.thr t
  s.setThr t { th with k := m.val, vc := (th.vc.tick t).join m.vc,
                       cached := m.val + slack s.L t - th.pos }

theorem refresh_inv (s : St) (h : CInv s) (t : Tid) (m : Msg)
    (hm : m ∈ s.hist (lead t)) (hcoh : (s.thr t).k ≤ m.val) : CInv (refresh s t m) := by
  have hL := h.hL
  have hmle := h.j1a (lead t) m hm
  have j2t := h.j2 t
  constructor
  · simpa [refresh] using hL
  · intro u m' hm'; simpa [refresh] using h.j1a u m' (by simpa [refresh] using hm')
  · intro u; simp only [refresh, thr_setThr, hist_setThr]; split
    · subst_vars; simpa using h.j1b _
    · exact h.j1b u
  · intro u; simp only [refresh, thr_setThr, L_setThr]; split
    · subst_vars; simp only; omega
    · exact h.j2 u
  · intro u; simp only [refresh, thr_setThr, hist_setThr]; split
    · subst_vars; simpa using hmle
    · exact h.j2k u
  · intro j u r hr
    simp only [refresh, acc_setThr] at hr
    obtain ⟨a, b, c⟩ := h.j3 j u r hr
    simp only [refresh, thr_setThr, L_setThr]
    refine ⟨a, ?_, ?_⟩
    · split
      · subst_vars; simp only; omega
      · exact b
    · split
      · subst_vars; simp only [VC.get_join, VC.get_tick]; simp; omega
      · exact c
  · intro u m' hm' j v r hr hlt
    simp only [refresh, acc_setThr, hist_setThr, L_setThr] at *
    exact h.j4 u m' hm' j v r hr hlt
  · intro t' u hne j r hr hlt
    simp only [refresh, acc_setThr] at hr
    simp only [refresh, thr_setThr]
    by_cases htt : t' = t
    · subst htt
      simp only [if_true, VC.get_join, VC.get_tick, if_neg (Ne.symm hne)]
      -- new knowledge: from the message certificate J4
      have cert := h.j4 (lead t') m hm j u r hr
      have old := h.j5 t' u hne j r hr
      have : r.stamp ≤ m.vc.get u ∨ r.stamp ≤ ((s.thr t').vc).get u := by
        cases t' <;> cases u <;>
          simp only [bound, refresh, St.setThr, St.thr, lead, shift, slack, ne_eq, reduceCtorEq,
            not_true_eq_false, not_false_eq_true] at * <;>
          first
          | (left; apply cert; omega)
          | (right; apply old; omega)
          | contradiction
      omega
    · simp only [if_neg htt]
      apply h.j5 t' u hne j r hr
      -- bound of an unchanged thread is unchanged
      cases t' <;> cases t <;> cases u <;>
        simp_all [bound, refresh, St.setThr, St.thr]
#print axioms refresh_inv

@[simp] theorem thr_pushMsg (s : St) (t u : Tid) (m : Msg) : (s.pushMsg t m).thr u = s.thr u := by
  cases t <;> cases u <;> rfl
@[simp] theorem hist_pushMsg (s : St) (t u : Tid) (m : Msg) :
    (s.pushMsg t m).hist u = if u = t then s.hist u ++ [m] else s.hist u := by
  cases t <;> cases u <;> simp [St.pushMsg, St.hist]
@[simp] theorem acc_pushMsg (s : St) (t : Tid) (m : Msg) : (s.pushMsg t m).acc = s.acc := by
  cases t <;> rfl
@[simp] theorem L_pushMsg (s : St) (t : Tid) (m : Msg) : (s.pushMsg t m).L = s.L := by
  cases t <;> rfl
@[simp] theorem lastVal_append (h : List Msg) (m : Msg) : lastVal (h ++ [m]) = m.val := by
  simp [lastVal]

/-- move the local index by `n ≤ cached` and publish with a release store. -/
def advance (s : St) (t : Tid) (n : Nat) : St :=
  let th := s.thr t
  let vc' := th.vc.tick t
  (s.setThr t { th with pos := th.pos + n, cached := th.cached - n, vc := vc' }).pushMsg t ⟨th.pos + n, vc'⟩

theorem bound_congr (s s' : St) (hL : s'.L = s.L) (hk : ∀ t, (s'.thr t).k = (s.thr t).k) (t u : Tid) :
    bound s' t u = bound s t u := by
  have := hk .P; have := hk .W; have := hk .C
  cases t <;> cases u <;> simp_all [bound, St.thr]

theorem advance_inv (s : St) (h : CInv s) (t : Tid) (n : Nat) (hn : n ≤ (s.thr t).cached) :
    CInv (advance s t n) := by
  have hL := h.hL
  have j2t := h.j2 t
  have j1bt := h.j1b t
  have hk : ∀ u, ((advance s t n).thr u).k = (s.thr u).k := by
    intro u; simp only [advance, thr_pushMsg, thr_setThr]; split <;> simp_all
  have hLL : (advance s t n).L = s.L := by simp [advance]
  constructor
  · simpa [advance] using hL
  · intro u m' hm'
    simp only [advance, hist_pushMsg, hist_setThr] at hm' ⊢
    split at hm'
    · subst_vars
      simp only [if_true, lastVal_append]
      rcases List.mem_append.1 hm' with hm' | hm'
      · have := h.j1a _ m' hm'; omega
      · simp at hm'; subst hm'; simp
    · rename_i hne; simp only [if_neg hne]; exact h.j1a u m' hm'
  · intro u; simp only [advance, thr_pushMsg, thr_setThr, hist_pushMsg, hist_setThr]
    split
    · subst_vars; simp
    · exact h.j1b u
  · intro u; simp only [advance, thr_pushMsg, thr_setThr, L_pushMsg, L_setThr]
    split
    · subst_vars; simp only; omega
    · exact h.j2 u
  · intro u; simp only [advance, thr_pushMsg, thr_setThr, hist_pushMsg, hist_setThr]
    have := h.j2k u
    have key : (if u = t then (s.thr t : Thr) else s.thr u).k = (s.thr u).k := by split <;> simp_all
    by_cases hl : lead u = t
    · simp only [hl, if_true, lastVal_append]
      rw [hl] at this
      split <;> (simp_all; try omega)
    · simp only [if_neg hl]; split <;> simp_all
  · intro j u r hr
    simp only [advance, acc_pushMsg, acc_setThr] at hr
    obtain ⟨a, b, c⟩ := h.j3 j u r hr
    simp only [advance, thr_pushMsg, thr_setThr, L_pushMsg, L_setThr]
    refine ⟨a, ?_, ?_⟩
    · split
      · subst_vars; exact b
      · exact b
    · split
      · subst_vars; simp only [VC.get_tick]; simp; omega
      · exact c
  · -- J4: old messages keep their certificates; the new message is certified by J5 (release!)
    intro u m' hm' j v r hr hlt
    simp only [advance, acc_pushMsg, acc_setThr, hist_pushMsg, hist_setThr, L_pushMsg, L_setThr] at *
    split at hm'
    · subst_vars
      rcases List.mem_append.1 hm' with hm' | hm'
      · exact h.j4 _ m' hm' j v r hr hlt
      · simp at hm'; subst hm'
        simp only [VC.get_tick]
        by_cases hvu : v = u
        · subst hvu
          have := (h.j3 j v r hr).2.2
          simp; omega
        · simp only [if_neg hvu]
          apply h.j5 u v (Ne.symm hvu) j r hr
          have j2u := h.j2 u
          cases u <;> cases v <;>
            simp only [bound, shift, slack, St.thr, ne_eq, reduceCtorEq, not_true_eq_false,
              not_false_eq_true] at * <;> omega
    · exact h.j4 u m' hm' j v r hr hlt
  · intro t' u hne j r hr hlt
    simp only [advance, acc_pushMsg, acc_setThr] at hr
    rw [bound_congr s _ hLL hk] at hlt
    have old := h.j5 t' u hne j r hr hlt
    simp only [advance, thr_pushMsg, thr_setThr]
    split
    · subst_vars; simp only [VC.get_tick, if_neg (Ne.symm hne)]; exact old
    · exact old
#print axioms advance_inv

/-- a slot access inside the granted window (treated as a write). -/
def access (s : St) (t : Tid) (q : Nat) : St :=
  let th := s.thr t
  let vc' := th.vc.tick t
  let s1 := s.setThr t { th with vc := vc' }
  { s1 with acc := fun j u => if j = q % s.L ∧ u = t then some ⟨vc'.get t, q⟩ else s1.acc j u }

theorem access_inv (s : St) (h : CInv s) (t : Tid) (q : Nat)
    (hq1 : (s.thr t).pos ≤ q) (hq2 : q < (s.thr t).pos + (s.thr t).cached) :
    CInv (access s t q) := by
  have hL := h.hL
  have hthr : ∀ u, (access s t q).thr u = if u = t then { s.thr t with vc := (s.thr t).vc.tick t } else s.thr u := by
    intro u; cases t <;> cases u <;> simp [access, St.setThr, St.thr]
  have hhist : ∀ u, (access s t q).hist u = s.hist u := by
    intro u; cases t <;> cases u <;> rfl
  have hLL : (access s t q).L = s.L := by cases t <;> rfl
  have hacc : ∀ j u, (access s t q).acc j u =
      if j = q % s.L ∧ u = t then some ⟨((s.thr t).vc.tick t).get t, q⟩ else s.acc j u := by
    intro j u; cases t <;> simp [access, St.setThr]
  have hk : ∀ u, ((access s t q).thr u).k = (s.thr u).k := by
    intro u; rw [hthr]; split <;> simp_all
  have hpos : ∀ u, ((access s t q).thr u).pos = (s.thr u).pos := by
    intro u; rw [hthr]; split <;> simp_all
  have hcached : ∀ u, ((access s t q).thr u).cached = (s.thr u).cached := by
    intro u; rw [hthr]; split <;> simp_all
  have hvc : ∀ u v, ((s.thr u).vc).get v ≤ (((access s t q).thr u).vc).get v := by
    intro u v; rw [hthr]; split
    · subst_vars; simp only [VC.get_tick]; split <;> omega
    · exact Nat.le_refl _
  have j2 := h.j2; have j2k := h.j2k; have j1b := h.j1b; have j1a := h.j1a
  have j2P := j2 .P; have j2W := j2 .W; have j2C := j2 .C
  have kP := j2k .P; have kW := j2k .W; have kC := j2k .C
  have bP := j1b .P; have bW := j1b .W; have bC := j1b .C
  constructor
  · rw [hLL]; exact hL
  · intro u m hm; rw [hhist] at hm ⊢; exact h.j1a u m hm
  · intro u; rw [hhist, hpos]; exact h.j1b u
  · intro u; rw [hpos, hcached, hk, hLL]; exact h.j2 u
  · intro u; rw [hk, hhist]; exact h.j2k u
  · intro j u r hr
    rw [hacc] at hr; rw [hLL, hk]
    split at hr
    · rename_i hc; obtain ⟨hj, hu⟩ := hc; subst hu; subst hj
      cases hr
      refine ⟨rfl, ?_, ?_⟩
      · have := h.j2 u; simp only; omega
      · rw [hthr]; simp
    · obtain ⟨a, b, c⟩ := h.j3 j u r hr
      exact ⟨a, b, Nat.le_trans c (hvc u u)⟩
  · -- J4 stability: the new record lies above every certified frontier
    intro u m hm j v r hr hlt
    rw [hhist] at hm; rw [hacc] at hr; rw [hLL] at hlt
    split at hr
    · rename_i hc; obtain ⟨hj, hv⟩ := hc; subst hv; cases hr
      exfalso
      have hmle := j1a u m hm
      simp only [St.thr, St.hist, lead, slack] at *
      cases u <;> cases v <;> simp only [shift, St.thr, St.hist] at * <;> omega
    · exact h.j4 u m hm j v r hr hlt
  · intro t' u hne j r hr hlt
    rw [hacc] at hr
    rw [bound_congr s _ hLL hk] at hlt
    split at hr
    · rename_i hc; obtain ⟨hj, hu⟩ := hc; subst hu; cases hr
      exfalso
      simp only [St.thr, St.hist, lead, slack] at *
      cases t' <;> cases u <;> simp only [bound, St.thr, ne_eq, reduceCtorEq, not_true_eq_false,
        not_false_eq_true] at * <;> omega
    · exact Nat.le_trans (h.j5 t' u hne j r hr hlt) (hvc t' u)
#print axioms access_inv
