/-
  C08 — every stored value is destroyed exactly once (no leak, no double drop).
  (Assumption of the property: live values are never all-zero bytes; in the model: tokens are non-zero.)
-/
import MRB.Seq.Run
import MRB.Seq.Discipline

namespace MRB.Props.C08
open MRB

/-- `*p = v` (plain `push`, `push_slice_clone`, stores through `&mut T`): the old value is destroyed exactly
    once, before the new one is stored; nothing else is destroyed. -/
theorem C08_assign_drops_old_once (s : St) (i v : Nat) (ho : s.owned = true) (hocc : s.slotAt i ≠ 0) :
    (assignSlot s i v).drops = s.drops ++ [s.slotAt i] ∧ (assignSlot s i v).slots = s.slots.set i v ∧ (assignSlot s i v).fault = s.fault := by
  simp [assignSlot, ho, hocc, St.setSlot]

/-- `p.write(v)` destroys nothing; the `*_init` stores use it exactly for empty slots and assign otherwise,
    so they never leak an occupied slot and never destroy an empty one. -/
theorem C08_init_store (s : St) (i v : Nat) (ho : s.owned = true) :
    (s.slotAt i = 0 → (initSlot s i v).drops = s.drops ∧ (initSlot s i v).fault = s.fault) ∧
    (s.slotAt i ≠ 0 → (initSlot s i v).drops = s.drops ++ [s.slotAt i] ∧ (initSlot s i v).fault = s.fault) ∧
    (initSlot s i v).slots = s.slots.set i v := by
  refine ⟨fun h => ?_, fun h => ?_, ?_⟩
  · simp [initSlot, h, writeSlot, St.setSlot]
  · simp [initSlot, h, assignSlot, ho, St.setSlot]
  · unfold initSlot; split
    · rfl
    · exact (assignSlot_ok s i v).2

/-- Releasing the storage destroys exactly the occupied slots, each once, in slot order, and skips empty ones. -/
theorem C08_release_drops_occupied_once (s : St) (ho : s.owned = true) :
    (releaseStorage s).drops = s.drops ++ s.slots.filter (· ≠ 0) := by simp [releaseStorage, ho]

/-- `pop_move` hands the value to the caller and leaves the slot empty, so a later release or `*_init` push does
    not destroy it a second time; a refused push gives the value back (C05) and stores nothing. -/
theorem C08_pop_move_empties_slot {s : St} {a : Sp} (h : Rel s a) (hal : Allowed s a .popMove) (hav : 1 ≤ a.avail .C) :
    (step s .popMove).2 = .item (a.hist.getD a.posC 0) ∧ (step s .popMove).1.slots.getD (a.posC % s.len) 0 = 0 ∧
    (step s .popMove).1.drops = s.drops := by
  obtain ⟨h1, hok, hca, hidx⟩ := check_spec h .C 1 (by simp)
  have hv := (deliverOne_spec h hal.2 readGuard (fun t v => readGuard_frame t v) true).2
  simp only [hav, if_true] at hv hok
  have hi : ((check s .C 1).1.it .C).idx = a.posC % s.len := by rw [hidx]; exact h.idxC
  have hlen : (check s .C 1).1.len = s.len := by rw [← h1.len_eq, h.len_eq]
  have hsl : a.posC % s.len < (check s .C 1).1.slots.length := by rw [h1.slots_len, hlen]; exact Nat.mod_lt _ h.len_pos
  have hdr : (check s .C 1).1.drops = s.drops := by simp [check, St.setIt]
  refine ⟨by simpa [step, Sp.valAt] using hv, ?_, ?_⟩
  · simp only [step, hok, decide_true, if_true, advanceGlobal]
    rw [applyGen_setSlot, hi]
    simp only [St.setSlot]
    rw [getD_set _ _ _ _ (by rw [(applyGen_it _ _ _ _ _ _).2.2.2.2.2.2, (readGuard_frame _ _).2]; exact hsl)]
    simp
  · simp only [step, hok, decide_true, if_true, advanceGlobal]
    rw [applyGen_setSlot]
    simp only [St.setSlot]
    have : ∀ t : St, (applyGen t .C Gen.advance.index' Gen.advance.cached' Gen.advance.pub' 1).drops = t.drops := by
      intro t; simp only [applyGen, St.it, St.setIt]; split <;> simp [St.setPub, pubFld] <;> cases Gen.consPub <;> rfl
    rw [this]
    have : ∀ (t : St) v, (readGuard t v).drops = t.drops := by
      intro t v; unfold readGuard St.setFault; split <;> (try split) <;> rfl
    rw [this, hdr]

/-- **Conservation over whole histories.** For items with a destructor, from any freshly split buffer, over any
contract-respecting history of the owned-item operations (any length, any buffer length, two or three stages,
iterators dropped at any point), provided no undefined behaviour was recorded: for every token `t`,
`copies in the (unreleased) buffer + destructor runs + copies handed to the caller by pop_move
   = copies in the initial contents + copies stored by successful pushes and in-place stores`.
A refused push stores nothing (its value goes back to the caller, C05). -/
theorem C08_conservation (slots : List Nat) (hasW heap : Bool) (hlen : 1 ≤ slots.length) (hlt : slots.length < 2 ^ 63) (ops : List Op)
    (hal : AllowedRun (St.init slots hasW heap true) (Sp.init slots.length hasW) ops)
    (hown : ∀ op ∈ ops, OwnedOp op = true)
    (hnf : (run (St.init slots hasW heap true) ops).1.fault = none) (t : Nat) (ht : t ≠ 0) :
    (run (St.init slots hasW heap true) ops).1.bal t + (handedAll ops (run (St.init slots hasW heap true) ops).2).count t =
      slots.count t + (storedAll ops (run (St.init slots hasW heap true) ops).2).count t := by
  have := ledger_run (rel_init slots hasW heap true hlen hlt) (lifeInv_init slots hasW heap true) rfl ops hal hown hnf t ht
  rw [this]; simp [St.bal, St.inBuf, St.init]

/-- **Destroyed exactly once.** If moreover the tokens are pairwise distinct and the history ends with the buffer
released, every token that was ever in the buffer was either destroyed exactly once (and never handed out) or handed
to the caller exactly once (and never destroyed by the buffer): no leak, no double drop. -/
theorem C08_exactly_once (slots : List Nat) (hasW heap : Bool) (hlen : 1 ≤ slots.length) (hlt : slots.length < 2 ^ 63) (ops : List Op)
    (hal : AllowedRun (St.init slots hasW heap true) (Sp.init slots.length hasW) ops)
    (hown : ∀ op ∈ ops, OwnedOp op = true)
    (hnf : (run (St.init slots hasW heap true) ops).1.fault = none)
    (hrel : (run (St.init slots hasW heap true) ops).1.freed ≠ 0)
    (hnd : (slots.filter (· ≠ 0) ++ storedAll ops (run (St.init slots hasW heap true) ops).2).Nodup)
    (t : Nat) (ht : t ≠ 0) (hmem : t ∈ slots ++ storedAll ops (run (St.init slots hasW heap true) ops).2) :
    (run (St.init slots hasW heap true) ops).1.drops.count t +
      (handedAll ops (run (St.init slots hasW heap true) ops).2).count t = 1 :=
  exactly_once slots hasW heap hlen hlt ops hal hown hnf hrel hnd t ht hmem

/-- The same for histories that follow the init discipline (`MRB.Seq.Discipline`): there the absence of undefined
behaviour is a theorem (`C09_no_zero_use`), not a hypothesis. -/
theorem C08_exactly_once_init_discipline (slots : List Nat) (hasW heap : Bool) (hlen : 1 ≤ slots.length) (hlt : slots.length < 2 ^ 63) (ops : List Op)
    (hal : AllowedRun (St.init slots hasW heap true) (Sp.init slots.length hasW) ops) (hd : DiscRun ops)
    (hrel : (run (St.init slots hasW heap true) ops).1.freed ≠ 0)
    (hnd : (slots.filter (· ≠ 0) ++ storedAll ops (run (St.init slots hasW heap true) ops).2).Nodup)
    (t : Nat) (ht : t ≠ 0) (hmem : t ∈ slots ++ storedAll ops (run (St.init slots hasW heap true) ops).2) :
    (run (St.init slots hasW heap true) ops).1.drops.count t +
      (handedAll ops (run (St.init slots hasW heap true) ops).2).count t = 1 :=
  exactly_once slots hasW heap hlen hlt ops hal (fun op h => (hd op h).owned)
    (no_fault_run (rel_init slots hasW heap true hlen hlt) (NZ.init _ _) rfl ops hal hd).1 hrel hnd t ht hmem

/-- And for the "always full" discipline (buffer built from existing data, plain stores, clone/peek only): every initial
and every stored token is destroyed exactly once — by the store that replaces it or by the release of the buffer. -/
theorem C08_exactly_once_full_discipline (slots : List Nat) (hasW heap : Bool) (hlen : 1 ≤ slots.length) (hlt : slots.length < 2 ^ 63) (hocc : ∀ v ∈ slots, v ≠ 0)
    (ops : List Op) (hal : AllowedRun (St.init slots hasW heap true) (Sp.init slots.length hasW) ops)
    (hd : ∀ op ∈ ops, DiscFull op)
    (hrel : (run (St.init slots hasW heap true) ops).1.freed ≠ 0)
    (hnd : (slots.filter (· ≠ 0) ++ storedAll ops (run (St.init slots hasW heap true) ops).2).Nodup)
    (t : Nat) (ht : t ≠ 0) (hmem : t ∈ slots ++ storedAll ops (run (St.init slots hasW heap true) ops).2) :
    (run (St.init slots hasW heap true) ops).1.drops.count t +
      (handedAll ops (run (St.init slots hasW heap true) ops).2).count t = 1 :=
  exactly_once slots hasW heap hlen hlt ops hal (fun op h => (hd op h).owned)
    (full_run (rel_init slots hasW heap true hlen hlt)
      (by intro i hi; simp only [St.init] at hi ⊢; exact getD_ne_zero_of_mem slots i hi hocc) rfl ops hal hd).1 hrel hnd t ht hmem

/-- Tie to the source: which store each push form performs, and the exact shape of the cell primitives
    (`check_zeroed` looks at every byte, `take_inner` leaves zeros, the cell destructor skips all-zero cells,
    the slice copy moves `len` whole items). -/
theorem C08_source_store_kinds :
    Gen.storePush = .assign ∧ Gen.storePushInit = .initBranch ∧ Gen.storePushSlice = .copyAll ∧
    Gen.storePushSliceInit = .perSlotInitCopy ∧ Gen.storePushSliceClone = .cloneAll ∧ Gen.storePushSliceCloneInit = .perSlotInitClone ∧
    Gen.cellFacts = { checkZeroedAllBytes := true, takeInnerLeavesZeros := true, duplicateLeavesCell := true,
                      dropSkipsZeroed := true, copyWholeSlice := true } :=
  ⟨rfl, rfl, rfl, rfl, rfl, rfl, rfl⟩

/-- Non-vacuity: owned items, three overwrites (each old value destroyed once), pop_move (5 handed out, not destroyed), refused push (8 given back), release (6, 7 destroyed once). -/
example :
    let ops : List Op := [.push 5, .push 6, .popMove, .pushInit 7, .pushInit 8, .dropIt .P, .dropIt .C]
    let r := run (St.init [1, 2, 3] false true true) ops
    r.1.drops = [1, 2, 3, 6, 7] ∧ r.1.freed = 1 ∧ r.1.fault = none ∧ r.2 = [.ok, .ok, .item 5, .ok, .err 8, .ok, .ok] := by decide

/-- Non-vacuity of the history-level theorems: a zeroed three-slot heap buffer, init pushes of distinct tokens around
the ring, a `pop_move`, a clone, both iterators dropped: the hypotheses of `C08_exactly_once_init_discipline` hold. -/
def exOps : List Op := [.pushInit 5, .pushInit 6, .popMove, .pushInit 7, .cloneItem, .pushInit 8, .dropIt .P, .dropIt .C]

example : AllowedRun (St.init [0, 0, 0] false true true) (Sp.init 3 false) exOps := by
  simp only [exOps, AllowedRun, Allowed]; decide
example : DiscRun exOps := by
  intro op h; simp [exOps] at h; rcases h with h | h | h | h | h | h | h | h <;> subst h <;> simp [Disc]
example :
    (run (St.init [0, 0, 0] false true true) exOps).1.freed = 1 ∧
    storedAll exOps (run (St.init [0, 0, 0] false true true) exOps).2 = [5, 6, 7, 8] ∧
    handedAll exOps (run (St.init [0, 0, 0] false true true) exOps).2 = [5] ∧
    (run (St.init [0, 0, 0] false true true) exOps).1.drops = [8, 6, 7] := by decide

end MRB.Props.C08
