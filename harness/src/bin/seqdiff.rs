//! seqdiff: sequential differential run for one profile. See `--help` text below.
use mrb_harness::driver::Driver;
use mrb_harness::exec;
use mrb_harness::gen::{profile, Gen};
use mrb_harness::json::{arr, esc, obj, strs};
use mrb_harness::rng::Rng;
use mrb_harness::runner::{run_case, shrink, CaseSpec, Source, Universe, STACK_LENS};
use std::collections::{BTreeMap, HashSet};
use std::time::Instant;

fn arg(args: &[String], name: &str) -> Option<String> { args.iter().position(|a| a == name).and_then(|i| args.get(i + 1).cloned()) }

fn main() {
    let args: Vec<String> = std::env::args().collect();
    if args.iter().any(|a| a == "--help") {
        eprintln!("seqdiff --profile <name> --seed <n> --cases <n> [--driver <path>] [--out <json>] [--log <file>] [--replay <casefile>] [--uni u64|tok|tok12] [--max-fail n]");
        return;
    }
    mutringbuf::verif::set_hook(Some(exec::count_hook));
    // the crate panics on purpose in a few places (rhs = 0); keep stderr quiet
    if std::env::var("MRB_PANIC_LOUD").is_err() { std::panic::set_hook(Box::new(|_| {})); }
    let prof_name = arg(&args, "--profile").unwrap_or("fifo".into());
    let seed: u64 = arg(&args, "--seed").and_then(|s| s.parse().ok()).unwrap_or(1);
    let cases: usize = arg(&args, "--cases").and_then(|s| s.parse().ok()).unwrap_or(200);
    let driver_path = arg(&args, "--driver");
    let out_path = arg(&args, "--out");
    let log_path = arg(&args, "--log");
    let max_fail: usize = arg(&args, "--max-fail").and_then(|s| s.parse().ok()).unwrap_or(3);
    let uni_arg = arg(&args, "--uni");
    // when a failing history breaks several properties, minimise towards (and report) the failure carrying this tag
    let prefer_tag: Option<&'static str> = arg(&args, "--prefer-tag").map(|t| &*Box::leak(t.into_boxed_str()));
    let t0 = Instant::now();
    let mut log = log_path.as_ref().map(|p| std::fs::File::create(p).expect("log file"));

    let mut failures_json: Vec<String> = vec![];
    let mut samples: Vec<String> = vec![];
    let mut total = mrb_harness::runner::Stats::default();
    let mut lens: BTreeMap<usize, usize> = BTreeMap::new();
    let mut variants: BTreeMap<String, usize> = BTreeMap::new();
    let mut distinct: HashSet<String> = HashSet::new();
    let mut ncases = 0usize;
    let mut nfail_cases = 0usize;
    let mut fail_kinds: BTreeMap<String, usize> = BTreeMap::new();

    let mut report = |spec: &CaseSpec, r: &mrb_harness::runner::CaseResult, origin: &str, failures_json: &mut Vec<String>, driver_path: &Option<String>| {
        // shrink on the first failure (oracle failures first: they are property violations of the implementation)
        let f = r.failures.iter().find(|f| f.kind == "oracle" && prefer_tag.map(|t| f.tags.contains(&t)).unwrap_or(false))
            .or_else(|| r.failures.iter().find(|f| f.kind == "oracle")).unwrap_or(&r.failures[0]);
        let kind = f.kind;
        let tag = match prefer_tag { Some(t) if f.tags.contains(&t) => Some(t), _ => f.tags.first().copied() };
        let ops = shrink(spec, r.executed.clone(), kind, tag, driver_path.as_deref());
        let mut small = spec.clone();
        small.ops = ops;
        let mut d = driver_path.as_ref().and_then(|p| Driver::spawn(p).ok());
        let rr = run_case(&small, Source::Replay { ops: small.ops.clone(), at: 0 }, d.as_mut(), None, cfg!(feature = "vmem"));
        let fs: Vec<String> = rr.failures.iter().take(6).map(|f| obj(&[("kind", esc(f.kind)), ("tags", strs(&f.tags.iter().map(|t| t.to_string()).collect::<Vec<_>>())), ("step", f.step.to_string()), ("op", esc(&f.op)), ("detail", esc(&f.detail))])).collect();
        let mut executed = small.clone();
        executed.ops = rr.executed.clone();
        // all properties implicated by oracle failures of the minimised case
        let mut all_tags: Vec<String> = vec![];
        for ff in rr.failures.iter().filter(|x| x.kind == "oracle") { for t in &ff.tags { if !all_tags.contains(&t.to_string()) { all_tags.push(t.to_string()); } } }
        if all_tags.is_empty() { all_tags = f.tags.iter().map(|t| t.to_string()).collect(); }
        let kind = if rr.failures.iter().any(|x| x.kind == "oracle") { "oracle" } else { kind };
        failures_json.push(obj(&[("origin", esc(origin)), ("kind", esc(kind)), ("tags", strs(&all_tags)),
            ("case", esc(&executed.text())), ("failures", arr(&fs))]));
    };

    if let Some(rp) = arg(&args, "--replay") {
        let text = std::fs::read_to_string(&rp).expect("replay file");
        // a replay file may hold several cases separated by blank lines starting with "case"
        let mut chunks: Vec<String> = vec![];
        for l in text.lines() { if l.starts_with("case ") { chunks.push(String::new()); } if let Some(c) = chunks.last_mut() { c.push_str(l); c.push('\n'); } }
        for c in chunks {
            let spec = match CaseSpec::parse(&c) { Some(s) => s, None => { eprintln!("cannot parse case:\n{c}"); std::process::exit(2); } };
            let mut d = driver_path.as_ref().and_then(|p| Driver::spawn(p).ok());
            let r = run_case(&spec, Source::Replay { ops: spec.ops.clone(), at: 0 }, d.as_mut(), log.as_mut(), false);
            ncases += 1;
            for (k, v) in &r.stats.ops { *total.ops.entry(k).or_insert(0) += v; }
            total.steps += r.stats.steps; total.refused += r.stats.refused; total.granted += r.stats.granted; total.wraps += r.stats.wraps;
            if samples.len() < 2 { let mut e = spec.clone(); e.ops = r.executed.clone(); samples.push(e.text()); }
            if !r.failures.is_empty() {
                nfail_cases += 1;
                for f in &r.failures { *fail_kinds.entry(f.kind.to_string()).or_insert(0) += 1; }
                if failures_json.len() < max_fail { report(&spec, &r, &rp, &mut failures_json, &driver_path); }
            }
        }
    } else if let Some(depth) = arg(&args, "--exhaustive").and_then(|s| s.parse::<usize>().ok()) {
        // small-scope exhaustive enumeration: every sequence of `depth` operations over a fixed alphabet, for every
        // buffer length 1..=3, two- and three-stage, local and concurrent heap buffers. `--part k/n` takes the sequences
        // whose number is k modulo n (so that several processes share the work).
        use mrb_harness::ops::{Op, Role};
        let (pk, pn) = arg(&args, "--part").and_then(|s| { let (a, b) = s.split_once('/')?; Some((a.parse::<usize>().ok()?, b.parse::<usize>().ok()?)) }).unwrap_or((0, 1));
        let mut driver = driver_path.as_ref().map(|p| Driver::spawn(p).expect("cannot start the Lean driver"));
        let mut seqno = 0usize;
        for len in 1usize..=3 {
            for has_w in [false, true] {
                let mut alpha: Vec<Op> = vec![Op::Push(0), Op::PushS(vec![0, 0]), Op::Avail(Role::P), Op::Pop, Op::CopyS(2), Op::PeekS(2), Op::Avail(Role::C), Op::Reset(Role::C), Op::Adv(Role::C, 1, vec![])];
                if has_w { alpha.extend([Op::Adv(Role::W, 1, vec![]), Op::Se(Role::W, 2), Op::Gw(Role::W), Op::Reset(Role::W), Op::Poke(Role::W, 0, 0)]); }
                let n = alpha.len();
                let total_seqs = n.pow(depth as u32);
                for code in 0..total_seqs {
                    seqno += 1;
                    if seqno % pn != pk { continue; }
                    let mut c = code;
                    let mut ops: Vec<Op> = vec![];
                    for step in 0..depth {
                        let v = 10 * (step as u64 + 1);
                        let op = match &alpha[c % n] { Op::Push(_) => Op::Push(v), Op::PushS(_) => Op::PushS(vec![v + 1, v + 2]), Op::Poke(r, k, _) => Op::Poke(*r, *k, v + 5), o => o.clone() };
                        ops.push(op);
                        c /= n;
                    }
                    let spec = CaseSpec { conc: code % 2 == 0, heap: true, has_w, len, uni: Universe::U64, zeroed: false, ops: ops.clone() };
                    let r = run_case(&spec, Source::Replay { ops, at: 0 }, driver.as_mut(), log.as_mut(), false);
                    ncases += 1;
                    *lens.entry(len).or_insert(0) += 1;
                    *variants.entry(format!("{}Heap{}", if spec.conc { "Conc" } else { "Local" }, if has_w { "3" } else { "2" })).or_insert(0) += 1;
                    for (k, v) in &r.stats.ops { *total.ops.entry(k).or_insert(0) += v; }
                    total.steps += r.stats.steps; total.refused += r.stats.refused; total.granted += r.stats.granted; total.wraps += r.stats.wraps;
                    { let mut e = spec.clone(); e.ops = r.executed.clone(); let t = e.text(); if distinct.insert(t.clone()) && samples.len() < 2 && r.stats.wraps > 0 { samples.push(t); } }
                    if !r.failures.is_empty() {
                        nfail_cases += 1;
                        for f in &r.failures { *fail_kinds.entry(f.kind.to_string()).or_insert(0) += 1; }
                        if failures_json.len() < max_fail { report(&spec, &r, &format!("exhaustive depth {depth}"), &mut failures_json, &driver_path); }
                        if let Some(p) = &driver_path { driver = Some(Driver::spawn(p).expect("driver")); }
                    }
                }
            }
        }
    } else {
        let pr = profile(&prof_name);
        let mut rng = Rng::new(seed);
        let mut driver = driver_path.as_ref().map(|p| Driver::spawn(p).expect("cannot start the Lean driver"));
        for _ in 0..cases {
            let heap = if cfg!(feature = "vmem") { true } else { rng.chance(1, 2) };
            let ps = 4096usize; // the page size (elements must come in multiples of it under vmem)
            let len = if cfg!(feature = "vmem") { *rng.pick(&[ps, ps, 2 * ps]) } else if heap { *rng.pick(&[1usize, 2, 2, 3, 3, 4, 4, 5, 6, 7, 8, 9, 12, 16, 33]) } else { *rng.pick(&STACK_LENS) };
            let uni = match uni_arg.as_deref() {
                Some("tok") => Universe::Tok, Some("tok12") => Universe::Tok12, Some("u64") => Universe::U64, Some("c12") => Universe::C12,
                _ => if pr.owned { if rng.chance(1, 2) { Universe::Tok } else { Universe::Tok12 } } else if rng.chance(1, 4) { Universe::C12 } else { Universe::U64 },
            };
            let zeroed = if cfg!(feature = "vmem") { true } else if !uni.owned() { rng.chance(1, 4) } else { rng.chance(1, 2) };
            let mut spec = CaseSpec { conc: rng.chance(1, 2), heap, has_w: rng.chance(1, 2), len, uni, zeroed, ops: vec![] };
            let nops = rng.range(pr.max_ops / 3, pr.max_ops);
            if cfg!(feature = "vmem") {
                // position all iterators a few slots before the physical end, so that the history plays around the seam
                let k = len - rng.range(1, 6);
                if !spec.uni.owned() { spec.ops.push(mrb_harness::ops::Op::PushS((0..k as u64).map(|i| 5000 + i).collect())); }
                else { for _ in 0..k { spec.ops.push(mrb_harness::ops::Op::PushI(0)); } }
                if spec.has_w { spec.ops.push(mrb_harness::ops::Op::Avail(mrb_harness::ops::Role::W)); spec.ops.push(mrb_harness::ops::Op::Adv(mrb_harness::ops::Role::W, k, vec![])); }
                spec.ops.push(mrb_harness::ops::Op::Avail(mrb_harness::ops::Role::C)); spec.ops.push(mrb_harness::ops::Op::Adv(mrb_harness::ops::Role::C, k, vec![]));
            }
            let prefix = std::mem::take(&mut spec.ops);
            let r = run_case(&spec, Source::Gen { rng: &mut rng, profile: &pr, gen: Gen::new(), remaining: nops, prefix, prefix_at: 0 }, driver.as_mut(), log.as_mut(), cfg!(feature = "vmem"));
            ncases += 1;
            *lens.entry(spec.len).or_insert(0) += 1;
            *variants.entry(format!("{}{}{}", if spec.conc { "Conc" } else { "Local" }, if spec.heap { "Heap" } else { "Stack" }, if spec.has_w { "3" } else { "2" })).or_insert(0) += 1;
            for (k, v) in &r.stats.ops { *total.ops.entry(k).or_insert(0) += v; }
            total.steps += r.stats.steps; total.refused += r.stats.refused; total.granted += r.stats.granted; total.wraps += r.stats.wraps;
            if r.stats.wraps > 0 || r.stats.refused > 0 {
                let mut kinds: Vec<String> = r.stats.ops.iter().map(|(k, v)| format!("{k}{v}")).collect();
                kinds.sort();
                distinct.insert(format!("{} {:?} {:?}", spec.header(), kinds, r.final_obs.idx));
            }
            if samples.len() < 2 && r.stats.wraps > 0 { let mut e = spec.clone(); e.ops = r.executed.clone(); samples.push(e.text()); }
            if !r.failures.is_empty() {
                nfail_cases += 1;
                for f in &r.failures { *fail_kinds.entry(f.kind.to_string()).or_insert(0) += 1; }
                if failures_json.len() < max_fail { report(&spec, &r, &format!("seed {seed}"), &mut failures_json, &driver_path); }
                // the driver's case state may be out of step after a divergence: restart it
                if let Some(p) = &driver_path { driver = Some(Driver::spawn(p).expect("driver")); }
            }
        }
    }
    let ops_h: Vec<(String, String)> = total.ops.iter().map(|(k, v)| (k.to_string(), v.to_string())).collect();
    let ops_ref: Vec<(&str, String)> = ops_h.iter().map(|(k, v)| (k.as_str(), v.clone())).collect();
    let lens_h: Vec<(String, String)> = lens.iter().map(|(k, v)| (k.to_string(), v.to_string())).collect();
    let lens_ref: Vec<(&str, String)> = lens_h.iter().map(|(k, v)| (k.as_str(), v.clone())).collect();
    let var_h: Vec<(String, String)> = variants.iter().map(|(k, v)| (k.clone(), v.to_string())).collect();
    let var_ref: Vec<(&str, String)> = var_h.iter().map(|(k, v)| (k.as_str(), v.clone())).collect();
    let fk_h: Vec<(String, String)> = fail_kinds.iter().map(|(k, v)| (k.clone(), v.to_string())).collect();
    let fk_ref: Vec<(&str, String)> = fk_h.iter().map(|(k, v)| (k.as_str(), v.clone())).collect();
    let summary = obj(&[
        ("profile", esc(&prof_name)), ("seed", seed.to_string()), ("cases", ncases.to_string()), ("steps", total.steps.to_string()),
        ("refused_requests", total.refused.to_string()), ("granted_requests", total.granted.to_string()), ("wrap_arounds", total.wraps.to_string()),
        ("distinct_nontrivial", distinct.len().to_string()), ("ops", obj(&ops_ref)), ("lens", obj(&lens_ref)), ("variants", obj(&var_ref)),
        ("failing_cases", nfail_cases.to_string()), ("failure_kinds", obj(&fk_ref)), ("failures", arr(&failures_json)), ("samples", strs(&samples)),
        ("with_model", (driver_path.is_some()).to_string()), ("wall_s", format!("{:.2}", t0.elapsed().as_secs_f64())),
    ]);
    match out_path { Some(p) => std::fs::write(p, summary).expect("write summary"), None => println!("{summary}") }
    std::process::exit(if nfail_cases > 0 { 1 } else { 0 });
}
