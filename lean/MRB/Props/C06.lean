/-
  C06 — slices cover exactly the requested ring window, in order, inside the buffer; slice-wise and
  item-wise operations are interchangeable. The chunk arithmetic below is the one rs2lean extracted from
  `next_chunk` / `next_chunk_mut` of the current source tree.
-/
import MRB.Seq.Run

namespace MRB.Props.C06
open MRB

/-- Element `k` of head ++ tail of a granted window is ring position `(index + k) mod len`, for every
    `(len, index, count)` with `index < len`, `count ≤ len` (mutable and shared form). -/
theorem C06_cover (i L n k : Nat) (hi : i < L) (hn : n ≤ L) (hk : k < n) :
    chunkSlot i L n k = (i + k) % L ∧ chunkSlotRO i L n k = (i + k) % L :=
  ⟨chunkSlot_eq i L n k hi hn hk, chunkSlotRO_eq i L n k hi hn hk⟩

/-- Head and tail together have exactly `count` elements, the head starts at the index, the tail at slot 0,
    and neither leaves the storage; every `unchecked_*` operation on the way has its precondition. -/
theorem C06_in_bounds (i L n : Nat) (hi : i < L) (hn : n ≤ L) (hL : L < 2 ^ 63) :
    Gen.nextChunkMut.headLen i 0 0 L n 0 + Gen.nextChunkMut.tailLen i 0 0 L n 0 = n ∧
    Gen.nextChunkMut.headOff i 0 0 L n 0 = i ∧ Gen.nextChunkMut.tailOff i 0 0 L n 0 = 0 ∧
    Gen.nextChunkMut.headOff i 0 0 L n 0 + Gen.nextChunkMut.headLen i 0 0 L n 0 ≤ L ∧
    Gen.nextChunkMut.tailOff i 0 0 L n 0 + Gen.nextChunkMut.tailLen i 0 0 L n 0 ≤ L ∧
    Gen.nextChunk.headLen i 0 0 L n 0 + Gen.nextChunk.tailLen i 0 0 L n 0 = n ∧
    Gen.nextChunk.headOff i 0 0 L n 0 + Gen.nextChunk.headLen i 0 0 L n 0 ≤ L ∧
    Gen.nextChunk.tailOff i 0 0 L n 0 + Gen.nextChunk.tailLen i 0 0 L n 0 ≤ L ∧
    Gen.nextChunkMut.safe i 0 0 L n 0 ∧ Gen.nextChunk.safe i 0 0 L n 0 := by
  obtain ⟨a1, a2, a3, a4, a5⟩ := Gen.nextChunkMut_lens i L n hi hn
  obtain ⟨b1, b2, b3, _, _⟩ := Gen.nextChunk_lens i L n hi hn
  exact ⟨a1, a4, a5, a2, a3, b1, b2, b3, Gen.nextChunkMut_safe i L n hi hn hL, Gen.nextChunk_safe i L n hi hn hL⟩

/-- Tie to the source: the window a chunk function hands out depends on the iterator's index, the buffer length and
the requested count only — not on the remembered availability, the successor's index or a fresh availability (the
machine passes `0` for those three; this theorem is what makes that faithful, and it stops holding the moment
`next_chunk*` starts looking at them). -/
theorem C06_source_window_depends_on_index_len_count (i c sx L n av : Nat) :
    Gen.nextChunkMut.headOff i c sx L n av = Gen.nextChunkMut.headOff i 0 0 L n 0 ∧
    Gen.nextChunkMut.headLen i c sx L n av = Gen.nextChunkMut.headLen i 0 0 L n 0 ∧
    Gen.nextChunkMut.tailOff i c sx L n av = Gen.nextChunkMut.tailOff i 0 0 L n 0 ∧
    Gen.nextChunkMut.tailLen i c sx L n av = Gen.nextChunkMut.tailLen i 0 0 L n 0 ∧
    Gen.nextChunk.headOff i c sx L n av = Gen.nextChunk.headOff i 0 0 L n 0 ∧
    Gen.nextChunk.headLen i c sx L n av = Gen.nextChunk.headLen i 0 0 L n 0 ∧
    Gen.nextChunk.tailOff i c sx L n av = Gen.nextChunk.tailOff i 0 0 L n 0 ∧
    Gen.nextChunk.tailLen i c sx L n av = Gen.nextChunk.tailLen i 0 0 L n 0 ∧
    Gen.nextChunkMut.checkArg i c sx L n av = n ∧ Gen.nextChunk.checkArg i c sx L n av = n :=
  ⟨rfl, rfl, rfl, rfl, rfl, rfl, rfl, rfl, rfl, rfl⟩

/-- In every reachable state a granted window lies inside the storage and its contents are, in order, the
    items at the logical positions `pos, pos+1, …` (so no out-of-bounds fault is ever recorded). -/
theorem C06_window_contents {s : St} {a : Sp} (h : Rel s a) (r : Role) (n : Nat) (hal : Allowed s a (.sliceExact r n))
    (hP : r ≠ .P) (hn : n ≤ a.avail r) :
    ∃ s1, step s (.sliceExact r n) = (s1, winOut s1 (s1.it r).idx n) ∧ Rel s1 a ∧
      (List.range n).map (fun k => s1.slotAt (chunkSlot (s1.it r).idx s1.len n k)) = a.window (a.pos r) n := by
  obtain ⟨c1, _⟩ := grantWindow_cases h r n hal.2
  obtain ⟨s1, e, h1⟩ := c1 hn
  have hr1 : r = .W → s1.hasW = true := fun e => by rw [← h1.hasW, h.hasW]; exact hal.2 e
  exact ⟨s1, e, h1, window_vals h1 r hr1 hP n hn⟩

/-- Slice-wise and item-wise pushes are interchangeable: pushing `xs ++ ys` as one slice leaves the
    specification in the same state as pushing `xs` and then `ys` (hence as pushing item by item). -/
theorem C06_slice_item_equiv (a : Sp) (xs ys : List Nat) (hd : a.detP = false) (hfit : (xs ++ ys).length ≤ a.avail .P)
    (hl : a.posP ≤ a.hist.length) :
    (a.step (.pushSlice (xs ++ ys))).1 = ((a.step (.pushSlice xs)).1.step (.pushSlice ys)).1 := by
  have hx : xs.length ≤ a.avail .P := by simp at hfit; omega
  have e1 : (a.step (.pushSlice xs)).1 = a.move .P xs.length xs := by simp [Sp.step, hx]
  have hy : ys.length ≤ (a.move .P xs.length xs).avail .P := by
    simp [Sp.move, Sp.det, hd, Sp.setPos, Sp.publish, Sp.avail, Sp.limit, Sp.pos] at hfit ⊢; omega
  rw [e1]
  simp only [Sp.step, hfit, hy, if_true]
  simp only [Sp.move, Sp.det, hd, Sp.setPos, Sp.publish, Sp.pos, Bool.false_eq_true, if_false]
  have ht : List.take (a.posP + xs.length) (List.take a.posP a.hist ++ xs) = List.take a.posP a.hist ++ xs :=
    List.take_of_length_le (by simp [Nat.min_eq_left hl])
  rw [ht]; simp [Nat.add_assoc]

theorem C06_single_slice_is_push (a : Sp) (v : Nat) : (a.step (.pushSlice [v])).1 = (a.step (.push v)).1 ∧
    ((a.step (.pushSlice [v])).2 = .ok ↔ (a.step (.push v)).2 = .ok) := by
  simp only [Sp.step, List.length_singleton]
  split <;> simp

/-- Copying `n` items out as a slice delivers the same values, in the same order, as `n` single copies. -/
theorem C06_copy_slice_values {s : St} {a : Sp} (h : Rel s a) (n : Nat) (hal : Allowed s a (.copySlice n)) (hn : n ≤ a.avail .C) :
    (step s (.copySlice n)).2 = .vals ((List.range n).map fun k => a.hist.getD (a.posC + k) 0) := by
  have := (deliverSlice_spec h hal.2 n (fun t _ => t) (fun _ _ ht => ht) (fun _ _ => rfl)).2
  simp only [hn, if_true] at this
  exact this

/-- Non-vacuity: the boundary cases `index + count = len` and a straddling window, len 3. -/
example :
    let s := (run (St.init [0, 0, 0] false true false) [.push 1, .push 2, .pop, .pop, .push 3, .push 4]).1
    s.c.idx = 2 ∧ (step s (.peekSlice 1)).2 = .win 2 1 0 0 [3] ∧ (step s (.peekSlice 2)).2 = .win 2 1 0 1 [3, 4] ∧
    (step s (.sliceExact .C 2)).2 = .win 2 1 0 1 [3, 4] := by decide

end MRB.Props.C06
