//! conc: concurrent executions of producer / worker / consumer programs on the real crate under the deterministic
//! release/acquire scheduler (`mrb_harness::sched`), with oracles for C02 (consumed is a prefix of produced),
//! C03 (no data race, exclusive windows), C07 (released exactly once, no use after release), C10 (bounded steps, no waiting).
use mrb_harness::json::{arr, esc, obj, strs};
use mrb_harness::rng::Rng;
use mrb_harness::sched::{self, Sched, CV, ME, NT, S};
use mutringbuf::iterators::{ConsIter, Detached, ProdIter, WorkIter};
use mutringbuf::*;
use std::collections::{BTreeMap, HashSet};
use std::sync::{Arc, Mutex};
use std::time::Instant;

const M: u64 = 1_000_000; // the worker's transformation: x -> x + M

#[derive(Clone, Debug, PartialEq)]
enum COp {
    Push(u64), PushS(Vec<u64>), PushZeroCopy(Vec<u64>),
    Pop, CopyItem, CopyS(usize), PeekAdv(usize), PeekOneAdv,
    Work(usize), WorkAvail, WorkOne,
    Reset, Avail, Alive, DropIt, CopyUntil(usize), PushUntil(Vec<u64>),
    DetWork { adv: usize, back: usize },
}

impl COp {
    fn text(&self) -> String {
        match self {
            COp::Push(v) => format!("push {v}"), COp::PushS(v) => format!("pushs {}", v.iter().map(|x| x.to_string()).collect::<Vec<_>>().join(" ")),
            COp::PushZeroCopy(v) => format!("pushz {}", v.iter().map(|x| x.to_string()).collect::<Vec<_>>().join(" ")),
            COp::Pop => "pop".into(), COp::CopyItem => "copy1".into(), COp::CopyS(n) => format!("copys {n}"), COp::PeekAdv(n) => format!("peekadv {n}"), COp::PeekOneAdv => "peek1adv".into(),
            COp::Work(n) => format!("work {n}"), COp::WorkAvail => "workavail".into(), COp::WorkOne => "workone".into(),
            COp::CopyUntil(n) => format!("copyuntil {n}"), COp::PushUntil(v) => format!("pushuntil {}", v.iter().map(|x| x.to_string()).collect::<Vec<_>>().join(" ")),
            COp::Reset => "reset".into(), COp::Avail => "avail".into(), COp::Alive => "alive".into(), COp::DropIt => "drop".into(), COp::DetWork { adv, back } => format!("detwork {adv} {back}"),
        }
    }
    fn parse(l: &str) -> Option<COp> {
        let w: Vec<&str> = l.split_whitespace().collect();
        let n = |s: &str| s.parse::<usize>().ok();
        let list = |ws: &[&str]| ws.iter().map(|s| s.parse::<u64>().ok()).collect::<Option<Vec<u64>>>();
        Some(match w.as_slice() {
            ["push", v] => COp::Push(v.parse().ok()?), ["pushs", r @ ..] => COp::PushS(list(r)?), ["pushz", r @ ..] => COp::PushZeroCopy(list(r)?),
            ["pop"] => COp::Pop, ["copy1"] => COp::CopyItem, ["copys", k] => COp::CopyS(n(k)?), ["peekadv", k] => COp::PeekAdv(n(k)?), ["peek1adv"] => COp::PeekOneAdv,
            ["work", k] => COp::Work(n(k)?), ["workavail"] => COp::WorkAvail, ["workone"] => COp::WorkOne,
            ["copyuntil", k] => COp::CopyUntil(n(k)?), ["pushuntil", r @ ..] => COp::PushUntil(list(r)?),
            ["reset"] => COp::Reset, ["avail"] => COp::Avail, ["alive"] => COp::Alive, ["drop"] => COp::DropIt, ["detwork", a, b] => COp::DetWork { adv: n(a)?, back: n(b)? },
            _ => return None,
        })
    }
}

#[derive(Clone, Debug)]
struct Program { len: usize, has_w: bool, ops: [Vec<COp>; NT], script: Vec<usize>, seed: u64, stale_pct: usize, solo_at: Option<(usize, usize)> }

impl Program {
    fn text(&self) -> String {
        let mut s = format!("cprog len={} w={} seed={} stale={} solo={}\n", self.len, self.has_w as u8, self.seed, self.stale_pct,
            self.solo_at.map(|(a, b)| format!("{a}@{b}")).unwrap_or("-".into()));
        for (t, name) in ["P", "W", "C"].iter().enumerate() { for o in &self.ops[t] { s.push_str(&format!("{name}: {}\n", o.text())); } }
        s.push_str(&format!("script {}\n", self.script.iter().map(|x| x.to_string()).collect::<Vec<_>>().join(" ")));
        s
    }
    fn parse(text: &str) -> Option<Program> {
        let mut p = Program { len: 2, has_w: false, ops: [vec![], vec![], vec![]], script: vec![], seed: 0, stale_pct: 30, solo_at: None };
        for l in text.lines() {
            let l = l.trim();
            if l.is_empty() || l.starts_with('#') { continue; }
            if let Some(r) = l.strip_prefix("cprog ") {
                for kv in r.split_whitespace() { let (k, v) = kv.split_once('=')?; match k {
                    "len" => p.len = v.parse().ok()?, "w" => p.has_w = v == "1", "seed" => p.seed = v.parse().ok()?, "stale" => p.stale_pct = v.parse().ok()?,
                    "solo" => { if v != "-" { let (a, b) = v.split_once('@')?; p.solo_at = Some((a.parse().ok()?, b.parse().ok()?)); } } _ => return None } }
            } else if let Some(r) = l.strip_prefix("script") { p.script = r.split_whitespace().map(|x| x.parse().ok()).collect::<Option<Vec<usize>>>()?; }
            else { let (who, op) = l.split_once(':')?; let t = match who.trim() { "P" => 0, "W" => 1, "C" => 2, _ => return None }; p.ops[t].push(COp::parse(op)?); }
        }
        Some(p)
    }
}

#[derive(Default, Debug, Clone)]
struct Logs { accepted: Vec<u64>, consumed: Vec<u64>, resets: usize, skipped: usize, calls: Vec<(usize, String, usize, Vec<String>)>, complaints: Vec<(String, String)>, open: [Option<(usize, usize)>; NT], worked: usize }

type Buf = ConcurrentHeapRB<u64>;

fn slots(idx: usize, n: usize, len: usize) -> Vec<usize> { (0..n).map(|k| (idx + k) % len).collect() }

fn pend(t: usize, idx: usize, n: usize, len: usize, write: bool, what: &str) {
    let mut g = S.lock().unwrap();
    if let Some(s) = g.as_mut() { s.pending[t] = slots(idx, n, len).into_iter().map(|sl| (sl, write, what.to_string())).collect(); }
}
fn clear_pend(t: usize) { let mut g = S.lock().unwrap(); if let Some(s) = g.as_mut() { s.pending[t].clear(); } }

/// Opens / closes the window a thread holds between a grant and the matching advance; overlapping windows of two threads
/// violate C03's "one iterator at a time".
fn open_window(logs: &Arc<Mutex<Logs>>, t: usize, idx: usize, n: usize, len: usize) {
    let mut l = logs.lock().unwrap();
    let mine: HashSet<usize> = slots(idx, n, len).into_iter().collect();
    for u in 0..NT { if u != t { if let Some((i, m)) = l.open[u] { let theirs: HashSet<usize> = slots(i, m, len).into_iter().collect();
        if let Some(s) = mine.intersection(&theirs).next() { l.complaints.push(("C03".into(), format!("slot {s} is granted to T{t} while T{u} still holds a window over it (T{t}: index {idx} count {n}; T{u}: index {i} count {m})"))); } } } }
    l.open[t] = Some((idx, n));
}
fn close_window(logs: &Arc<Mutex<Logs>>, t: usize) { logs.lock().unwrap().open[t] = None; }

fn begin_call(t: usize) { let mut g = S.lock().unwrap(); if let Some(s) = g.as_mut() { s.call_events[t].clear(); } }
fn end_call(logs: &Arc<Mutex<Logs>>, t: usize, op: &COp) {
    let evs: Vec<String> = { let g = S.lock().unwrap(); let s = g.as_ref().unwrap(); s.call_events[t].iter().map(|i| { let e = &s.events[*i]; format!("{} {} {}", ["load", "store", "rmw"][e.kind as usize], e.loc, e.ord) }).collect() };
    let bound = match op { COp::DropIt => 3, COp::DetWork { .. } => 4, COp::CopyUntil(_) | COp::PushUntil(_) => 12, _ => 2 };
    let mut l = logs.lock().unwrap();
    if evs.len() > bound { l.complaints.push(("C10".into(), format!("`{}` of T{t} performed {} atomic operations (bound {bound}): {:?}", op.text(), evs.len(), evs))); }
    l.calls.push((t, op.text(), evs.len(), evs));
}

fn run_prod(p: ProdIter<'static, Buf>, ops: Vec<COp>, logs: Arc<Mutex<Logs>>, len: usize) {
    let t = 0;
    let mut it = Some(p);
    for op in ops {
        sched::park();
        begin_call(t);
        let p = match it.as_mut() { Some(p) => p, None => break };
        match &op {
            COp::Push(v) => { pend(t, p.index(), 1, len, true, "push"); if p.push(*v).is_ok() { logs.lock().unwrap().accepted.push(*v); } clear_pend(t); }
            COp::PushS(vs) => { pend(t, p.index(), vs.len(), len, true, "push_slice"); if p.push_slice(vs).is_some() { logs.lock().unwrap().accepted.extend(vs.iter().copied()); } clear_pend(t); }
            COp::PushZeroCopy(vs) => {
                let idx = p.index();
                if let Some((h, tl)) = unsafe { p.get_next_slices_mut(vs.len()) } {
                    open_window(&logs, t, idx, vs.len(), len);
                    for (k, v) in vs.iter().enumerate() { sched::note_access((idx + k) % len, true, "zero-copy write"); if k < h.len() { h[k] = *v } else { tl[k - h.len()] = *v } }
                    close_window(&logs, t);
                    unsafe { p.advance(vs.len()) };
                    logs.lock().unwrap().accepted.extend(vs.iter().copied());
                }
            }
            COp::PushUntil(vs) => {
                // a stage that keeps retrying: in a sequentially consistent run an attempt made when there is room must get through
                for _ in 0..6 {
                    let (sc, room, nores) = { let l = logs.lock().unwrap(); let g = S.lock().unwrap(); (g.as_ref().unwrap().stale_pct == 0, (len - 1).saturating_sub(l.accepted.len().saturating_sub(l.consumed.len() + l.skipped)), l.resets == 0) };
                    pend(t, p.index(), vs.len(), len, true, "push_slice");
                    let ok = p.push_slice(vs).is_some();
                    clear_pend(t);
                    if ok { logs.lock().unwrap().accepted.extend(vs.iter().copied()); break; }
                    if sc && nores && room >= vs.len() { logs.lock().unwrap().complaints.push(("C10".into(), format!("T0's push_slice of {} items was refused although {} slots had been released and every load returns the newest value: a publication is not found", vs.len(), room))); break; }
                    sched::park();
                }
            }
            COp::Avail => { let _ = p.available(); }
            // looks at the liveness of the two peers, then at the index ahead (what a stage does before giving up waiting)
            COp::Alive => { let _ = p.is_work_alive(); let _ = p.is_cons_alive(); }
            COp::DropIt => { it = None; }
            _ => {}
        }
        if let Some(p) = it.as_ref() { check_published(&logs, t, p.index(), "prodIdx"); }
        end_call(&logs, t, &op);
    }
    sched::park();
    begin_call(t);
    drop(it);
    sched::finish();
}

/// An attached iterator that stored its index during the call must have stored its own (final) index.
fn check_published(logs: &Arc<Mutex<Logs>>, t: usize, idx: usize, loc: &str) {
    let stored: Option<usize> = { let g = S.lock().unwrap(); let s = g.as_ref().unwrap(); s.call_events[t].iter().rev().map(|i| &s.events[*i]).find(|e| e.kind == 1 && e.loc == loc).map(|e| e.val) };
    if let Some(v) = stored { if v != idx { logs.lock().unwrap().complaints.push(("C04".into(), format!("T{t} published index {v} but its own index is {idx} after the operation (an attached iterator must publish its own position)"))); } }
}

fn run_work(w: WorkIter<'static, Buf>, ops: Vec<COp>, logs: Arc<Mutex<Logs>>, len: usize) {
    let t = 1;
    let mut it = Some(w);
    for op in ops {
        sched::park();
        begin_call(t);
        let w = match it.as_mut() { Some(w) => w, None => break };
        let mut edit = |w: &mut WorkIter<'static, Buf>, n: Option<usize>, one: bool| {
            let idx = w.index();
            if one {
                if let Some(x) = w.get_workable() { open_window(&logs, t, idx, 1, len); sched::note_access(idx % len, true, "worker edit"); *x += M; close_window(&logs, t); unsafe { w.advance(1) }; logs.lock().unwrap().worked += 1; }
            } else {
                let g = match n { Some(n) => w.get_workable_slice_exact(n), None => w.get_workable_slice_avail() };
                if let Some((h, tl)) = g {
                    let n = h.len() + tl.len();
                    open_window(&logs, t, idx, n, len);
                    for k in 0..n { sched::note_access((idx + k) % len, true, "worker edit"); if k < h.len() { h[k] += M } else { tl[k - h.len()] += M } }
                    close_window(&logs, t);
                    unsafe { w.advance(n) };
                    logs.lock().unwrap().worked += n;
                }
            }
        };
        match &op {
            COp::Work(n) => edit(w, Some(*n), false),
            COp::WorkAvail => edit(w, None, false),
            COp::WorkOne => edit(w, None, true),
            COp::Avail => { let _ = w.available(); }
            COp::Alive => { let _ = w.is_prod_alive(); let _ = w.is_cons_alive(); }
            COp::DetWork { adv, back } => {
                // look ahead with a detached iterator, come back, process, publish once
                let wi = it.take().unwrap();
                let mut d: Detached<WorkIter<'static, Buf>> = wi.detach();
                let a = d.available().min(*adv);
                let idx = d.index();
                if a > 0 {
                    if let Some((h, tl)) = d.get_workable_slice_exact(a) {
                        open_window(&logs, t, idx, a, len);
                        for k in 0..a { sched::note_access((idx + k) % len, true, "detached worker edit"); if k < h.len() { h[k] += M } else { tl[k - h.len()] += M } }
                        close_window(&logs, t);
                    }
                    unsafe { d.advance(a) };
                    let b = (*back).min(a);
                    unsafe { d.go_back(b) };
                    unsafe { d.advance(b) };
                }
                it = Some(d.attach());
                logs.lock().unwrap().worked += a; // processed items count as released only once attach has published them
            }
            COp::DropIt => { it = None; }
            _ => {}
        }
        if let Some(w) = it.as_ref() { check_published(&logs, t, w.index(), "workIdx"); }
        end_call(&logs, t, &op);
    }
    sched::park();
    begin_call(t);
    drop(it);
    sched::finish();
}

fn run_cons<const W: bool>(c: ConsIter<'static, Buf, W>, ops: Vec<COp>, logs: Arc<Mutex<Logs>>, len: usize) {
    let t = 2;
    let mut it = Some(c);
    for op in ops {
        sched::park();
        begin_call(t);
        let c = match it.as_mut() { Some(c) => c, None => break };
        match &op {
            COp::Pop => { pend(t, c.index(), 1, len, false, "pop"); if let Some(v) = c.pop() { logs.lock().unwrap().consumed.push(v); } clear_pend(t); }
            COp::CopyItem => { pend(t, c.index(), 1, len, false, "copy_item"); let mut d = 0u64; if c.copy_item(&mut d).is_some() { logs.lock().unwrap().consumed.push(d); } clear_pend(t); }
            COp::CopyS(n) => { let mut d = vec![0u64; *n]; pend(t, c.index(), *n, len, false, "copy_slice"); if c.copy_slice(&mut d).is_some() { logs.lock().unwrap().consumed.extend(d); } clear_pend(t); }
            COp::PeekAdv(n) => {
                let idx = c.index();
                if let Some((h, tl)) = c.peek_slice(*n) {
                    open_window(&logs, t, idx, *n, len);
                    let mut got = vec![];
                    for k in 0..*n { sched::note_access((idx + k) % len, false, "peek read"); got.push(if k < h.len() { h[k] } else { tl[k - h.len()] }); }
                    close_window(&logs, t);
                    unsafe { c.advance(*n) };
                    logs.lock().unwrap().consumed.extend(got);
                }
            }
            COp::PeekOneAdv => {
                let idx = c.index();
                if let Some(x) = c.peek_ref() { open_window(&logs, t, idx, 1, len); sched::note_access(idx % len, false, "peek read"); let v = *x; close_window(&logs, t); unsafe { c.advance(1) }; logs.lock().unwrap().consumed.push(v); }
            }
            COp::Reset => { c.reset_index(); logs.lock().unwrap().resets += 1; }
            COp::CopyUntil(n) => {
                for _ in 0..6 {
                    let (sc, avail, nores) = { let l = logs.lock().unwrap(); let g = S.lock().unwrap(); (g.as_ref().unwrap().stale_pct == 0, if W { l.worked.saturating_sub(l.consumed.len() + l.skipped) } else { l.accepted.len().saturating_sub(l.consumed.len() + l.skipped) }, l.resets == 0) };
                    let mut d = vec![0u64; *n];
                    pend(t, c.index(), *n, len, false, "copy_slice");
                    let ok = c.copy_slice(&mut d).is_some();
                    clear_pend(t);
                    if ok { logs.lock().unwrap().consumed.extend(d); break; }
                    if sc && nores && avail >= *n { logs.lock().unwrap().complaints.push(("C10".into(), format!("T2's copy_slice({n}) was refused although {avail} items had been published to it and every load returns the newest value: a publication is not found"))); break; }
                    sched::park();
                }
            }
            COp::Avail => { let _ = c.available(); }
            COp::Alive => { let _ = c.is_prod_alive(); let _ = c.is_work_alive(); }
            COp::DropIt => { it = None; }
            _ => {}
        }
        if let Some(c) = it.as_ref() { check_published(&logs, t, c.index(), "consIdx"); }
        end_call(&logs, t, &op);
    }
    sched::park();
    begin_call(t);
    drop(it);
    sched::finish();
}

#[derive(Debug, Clone)]
struct Verdict { trace: Vec<String>, violations: Vec<(String, String)>, events: usize, decisions: Vec<usize>, accepted: Vec<u64>, consumed: Vec<u64>, orderings: Vec<String>, stale_reads: usize, calls: usize, freed: usize }

fn is_subsequence(a: &[u64], b: &[u64]) -> bool { let mut i = 0; for x in b { if i < a.len() && a[i] == *x { i += 1; } } i == a.len() }

fn execute(pr: &Program) -> Verdict {
    let logs = Arc::new(Mutex::new(Logs::default()));
    let len = pr.len;
    {
        let mut s = Sched::new(pr.seed, pr.script.clone(), pr.stale_pct);
        s.has_w = pr.has_w;
        s.active = [true, pr.has_w, true];
        s.finished = [false, !pr.has_w, false];
        *S.lock().unwrap() = Some(s);
    }
    verif::set_hook(Some(sched::hook));
    let buf: Buf = Buf::from((0..len as u64).map(|i| 900 + i).collect::<Vec<u64>>());
    let mut handles = vec![];
    // calibration: which address is which field (main thread is not registered with the scheduler)
    macro_rules! calibrate { ($it:expr) => {{
        let base = { S.lock().unwrap().as_ref().unwrap().calib.len() };
        let _ = $it.prod_index(); let _ = $it.work_index(); let _ = $it.cons_index(); let _ = $it.is_prod_alive(); let _ = $it.is_work_alive(); let _ = $it.is_cons_alive();
        let mut g = S.lock().unwrap(); let s = g.as_mut().unwrap();
        let names = ["prodIdx", "workIdx", "consIdx", "prodAlive", "workAlive", "consAlive"];
        let cal: Vec<(u8, usize)> = s.calib[base..].to_vec();
        for (k, (_, loc)) in cal.iter().enumerate() { if k < 6 { let v = if k < 3 { 0 } else { 1 }; let l = s.locs.entry(*loc).or_default(); l.name = names[k].into(); if l.msgs.is_empty() { l.msgs.push(sched::Msg { val: v, view: [0; NT], release: true, by: usize::MAX, stamp: 0 }); } } }
        // the counter of live iterators is the location the split's read-modify-writes touched
        let rmw: Vec<usize> = s.calib.iter().filter(|(k, _)| *k == verif::RMW).map(|(_, l)| *l).collect();
        if let Some(a) = rmw.first() { let n = rmw.len(); let l = s.locs.entry(*a).or_default(); l.name = "aliveIters".into(); l.msgs = vec![sched::Msg { val: n, view: [0; NT], release: true, by: usize::MAX, stamp: 0 }]; }
        let lo = s.locs.keys().copied().min().unwrap_or(0); let hi = s.locs.keys().copied().max().unwrap_or(0);
        s.buf_range = (lo, hi + 8);
    }}; }
    use mutringbuf::verif;
    if pr.has_w {
        let (p, w, c) = buf.split_mut();
        calibrate!(p);
        let (l0, l1, l2) = (logs.clone(), logs.clone(), logs.clone());
        let (o0, o1, o2) = (pr.ops[0].clone(), pr.ops[1].clone(), pr.ops[2].clone());
        handles.push(std::thread::spawn(move || { ME.with(|m| m.set(0)); sched::wait_first_turn(); run_prod(p, o0, l0, len) }));
        handles.push(std::thread::spawn(move || { ME.with(|m| m.set(1)); sched::wait_first_turn(); run_work(w, o1, l1, len) }));
        handles.push(std::thread::spawn(move || { ME.with(|m| m.set(2)); sched::wait_first_turn(); run_cons::<true>(c, o2, l2, len) }));
    } else {
        let (p, c) = buf.split();
        calibrate!(p);
        let (l0, l2) = (logs.clone(), logs.clone());
        let (o0, o2) = (pr.ops[0].clone(), pr.ops[2].clone());
        handles.push(std::thread::spawn(move || { ME.with(|m| m.set(0)); sched::wait_first_turn(); run_prod(p, o0, l0, len) }));
        handles.push(std::thread::spawn(move || { ME.with(|m| m.set(2)); sched::wait_first_turn(); run_cons::<false>(c, o2, l2, len) }));
    }
    // start: hand the baton to the first thread chosen by the schedule
    {
        let mut g = S.lock().unwrap();
        let s = g.as_mut().unwrap();
        s.solo_at = pr.solo_at;
        let ready: Vec<usize> = (0..NT).filter(|t| s.active[*t] && !s.finished[*t]).collect();
        let d = if s.script_pos < s.script.len() { let x = s.script[s.script_pos] % ready.len(); s.script_pos += 1; x } else { s.rng.below(ready.len()) };
        s.decisions.push(d);
        s.turn = ready[d];
    }
    CV.notify_all();
    for h in handles { let _ = h.join(); }
    verif::set_hook(None);
    let s = S.lock().unwrap().take().unwrap();
    let l = logs.lock().unwrap().clone();
    let mut v: Vec<(String, String)> = l.complaints.clone();
    for r in &s.races { v.push(("C03".into(), format!("data race: {r}"))); }
    for u in &s.uaf { v.push(("C07".into(), format!("use after release: {u}"))); }
    for u in &s.dead_obs { v.push(("C07".into(), format!("observed dead without its publications: {u}"))); }
    if let Some(h) = &s.hung { v.push(("C10".into(), h.clone())); }
    if s.freed != 1 { v.push(("C07".into(), format!("the heap buffer was released {} time(s) after all iterators were dropped (must be exactly 1)", s.freed))); }
    // C02: what the consumer observed is, in order, the accepted pushes with the worker's transformation applied to each
    let expect: Vec<u64> = l.accepted.iter().map(|x| if pr.has_w { x + M } else { *x }).collect();
    let ok = if l.resets == 0 { l.consumed.len() <= expect.len() && l.consumed[..] == expect[..l.consumed.len()] } else { is_subsequence(&l.consumed, &expect) };
    if !ok { v.push(("C02".into(), format!("consumed {:?} is not a prefix of the accepted pushes{} {:?}", l.consumed, if pr.has_w { " (each +1000000 by the worker)" } else { "" }, expect))); }
    let mut ords: Vec<String> = s.events.iter().map(|e| format!("{} {} {}", ["load", "store", "rmw"][e.kind as usize], e.loc, e.ord)).collect();
    ords.sort(); ords.dedup();
    let stale = s.events.iter().filter(|e| e.kind == 0 && e.read_idx.map(|i| i != e.last_idx).unwrap_or(false)).count();
    Verdict { trace: s.trace.clone(), violations: v, events: s.events.len(), decisions: s.decisions.clone(), accepted: l.accepted, consumed: l.consumed, orderings: ords, stale_reads: stale, calls: l.calls.len(), freed: s.freed }
}

/// Replays the recorded execution on the Lean concurrent machine (driver lines `cinit` / `cld` / `cst` / `cac`): every record
/// must be an enabled step of the machine; a broken guard is reported against the property whose theorem has that guard as a premise.
fn replay_on_model(d: &mut mrb_harness::driver::Driver, pr: &Program, v: &Verdict) -> Vec<(String, String)> {
    let mut out = vec![];
    let a = d.ask(&format!("cinit {} {}", pr.len, pr.has_w as u8));
    if !a.starts_with("ok") { out.push((String::new(), format!("Lean concurrent machine: cinit refused: {a}"))); return out; }
    let mut model_raced = false;
    for (i, l) in v.trace.iter().enumerate() {
        let a = d.ask(l);
        if a.contains("raced=true") { model_raced = true; }
        if a.starts_with("ok") { continue; }
        let ctx: Vec<String> = v.trace[i.saturating_sub(6)..=i].to_vec();
        let detail = format!("the recorded execution is not an execution of the Lean concurrent machine: record {i} `{l}` -> `{a}` (preceding records: {:?})", ctx);
        if a.contains("moved-beyond-established-availability") { out.push(("C05".into(), detail.clone())); out.push(("C04".into(), detail)); }
        else if a.contains("access-outside-window") { out.push(("C03".into(), detail)); }
        else if l.starts_with("cd") { out.push(("C07".into(), detail)); }
        else { out.push((String::new(), detail)); }
        break;
    }
    let real_raced = v.violations.iter().any(|(t, d)| t == "C03" && d.starts_with("data race"));
    if out.is_empty() && model_raced != real_raced {
        out.push((String::new(), format!("race verdicts differ: Lean machine raced={model_raced}, scheduler's detector raced={real_raced}")));
    }
    out
}

fn gen_program(rng: &mut Rng, seed: u64) -> Program {
    let has_w = rng.chance(1, 2);
    let len = *rng.pick(&[2usize, 2, 3, 3, 4, 4, 5]);
    let mut next = 1u64;
    let mut vals = |n: usize| -> Vec<u64> { (0..n).map(|_| { next += 1; next }).collect() };
    let np = rng.range(2, 6); let nc = rng.range(2, 6); let nw = rng.range(2, 5);
    let mut p = vec![]; let mut w = vec![]; let mut c = vec![];
    for _ in 0..np { p.push(match rng.below(10) { 0..=3 => COp::Push(vals(1)[0]), 4..=6 => COp::PushS(vals(rng.range(1, len - 1).max(1))), 7 => COp::PushZeroCopy(vals(rng.range(1, len - 1).max(1))), 8 => COp::PushUntil(vals(rng.range(1, len - 1).max(1))), _ => if rng.chance(1, 2) { COp::Avail } else { COp::Alive } }); }
    for _ in 0..nw { w.push(match rng.below(10) { 0..=2 => COp::WorkOne, 3..=5 => COp::Work(rng.range(1, len - 1).max(1)), 6 | 7 => COp::WorkAvail, 8 => COp::DetWork { adv: rng.range(1, len - 1).max(1), back: rng.range(0, 2) }, _ => if rng.chance(1, 2) { COp::Avail } else { COp::Alive } }); }
    for _ in 0..nc { c.push(match rng.below(12) { 0..=2 => COp::Pop, 3 => COp::CopyItem, 4..=6 => COp::CopyS(rng.range(1, len - 1).max(1)), 7 | 8 => COp::PeekAdv(rng.range(1, len - 1).max(1)), 9 => COp::PeekOneAdv, 10 => match rng.below(3) { 0 => COp::Avail, 1 => COp::Alive, _ => COp::CopyUntil(rng.range(1, len - 1).max(1)) }, _ => if rng.chance(2, 3) { COp::Reset } else { COp::Pop } }); }
    // sometimes drop early (survivors keep operating)
    if rng.chance(1, 4) { let k = rng.below(p.len() + 1); p.insert(k, COp::DropIt); p.truncate(k + 1); }
    if rng.chance(1, 5) { let k = rng.below(c.len() + 1); c.insert(k, COp::DropIt); c.truncate(k + 1); }
    if has_w && rng.chance(1, 5) { let k = rng.below(w.len() + 1); w.insert(k, COp::DropIt); w.truncate(k + 1); }
    let solo_at = if rng.chance(1, 6) { Some((*rng.pick(&[0usize, 2]), rng.range(0, 12))) } else { None };
    Program { len, has_w, ops: [p, if has_w { w } else { vec![] }, c], script: vec![], seed, stale_pct: *rng.pick(&[0usize, 20, 40, 60]), solo_at }
}

fn arg(args: &[String], name: &str) -> Option<String> { args.iter().position(|a| a == name).and_then(|i| args.get(i + 1).cloned()) }

fn main() {
    let args: Vec<String> = std::env::args().collect();
    std::panic::set_hook(Box::new(|_| {}));
    let seed: u64 = arg(&args, "--seed").and_then(|s| s.parse().ok()).unwrap_or(1);
    let cases: usize = arg(&args, "--cases").and_then(|s| s.parse().ok()).unwrap_or(200);
    let out_path = arg(&args, "--out");
    let mut driver = arg(&args, "--driver").map(|p| mrb_harness::driver::Driver::spawn(&p).expect("cannot start the Lean driver"));
    let mut replayed = 0usize;
    let t0 = Instant::now();
    let mut fj: Vec<String> = vec![]; let mut samples: Vec<String> = vec![];
    let (mut n, mut nfail, mut events, mut stale, mut calls) = (0usize, 0usize, 0usize, 0usize, 0usize);
    let mut ords: BTreeMap<String, usize> = BTreeMap::new();
    let mut distinct = HashSet::new();
    let mut report = |pr: &Program, v: &Verdict, fj: &mut Vec<String>, origin: &str| {
        // the executed schedule (decisions) makes the case replayable exactly
        let mut rp = pr.clone(); rp.script = v.decisions.clone();
        let mut tags: Vec<String> = vec![]; for (t, _) in &v.violations { if !tags.contains(t) { tags.push(t.clone()); } }
        let fs: Vec<String> = v.violations.iter().take(6).map(|(t, d)| obj(&[("kind", esc("oracle")), ("tag", esc(t)), ("detail", esc(d))])).collect();
        fj.push(obj(&[("origin", esc(origin)), ("kind", esc("oracle")), ("tags", strs(&tags)), ("case", esc(&rp.text())), ("failures", arr(&fs))]));
    };
    if let Some(rp) = arg(&args, "--replay") {
        let pr = Program::parse(&std::fs::read_to_string(&rp).expect("replay")).expect("cannot parse program");
        let mut v = execute(&pr);
        if let Some(d) = driver.as_mut() { let extra = replay_on_model(d, &pr, &v); replayed += v.trace.len(); v.violations.extend(extra); }
        n = 1; events = v.events; stale = v.stale_reads; calls = v.calls;
        for o in &v.orderings { *ords.entry(o.clone()).or_insert(0) += 1; }
        samples.push(pr.text());
        if !v.violations.is_empty() { nfail = 1; report(&pr, &v, &mut fj, &rp); }
    } else {
        let mut rng = Rng::new(seed);
        let mut tag_counts: BTreeMap<String, usize> = BTreeMap::new();
        for k in 0..cases {
            let pr = gen_program(&mut rng, seed.wrapping_mul(1000003).wrapping_add(k as u64));
            let mut v = execute(&pr);
            if let Some(d) = driver.as_mut() { let extra = replay_on_model(d, &pr, &v); replayed += v.trace.len(); v.violations.extend(extra); }
            n += 1; events += v.events; stale += v.stale_reads; calls += v.calls;
            for o in &v.orderings { *ords.entry(o.clone()).or_insert(0) += 1; }
            if v.events >= 4 { distinct.insert(format!("{:?}{:?}", pr.ops, v.decisions)); }
            if samples.len() < 2 && v.stale_reads > 0 { let mut rp = pr.clone(); rp.script = v.decisions.clone(); samples.push(rp.text()); }
            if !v.violations.is_empty() {
                nfail += 1;
                // keep failures of every property that shows up: at most two reports per set of tags
                let mut tags: Vec<String> = vec![]; for (t, _) in &v.violations { if !tags.contains(t) { tags.push(t.clone()); } }
                let key = tags.join(",");
                let c = tag_counts.entry(key).or_insert(0usize);
                if *c < 2 && fj.len() < 12 { *c += 1; report(&pr, &v, &mut fj, &format!("seed {seed}")); }
            }
        }
    }
    let oh: Vec<(String, String)> = ords.iter().map(|(k, v)| (k.clone(), v.to_string())).collect();
    let oref: Vec<(&str, String)> = oh.iter().map(|(k, v)| (k.as_str(), v.clone())).collect();
    let summary = obj(&[("profile", esc("conc")), ("seed", seed.to_string()), ("cases", n.to_string()), ("steps", events.to_string()), ("api_calls", calls.to_string()), ("stale_reads", stale.to_string()), ("records_replayed_on_lean_machine", replayed.to_string()),
        ("refused_requests", "0".into()), ("wrap_arounds", "0".into()), ("distinct_nontrivial", distinct.len().to_string()), ("ops", obj(&oref)), ("lens", "{}".into()), ("variants", "{}".into()),
        ("failing_cases", nfail.to_string()), ("failure_kinds", "{}".into()), ("failures", arr(&fj)), ("samples", strs(&samples)), ("wall_s", format!("{:.2}", t0.elapsed().as_secs_f64()))]);
    match out_path { Some(p) => std::fs::write(p, summary).unwrap(), None => println!("{summary}") }
    std::process::exit(if nfail > 0 { 1 } else { 0 });
}
