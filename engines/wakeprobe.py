"""C14/C15 engine: binary `wakeprobe` (feature `async`): (a) the re-check after waker registration — the enabling operation of another
stage is made to happen while the waker is being registered (the probe waker's `clone` performs it); the same poll must return Ready,
otherwise that wake-up is lost for good; (b) the waker an iterator keeps is the one of the task that polled last."""
import json, os, subprocess


def run(pid, tier, seed, ctx):
    tdir = os.path.join(ctx["cache"], "target-async")
    env = dict(os.environ, CARGO_NET_OFFLINE="true", CARGO_TARGET_DIR=tdir)
    feats = ["async"]
    b = subprocess.run(["cargo", "build", "--offline", "--features", "async", "--bin", "wakeprobe"], cwd=os.path.join(ctx["verif"], "harness"), env=env, stdout=subprocess.PIPE, stderr=subprocess.STDOUT, text=True)
    if b.returncode != 0:
        return dict(summary={"cases": 0}, violations=[], divergences=[{"kind": "build", "features": feats, "detail": "wakeprobe does not build:\n" + b.stdout[-1500:], "case": None}], samples=[])
    # with the driver the same scenarios are put to the Lean model (`pollwith <op> :: <other stage's op>`, definition `pollWith`)
    p = subprocess.run([os.path.join(tdir, "debug", "wakeprobe")] + (["--driver", ctx["driver"]] if ctx.get("driver") else []), stdout=subprocess.PIPE, stderr=subprocess.PIPE, text=True)
    if p.returncode != 0:
        return dict(summary={"cases": 0}, violations=[{"kind": "oracle", "tags": [pid], "features": feats, "case": "# wakeprobe", "failures": [{"detail": f"wakeprobe died (rc={p.returncode}): " + p.stderr[-500:]}]}], divergences=[], samples=[])
    rows = json.loads(p.stdout)
    viol = [{"kind": "oracle", "tags": ["C14", "C15"], "features": feats, "case": "# wakeprobe check `%s`\n# %s" % (r["check"], r["detail"]), "failures": [{"detail": r["detail"]}]} for r in rows if not r["ok"] and r["check"] != "model"]
    div = [{"kind": "model", "tags": [], "features": feats, "case": "# wakeprobe vs Lean pollWith", "failures": [{"detail": r["detail"]}]} for r in rows if not r["ok"] and r["check"] == "model"]
    return dict(summary={"cases": len(rows), "steps": len(rows), "distinct_nontrivial": len(rows)}, violations=viol[:3], divergences=div[:3], samples=[rows[0]["detail"]])
