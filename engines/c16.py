"""C16 engine: rustc's verdict on Send/Sync for every iterator type of the abstracted universe (probes crate,
compiled against the current library) vs the property and vs the Lean model's prediction (driver command `c16`)."""
import os, subprocess, json


def _rows(text):
    rows = []
    for line in text.replace(";", "\n").splitlines():
        w = line.split()
        if len(w) == 7 and w[0] in ("P", "W", "C"):
            d = dict(base=w[0], wrap=w[1])
            for kv in w[2:]:
                k, v = kv.split("=")
                d[k] = int(v)
            rows.append(d)
    return rows


def run(pid, tier, seed, ctx):
    env = dict(os.environ, CARGO_NET_OFFLINE="true", CARGO_TARGET_DIR=os.path.join(ctx["cache"], "target-probes"))
    p = subprocess.run(["cargo", "run", "--offline", "-q"], cwd=os.path.join(ctx["verif"], "probes"), env=env, stdout=subprocess.PIPE, stderr=subprocess.PIPE, text=True)
    violations, divergences, samples = [], [], []
    if p.returncode != 0:
        # the probes (incl. the for-all-T assertions that must type-check) no longer compile
        divergences.append({"kind": "build", "detail": "C16 probes do not compile against the current tree (a type that must be Send for every sendable item no longer is, or the API changed):\n" + p.stderr[-1500:], "case": None})
        return dict(summary={"cases": 0}, violations=violations, divergences=divergences, samples=samples)
    probe = _rows(p.stdout)
    selftest = [l for l in p.stdout.splitlines() if l.startswith("SELFTEST")]
    if selftest != ["SELFTEST 1 0 0 1"]:
        divergences.append({"kind": "probe", "detail": "probe self-test failed: " + str(selftest), "case": None})
    model = []
    if ctx.get("driver"):
        q = subprocess.run([ctx["driver"]], input="c16\n", stdout=subprocess.PIPE, text=True)
        model = _rows(q.stdout)
    mpred = {(r["base"], r["wrap"], r["conc"], r["isend"], r["isync"]): (r["send"], r["sync"]) for r in model}
    for r in probe:
        key = (r["base"], r["wrap"], r["conc"], r["isend"], r["isync"])
        desc = f"{r['wrap']} iterator {r['base']} of a {'concurrent' if r['conc'] else 'local'} buffer, item Send={r['isend']} Sync={r['isync']}: rustc says Send={r['send']} Sync={r['sync']}"
        bad = (r["send"] == 1 and not (r["conc"] == 1 and r["isend"] == 1)) or (r["conc"] == 0 and (r["send"] == 1 or r["sync"] == 1))
        if bad:
            violations.append({"kind": "oracle", "tags": ["C16"], "case": "# C16 probe (probes/src/main.rs)\n" + desc, "failures": [{"detail": desc}]})
        if key in mpred and mpred[key] != (r["send"], r["sync"]):
            divergences.append({"kind": "model", "tags": [], "case": desc, "failures": [{"detail": f"Lean model predicts Send={mpred[key][0]} Sync={mpred[key][1]}"}]})
    # the intended uses must keep compiling: concurrent + sendable item => Send
    for r in probe:
        if r["conc"] == 1 and r["isend"] == 1 and r["send"] == 0:
            divergences.append({"kind": "oracle-weak", "tags": [], "case": None, "failures": [{"detail": "a concurrent-buffer iterator over sendable items is no longer Send: " + json.dumps(r)}]})
    samples = [f"{r['base']} {r['wrap']} conc={r['conc']} item(Send={r['isend']},Sync={r['isync']}) -> Send={r['send']} Sync={r['sync']}" for r in probe[:3]]
    keys = {(r["base"], r["wrap"], r["conc"], r["isend"], r["isync"]) for r in probe}
    return dict(summary={"cases": len(probe), "steps": len(probe), "distinct_nontrivial": len(keys), "model_rows": len(model)},
                violations=violations[:5], divergences=divergences[:5], samples=samples)
