//! Symbolic execution of small straight-line method bodies over the iterator state
//! (index, cached_avail, published index) into Lean terms, with the preconditions of every
//! unchecked arithmetic operation collected path-sensitively.
use crate::{Item, Src};
use std::collections::BTreeMap;
use syn::{BinOp, Block, Expr, ImplItem, Item as SItem, Pat, Stmt, TraitItem, UnOp};

pub const PARAMS: &str = "(index cached succIdx len count avail : Nat)";
pub const ARGS: &str = "index cached succIdx len count avail";

#[derive(Clone, Default)]
pub struct Env {
    pub vars: BTreeMap<String, String>,
    pub index: String,
    pub cached: String,
    pub publ: Option<String>,
    pub safe: Vec<String>,
    pub path: Vec<String>,
    /// private helper / trait-default methods that may be inlined when called on the iterator: name -> (params, body)
    pub helpers: std::rc::Rc<BTreeMap<String, (Vec<String>, Block)>>,
    pub depth: usize,
}

impl Env {
    pub fn new() -> Env {
        Env { index: "index".into(), cached: "cached".into(), ..Default::default() }
    }
    fn obligation(&mut self, o: String) {
        let o = if self.path.is_empty() { o } else { format!("({} → {})", self.path.join(" → "), o) };
        if !self.safe.contains(&o) { self.safe.push(o); }
    }
}

pub fn q(e: &Expr) -> String {
    quote::quote!(#e).to_string().replace(' ', "")
}

/// Is this expression a way of naming "the iterator whose state we track"?
fn is_iter_recv(e: &Expr, env: &Env) -> bool {
    let t = q(e);
    if matches!(t.as_str(),
        "self" | "self.inner" | "self.inner.inner_mut()" | "self.inner.inner()" | "self.inner_mut()" | "self.inner()" | "s.inner_mut()") { return true; }
    // a local bound to the iterator (`let it = self.inner.inner_mut();`, `let Self { inner, .. } = self;`), possibly projected again
    let head = t.split('.').next().unwrap_or("");
    env.vars.get(head).map(|v| v == "ITER").unwrap_or(false) && matches!(&t[head.len()..], "" | ".inner_mut()" | ".inner()" | ".inner")
}

/// Splits `(L op R)` at its top-level binary operator (operators are always rendered with surrounding blanks).
fn top_binop(c: &str) -> Option<(String, String, String)> {
    let c = c.trim();
    if !(c.starts_with('(') && c.ends_with(')')) { return None; }
    let inner = &c[1..c.len() - 1];
    let mut depth = 0i32;
    let chars: Vec<(usize, char)> = inner.char_indices().collect();
    for (k, (i, ch)) in chars.iter().enumerate() {
        match ch { '(' => depth += 1, ')' => { depth -= 1; if depth < 0 { return None; } } _ => {} }
        if depth == 0 && *ch == ' ' {
            for op in ["<", "≤", "≥", ">", "=", "≠", "∨", "∧"] {
                let pat = format!(" {op} ");
                if inner[*i..].starts_with(&pat) {
                    let l = inner[..*i].to_string(); let r = inner[*i + pat.len()..].to_string();
                    // both sides must be balanced
                    let bal = |t: &str| { let mut d = 0i32; for ch in t.chars() { match ch { '(' => d += 1, ')' => { d -= 1; if d < 0 { return false; } } _ => {} } } d == 0 };
                    if bal(&l) && bal(&r) { return Some((l, op.to_string(), r)); }
                }
            }
        }
        let _ = k;
    }
    None
}

/// Canonical negation of a condition: comparisons are flipped instead of being wrapped in `¬`.
pub fn neg(c: &str) -> String {
    let t = c.trim();
    if let Some(rest) = t.strip_prefix("(¬ ") { if let Some(x) = rest.strip_suffix(')') { return x.to_string(); } }
    if let Some((l, op, r)) = top_binop(t) {
        let nop = match op.as_str() { "<" => "≥", "≥" => "<", "≤" => ">", ">" => "≤", "=" => "≠", "≠" => "=", _ => "" };
        if !nop.is_empty() { return format!("({l} {nop} {r})"); }
    }
    format!("(¬ {t})")
}

/// Is this condition in the non-canonical orientation (`<`, `>`, `≠`, `¬ _`)? Conditionals are rendered on the canonical one.
fn flipped(c: &str) -> bool {
    let t = c.trim();
    if t.starts_with("(¬ ") { return true; }
    matches!(top_binop(t), Some((_, op, _)) if op == "<" || op == ">" || op == "≠")
}

fn merge(c: &str, a: &str, b: &str) -> String {
    if a == b { return a.to_string(); }
    if flipped(c) { return merge(&neg(c), b, a); }
    // propositional shortcuts, so that `x || y` and `if x { true } else { y }` are the same definition
    if a == "True" { return format!("({c} ∨ {b})"); }
    if b == "False" { return format!("({c} ∧ {a})"); }
    format!("(if {c} then {a} else {b})")
}

pub fn ex(e: &Expr, env: &mut Env) -> Result<String, String> {
    Ok(match e {
        Expr::Paren(p) => ex(&p.expr, env)?,
        Expr::Group(p) => ex(&p.expr, env)?,
        Expr::Lit(l) => {
            let s = q(&Expr::Lit(l.clone()));
            let s = s.trim_end_matches("usize").trim_end_matches('_').to_string();
            match s.as_str() { "true" => "True".into(), "false" => "False".into(), _ => s }
        }
        Expr::Path(p) => {
            let n = q(&Expr::Path(p.clone()));
            match env.vars.get(&n) { Some(v) => v.clone(), None => return Err(format!("unknown variable `{n}`")) }
        }
        Expr::Field(_) => {
            let n = q(e);
            match n.as_str() {
                "self.index" => env.index.clone(),
                "self.cached_avail" => env.cached.clone(),
                _ => return Err(format!("field `{n}`")),
            }
        }
        Expr::Unsafe(u) => block(&u.block, env)?.unwrap_or_else(|| "()".into()),
        Expr::Block(b) => block(&b.block, env)?.unwrap_or_else(|| "()".into()),
        Expr::Unary(u) => match u.op {
            UnOp::Not(_) => neg(&ex(&u.expr, env)?),
            UnOp::Deref(_) => ex(&u.expr, env)?,
            _ => return Err("unary operator".into()),
        },
        Expr::Reference(r) => ex(&r.expr, env)?,
        Expr::Binary(b) => {
            match b.op {
                BinOp::Or(_) | BinOp::And(_) => {
                    // short-circuit: effects of the right operand happen only on one path
                    let is_or = matches!(b.op, BinOp::Or(_));
                    let l = ex(&b.left, env)?;
                    let mut renv = env.clone();
                    renv.path.push(if is_or { neg(&l) } else { l.clone() });
                    let r = ex(&b.right, &mut renv)?;
                    renv.path.pop();
                    // right operand evaluated iff (is_or: ¬l) (and: l)
                    let (ci, cc) = if is_or {
                        (merge(&l, &env.index, &renv.index), merge(&l, &env.cached, &renv.cached))
                    } else {
                        (merge(&l, &renv.index, &env.index), merge(&l, &renv.cached, &env.cached))
                    };
                    if renv.publ != env.publ { return Err("publication inside a short-circuit operand".into()); }
                    env.index = ci; env.cached = cc; env.safe = renv.safe;
                    format!("({l} {} {r})", if is_or { "∨" } else { "∧" })
                }
                _ => {
                    let l = ex(&b.left, env)?;
                    let r = ex(&b.right, env)?;
                    let op = match b.op {
                        BinOp::Lt(_) => "<", BinOp::Le(_) => "≤", BinOp::Ge(_) => "≥", BinOp::Gt(_) => ">",
                        BinOp::Add(_) => "+", BinOp::Sub(_) => "-", BinOp::Rem(_) => "%", BinOp::Eq(_) => "=",
                        BinOp::Ne(_) => "≠", BinOp::Mul(_) => "*", BinOp::Div(_) => "/",
                        _ => return Err("binary operator".into()),
                    };
                    if matches!(b.op, BinOp::Sub(_)) { env.obligation(format!("{r} ≤ {l}")); }
                    // plain `+` / `*` panic (debug) or wrap (release) on overflow: staying below 2^64 is a side condition like any other
                    if matches!(b.op, BinOp::Add(_)) { env.obligation(format!("{l} + {r} < 2^64")); }
                    if matches!(b.op, BinOp::Mul(_)) { env.obligation(format!("{l} * {r} < 2^64")); }
                    if matches!(b.op, BinOp::Rem(_) | BinOp::Div(_)) { env.obligation(format!("0 < {r}")); }
                    format!("({l} {op} {r})")
                }
            }
        }
        Expr::MethodCall(m) => {
            let name = m.method.to_string();
            let recv_txt = q(&m.receiver);
            if is_iter_recv(&m.receiver, env) || recv_txt == "self.buffer()" || recv_txt == "self.inner.buffer()" {
                let mut args = Vec::new();
                for a in &m.args { args.push(ex(a, env)?); }
                match name.as_str() {
                    "_index" | "index" => env.index.clone(),
                    "cached_avail" => env.cached.clone(),
                    "buf_len" | "inner_len" => "len".into(),
                    "succ_index" => "succIdx".into(),
                    "_available" | "available" => { env.cached = "avail".into(); "avail".into() }
                    "set_local_index" => { env.index = args[0].clone(); "()".into() }
                    "set_cached_avail" => { env.cached = args[0].clone(); "()".into() }
                    "set_atomic_index" => { env.publ = Some(args[0].clone()); "()".into() }
                    "advance_local" => {
                        let a = format!("{} {} succIdx len {} avail", env.index, env.cached, args[0]);
                        env.obligation(format!("advanceLocal.safe {a}"));
                        let (i, c) = (format!("(advanceLocal.index' {a})"), format!("(advanceLocal.cached' {a})"));
                        env.index = i; env.cached = c; "()".into()
                    }
                    "sync_index" => { env.publ = Some(env.index.clone()); "()".into() }
                    _ => match env.helpers.clone().get(&name) {
                        // a private helper or a trait-default method of the same iterator: executed in place
                        Some((params, body)) if params.len() == args.len() && env.depth < 4 => {
                            let saved = std::mem::take(&mut env.vars);
                            for (p, a) in params.iter().zip(args.iter()) { env.vars.insert(p.clone(), a.clone()); }
                            env.depth += 1;
                            let r = block(body, env);
                            env.depth -= 1;
                            env.vars = saved;
                            r?.unwrap_or_else(|| "()".into())
                        }
                        _ => return Err(format!("method `{recv_txt}.{name}`")),
                    },
                }
            } else if name == "unwrap_or" && m.args.len() == 1 && matches!(&*m.receiver, Expr::MethodCall(c) if c.method == "checked_sub" && c.args.len() == 1) {
                // `a.checked_sub(b).unwrap_or(d)`: the difference when it exists, else `d`
                let c = match &*m.receiver { Expr::MethodCall(c) => c, _ => unreachable!() };
                let a = ex(&c.receiver, env)?;
                let b = ex(&c.args[0], env)?;
                let d = ex(&m.args[0], env)?;
                if d == "0" { format!("({a} - {b})") } else { merge(&format!("({a} ≥ {b})"), &format!("({a} - {b})"), &d) }
            } else {
                let r = ex(&m.receiver, env)?;
                let mut args = Vec::new();
                for a in &m.args { args.push(ex(a, env)?); }
                match name.as_str() {
                    "unchecked_sub" => { env.obligation(format!("{} ≤ {r}", args[0])); format!("({r} - {})", args[0]) }
                    "unchecked_add" => { env.obligation(format!("{r} + {} < 2^64", args[0])); format!("({r} + {})", args[0]) }
                    "unchecked_mul" => { env.obligation(format!("{r} * {} < 2^64", args[0])); format!("({r} * {})", args[0]) }
                    "saturating_sub" => format!("({r} - {})", args[0]),
                    // 64-bit modular arithmetic, as it is
                    "wrapping_add" => format!("(({r} + {}) % 2^64)", args[0]),
                    "wrapping_sub" => format!("(({r} + 2^64 - {}) % 2^64)", args[0]),
                    "div_ceil" => { env.obligation(format!("0 < {}", args[0])); format!("(({r} + {} - 1) / {})", args[0], args[0]) }
                    "min" => format!("(min {r} {})", args[0]),
                    "max" => format!("(max {r} {})", args[0]),
                    _ => return Err(format!("method `{name}` on a value")),
                }
            }
        }
        Expr::Match(m) if matches!(&*m.expr, Expr::MethodCall(c) if c.method == "cmp" && c.args.len() == 1) => {
            // match a.cmp(&b) { Less => .., Equal => .., Greater => .. } (or-patterns and `_` allowed)
            let c = match &*m.expr { Expr::MethodCall(c) => c, _ => unreachable!() };
            let a = ex(&c.receiver, env)?;
            let b = ex(&c.args[0], env)?;
            fn ords(p: &Pat, out: &mut Vec<usize>) -> Result<(), String> {
                match p {
                    Pat::Or(o) => { for c in &o.cases { ords(c, out)?; } Ok(()) }
                    Pat::Wild(_) => { out.extend([0, 1, 2]); Ok(()) }
                    Pat::Path(_) | Pat::Ident(_) => {
                        let t = quote::quote!(#p).to_string().replace(' ', "");
                        let k = match t.rsplit("::").next().unwrap_or("") { "Less" => 0, "Equal" => 1, "Greater" => 2, o => return Err(format!("ordering pattern `{o}`")) };
                        out.push(k); Ok(())
                    }
                    _ => Err("ordering pattern".into()),
                }
            }
            // per outcome (Less, Equal, Greater): value and resulting state
            let mut res: [Option<(String, Env)>; 3] = [None, None, None];
            for arm in &m.arms {
                if arm.guard.is_some() { return Err("match guard".into()); }
                let mut ks = Vec::new();
                ords(&arm.pat, &mut ks)?;
                let ks: Vec<usize> = ks.into_iter().filter(|k| res[*k].is_none()).collect();
                if ks.is_empty() { continue; }
                let has = |k: usize| ks.contains(&k);
                let cond = match (has(0), has(1), has(2)) {
                    (true, false, false) => Some(format!("({a} < {b})")), (false, true, false) => Some(format!("({a} = {b})")),
                    (false, false, true) => Some(format!("({a} > {b})")), (true, true, false) => Some(format!("({a} ≤ {b})")),
                    (false, true, true) => Some(format!("({a} ≥ {b})")), (true, false, true) => Some(format!("({a} ≠ {b})")),
                    _ => None,
                };
                let mut aenv = env.clone();
                aenv.safe = Vec::new();
                if let Some(c) = &cond { aenv.path.push(c.clone()); }
                let v = ex(&arm.body, &mut aenv)?;
                if cond.is_some() { aenv.path.pop(); }
                for k in ks { res[k] = Some((v.clone(), aenv.clone())); }
            }
            let [l, e, g] = res;
            let (lv, le) = l.ok_or("no arm for `Less`")?;
            let (ev, ee) = e.ok_or("no arm for `Equal`")?;
            let (gv, ge) = g.ok_or("no arm for `Greater`")?;
            if le.publ != ee.publ || ee.publ != ge.publ { return Err("publication differs between arms".into()); }
            let (clt, ceq) = (format!("({a} < {b})"), format!("({a} = {b})"));
            let m3 = |x: &str, y: &str, z: &str| merge(&clt, x, &merge(&ceq, y, z));
            env.index = m3(&le.index, &ee.index, &ge.index);
            env.cached = m3(&le.cached, &ee.cached, &ge.cached);
            env.publ = le.publ.clone();
            for s in le.safe.iter().chain(ee.safe.iter()).chain(ge.safe.iter()) { if !env.safe.contains(s) { env.safe.push(s.clone()); } }
            m3(&lv, &ev, &gv)
        }
        Expr::Match(m) if matches!(&*m.expr, Expr::MethodCall(c) if c.method == "checked_sub" && c.args.len() == 1) => {
            // match a.checked_sub(b) { Some(x) => A, None => B }
            let (a, b) = checked_sub_operands(&m.expr, env)?;
            let mut some: Option<(Option<String>, &Expr)> = None;
            let mut none: Option<&Expr> = None;
            for arm in &m.arms {
                if arm.guard.is_some() { return Err("match guard".into()); }
                let pt = { let p = &arm.pat; quote::quote!(#p).to_string().replace(' ', "") };
                if pt == "None" || pt == "_" { if none.is_none() { none = Some(&arm.body); } }
                else { some = Some((some_binding(&arm.pat)?, &arm.body)); }
            }
            let (bind, sb) = some.ok_or("no `Some` arm")?;
            let nb = none.ok_or("no `None` arm")?;
            option_branches(env, &a, &b, bind.as_deref(), sb, nb)?
        }
        Expr::Match(m) if m.arms.iter().any(|a| matches!(&a.pat, Pat::Lit(l) if matches!(&l.lit, syn::Lit::Int(_)))) => {
            // match <nat> { 0 => A, 1 => B, d => C }: a chain of equality tests; the last arm binds the value or is `_`
            let c = ex(&m.expr, env)?;
            let mut taken: Vec<String> = vec![];   // conditions of the arms passed over
            let mut arms: Vec<(Option<String>, String, Env)> = vec![];
            for arm in &m.arms {
                if arm.guard.is_some() { return Err("match guard".into()); }
                let (cond, bind) = match &arm.pat {
                    Pat::Lit(l) => { let t = q(&Expr::Lit(syn::ExprLit { attrs: vec![], lit: l.lit.clone() })); let t = t.trim_end_matches("usize").trim_end_matches('_').to_string(); (Some(format!("({c} = {t})")), None) }
                    Pat::Ident(i) => (None, Some(i.ident.to_string())),
                    Pat::Wild(_) => (None, None),
                    _ => return Err("match pattern".into()),
                };
                let mut aenv = env.clone();
                aenv.safe = Vec::new();
                let npush = taken.len() + cond.is_some() as usize;
                for t in &taken { aenv.path.push(neg(t)); }
                if let Some(cd) = &cond { aenv.path.push(cd.clone()); }
                if let Some(b) = bind { aenv.vars.insert(b, c.clone()); }
                let v = ex(&arm.body, &mut aenv)?;
                for _ in 0..npush { aenv.path.pop(); }
                let last = cond.is_none();
                if let Some(cd) = &cond { taken.push(cd.clone()); }
                arms.push((cond, v, aenv));
                if last { break; }
            }
            let (lc, mut val, last_env) = arms.pop().ok_or("empty match")?;
            if lc.is_some() { return Err("match on a number without a catch-all arm".into()); }
            let (mut idx, mut cch, publ) = (last_env.index.clone(), last_env.cached.clone(), last_env.publ.clone());
            let mut safes = last_env.safe.clone();
            for (cd, v, e) in arms.into_iter().rev() {
                let cd = cd.unwrap();
                if e.publ != publ { return Err("publication differs between arms".into()); }
                val = merge(&cd, &v, &val); idx = merge(&cd, &e.index, &idx); cch = merge(&cd, &e.cached, &cch);
                for s in e.safe { if !safes.contains(&s) { safes.push(s); } }
            }
            env.index = idx; env.cached = cch; env.publ = publ;
            for s in safes { if !env.safe.contains(&s) { env.safe.push(s); } }
            val
        }
        Expr::Match(m) => {
            // match <bool> { true => a, false => b }
            let c = ex(&m.expr, env)?;
            let mut t: Option<(String, Env)> = None;
            let mut f: Option<(String, Env)> = None;
            for arm in &m.arms {
                let pat = match &arm.pat {
                    Pat::Lit(l) => q(&Expr::Lit(syn::ExprLit { attrs: vec![], lit: l.lit.clone() })),
                    _ => return Err("match pattern (only `true`/`false` arms are supported)".into()),
                };
                if arm.guard.is_some() { return Err("match guard".into()); }
                let mut aenv = env.clone();
                aenv.safe = Vec::new();
                aenv.path.push(if pat == "true" { c.clone() } else { neg(&c) });
                let v = ex(&arm.body, &mut aenv)?;
                aenv.path.pop();
                if pat == "true" { t = Some((v, aenv)) } else if pat == "false" { f = Some((v, aenv)) } else { return Err("match literal".into()) }
            }
            let (tv, te) = t.ok_or("no `true` arm")?;
            let (fv, fe) = f.ok_or("no `false` arm")?;
            if te.publ != fe.publ { return Err("publication differs between arms".into()); }
            env.index = merge(&c, &te.index, &fe.index);
            env.cached = merge(&c, &te.cached, &fe.cached);
            env.publ = te.publ.clone();
            for s in te.safe.iter().chain(fe.safe.iter()) { if !env.safe.contains(s) { env.safe.push(s.clone()); } }
            merge(&c, &tv, &fv)
        }
        Expr::If(i) if matches!(&*i.cond, Expr::Let(_)) => {
            // if let Some(x) = a.checked_sub(b) { A } else { B }
            let l = match &*i.cond { Expr::Let(l) => l, _ => unreachable!() };
            let (a, b) = checked_sub_operands(&l.expr, env)?;
            let bind = some_binding(&l.pat)?;
            let else_e = &i.else_branch.as_ref().ok_or("`if let` without else")?.1;
            let then_e = Expr::Block(syn::ExprBlock { attrs: vec![], label: None, block: i.then_branch.clone() });
            option_branches(env, &a, &b, bind.as_deref(), &then_e, else_e)?
        }
        Expr::If(i) => {
            let c = ex(&i.cond, env)?;
            let mut te = env.clone();
            te.safe = Vec::new();
            te.path.push(c.clone());
            let tv = block(&i.then_branch, &mut te)?;
            te.path.pop();
            let mut fe = env.clone();
            fe.safe = Vec::new();
            let fv = match &i.else_branch {
                Some((_, e)) => { fe.path.push(neg(&c)); let v = Some(ex(e, &mut fe)?); fe.path.pop(); v }
                None => None,
            };
            if te.publ != fe.publ { return Err("publication differs between branches".into()); }
            env.index = merge(&c, &te.index, &fe.index);
            env.cached = merge(&c, &te.cached, &fe.cached);
            env.publ = te.publ.clone();
            for s in te.safe.iter().chain(fe.safe.iter()) { if !env.safe.contains(s) { env.safe.push(s.clone()); } }
            match (tv, fv) { (Some(a), Some(b)) => merge(&c, &a, &b), _ => "()".into() }
        }
        Expr::Assign(a) => {
            let v = ex(&a.right, env)?;
            match q(&a.left).as_str() {
                "self.cached_avail" => env.cached = v,
                "self.index" => env.index = v,
                o => return Err(format!("assignment to `{o}`")),
            }
            "()".into()
        }
        Expr::Cast(c) => ex(&c.expr, env)?,
        Expr::Call(c) => {
            let f = q(&c.func);
            let base = f.rsplit("::").next().unwrap_or("").to_string();
            if (base == "min" || base == "max") && c.args.len() == 2 && (f == base || f.ends_with(&format!("cmp::{base}"))) {
                let a = ex(&c.args[0], env)?;
                let b = ex(&c.args[1], env)?;
                format!("({base} {a} {b})")
            } else if let Some((params, body)) = env.helpers.clone().get(&format!("fn:{base}")) {
                // a free helper function of the crate (pure index arithmetic): executed in place
                if params.len() != c.args.len() || env.depth >= 4 { return Err(format!("call `{f}`")); }
                let mut args = Vec::new();
                for a in &c.args { args.push(ex(a, env)?); }
                let saved = std::mem::take(&mut env.vars);
                for (p, a) in params.iter().zip(args.iter()) { env.vars.insert(p.clone(), a.clone()); }
                env.depth += 1;
                let r = block(body, env);
                env.depth -= 1;
                env.vars = saved;
                r?.ok_or(format!("`{f}` returns nothing"))?
            } else { return Err(format!("call `{f}`")); }
        }
        _ => return Err(format!("expression `{}`", q(e))),
    })
}

fn checked_sub_operands(e: &Expr, env: &mut Env) -> Result<(String, String), String> {
    match e {
        Expr::Paren(p) => checked_sub_operands(&p.expr, env),
        Expr::MethodCall(c) if c.method == "checked_sub" && c.args.len() == 1 => { let a = ex(&c.receiver, env)?; let b = ex(&c.args[0], env)?; Ok((a, b)) }
        _ => Err(format!("`{}` is not a `checked_sub`", q(e))),
    }
}

/// `Some(x)` / `Some(_)`: the bound name, if any.
fn some_binding(p: &Pat) -> Result<Option<String>, String> {
    if let Pat::TupleStruct(ts) = p {
        let path = &ts.path;
        if quote::quote!(#path).to_string().replace(' ', "").ends_with("Some") && ts.elems.len() == 1 {
            return match &ts.elems[0] { Pat::Ident(i) => Ok(Some(i.ident.to_string())), Pat::Wild(_) => Ok(None), _ => Err("pattern inside `Some`".into()) };
        }
    }
    Err("pattern is not `Some(..)`".into())
}

/// The two continuations of `a.checked_sub(b)`: `Some(a - b)` when `a ≥ b`, `None` otherwise.
fn option_branches(env: &mut Env, a: &str, b: &str, bind: Option<&str>, some_e: &Expr, none_e: &Expr) -> Result<String, String> {
    let c = format!("({a} ≥ {b})");
    let mut te = env.clone();
    te.safe = Vec::new();
    te.path.push(c.clone());
    if let Some(n) = bind { te.vars.insert(n.to_string(), format!("({a} - {b})")); }
    let tv = ex(some_e, &mut te)?;
    te.path.pop();
    let mut fe = env.clone();
    fe.safe = Vec::new();
    fe.path.push(neg(&c));
    let fv = ex(none_e, &mut fe)?;
    fe.path.pop();
    if te.publ != fe.publ { return Err("publication differs between branches".into()); }
    env.index = merge(&c, &te.index, &fe.index);
    env.cached = merge(&c, &te.cached, &fe.cached);
    env.publ = te.publ.clone();
    for s in te.safe.iter().chain(fe.safe.iter()) { if !env.safe.contains(s) { env.safe.push(s.clone()); } }
    Ok(merge(&c, &tv, &fv))
}

fn stmt(s: &Stmt, env: &mut Env) -> Result<Option<String>, String> {
    match s {
        Stmt::Local(l) if matches!(&l.pat, Pat::Struct(_)) && l.init.as_ref().map(|i| q(&i.expr) == "self").unwrap_or(false) => {
            // `let Self { inner, .. } = self;`: the field that holds the wrapped iterator is an alias of it
            if let Pat::Struct(ps) = &l.pat { for f in &ps.fields { if let syn::Member::Named(n) = &f.member { if n == "inner" {
                if let Pat::Ident(i) = &*f.pat { env.vars.insert(i.ident.to_string(), "ITER".into()); }
            } } } }
            Ok(None)
        }
        Stmt::Local(l) if l.init.as_ref().map(|i| !matches!(&*i.expr, Expr::Path(_)) && is_iter_recv(&i.expr, env) && q(&i.expr) != "self").unwrap_or(false) && matches!(&l.pat, Pat::Ident(_)) => {
            if let Pat::Ident(i) = &l.pat { env.vars.insert(i.ident.to_string(), "ITER".into()); }
            Ok(None)
        }
        Stmt::Local(l) => {
            let name = match &l.pat {
                Pat::Ident(i) => i.ident.to_string(),
                Pat::Type(t) => match &*t.pat { Pat::Ident(i) => i.ident.to_string(), _ => return Err("let pattern".into()) },
                _ => return Err("let pattern".into()),
            };
            let v = ex(&l.init.as_ref().ok_or("let without initialiser")?.expr, env)?;
            env.vars.insert(name, v);
            Ok(None)
        }
        Stmt::Expr(e, semi) => {
            let v = ex(e, env)?;
            Ok(if semi.is_some() { None } else { Some(v) })
        }
        // `debug_assert*!`: no effect on the behaviour under the contract (it only makes a debug build stricter); skipped.
        // `assert!(cond)` / `assert_eq!` would change behaviour (a panic): not in the subset, reported.
        Stmt::Macro(m) => {
            let name = m.mac.path.segments.last().map(|s| s.ident.to_string()).unwrap_or_default();
            if name.starts_with("debug_assert") { Ok(None) } else { Err(format!("macro statement `{name}!`")) }
        }
        _ => Err("statement kind".into()),
    }
}

pub fn block(b: &Block, env: &mut Env) -> Result<Option<String>, String> {
    let mut last = None;
    for s in &b.stmts { last = stmt(s, env)?; }
    Ok(last)
}

pub struct FnRef<'a> {
    pub block: &'a Block,
    pub params: Vec<String>,
}

/// Finds `fn name` inside `impl ... for Type`/`impl Type`/`trait Type` blocks; `owner` filters on the
/// textual self type / trait name ("" = any).
pub fn find_fn<'a>(file: &'a syn::File, owner: &str, name: &str) -> Option<FnRef<'a>> {
    fn params(sig: &syn::Signature) -> Vec<String> {
        sig.inputs.iter().filter_map(|a| match a {
            syn::FnArg::Typed(t) => match &*t.pat { Pat::Ident(i) => Some(i.ident.to_string()), _ => Some("_".into()) },
            _ => None,
        }).collect()
    }
    for it in &file.items {
        match it {
            SItem::Impl(i) => {
                let ty = &i.self_ty;
                let mut head = quote::quote!(#ty).to_string().replace(' ', "");
                if let Some((_, tr, _)) = &i.trait_ { head = format!("{}for{}", quote::quote!(#tr).to_string().replace(' ', ""), head); }
                if !owner.is_empty() && !head.contains(owner) { continue; }
                for ii in &i.items {
                    if let ImplItem::Fn(f) = ii { if f.sig.ident == name { return Some(FnRef { block: &f.block, params: params(&f.sig) }); } }
                }
            }
            SItem::Trait(t) => {
                if !owner.is_empty() && t.ident != owner { continue; }
                for ti in &t.items {
                    if let TraitItem::Fn(f) = ti { if f.sig.ident == name { if let Some(b) = &f.default { return Some(FnRef { block: b, params: params(&f.sig) }); } } }
                }
            }
            SItem::Fn(f) => { if owner.is_empty() && f.sig.ident == name { return Some(FnRef { block: &f.block, params: params(&f.sig) }); } }
            SItem::Mod(m) => { if let Some((_, items)) = &m.content {
                // search inline modules too (e.g. `pub(crate) mod iter_macros`)
                let f2 = syn::File { shebang: None, attrs: vec![], items: items.clone() };
                // leak: the translator is a short-lived process
                let leaked: &'static syn::File = Box::leak(Box::new(f2));
                if let Some(r) = find_fn(leaked, owner, name) { return Some(r); }
            } }
            _ => {}
        }
    }
    None
}

fn safe_text(env: &Env) -> String {
    // sorted: the order in which the source happens to evaluate its sub-expressions is not part of the definition
    let mut v = env.safe.clone();
    v.sort();
    if v.is_empty() { "True".into() } else { v.join(" ∧\n  ") }
}

/// Methods that may be executed in place when the translated body calls them on the iterator: the default methods of
/// the iterator traits, overridden by the methods defined in the file of the function being translated.
fn collect_helpers(src: &mut Src, path: &str) -> std::rc::Rc<BTreeMap<String, (Vec<String>, Block)>> {
    fn params(sig: &syn::Signature) -> Vec<String> {
        sig.inputs.iter().filter_map(|a| match a {
            syn::FnArg::Typed(t) => match &*t.pat { Pat::Ident(i) => Some(i.ident.to_string()), _ => Some("_".into()) },
            _ => None,
        }).collect()
    }
    fn has_cfg(attrs: &[syn::Attribute]) -> bool { attrs.iter().any(|a| a.path().is_ident("cfg")) }
    let mut map = BTreeMap::new();
    let mut ambiguous = std::collections::BTreeSet::new();
    // free functions (`fn:<name>`) of the iterators' module and of the file itself
    for rel in ["src/iterators/mod.rs", "src/iterators/iterator_trait.rs", path] {
        if let Ok(file) = src.file(rel) {
            for it in &file.items { if let SItem::Fn(f) = it { if !has_cfg(&f.attrs) { map.insert(format!("fn:{}", f.sig.ident), (params(&f.sig), (*f.block).clone())); } } }
        }
    }
    for (rel, traits_only) in [("src/iterators/iterator_trait.rs", true), (path, false)] {
        let mut here = BTreeMap::new();
        let mut amb_here = std::collections::BTreeSet::new();
        if let Ok(file) = src.file(rel) {
            for it in &file.items {
                match it {
                    SItem::Trait(t) if t.ident == "PrivateMRBIterator" || t.ident == "MRBIterator" => {
                        for ti in &t.items { if let TraitItem::Fn(f) = ti { if let Some(b) = &f.default {
                            let n = f.sig.ident.to_string();
                            if has_cfg(&f.attrs) || here.contains_key(&n) { amb_here.insert(n.clone()); }
                            here.insert(n, (params(&f.sig), b.clone()));
                        } } }
                    }
                    SItem::Impl(i) if !traits_only => {
                        for ii in &i.items { if let ImplItem::Fn(f) = ii {
                            let n = f.sig.ident.to_string();
                            if has_cfg(&f.attrs) || here.contains_key(&n) { amb_here.insert(n.clone()); }
                            here.insert(n, (params(&f.sig), f.block.clone()));
                        } }
                    }
                    _ => {}
                }
            }
        }
        for (k, v) in here { if amb_here.contains(&k) { ambiguous.insert(k.clone()); } else { ambiguous.remove(&k); } map.insert(k, v); }
    }
    // a name with two bodies (cfg variants, or the same method on two types of one file) is not inlined
    for a in ambiguous { map.remove(&a); }
    std::rc::Rc::new(map)
}

/// Symbolically executes one method and renders the five definitions of a state-transforming function.
fn state_fn(src: &mut Src, path: &str, owner: &str, func: &str, lean: &str, ret_ty: Option<&str>) -> Result<String, String> {
    let helpers = collect_helpers(src, path);
    // a method the type does not override is the trait's default body
    let in_file = { let file = src.file(path)?; find_fn(file, owner, func).is_some() };
    let (file, owner) = if in_file || !owner.starts_with("PrivateMRBIterator<T>for") { (src.file(path)?, owner.to_string()) } else { (src.file("src/iterators/iterator_trait.rs")?, "PrivateMRBIterator".to_string()) };
    let owner = owner.as_str();
    let f = find_fn(file, owner, func).ok_or(format!("fn `{func}` of `{owner}` not found in {path}"))?;
    let mut env = Env::new();
    env.helpers = helpers;
    if f.params.len() > 1 { return Err(format!("`{func}` has {} parameters (at most one supported)", f.params.len())); }
    for p in &f.params { env.vars.insert(p.clone(), "count".into()); }
    let ret = block(f.block, &mut env)?;
    let mut o = String::new();
    o.push_str(&format!("def {lean}.index' {PARAMS} : Nat := {}\n", env.index));
    o.push_str(&format!("def {lean}.cached' {PARAMS} : Nat := {}\n", env.cached));
    o.push_str(&format!("def {lean}.pub' {PARAMS} : Option Nat := {}\n", match &env.publ { Some(p) => format!("some {p}"), None => "none".into() }));
    match ret_ty {
        Some("Nat") => o.push_str(&format!("def {lean}.ret {PARAMS} : Nat := {}\n", ret.ok_or("no return value")?)),
        Some("Bool") => o.push_str(&format!("def {lean}.ret {PARAMS} : Bool := decide {}\n", ret.ok_or("no return value")?)),
        _ => {}
    }
    o.push_str(&format!("def {lean}.safe {PARAMS} : Prop :=\n  {}\n", safe_text(&env)));
    Ok(o)
}

/// Offset (in elements, from slot 0) of a pointer into the storage: `<storage>.as_ptr()`, `.as_mut_ptr()`, `p.add(k)`, or a local bound to one.
fn ptr_off(e: &Expr, env: &mut Env) -> Result<String, String> {
    match e {
        Expr::Paren(p) => ptr_off(&p.expr, env),
        Expr::Cast(c) => ptr_off(&c.expr, env),
        Expr::Path(_) => {
            let n = q(e);
            match env.vars.get(&n) { Some(v) if v.starts_with("PTR@") => Ok(v[4..].to_string()), _ => Err(format!("`{n}` is not a pointer into the storage")) }
        }
        Expr::MethodCall(m) if m.args.is_empty() && (m.method == "cast" || m.method == "cast_mut" || m.method == "cast_const") => ptr_off(&m.receiver, env),
        Expr::MethodCall(m) if m.method == "add" && m.args.len() == 1 => {
            let base = ptr_off(&m.receiver, env)?;
            let off = ex(&m.args[0], env)?;
            Ok(if base == "0" { off } else { format!("({base} + {off})") })
        }
        _ => { let t = q(e); if t.ends_with(".as_ptr()") || t.ends_with(".as_mut_ptr()") { Ok("0".into()) } else { Err(format!("pointer expression `{t}`")) } }
    }
}

/// A `let` inside a chunk function: a pointer into the storage, a slice of it, or a value.
fn chunk_let(l: &syn::Local, env: &mut Env) -> Result<(), String> {
    let name = match &l.pat { Pat::Ident(i) => i.ident.to_string(), Pat::Type(t) => match &*t.pat { Pat::Ident(i) => i.ident.to_string(), _ => return Err("let pattern".into()) }, _ => return Err("let pattern".into()) };
    let init = &l.init.as_ref().ok_or("let without initialiser")?.expr;
    let mut probe = env.clone();
    if let Ok(off) = ptr_off(init, &mut probe) { *env = probe; env.vars.insert(name, format!("PTR@{off}")); return Ok(()); }
    let mut probe = env.clone();
    if let Ok((off, len)) = slice_val(init, &mut probe) { *env = probe; env.vars.insert(name, format!("SL@{off}@{len}")); return Ok(()); }
    let v = ex(init, env)?;
    env.vars.insert(name, v);
    Ok(())
}

type Sl = (String, String);

/// Runs the `let`s of a block (visible inside it only) and evaluates its tail expression with `f`.
fn chunk_block<R>(stmts: &[Stmt], env: &mut Env, f: &dyn Fn(&Expr, &mut Env) -> Result<R, String>) -> Result<R, String> {
    let saved = env.vars.clone();
    let n = stmts.len();
    let mut res = Err("empty block".to_string());
    for (k, s) in stmts.iter().enumerate() {
        if k + 1 < n {
            match s { Stmt::Local(l) => chunk_let(l, env)?, Stmt::Macro(m) if m.mac.path.segments.last().map(|s| s.ident.to_string().starts_with("debug_assert")).unwrap_or(false) => {}, _ => return Err("statement in a chunk function".into()) }
            continue;
        }
        res = match s { Stmt::Expr(e, None) => f(e, env), _ => Err("block does not end in an expression".into()) };
    }
    env.vars = saved;
    res
}

/// A slice of the storage as (offset, length): `slice::from_raw_parts[_mut](ptr[.add(off)], len)` possibly wrapped in
/// `transmute::<..>(..)`, an empty slice literal, a local bound to one, or a conditional between such.
fn slice_val(e: &Expr, env: &mut Env) -> Result<Sl, String> {
    match e {
        Expr::Paren(p) => slice_val(&p.expr, env),
        Expr::Group(p) => slice_val(&p.expr, env),
        Expr::Cast(c) => slice_val(&c.expr, env),
        Expr::Reference(r) => match &*r.expr {
            Expr::Array(a) if a.elems.is_empty() => Ok(("0".into(), "0".into())),
            o => slice_val(o, env),
        },
        Expr::Path(_) => {
            let n = q(e);
            match env.vars.get(&n) {
                Some(v) if v.starts_with("SL@") => { let mut it = v[3..].splitn(2, '@'); Ok((it.next().unwrap_or("").to_string(), it.next().unwrap_or("").to_string())) }
                _ => Err(format!("`{n}` is not a slice of the storage")),
            }
        }
        Expr::Block(b) => chunk_block(&b.block.stmts, env, &slice_val),
        Expr::Unsafe(u) => chunk_block(&u.block.stmts, env, &slice_val),
        Expr::If(i) => {
            let c = ex(&i.cond, env)?;
            env.path.push(c.clone());
            let t = chunk_block(&i.then_branch.stmts, env, &slice_val);
            env.path.pop();
            let t = t?;
            let else_e = &i.else_branch.as_ref().ok_or("no else branch")?.1;
            env.path.push(neg(&c));
            let f = slice_val(else_e, env);
            env.path.pop();
            let f = f?;
            Ok((merge(&c, &t.0, &f.0), merge(&c, &t.1, &f.1)))
        }
        Expr::Call(c) => {
            let fname = q(&c.func);
            if fname.starts_with("transmute") || fname.ends_with("::transmute") {
                if c.args.len() != 1 { return Err("transmute arity".into()); }
                slice_val(&c.args[0], env)
            } else if fname.ends_with("slice::from_raw_parts") || fname.ends_with("slice::from_raw_parts_mut") || fname == "from_raw_parts" || fname == "from_raw_parts_mut" {
                if c.args.len() != 2 { return Err("from_raw_parts arity".into()); }
                let off = ptr_off(&c.args[0], env)?;
                let len = ex(&c.args[1], env)?;
                Ok((off, len))
            } else { Err(format!("call `{fname}`")) }
        }
        _ => Err(format!("slice expression `{}`", q(e))),
    }
}

/// The (head, tail) pair a chunk function returns: a tuple of slices, a conditional between such, or a single slice.
fn pair_val(e: &Expr, env: &mut Env) -> Result<(Sl, Sl), String> {
    match e {
        Expr::Paren(p) => pair_val(&p.expr, env),
        Expr::Tuple(t) if t.elems.len() == 2 => Ok((slice_val(&t.elems[0], env)?, slice_val(&t.elems[1], env)?)),
        Expr::Block(b) => chunk_block(&b.block.stmts, env, &pair_val),
        Expr::Unsafe(u) => chunk_block(&u.block.stmts, env, &pair_val),
        Expr::If(i) if matches!(&*i.cond, Expr::Let(_)) => {
            let l = match &*i.cond { Expr::Let(l) => l, _ => unreachable!() };
            let (a, b) = checked_sub_operands(&l.expr, env)?;
            let bind = some_binding(&l.pat)?;
            let else_e = &i.else_branch.as_ref().ok_or("`if let` without else")?.1;
            let then_e = Expr::Block(syn::ExprBlock { attrs: vec![], label: None, block: i.then_branch.clone() });
            pair_option(env, &a, &b, bind.as_deref(), &then_e, else_e)
        }
        Expr::If(i) => {
            let c = ex(&i.cond, env)?;
            env.path.push(c.clone());
            let t = chunk_block(&i.then_branch.stmts, env, &pair_val);
            env.path.pop();
            let (th, tt) = t?;
            let else_e = &i.else_branch.as_ref().ok_or("no else branch")?.1;
            env.path.push(neg(&c));
            let f = pair_val(else_e, env);
            env.path.pop();
            let (eh, et) = f?;
            Ok(((merge(&c, &th.0, &eh.0), merge(&c, &th.1, &eh.1)), (merge(&c, &tt.0, &et.0), merge(&c, &tt.1, &et.1))))
        }
        Expr::Match(m) if matches!(&*m.expr, Expr::MethodCall(c) if c.method == "checked_sub" && c.args.len() == 1) => {
            let (a, b) = checked_sub_operands(&m.expr, env)?;
            let mut some: Option<(Option<String>, &Expr)> = None;
            let mut none: Option<&Expr> = None;
            for arm in &m.arms {
                let pt = { let p = &arm.pat; quote::quote!(#p).to_string().replace(' ', "") };
                if pt == "None" || pt == "_" { if none.is_none() { none = Some(&arm.body); } } else { some = Some((some_binding(&arm.pat)?, &arm.body)); }
            }
            let (bind, sb) = some.ok_or("no `Some` arm")?;
            pair_option(env, &a, &b, bind.as_deref(), sb, none.ok_or("no `None` arm")?)
        }
        e => Ok((slice_val(e, env)?, ("0".into(), "0".into()))),
    }
}

fn pair_option(env: &mut Env, a: &str, b: &str, bind: Option<&str>, some_e: &Expr, none_e: &Expr) -> Result<(Sl, Sl), String> {
    let c = format!("({a} ≥ {b})");
    let saved = env.vars.clone();
    env.path.push(c.clone());
    if let Some(n) = bind { env.vars.insert(n.to_string(), format!("({a} - {b})")); }
    let t = pair_val(some_e, env);
    env.path.pop();
    env.vars = saved;
    let (th, tt) = t?;
    env.path.push(neg(&c));
    let f = pair_val(none_e, env);
    env.path.pop();
    let (eh, et) = f?;
    Ok(((merge(&c, &th.0, &eh.0), merge(&c, &th.1, &eh.1)), (merge(&c, &tt.0, &et.0), merge(&c, &tt.1, &et.1))))
}

/// The closure passed to `self.check(count).then(|| ...)`.
fn then_closure<'a>(b: &'a Block) -> Result<(&'a Expr, &'a Expr), String> {
    // returns (argument of check, closure body)
    let last = b.stmts.last().ok_or("empty body")?;
    let e = match last { Stmt::Expr(e, None) => e, _ => return Err("body does not end in an expression".into()) };
    let e = match e { Expr::Unsafe(u) => match u.block.stmts.last() { Some(Stmt::Expr(e, None)) => e, _ => return Err("unsafe".into()) }, e => e };
    if let Expr::MethodCall(m) = e {
        if m.method == "then" {
            if let Expr::MethodCall(c) = &*m.receiver {
                if c.method == "check" && c.args.len() == 1 {
                    if let Some(Expr::Closure(cl)) = m.args.first() { return Ok((&c.args[0], &cl.body)); }
                }
            }
        }
    }
    Err("not of the form `self.check(n).then(|| ..)`".into())
}

fn chunk_fn(src: &mut Src, func: &str, lean: &str, vmem: bool) -> Result<String, String> {
    let file = src.file("src/iterators/iterator_trait.rs")?;
    // there are two cfg variants of each function; pick by the cfg attribute
    let mut found = None;
    for it in &file.items {
        if let SItem::Trait(t) = it {
            if t.ident != "PrivateMRBIterator" { continue; }
            for ti in &t.items {
                if let TraitItem::Fn(f) = ti {
                    if f.sig.ident != func { continue; }
                    let attrs: String = f.attrs.iter().map(|a| quote::quote!(#a).to_string().replace(' ', "")).collect();
                    let is_vm = attrs.contains("cfg(feature=\"vmem\")");
                    let is_nvm = attrs.contains("cfg(not(feature=\"vmem\"))");
                    if (vmem && is_vm) || (!vmem && (is_nvm || !is_vm)) { found = f.default.as_ref(); }
                }
            }
        }
    }
    let b = found.ok_or(format!("fn `{func}` (vmem={vmem}) not found"))?.clone();
    let b = &b;
    let helpers = collect_helpers(src, "src/iterators/iterator_trait.rs");
    let (chk, body) = then_closure(b)?;
    let mut env = Env::new();
    env.helpers = helpers;
    env.vars.insert("count".into(), "count".into());
    let chk = ex(chk, &mut env)?;
    // the closure body: lets, unsafe, then a tuple of slices / a conditional between tuples / a single slice
    let ((ho, hl), (to, tl)) = pair_val(body, &mut env)?;
    let mut o = String::new();
    o.push_str(&format!("def {lean}.checkArg {PARAMS} : Nat := {chk}\n"));
    o.push_str(&format!("def {lean}.headOff {PARAMS} : Nat := {ho}\n"));
    o.push_str(&format!("def {lean}.headLen {PARAMS} : Nat := {hl}\n"));
    o.push_str(&format!("def {lean}.tailOff {PARAMS} : Nat := {to}\n"));
    o.push_str(&format!("def {lean}.tailLen {PARAMS} : Nat := {tl}\n"));
    o.push_str(&format!("def {lean}.safe {PARAMS} : Prop :=\n  {}\n", safe_text(&env)));
    Ok(o)
}

/// `match <e> { 0 => None, avail => self.get_workable_slice_exact(avail) }` (possibly in an unsafe block, after lets):
/// yields the requested count as a function of `avail` (and `count` = the argument).
fn derived_count_fn(src: &mut Src, func: &str, lean: &str) -> Result<String, String> {
    let file = src.file("src/iterators/iterator_trait.rs")?;
    let f = find_fn(file, "MRBIterator", func).ok_or(format!("fn `{func}` not found"))?;
    let mut env = Env::new();
    for p in &f.params { env.vars.insert(p.clone(), "count".into()); }
    fn walk(b: &Block, env: &mut Env) -> Result<(String, String), String> {
        let n = b.stmts.len();
        for (k, s) in b.stmts.iter().enumerate() {
            if k + 1 < n { stmt(s, env)?; continue; }
            let e = match s { Stmt::Expr(e, None) => e, _ => return Err("body does not end in an expression".into()) };
            return match e {
                Expr::Unsafe(u) => walk(&u.block, env),
                Expr::Match(m) => {
                    let scrut = ex(&m.expr, env)?;
                    if m.arms.len() != 2 { return Err("match arms".into()); }
                    let p0 = &m.arms[0].pat; let p0 = quote::quote!(#p0).to_string();
                    if p0 != "0" || q(&m.arms[0].body) != "None" { return Err("first arm is not `0 => None`".into()); }
                    let bind = match &m.arms[1].pat { Pat::Ident(i) => i.ident.to_string(), _ => return Err("second arm pattern".into()) };
                    // the second arm must request exactly the bound value
                    let body = q(&m.arms[1].body);
                    let want = format!("self.get_workable_slice_exact({bind})");
                    if body != want { return Err(format!("second arm is `{body}`, expected `{want}`")); }
                    Ok((scrut, "exact".into()))
                }
                // NonZeroUsize::new(<e>).and_then(|v| self.get_workable_slice_exact(v.get()))
                Expr::MethodCall(mc) if mc.method == "and_then" && mc.args.len() == 1 => {
                    let inner = match &*mc.receiver { Expr::Call(c) if q(&c.func).ends_with("NonZeroUsize::new") && c.args.len() == 1 => &c.args[0], _ => return Err("`and_then` on something other than `NonZeroUsize::new(..)`".into()) };
                    let scrut = ex(inner, env)?;
                    let cl = match &mc.args[0] { Expr::Closure(c) if c.inputs.len() == 1 => c, _ => return Err("`and_then` argument".into()) };
                    let bind = match &cl.inputs[0] { Pat::Ident(i) => i.ident.to_string(), _ => return Err("closure parameter".into()) };
                    let body = q(&cl.body);
                    let want = format!("self.get_workable_slice_exact({bind}.get())");
                    if body != want { return Err(format!("closure body is `{body}`, expected `{want}`")); }
                    Ok((scrut, "exact".into()))
                }
                // if <e> == 0 { None } else { self.get_workable_slice_exact(<e>) }   (or the mirrored test)
                Expr::If(i) => {
                    let (l, op, r) = match &*i.cond { Expr::Binary(b) => (q(&b.left), match b.op { BinOp::Eq(_) => "==", BinOp::Ne(_) => "!=", BinOp::Gt(_) => ">", _ => return Err("test".into()) }, q(&b.right)), _ => return Err("test".into()) };
                    if r != "0" { return Err("test is not against 0".into()); }
                    let tail = |b: &Block| -> Option<String> { if b.stmts.len() == 1 { if let Stmt::Expr(e, None) = &b.stmts[0] { return Some(q(e)); } } None };
                    let t = tail(&i.then_branch).ok_or("then branch")?;
                    let e = match i.else_branch.as_ref().map(|x| &*x.1) { Some(Expr::Block(b)) => tail(&b.block).ok_or("else branch")?, _ => return Err("else branch".into()) };
                    let (none_b, some_b) = if op == "==" { (t, e) } else { (e, t) };
                    let want = format!("self.get_workable_slice_exact({l})");
                    if none_b != "None" || some_b != want { return Err(format!("branches are `{none_b}` / `{some_b}`")); }
                    let lexpr = match &*i.cond { Expr::Binary(b) => &b.left, _ => unreachable!() };
                    Ok((ex(lexpr, env)?, "exact".into()))
                }
                _ => Err("body is not a recognised zero test".into()),
            };
        }
        Err("empty".into())
    }
    let (scrut, _) = walk(f.block, &mut env)?;
    let mut o = String::new();
    o.push_str(&format!("def {lean}.count {PARAMS} : Nat := {scrut}\n"));
    o.push_str(&format!("def {lean}.safe {PARAMS} : Prop :=\n  {}\n", safe_text(&env)));
    Ok(o)
}

fn pure_fn(src: &mut Src, path: &str, func: &str, lean: &str, extra_vars: &[(&str, &str)]) -> Result<String, String> {
    let file = src.file(path)?;
    let f = find_fn(file, "", func).ok_or(format!("fn `{func}` not found in {path}"))?;
    let mut env = Env::new();
    for p in &f.params { env.vars.insert(p.clone(), "count".into()); }
    for (k, v) in extra_vars { env.vars.insert(k.to_string(), v.to_string()); }
    // `let page_size = page_size();` : calls to the page-size oracle become the parameter `len`
    let mut last = None;
    for s in &f.block.stmts {
        if let Stmt::Local(l) = s {
            if let (Pat::Ident(i), Some(init)) = (&l.pat, &l.init) {
                if q(&init.expr) == "page_size()" { env.vars.insert(i.ident.to_string(), "len".into()); continue; }
            }
        }
        last = stmt(s, &mut env)?;
    }
    let ret = last.ok_or("no return value")?;
    Ok(format!("def {lean} {PARAMS} : Nat := {ret}\ndef {lean}.safe {PARAMS} : Prop :=\n  {}\n", safe_text(&env)))
}

pub fn kernel_items(src: &mut Src, items: &mut Vec<Item>) {
    let it = "src/iterators/iterator_trait.rs";
    let mut add = |name: &str, origin: String, body: Result<String, String>| {
        items.push(Item { name: name.into(), file: "Kernel", origin, body });
    };
    // order matters: advanceLocal is referenced by later definitions
    add("advanceLocal", format!("{it}::PrivateMRBIterator::advance_local"), state_fn(src, it, "PrivateMRBIterator", "advance_local", "advanceLocal", None));
    add("advance", format!("{it}::PrivateMRBIterator::_advance"), state_fn(src, it, "PrivateMRBIterator", "_advance", "advance", None));
    add("check", format!("{it}::PrivateMRBIterator::check"), state_fn(src, it, "PrivateMRBIterator", "check", "check", Some("Bool")));
    for (path, owner, lean) in [
        ("src/iterators/sync_iterators/prod_iter.rs", "ProdIter", "prodAvail"),
        ("src/iterators/sync_iterators/work_iter.rs", "WorkIter", "workAvail"),
        ("src/iterators/sync_iterators/cons_iter.rs", "ConsIter", "consAvail"),
    ] {
        add(lean, format!("{path}::{owner}::_available"), state_fn(src, path, &format!("PrivateMRBIterator<T>for{owner}"), "_available", lean, Some("Nat")));
    }
    add("workReset", "src/iterators/sync_iterators/work_iter.rs::WorkIter::reset_index".into(),
        state_fn(src, "src/iterators/sync_iterators/work_iter.rs", "WorkIter", "reset_index", "workReset", None));
    add("consReset", "src/iterators/sync_iterators/cons_iter.rs::ConsIter::reset_index".into(),
        state_fn(src, "src/iterators/sync_iterators/cons_iter.rs", "ConsIter", "reset_index", "consReset", None));
    let d = "src/iterators/sync_iterators/detached.rs";
    for (func, lean) in [("set_index", "detSetIndex"), ("reset_index", "detReset"), ("advance", "detAdvance"), ("go_back", "detGoBack"), ("sync_index", "detSync")] {
        add(lean, format!("{d}::Detached::{func}"), state_fn(src, d, "Detached<I>", func, lean, None));
    }
    let ad = "src/iterators/async_iterators/detached.rs";
    for (func, lean) in [("advance", "adetAdvance"), ("go_back", "adetGoBack"), ("sync_index", "adetSync")] {
        add(lean, format!("{ad}::AsyncDetached::{func}"), state_fn(src, ad, "AsyncDetached<I,B>", func, lean, None));
    }
    add("nextChunk", format!("{it}::next_chunk (not vmem)"), chunk_fn(src, "next_chunk", "nextChunk", false));
    add("nextChunkMut", format!("{it}::next_chunk_mut (not vmem)"), chunk_fn(src, "next_chunk_mut", "nextChunkMut", false));
    add("nextChunkVm", format!("{it}::next_chunk (vmem)"), chunk_fn(src, "next_chunk", "nextChunkVm", true));
    add("nextChunkMutVm", format!("{it}::next_chunk_mut (vmem)"), chunk_fn(src, "next_chunk_mut", "nextChunkMutVm", true));
    add("sliceAvail", format!("{it}::MRBIterator::get_workable_slice_avail"), derived_count_fn(src, "get_workable_slice_avail", "sliceAvail"));
    add("sliceMultipleOf", format!("{it}::MRBIterator::get_workable_slice_multiple_of"), derived_count_fn(src, "get_workable_slice_multiple_of", "sliceMultipleOf"));
    add("pageSizeMul", "src/ring_buffer/storage/heap/vmem_helper.rs::get_page_size_mul".into(),
        pure_fn(src, "src/ring_buffer/storage/heap/vmem_helper.rs", "get_page_size_mul", "pageSizeMul", &[]));
}
