/-
  C12 — detached iterators move only locally, to the exact position, until synced.
-/
import MRB.Seq.Run

namespace MRB.Props.C12
open MRB

/-- The operations a `Detached` wrapper offers for moving around. -/
def isLocalMove : Op → Bool
  | .advance _ _ _ | .goBack _ _ | .setIndex _ _ | .resetIndex _ => true
  | _ => false

/-- While an iterator is detached none of its moves changes a published position (logical or physical),
    so the availabilities the *other* iterators observe are untouched. -/
theorem C12_local_only {s : St} {a : Sp} (h : Rel s a) (r : Role) (op : Op) (hop : op = .advance r n vs ∨ op = .goBack r n ∨ op = .setIndex r i ∨ op = .resetIndex r)
    (hd : a.det r = true) (hal : Allowed s a op) :
    let a' := (a.step op).1
    let s' := (step s op).1
    a'.pubP = a.pubP ∧ a'.pubW = a.pubW ∧ a'.pubC = a.pubC ∧ s'.pubP = s.pubP ∧ s'.pubW = s.pubW ∧ s'.pubC = s.pubC := by
  have h' := (step_refines h op hal).1
  have key : ((a.step op).1).pubP = a.pubP ∧ ((a.step op).1).pubW = a.pubW ∧ ((a.step op).1).pubC = a.pubC := by
    rcases hop with e | e | e | e <;> subst e <;> cases r <;>
      simp_all [Sp.step, Sp.move, Sp.det, Sp.setPos, Sp.pos, Sp.publish, Allowed]
  obtain ⟨k1, k2, k3⟩ := key
  refine ⟨k1, k2, k3, ?_, ?_, ?_⟩
  · rw [h'.pubP, h.pubP, k1, ← h'.len_eq, ← h.len_eq]
    rcases hop with e | e | e | e <;> subst e <;> cases r <;> simp_all [Sp.step, Sp.move, Sp.det, Sp.setPos, Sp.publish, Allowed]
  · rw [h'.pubW, h.pubW, k2, ← h'.len_eq, ← h.len_eq]
    rcases hop with e | e | e | e <;> subst e <;> cases r <;> simp_all [Sp.step, Sp.move, Sp.det, Sp.setPos, Sp.publish, Allowed]
  · rw [h'.pubC, h.pubC, k3, ← h'.len_eq, ← h.len_eq]
    rcases hop with e | e | e | e <;> subst e <;> cases r <;> simp_all [Sp.step, Sp.move, Sp.det, Sp.setPos, Sp.publish, Allowed]

/-- `sync_index` and `attach` publish the current position in one step. -/
theorem C12_sync_publishes {s : St} {a : Sp} (h : Rel s a) (r : Role) (hal : Allowed s a (.syncIndex r)) :
    ((a.step (.syncIndex r)).1).pubOf r = a.pos r ∧ ((a.step (.attach r)).1).pubOf r = a.pos r ∧
    ((a.step (.attach r)).1).det r = false ∧ Rel (step s (.syncIndex r)).1 (a.step (.syncIndex r)).1 := by
  refine ⟨?_, ?_, ?_, (step_refines h (.syncIndex r) hal).1⟩ <;> cases r <;> simp [Sp.step, Sp.publish, Sp.pubOf, Sp.pos, Sp.setDet, Sp.det]

/-- `go_back(n)` places the iterator at exactly `(position - n) mod len` — also when that wraps below zero from
    a non-zero index — and raises the remembered availability by exactly `n` (both the sync and the async copy). -/
theorem C12_go_back_exact (p n L c : Nat) (hL : 0 < L) (hn : n ≤ p) (hnL : n ≤ L) :
    Gen.detGoBack.index' (p % L) c 0 L n 0 = (p - n) % L ∧ Gen.detGoBack.cached' (p % L) c 0 L n 0 = c + n ∧
    Gen.adetGoBack.index' (p % L) c 0 L n 0 = (p - n) % L ∧ Gen.adetGoBack.cached' (p % L) c 0 L n 0 = c + n :=
  ⟨Gen.detGoBack_index_eq p n L hL hn hnL c 0 0, rfl,
   by rw [(Gen.adetGoBack_eq_detGoBack _ _ _ _ _ _).1]; exact Gen.detGoBack_index_eq p n L hL hn hnL c 0 0, rfl⟩

/-- After any local move (`advance`, `go_back`, `set_index`, `reset_index`) of a detached iterator the
    invariant holds again: the index is the new logical position modulo `len` and the remembered
    availability is at most the true distance to the iterator ahead, so `available()` and every getter
    reflect that distance, never more. -/
theorem C12_exact_position_and_true_distance {s : St} {a : Sp} (h : Rel s a) (r : Role) (op : Op)
    (hop : op = .advance r n vs ∨ op = .goBack r n ∨ op = .setIndex r i ∨ op = .resetIndex r) (hal : Allowed s a op)
    (hr : r = .W → (step s op).1.hasW = true) :
    let a' := (a.step op).1
    let s' := (step s op).1
    (s'.it r).idx = a'.pos r % s'.len ∧ (s'.it r).cached ≤ a'.avail r ∧
    (∀ m, (step s' (.sliceExact r m)).2 = .none ↔ ¬ m ≤ a'.avail r) := by
  have h' := (step_refines h op hal).1
  exact ⟨h'.idx_eq r, h'.cached_le r hr, fun m => (grantWindow_spec h' r m hr).2.2.2.1⟩

/-- The logical position reached: `advance n` adds `n`, `go_back n` subtracts `n`, `set_index i` goes to the
    position of ring index `i` inside the unpublished window. -/
theorem C12_positions (a : Sp) (r : Role) (n i : Nat) (vs : List Nat) :
    ((a.step (.advance r n vs)).1).pos r = a.pos r + n ∧ ((a.step (.goBack r n)).1).pos r = a.pos r - n ∧
    ((a.step (.setIndex r i)).1).pos r = a.pubOf r + (i + a.len - a.pubOf r % a.len) % a.len := by
  cases r <;> simp [Sp.step, Sp.move, Sp.setPos, Sp.pos, Sp.publish] <;> split <;> simp

/-- `attach ∘ detach` changes nothing observable. -/
theorem C12_detach_attach_id {s : St} {a : Sp} (h : Rel s a) (r : Role) (hd : a.det r = false) :
    ((a.step (.detach r)).1.step (.attach r)).1.pubOf r = a.pubOf r ∧ ((a.step (.detach r)).1.step (.attach r)).1.pos r = a.pos r ∧
    ((a.step (.detach r)).1.step (.attach r)).1.det r = false := by
  have e : a.pubOf r = a.pos r := by
    cases r
    · exact h.eqP hd
    · exact h.eqW hd
    · exact h.eqC hd
  cases r <;> simp_all [Sp.step, Sp.setDet, Sp.publish, Sp.pubOf, Sp.pos, Sp.det]

/-- Tie to the source: the detached moves touch only the local index and the remembered availability (no
    publication), `sync_index`/`attach` publish the current index, `set_index`/`reset_index` forget the remembered availability. -/
theorem C12_source_detached_shape (i c s L n a : Nat) :
    Gen.detAdvance.pub' i c s L n a = none ∧ Gen.detGoBack.pub' i c s L n a = none ∧ Gen.detSetIndex.pub' i c s L n a = none ∧
    Gen.detReset.pub' i c s L n a = none ∧ Gen.adetAdvance.pub' i c s L n a = none ∧ Gen.adetGoBack.pub' i c s L n a = none ∧
    Gen.detSync.pub' i c s L n a = some i ∧ Gen.adetSync.pub' i c s L n a = some i ∧
    Gen.detSetIndex.index' i c s L n a = n ∧ Gen.detSetIndex.cached' i c s L n a = 0 ∧
    Gen.detReset.index' i c s L n a = s ∧ Gen.detReset.cached' i c s L n a = 0 ∧
    Gen.detAdvance.index' i c s L n a = Gen.advanceLocal.index' i c s L n a ∧ Gen.adetAdvance.index' i c s L n a = Gen.advanceLocal.index' i c s L n a ∧
    Gen.skelAttach = [⟨.setAtomicIndex, .index⟩] ∧ Gen.skelDetSync = [⟨.setAtomicIndex, .index⟩] ∧ Gen.skelDetAdvance = [⟨.advanceLocal, .count⟩] ∧
    Gen.skelDetReset.map (·.name) = [.succIndex] ∧ Gen.skelDetSetIndex = [] ∧ Gen.skelDetGoBack = [] :=
  ⟨rfl, rfl, rfl, rfl, rfl, rfl, rfl, rfl, rfl, rfl, rfl, rfl, rfl, rfl, rfl, rfl, rfl, rfl, rfl, rfl⟩

/-- Non-vacuity (the witnesses of defects D2 and D3): len 8, detached worker at index 2 goes back 3 → 7;
    `set_index` then a getter sees only the true distance. -/
example :
    let pre : List Op := [.push 0, .push 1, .push 2, .push 3, .push 4, .push 5, .push 6, .available .W, .advance .W 7 [],
      .available .C, .advance .C 7 [], .push 10, .push 11, .push 12, .push 13, .detach .W, .available .W, .advance .W 3 [], .goBack .W 3]
    let s := (run (St.init [0, 0, 0, 0, 0, 0, 0, 0] true true false) pre).1
    s.w.idx = 7 ∧ s.w.cached = 4 ∧ (step (step s (.setIndex .W 2)).1 (.sliceExact .W 2)).2 = .none ∧
    (step (step s (.setIndex .W 2)).1 (.sliceExact .W 1)).2 = .win 2 1 0 0 [13] := by decide

end MRB.Props.C12
