//! asyncdiff: the async layer against the Lean model (`poll`/`hold`/`repoll`/`dropfut` lines) and the oracle.
#[cfg(not(feature = "async"))]
fn main() { eprintln!("asyncdiff needs --features async"); std::process::exit(2); }

#[cfg(feature = "async")]
fn main() { imp::main() }

#[cfg(feature = "async")]
mod imp {
use mrb_harness::aexec::{ASess, AsyncCopyApi, Polled};
use mrb_harness::driver::Driver;
use mrb_harness::exec;
use mrb_harness::gen::{profile, Gen, Profile};
use mrb_harness::json::{arr, esc, obj, strs};
use mrb_harness::ops::{Obs, Op, Out, Role, ROLES};
use mrb_harness::oracle::{abs, AOut, Oracle};
use mrb_harness::rng::Rng;
use mrb_harness::tok::{self, Tok};
use mutringbuf::*;
use std::collections::BTreeMap;
use std::time::Instant;

fn arg(args: &[String], name: &str) -> Option<String> { args.iter().position(|a| a == name).and_then(|i| args.get(i + 1).cloned()) }

#[derive(Clone, Debug)]
enum ALine { Poll(Op), Hold(Role, Op), Repoll(Role), DropFut(Role), Sync(Op) }
impl ALine {
    fn text(&self) -> String { match self { ALine::Poll(o) => format!("poll {}", o.line()), ALine::Hold(r, o) => format!("hold {} {}", r.ch(), o.line()), ALine::Repoll(r) => format!("repoll {}", r.ch()),
        ALine::DropFut(r) => format!("dropfut {}", r.ch()), ALine::Sync(o) => o.line() } }
    fn parse(l: &str) -> Option<ALine> {
        let w: Vec<&str> = l.split_whitespace().collect();
        match w.as_slice() {
            ["poll", rest @ ..] => Some(ALine::Poll(Op::parse(&rest.join(" "))?)),
            ["hold", r, rest @ ..] => Some(ALine::Hold(Role::parse(r)?, Op::parse(&rest.join(" "))?)),
            ["repoll", r] => Some(ALine::Repoll(Role::parse(r)?)),
            ["dropfut", r] => Some(ALine::DropFut(Role::parse(r)?)),
            _ => Some(ALine::Sync(Op::parse(l)?)),
        }
    }
}

#[derive(Clone, Debug)]
struct Fail { kind: &'static str, tags: Vec<&'static str>, step: usize, line: String, detail: String }

struct Case { conc: bool, heap: bool, has_w: bool, len: usize, owned: bool, lines: Vec<ALine> }
impl Case {
    fn header(&self) -> String { format!("acase conc={} heap={} w={} len={} owned={}", self.conc as u8, self.heap as u8, self.has_w as u8, self.len, self.owned as u8) }
    fn text(&self) -> String { let mut s = self.header(); for l in &self.lines { s.push('\n'); s.push_str(&l.text()); } s }
    fn parse(t: &str) -> Option<Case> {
        let mut it = t.lines().filter(|l| !l.trim().is_empty() && !l.starts_with('#'));
        let h = it.next()?; let mut c = Case { conc: true, heap: true, has_w: false, len: 2, owned: false, lines: vec![] };
        let mut w = h.split_whitespace(); if w.next()? != "acase" { return None; }
        for kv in w { let (k, v) = kv.split_once('=')?; match k { "conc" => c.conc = v == "1", "heap" => c.heap = v == "1", "w" => c.has_w = v == "1", "owned" => c.owned = v == "1", "len" => c.len = v.parse().ok()?, _ => return None } }
        for l in it { c.lines.push(ALine::parse(l)?); }
        Some(c)
    }
}

fn would_grant(o: &Oracle, op: &Op) -> bool {
    let mut c = o.clone();
    !matches!(c.apply(op).out, Some(AOut::None) | Some(AOut::Err(_)))
}

struct Run<'a> { oracle: Oracle, held: [Option<Op>; 3], fails: Vec<Fail>, executed: Vec<ALine>, driver: Option<&'a mut Driver>, owned: bool, steps: usize, pend: usize, ready: usize,
    not_woken: Vec<String>, ops: BTreeMap<String, usize>,
    /// (vmem) a granted window of this history crossed the physical end of the storage (now or earlier)
    seam: bool }

impl<'a> Run<'a> {
    fn fail(&mut self, kind: &'static str, tags: Vec<&'static str>, line: &ALine, detail: String) {
        let detail = if cfg!(feature = "vmem") && self.seam { format!("{detail} [window crosses the physical end: index+count > len]") } else { detail };
        self.fails.push(Fail { kind, tags, step: self.executed.len(), line: line.text(), detail });
    }

    fn compare_obs(&mut self, line: &ALine, obs: &Obs, exp_drops: &[u64], model_line: Option<String>, mine: String) {
        for r in ROLES { if self.oracle.live[r.i()] && obs.idx[r.i()] != self.oracle.idx(r) { self.fail("oracle", vec!["C14", "C04"], line, format!("index of {:?}: expected {}, got {}", r, self.oracle.idx(r), obs.idx[r.i()])); } }
        if !self.oracle.buffer_gone() {
            let roles: &[Role] = if self.oracle.has_w { &ROLES } else { &[Role::P, Role::C] };
            for r in roles { if obs.publ[r.i()] != self.oracle.pub_idx(*r) { self.fail("oracle", vec!["C14", "C04"], line, format!("published index of {:?}: expected {}, got {}", r, self.oracle.pub_idx(*r), obs.publ[r.i()])); } }
        }
        // life cycle through the async wrappers: liveness flags and the release of the storage (C07; the wrappers must not change it: C13)
        if !self.oracle.buffer_gone() && obs.fl != self.oracle.flags { self.fail("oracle", vec!["C07", "C13", "C14"], line, format!("liveness flags: expected {:?}, got {:?}", self.oracle.flags, obs.fl)); }
        if obs.freed != self.oracle.freed { self.fail("oracle", vec!["C07", "C13", "C14"], line, format!("buffer releases: expected {}, observed {}", self.oracle.freed, obs.freed)); }
        if self.owned && obs.drops != exp_drops { self.fail("oracle", vec!["C14", "C08"], line, format!("destructor runs: expected {:?}, observed {:?}", exp_drops, obs.drops)); }
        if obs.drop_zero { self.fail("oracle", vec!["C09"], line, "a destructor ran on an empty slot".into()); }
        if let Some(m) = model_line { if m != mine { self.fail("model", vec![], line, format!("implementation: {mine}\n        model: {m}")); } }
    }

    fn concretize(&self, op: Op) -> Op {
        if !self.owned { return op; }
        match op {
            Op::Push(_) => Op::Push(tok::fresh_id()),
            Op::PushSC(v) => { let n = v.len(); let first = tok::peek_next_id() + n as u64; Op::PushSC((0..n as u64).map(|i| first + i).collect()) }
            o => o,
        }
    }

    fn exec<B: MutRB<Item = T> + 'static, T: AsyncCopyApi, const W: bool>(&mut self, s: &mut ASess<B, T, W>, line: ALine) {
        self.steps += 1;
        if cfg!(feature = "vmem") {
            let op = match &line { ALine::Poll(o) | ALine::Hold(_, o) | ALine::Sync(o) => Some(o.clone()), ALine::Repoll(r) => self.held[r.i()].clone(), _ => None };
            if let Some(op) = op { if mrb_harness::gen::straddles(&self.oracle, &op) { self.seam = true; } }
        }
        *self.ops.entry(match &line { ALine::Poll(o) | ALine::Hold(_, o) => format!("poll:{}", o.kind()), ALine::Repoll(_) => "repoll".into(), ALine::DropFut(_) => "dropfut".into(), ALine::Sync(o) => o.kind().into() }).or_insert(0) += 1;
        match &line {
            ALine::Poll(op) | ALine::Hold(_, op) => {
                let keep = matches!(line, ALine::Hold(..));
                let r = op.role().unwrap();
                let grant = would_grant(&self.oracle, op);
                let (res, obs) = s.hold_op(r, op, keep);
                let mine = format!("{} | {} wakes {}", res.line(), obs.line(), s.wakes());
                let model = self.driver.as_mut().map(|d| d.ask(&line.text()));
                let mut exp_drops = vec![];
                match (&res, grant) {
                    (Polled::Ready(o), true) => { self.ready += 1; let e = self.oracle.apply(op); exp_drops = e.drops; let got = abs(op, o); if Some(got.clone()) != e.out { self.fail("oracle", vec!["C14", "C01"], &line, format!("resolved with {:?}, the synchronous operation yields {:?}", o, e.out)); } }
                    (Polled::Pending, false) => { self.pend += 1; if keep { self.held[r.i()] = Some(op.clone()); }
                        if s.last_registered == Some(false) { self.fail("oracle", vec!["C15"], &line, "returned Pending without keeping the waker of the task that polled: no later wake-up can reach that task".into()); } }
                    (Polled::Ready(o), false) => { self.fail("oracle", vec!["C14", "C05"], &line, format!("resolved with {:?} although the synchronous operation would be refused", o)); let _ = self.oracle.apply(op); }
                    (Polled::Pending, true) => { self.fail("oracle", vec!["C14"], &line, "returned Pending although the operation was possible".into()); if keep { self.held[r.i()] = Some(op.clone()); } }
                }
                self.compare_obs(&line, &obs, &exp_drops, model, mine);
            }
            ALine::Repoll(r) => {
                let op = self.held[r.i()].clone().expect("no held future");
                let grant = would_grant(&self.oracle, &op);
                let (res, obs) = s.repoll(*r);
                let mine = format!("{} | {} wakes {}", res.line(), obs.line(), s.wakes());
                let model = self.driver.as_mut().map(|d| d.ask(&line.text()));
                let mut exp_drops = vec![];
                match (&res, grant) {
                    (Polled::Ready(o), true) => { self.ready += 1; self.held[r.i()] = None; let e = self.oracle.apply(&op); exp_drops = e.drops; if Some(abs(&op, o)) != e.out { self.fail("oracle", vec!["C14", "C01"], &line, format!("resolved with {:?}, expected {:?}", o, e.out)); } }
                    (Polled::Pending, false) => { self.pend += 1;
                        if s.last_registered == Some(false) { self.fail("oracle", vec!["C15"], &line, "returned Pending without keeping the waker of the task that polled: no later wake-up can reach that task".into()); } }
                    (Polled::Ready(o), false) => { self.held[r.i()] = None; self.fail("oracle", vec!["C14"], &line, format!("resolved with {:?} although still impossible", o)); let _ = self.oracle.apply(&op); }
                    (Polled::Pending, true) => { self.fail("oracle", vec!["C14"], &line, "a future polled after its condition became true did not complete".into()); }
                }
                self.compare_obs(&line, &obs, &exp_drops, model, mine);
            }
            ALine::DropFut(r) => {
                self.held[r.i()] = None;
                let obs = s.drop_fut(*r);
                let mine = format!("ok | {} wakes {}", obs.line(), s.wakes());
                let model = self.driver.as_mut().map(|d| d.ask(&line.text()));
                self.compare_obs(&line, &obs, &[], model, mine);
            }
            ALine::Sync(op) => {
                if let Op::Drop(r) = op { self.held[r.i()] = None; }
                let (out, obs) = s.sync(op);
                let e = self.oracle.apply(op);
                if Some(abs(op, &out)) != e.out { self.fail("oracle", vec!["C13", "C05"], &line, format!("outcome {:?}, expected {:?}", out, e.out)); }
                let mine = format!("{} | {}", out.line(), obs.line());
                let model = self.driver.as_mut().map(|d| d.ask(&line.text()));
                self.compare_obs(&line, &obs, &e.drops, model, mine);
            }
        }
        // C15: a task parked on a pending future must have been woken once its operation became possible
        for r in ROLES {
            if let Some(op) = self.held[r.i()].clone() {
                if would_grant(&self.oracle, &op) && s.wakes() == s.held_wakes[r.i()] {
                    let d = format!("pending {} of {:?} not woken after `{}` made it possible (wake-ups delivered: {})", op.kind(), r, line.text(), s.wakes());
                    if !self.not_woken.contains(&d) { self.not_woken.push(d.clone()); self.fail("oracle", vec!["C15"], &line, d); }
                }
            }
        }
        self.executed.push(line);
    }
}

enum Src<'a> { Gen { rng: &'a mut Rng, pr: &'a Profile, gen: Gen, remaining: usize }, Replay(Vec<ALine>, usize) }

fn next_line(run: &Run, src: &mut Src) -> Option<ALine> {
    match src {
        Src::Replay(v, at) => { while *at < v.len() { let l = v[*at].clone(); *at += 1; if line_allowed(run, &l) { return Some(l); } } None }
        Src::Gen { rng, pr, gen, remaining } => {
            for _ in 0..30 {
                if *remaining == 0 { return None; }
                // a held future blocks its iterator: repoll / drop it sometimes
                let holders: Vec<Role> = ROLES.iter().copied().filter(|r| run.held[r.i()].is_some()).collect();
                if !holders.is_empty() && rng.chance(1, 3) { let r = *rng.pick(&holders); *remaining -= 1; return Some(if rng.chance(3, 4) { ALine::Repoll(r) } else { ALine::DropFut(r) }); }
                let op = gen.next_op(&run.oracle, rng, pr)?;
                let l = match &op { Op::Avail(_) | Op::Adv(..) | Op::Reset(_) | Op::Drop(_) => ALine::Sync(op), _ => { let r = op.role().unwrap(); if rng.chance(1, 3) { ALine::Hold(r, op) } else { ALine::Poll(op) } } };
                if line_allowed(run, &l) { *remaining -= 1; return Some(l); }
            }
            None
        }
    }
}

fn line_allowed(run: &Run, l: &ALine) -> bool {
    match l {
        ALine::Poll(op) | ALine::Hold(_, op) | ALine::Sync(op) => {
            let r = match op.role() { Some(r) => r, None => return false };
            if let ALine::Hold(hr, _) = l { if *hr != r { return false; } }
            if matches!(op, Op::Drop(_)) { return run.oracle.allowed(op); }
            run.held[r.i()].is_none() && run.oracle.allowed(op) && !(matches!(op, Op::Sm(_, 0)))
        }
        ALine::Repoll(r) | ALine::DropFut(r) => run.held[r.i()].is_some(),
    }
}

fn session<B: MutRB<Item = T> + 'static, T: AsyncCopyApi, const W: bool>(p: iterators::ProdIter<'static, B>, w: Option<iterators::WorkIter<'static, B>>, c: iterators::ConsIter<'static, B, W>, run: &mut Run, src: &mut Src, stop: bool) {
    let mut s = ASess::<B, T, W>::new(p, w, c);
    loop {
        if stop && !run.fails.is_empty() { break; }
        let line = match next_line(run, src) { Some(l) => l, None => break };
        let line = match line { ALine::Poll(op) => ALine::Poll(run.concretize(op)), ALine::Hold(r, op) => ALine::Hold(r, run.concretize(op)), l => l };
        run.exec(&mut s, line);
    }
    if !(stop && !run.fails.is_empty()) {
        for r in [Role::W, Role::P, Role::C] { if run.oracle.live[r.i()] { run.exec(&mut s, ALine::Sync(Op::Drop(r))); } }
    }
}

macro_rules! heap_case { ($Buf:ident, $T:ty, $c:expr, $vals:expr, $run:expr, $src:expr, $stop:expr) => {{
    let buf: $Buf<$T> = $Buf::<$T>::from($vals.iter().map(|v| <$T as mrb_harness::tok::Item>::make(*v)).collect::<Vec<$T>>());
    if $c.has_w { let (p, w, c) = buf.split_mut(); session::<_, $T, true>(p, Some(w), c, $run, $src, $stop); } else { let (p, c) = buf.split(); session::<_, $T, false>(p, None, c, $run, $src, $stop); }
}}; }
// concurrent heap buffers split through the crate's own `split_async` / `split_mut_async`, the iterators taken apart with `into_sync`
// (and wrapped again by the session): the async constructors and converters are part of what is compared
macro_rules! heap_case_async { ($T:ty, $c:expr, $vals:expr, $run:expr, $src:expr, $stop:expr) => {{
    use mutringbuf::iterators::async_iterators::AsyncIterator;
    let buf: ConcurrentHeapRB<$T> = ConcurrentHeapRB::<$T>::from($vals.iter().map(|v| <$T as mrb_harness::tok::Item>::make(*v)).collect::<Vec<$T>>());
    // the consumer's `W` parameter (does it look at a worker?) is whatever the crate's split returns: if it is not the one the
    // number of stages calls for, the histories show it (the consumer oversteps the worker / waits for a worker that is not there)
    if $c.has_w { let (p, w, c) = buf.split_mut_async(); session::<_, $T, _>(p.into_sync(), Some(w.into_sync()), c.into_sync(), $run, $src, $stop); }
    else { let (p, c) = buf.split_async(); session::<_, $T, _>(p.into_sync(), None, c.into_sync(), $run, $src, $stop); }
}}; }
macro_rules! stack_case { ($Buf:ident, $T:ty, $N:literal, $c:expr, $vals:expr, $run:expr, $src:expr, $stop:expr) => {{
    let mut buf: $Buf<$T, $N> = $Buf::<$T, $N>::from(std::array::from_fn::<$T, $N, _>(|i| <$T as mrb_harness::tok::Item>::make($vals[i])));
    let bp: *mut $Buf<$T, $N> = &mut buf;
    if $c.has_w { let (p, w, c) = unsafe { (*bp).split_mut() }; session::<_, $T, true>(p, Some(w), c, $run, $src, $stop); } else { let (p, c) = unsafe { (*bp).split() }; session::<_, $T, false>(p, None, c, $run, $src, $stop); }
    drop(buf);
}}; }
#[cfg(not(feature = "vmem"))]
macro_rules! uni_case { ($T:ty, $c:expr, $vals:expr, $run:expr, $src:expr, $stop:expr) => {
    match ($c.conc, $c.heap, $c.len) {
        (true, true, l) if l % 2 == 1 => heap_case_async!($T, $c, $vals, $run, $src, $stop),
        (true, true, _) => heap_case!(ConcurrentHeapRB, $T, $c, $vals, $run, $src, $stop),
        (false, true, _) => heap_case!(LocalHeapRB, $T, $c, $vals, $run, $src, $stop),
        (true, false, 2) => stack_case!(ConcurrentStackRB, $T, 2, $c, $vals, $run, $src, $stop), (true, false, 3) => stack_case!(ConcurrentStackRB, $T, 3, $c, $vals, $run, $src, $stop),
        (true, false, 4) => stack_case!(ConcurrentStackRB, $T, 4, $c, $vals, $run, $src, $stop), (true, false, 5) => stack_case!(ConcurrentStackRB, $T, 5, $c, $vals, $run, $src, $stop),
        (true, false, _) => stack_case!(ConcurrentStackRB, $T, 8, $c, $vals, $run, $src, $stop),
        (false, false, 2) => stack_case!(LocalStackRB, $T, 2, $c, $vals, $run, $src, $stop), (false, false, 3) => stack_case!(LocalStackRB, $T, 3, $c, $vals, $run, $src, $stop),
        (false, false, 4) => stack_case!(LocalStackRB, $T, 4, $c, $vals, $run, $src, $stop), (false, false, 5) => stack_case!(LocalStackRB, $T, 5, $c, $vals, $run, $src, $stop),
        (false, false, _) => stack_case!(LocalStackRB, $T, 8, $c, $vals, $run, $src, $stop),
    }
}; }
// vmem: heap buffers only (whole pages)
#[cfg(feature = "vmem")]
macro_rules! uni_case { ($T:ty, $c:expr, $vals:expr, $run:expr, $src:expr, $stop:expr) => {
    match $c.conc {
        true => heap_case!(ConcurrentHeapRB, $T, $c, $vals, $run, $src, $stop),
        false => heap_case!(LocalHeapRB, $T, $c, $vals, $run, $src, $stop),
    }
}; }

fn run_case<'a>(c: &Case, mut src: Src, driver: Option<&'a mut Driver>, stop: bool) -> Run<'a> {
    tok::reset_ledger();
    exec::FREED.store(0, std::sync::atomic::Ordering::SeqCst);
    let len = if c.heap { c.len } else { match c.len { 2 | 3 | 4 | 5 => c.len, _ => 8 } };
    let vals: Vec<u64> = if c.owned { (0..len).map(|_| tok::fresh_id()).collect() } else { (0..len as u64).map(|i| 100 + i).collect() };
    let oracle = Oracle::new(vals.clone(), c.has_w, c.heap, c.owned);
    let mut run = Run { oracle, held: [None, None, None], fails: vec![], executed: vec![], driver, owned: c.owned, steps: 0, pend: 0, ready: 0, not_woken: vec![], ops: BTreeMap::new(), seam: false };
    if let Some(d) = run.driver.as_mut() {
        let a = d.ask(&format!("{} {} {} {} {} {}", if cfg!(feature = "vmem") { "initvm" } else { "init" }, len, c.has_w as u8, c.heap as u8, c.owned as u8, vals.iter().map(|v| v.to_string()).collect::<Vec<_>>().join(" ")));
        if !a.starts_with("ok ") { run.fails.push(Fail { kind: "model", tags: vec![], step: 0, line: "init".into(), detail: a }); }
    }
    { let r = &mut run; let s = &mut src; if c.owned { uni_case!(Tok, c, vals, r, s, stop) } else { uni_case!(u64, c, vals, r, s, stop) } }
    if c.owned && !(stop && !run.fails.is_empty()) {
        let bad: Vec<(u64, u32)> = tok::LEDGER.with(|l| { let l = l.borrow(); let mut b: Vec<(u64, u32)> = l.created.keys().map(|id| (*id, l.dropped.get(id).copied().unwrap_or(0))).filter(|(_, d)| *d != 1).collect(); b.sort(); b });
        if !bad.is_empty() { run.fails.push(Fail { kind: "oracle", tags: vec!["C14", "C08"], step: run.executed.len(), line: "<end of case>".into(), detail: format!("tokens not destroyed exactly once (id, destructor runs): {:?}", &bad[..bad.len().min(8)]) }); }
    }
    run
}

fn shrink(c: &Case, lines: Vec<ALine>, kind: &'static str, tag: Option<&'static str>, dp: Option<&str>) -> Vec<ALine> {
    let fails = |ls: &Vec<ALine>| { let mut d = dp.and_then(|p| Driver::spawn(p).ok()); let r = run_case(c, Src::Replay(ls.clone(), 0), d.as_mut(), true); r.fails.iter().any(|f| f.kind == kind && tag.map(|t| f.tags.contains(&t)).unwrap_or(true)) };
    let mut cur = lines; let mut chunk = (cur.len() / 2).max(1); let mut budget = 300;
    while chunk >= 1 && budget > 0 {
        let mut i = 0; let mut prog = false;
        while i < cur.len() && budget > 0 { let mut cand = cur.clone(); let e = (i + chunk).min(cand.len()); cand.drain(i..e); budget -= 1; if fails(&cand) { cur = cand; prog = true; } else { i += chunk; } }
        if chunk == 1 && !prog { break; }
        if !prog { chunk /= 2; }
    }
    cur
}

pub fn main() {
    let args: Vec<String> = std::env::args().collect();
    mutringbuf::verif::set_hook(Some(exec::count_hook));
    std::panic::set_hook(Box::new(|_| {}));
    let prof_name = arg(&args, "--profile").unwrap_or("async".into());
    let seed: u64 = arg(&args, "--seed").and_then(|s| s.parse().ok()).unwrap_or(1);
    let cases: usize = arg(&args, "--cases").and_then(|s| s.parse().ok()).unwrap_or(200);
    let dp = arg(&args, "--driver");
    let out_path = arg(&args, "--out");
    let t0 = Instant::now();
    let pr = profile(&prof_name);
    let mut rng = Rng::new(seed);
    let mut fj: Vec<String> = vec![]; let mut samples: Vec<String> = vec![];
    let (mut ncases, mut nfail, mut steps, mut pend, mut ready) = (0usize, 0usize, 0usize, 0usize, 0usize);
    let mut ops: BTreeMap<String, usize> = BTreeMap::new();
    let mut distinct = std::collections::HashSet::new();
    let mut handle = |c: &Case, r: &Run, origin: &str, fj: &mut Vec<String>| {
        let f = r.fails.iter().find(|f| f.kind == "oracle").unwrap_or(&r.fails[0]);
        let lines = shrink(c, r.executed.clone(), f.kind, f.tags.first().copied(), dp.as_deref());
        let small = Case { conc: c.conc, heap: c.heap, has_w: c.has_w, len: c.len, owned: c.owned, lines };
        let mut d = dp.as_ref().and_then(|p| Driver::spawn(p).ok());
        let rr = run_case(&small, Src::Replay(small.lines.clone(), 0), d.as_mut(), false);
        let mut tags: Vec<String> = vec![]; for x in rr.fails.iter().filter(|x| x.kind == "oracle") { for t in &x.tags { if !tags.contains(&t.to_string()) { tags.push(t.to_string()); } } }
        let kind = if rr.fails.iter().any(|x| x.kind == "oracle") { "oracle" } else { f.kind };
        let fs: Vec<String> = rr.fails.iter().take(6).map(|f| obj(&[("kind", esc(f.kind)), ("step", f.step.to_string()), ("op", esc(&f.line)), ("detail", esc(&f.detail))])).collect();
        let ex = Case { conc: c.conc, heap: c.heap, has_w: c.has_w, len: c.len, owned: c.owned, lines: rr.executed.clone() };
        fj.push(obj(&[("origin", esc(origin)), ("kind", esc(kind)), ("tags", strs(&tags)), ("case", esc(&ex.text())), ("failures", arr(&fs))]));
    };
    if let Some(rp) = arg(&args, "--replay") {
        let text = std::fs::read_to_string(&rp).expect("replay");
        let c = Case::parse(&text).expect("cannot parse async case");
        let mut d = dp.as_ref().and_then(|p| Driver::spawn(p).ok());
        let r = run_case(&c, Src::Replay(c.lines.clone(), 0), d.as_mut(), false);
        ncases = 1; steps = r.steps; pend = r.pend; ready = r.ready;
        if !r.fails.is_empty() { nfail = 1; handle(&c, &r, &rp, &mut fj); }
        samples.push(c.text());
    } else {
        let mut driver = dp.as_ref().map(|p| Driver::spawn(p).expect("driver"));
        for _ in 0..cases {
            let heap = cfg!(feature = "vmem") || rng.chance(1, 2);
            let c = Case { conc: rng.chance(1, 2), heap, has_w: rng.chance(1, 2), len: if cfg!(feature = "vmem") { 4096 } else if heap { *rng.pick(&[2usize, 3, 4, 5, 7, 9]) } else { *rng.pick(&[2usize, 3, 4, 5, 8]) }, owned: pr.owned, lines: vec![] };
            let n = rng.range(pr.max_ops / 3, pr.max_ops);
            let r = run_case(&c, Src::Gen { rng: &mut rng, pr: &pr, gen: Gen::new(), remaining: n }, driver.as_mut(), false);
            ncases += 1; steps += r.steps; pend += r.pend; ready += r.ready;
            for (k, v) in &r.ops { *ops.entry(k.clone()).or_insert(0) += v; }
            if r.pend > 0 { let mut ks: Vec<String> = r.ops.iter().map(|(k, v)| format!("{k}{v}")).collect(); ks.sort(); distinct.insert(format!("{} {:?}", c.header(), ks)); }
            if samples.len() < 2 && r.pend > 1 { samples.push(Case { conc: c.conc, heap: c.heap, has_w: c.has_w, len: c.len, owned: c.owned, lines: r.executed.clone() }.text()); }
            if !r.fails.is_empty() {
                nfail += 1;
                // report the first few failing cases, but at most one per distinct leading tag so that different findings all show
                let lead = r.fails.iter().find(|f| f.kind == "oracle").map(|f| f.tags.first().copied().unwrap_or("")).unwrap_or("");
                let seen_lead = fj.iter().filter(|j| j.contains(&format!("[\"{}\"", lead))).count();
                if fj.len() < 8 && seen_lead < 2 { handle(&c, &r, &format!("seed {seed}"), &mut fj); }
                if let Some(p) = &dp { driver = Some(Driver::spawn(p).expect("driver")); }
            }
        }
    }
    let oh: Vec<(String, String)> = ops.iter().map(|(k, v)| (k.clone(), v.to_string())).collect();
    let oref: Vec<(&str, String)> = oh.iter().map(|(k, v)| (k.as_str(), v.clone())).collect();
    let summary = obj(&[("profile", esc(&prof_name)), ("seed", seed.to_string()), ("cases", ncases.to_string()), ("steps", steps.to_string()), ("pending_polls", pend.to_string()), ("ready_polls", ready.to_string()),
        ("refused_requests", pend.to_string()), ("wrap_arounds", "0".into()), ("distinct_nontrivial", distinct.len().to_string()), ("ops", obj(&oref)), ("lens", "{}".into()), ("variants", "{}".into()),
        ("failing_cases", nfail.to_string()), ("failure_kinds", "{}".into()), ("failures", arr(&fj)), ("samples", strs(&samples)), ("wall_s", format!("{:.2}", t0.elapsed().as_secs_f64()))]);
    match out_path { Some(p) => std::fs::write(p, summary).unwrap(), None => println!("{summary}") }
    std::process::exit(if nfail > 0 { 1 } else { 0 });
}
}
