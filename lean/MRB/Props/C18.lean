/-
  C18 — construction and every split start a consistent, correctly sized session.
-/
import MRB.Seq.Run

namespace MRB.Props.C18
open MRB

/-- A buffer built from `n ≥ 1` items has length `n`, keeps the supplied contents in order, starts with all
    indices at 0, and is related to the fresh specification state (so every theorem about reachable states applies). -/
theorem C18_construction (slots : List Nat) (hasW heap owned : Bool) (hlen : 1 ≤ slots.length) (hlt : slots.length < 2 ^ 63) :
    let s := St.init slots hasW heap owned
    s.len = slots.length ∧ s.slots = slots ∧ s.p.idx = 0 ∧ s.w.idx = 0 ∧ s.c.idx = 0 ∧ s.pubP = 0 ∧ s.pubW = 0 ∧ s.pubC = 0 ∧
    Rel s (Sp.init slots.length hasW) :=
  ⟨rfl, rfl, rfl, rfl, rfl, rfl, rfl, rfl, rel_init slots hasW heap owned hlen hlt⟩

/-- Usable capacity is `n - 1`: right after construction the producer has `n - 1` free slots and worker
    and consumer have nothing; the availabilities sum to `len - 1`. -/
theorem C18_fresh_availabilities (n : Nat) (hasW : Bool) :
    (Sp.init n hasW).avail .P = n - 1 ∧ (Sp.init n hasW).avail .W = 0 ∧ (Sp.init n hasW).avail .C = 0 := by
  cases hasW <;> simp [Sp.init, Sp.avail, Sp.limit, Sp.pos]

/-- The same holds immediately after *any* later split of a stack buffer (whatever the previous session did,
    with or without worker in either session): fresh indices, fresh availabilities, and the invariant. -/
theorem C18_resplit_consistent {s : St} {a : Sp} (r : Reach s a) (w : Bool) (hal : Allowed s a (.resplit w)) :
    let s' := (step s (.resplit w)).1
    let a' := (a.step (.resplit w)).1
    Rel s' a' ∧ a'.avail .P = s'.len - 1 ∧ a'.avail .W = 0 ∧ a'.avail .C = 0 ∧ a'.hist = [] ∧ a'.delivered = [] ∧
    s'.pubP = 0 ∧ s'.pubW = 0 ∧ s'.pubC = 0 ∧ s'.p.idx = 0 ∧ s'.w.idx = 0 ∧ s'.c.idx = 0 ∧ s'.len = s.len := by
  have h' := (step_refines r.rel (.resplit w) hal).1
  refine ⟨h', ?_, ?_, ?_, rfl, rfl, rfl, rfl, rfl, rfl, rfl, rfl, rfl⟩ <;>
    cases w <;> simp [Sp.step, Sp.avail, Sp.limit, Sp.pos, step, r.rel.len_eq]

/-- After a (re-)split the consumer can obtain only items pushed in the new session: whatever it is
    delivered afterwards is an item accepted after the split. -/
theorem C18_new_session_delivers_only_new_items {s : St} {a : Sp} (r : Reach s a) (w : Bool) (hal : Allowed s a (.resplit w))
    (ops : List Op) (hops : AllowedRun (step s (.resplit w)).1 (a.step (.resplit w)).1 ops) :
    let a'' := ((a.step (.resplit w)).1.run ops).1
    a''.delivered = pick a''.mask a''.hist := by
  have hr : Reach (step s (.resplit w)).1 (a.step (.resplit w)).1 := Reach.step _ r hal
  have : ∀ (ops : List Op) (s : St) (a : Sp), Reach s a → AllowedRun s a ops → Reach (run s ops).1 (a.run ops).1 := by
    intro ops
    induction ops with
    | nil => intro s a r _; exact r
    | cons op ops ih => intro s a r h; exact ih _ _ (Reach.step op r h.1) h.2
  exact (this ops _ _ hr hops).fifo

/-- Tie to the source of construction and split (regenerated from `impl_splits!`, the buffers' `_from`, the iterators' `new`,
`From<Vec<T>> for HeapStorage`, `get_range_max`, `impl_rb!`): every split creates exactly the iterators of its kind, in
producer–(worker)–consumer order, and sets exactly their liveness flags; a stack split — the only one that can be repeated —
first resets all three published indices to 0 (defect D4, fixed); both buffer variants start with indices 0, flags false,
counter 0, the storage's length and refuse an empty storage; fresh iterators start at index 0 with nothing remembered; a
heap buffer built from a vector has the vector's *length* (`into_boxed_slice`), `default`/`new_zeroed` have the requested
capacity (rounded up to pages only under `vmem`). This is what `St.init` and the `resplit` step of the machine assume. -/
theorem C18_source_construction :
    Gen.splits.map (fun s => (s.storage, s.withWorker)) = [(.heap, false), (.heap, true), (.stack, false), (.stack, true)] ∧
    (∀ s ∈ Gen.splits, s.storage = .stack → s.resets = [.prod, .work, .cons]) ∧
    (∀ s ∈ Gen.splits, s.iters = (if s.withWorker then [.P, .W, .C] else [.P, .C]) ∧ s.alive = s.iters) ∧
    (∀ s ∈ Gen.splits, s.bufRef = (if s.storage = .heap then "new" else "from_ref")) ∧
    Gen.concInit = { idxZero := true, flagsFalse := true, counterZero := true, lenIsStorageLen := true, refusesEmpty := true } ∧
    Gen.localInit = Gen.concInit ∧ Gen.iterNewZero = [true, true, true] ∧
    Gen.ctorFacts = { fromVecKeepsAll := true, rangeMaxVmemIsPageMultiple := true, rangeMaxPlainIsCapacity := true,
                      fromWrapsStorage := true, newZeroedHasRangeMax := true, defaultHasRangeMax := true } := by
  refine ⟨rfl, by decide, by decide, by decide, rfl, rfl, rfl, rfl⟩

end MRB.Props.C18
