/-
  C15 — a task awaiting an async operation is woken; satisfiable waits do not hang.
  The unchanged code violates this property (known finding D7): the crate registers wakers but contains no call of
  `wake`/`wake_by_ref` at all. The full statement is kept below; its negation is proved with a concrete witness, and the
  part that does hold (a re-polled future completes once enabled — what a busy-polling executor relies on) is proved.
-/
import MRB.AsyncProofs

namespace MRB.Props.C15
open MRB

/-- The property at full strength, on the async machine: whenever a task is parked on a pending future and an operation
    of another iterator makes that future's operation possible, a wake-up is delivered by that operation. -/
def C15_statement : Prop :=
  ∀ (A : ASt) (r : Role) (op e : Op), A.held r = some op → (poll A.st op).2 = .pending →
    (poll (A.sync e).1.st op).2 ≠ .pending → A.wakes < (A.sync e).1.wakes

/-- Tie to the source: the crate contains no wake call site. (If one appears, this theorem — and with it the
    refutation below — no longer checks, and the model of wake-ups has to be extended.) -/
theorem C15_source_no_wake_sites : Gen.wakeSites = [] := rfl

/-- **Refuted** on the current tree: a consumer task parked on `pop` of an empty buffer is not woken by the push that
    makes the pop possible. -/
theorem C15_refuted : ¬ C15_statement := by
  intro h
  have := h { st := St.init [0, 0, 0] false true false, heldC := some .pop } .C .pop (.push 5) rfl (by decide) (by decide)
  revert this
  decide

/-- What does hold: a future that is polled again after its operation became possible completes (no lost state),
    so an executor that re-polls — as the repository's own async tests do — makes progress. -/
theorem C15_partial_repoll_completes {s : St} {a : Sp} (h : Rel s a) (op : Op) (hop : op.isAsync = true) (hal : Allowed s a op)
    (hposs : (a.step op).2.refused = false) : ∃ o, (poll s op).2 = .ready o :=
  ⟨_, by rw [(poll_spec h op hop hal).1 hposs]⟩

/-- What also holds, and is what `poll`'s second attempt is for: if another stage makes the operation possible *while the waker
    is being registered* (after the refused first attempt), the same poll completes — the task is not parked on a condition
    that is already true. (Engine `wakeprobe` forces exactly this interleaving on the real crate.) -/
theorem C15_partial_no_lost_wakeup_window {s : St} {a : Sp} (h : Rel s a) (op e : Op) (hop : op.isAsync = true) (hal : Allowed s a op)
    (href : (a.step op).2.refused = true) (hale : Allowed (step s op).1 a e)
    (hal2 : Allowed (step (step s op).1 e).1 (a.step e).1 op) (hen : ((a.step e).1.step op).2.refused = false) :
    ∃ o, (pollWith s op e).2 = .ready o :=
  let ⟨o, h1, _⟩ := pollWith_completes h op e hop hal href hale hal2 hen
  ⟨o, h1⟩

/-- Tie of that window to the source: in every event sequence the translator's interpreter finds in `MRBFuture::poll` of the
    current tree, `Pending` is returned only after the waker has been registered *and* an attempt made after the registration
    has failed — there is no way out of `poll` with `Pending` in which a change that happened before the registration could
    go unnoticed — and no sequence ends in something the interpreter could not follow. -/
theorem C15_source_pending_only_after_registered_attempt :
    ∀ t ∈ Gen.pollTraces, (.unknown ∉ t) ∧
      (t.getLast? = some .pending → ∃ pre post, t = pre ++ [.register] ++ post ∧ .attemptFail ∈ post ∧ .register ∉ post) := by
  intro t ht
  have hall : Gen.pollTraces = [[.attemptFail, .register, .attemptFail, .pending], [.attemptFail, .register, .attemptOk, .ready],
      [.attemptOk, .ready]] := rfl
  rw [hall] at ht
  simp only [List.mem_cons, List.not_mem_nil, or_false] at ht
  rcases ht with rfl | rfl | rfl
  · exact ⟨by decide, fun _ => ⟨[.attemptFail], [.attemptFail, .pending], rfl, by decide, by decide⟩⟩
  · exact ⟨by decide, fun h => absurd h (by decide)⟩
  · exact ⟨by decide, fun h => absurd h (by decide)⟩

/-- Non-vacuity: empty buffer, consumer polls `pop`, the producer pushes 7 during the registration: ready with 7. -/
example : (pollWith (St.init [0, 0, 0] false true false) .pop (.push 7)).2 = .ready (.item 7) := by decide

end MRB.Props.C15
