/-
  C03 — a slot is accessible to one iterator at a time; slot accesses never race.
  Machine: MRB.Conc.Machine (release/acquire message histories, vector-clock detector, orderings taken from the
  accessor table generated from concurrent_rb.rs). Partial in the sense of DESIGN.md §9: the release/acquire semantics
  itself, and the absence of accesses outside granted windows by user code, are modelled/assumed, not proved.
-/
import MRB.Conc.Data
import MRB.Conc.Replay

namespace MRB.Props.C03
open MRB MRB.Conc

/-- In no reachable state has any slot access raced: every access an iterator makes inside the window it was
    granted — also one granted from availability remembered from an earlier load — is ordered by happens-before after
    every conflicting access of the other iterators. All interleavings of the primitive steps (loads, accesses in any
    order inside the window, local moves back and forth, publications), all coherent stale reads, every `L ≥ 1`,
    two or three stages, any number of steps. -/
theorem C03_no_race {L : Nat} {hasW : Bool} (hL : 1 ≤ L) {s : St} (r : Reach L hasW s) : s.raced = false :=
  (reach_inv hL r).2

/-- The invariant behind it, and its immediate reading: an access inside the granted window cannot race. -/
theorem C03_access_in_window_never_races {L : Nat} {hasW : Bool} (hL : 1 ≤ L) {s : St} (r : Reach L hasW s) (t : Role) (q : Nat)
    (ht : t = .W → s.hasW = true) (h1 : (s.thr t).pos ≤ q) (h2 : q < (s.thr t).pos + (s.thr t).cached) :
    ¬ ∃ u rec, u ≠ t ∧ s.acc (q % s.L) u = some rec ∧ ¬ rec.stamp ≤ ((s.thr t).vc).get u :=
  access_no_race s (reach_inv hL r).1 t q ht h1 h2

/-- From the moment an iterator is granted slots until it advances past them, no other iterator can be granted any
    of them: the windows `[position, position + remembered availability)` of different iterators are disjoint modulo `L`. -/
theorem C03_exclusive_windows {L : Nat} {hasW : Bool} (hL : 1 ≤ L) {s : St} (r : Reach L hasW s) (t u : Role) (htu : t ≠ u)
    (ht : t = .W → s.hasW = true) (hu : u = .W → s.hasW = true) (q q' : Nat)
    (h1 : (s.thr t).pos ≤ q) (h2 : q < (s.thr t).pos + (s.thr t).cached)
    (h3 : (s.thr u).pos ≤ q') (h4 : q' < (s.thr u).pos + (s.thr u).cached) : q % s.L ≠ q' % s.L :=
  exclusive_windows (reach_inv hL r).1 t u htu ht hu q q' h1 h2 h3 h4

/-- **Why one slot always stays free.** Whatever the producer is entitled to touch, it is never the slot of the last position
the consumer has published as consumed: every position `q` in the producer's window satisfies `k - 1 < q < k - 1 + L`, where `k`
is the consumer index the producer last read, so `q` and `k - 1` are different slots. (Hence a consumer that publishes a position
a moment before it has finished reading the slot below it is not overtaken there by the producer: the change
`C03-w3-extract-item-releases-slot-before-reading` of DESIGN §10 breaks the order "access, then publish" this file's conformance
theorem pins, but yields no overlapping access.) -/
theorem C03_last_released_slot_is_out_of_reach {L : Nat} {hasW : Bool} (hL : 1 ≤ L) {s : St} (r : Reach L hasW s) (q : Nat)
    (h1 : s.tP.pos ≤ q) (h2 : q < s.tP.pos + s.tP.cached) (hk : 1 ≤ s.tP.k) : q % s.L ≠ (s.tP.k - 1) % s.L := by
  have inv := (reach_inv hL r).1
  have j2 := inv.j2 .P
  have jk := inv.j2k .P
  have b := inv.j1b .C
  obtain ⟨o3, o2⟩ := inv.order
  simp only [St.thr, St.hist, lead, slack] at j2 jk b
  have hLs := inv.hL
  have hlt : s.tP.k - 1 < q := by
    cases hw : s.hasW
    · have := o2 hw; omega
    · have := o3 hw; omega
  have hub : q < s.tP.k - 1 + s.L := by omega
  intro e
  -- two numbers less than L apart in the same residue class are equal
  have := mod_lt_step hLs e hub
  omega

/-- **Recorded executions of the real crate are executions of this machine.** Whatever trace the scheduler harness
recorded (loads of the index ahead with the message read, stores of the own index, slot accesses), the lines the replay
accepts are steps of `Step` (the guards it checks are exactly the premises of the constructors), so the state after the
replay is reachable: it satisfies the invariant and has no race. The check replays every recorded execution; a line
the replay refuses is reported with the guard the real code broke. -/
theorem C03_replayed_executions_satisfy_the_invariant (L : Nat) (hasW : Bool) (hL : 1 ≤ L) (trace : List (List String)) :
    CInv (replay (init L hasW) trace) ∧ (replay (init L hasW) trace).raced = false :=
  reach_inv hL (replay_reach trace Reach.init)

/-- What an accessor touches and how, without the ordering (the ordering enters through `ldAcq` / `stRel`: at least
Acquire for the loads, at least Release for the stores — a stronger ordering in the source is as good). -/
def shape (a : Acc) : Loc × AccKind × Bool := (a.loc, a.kind, a.guarded)

/-- Tie to the source: every published index is loaded with Acquire and stored with Release (if one of the six is weakened,
    this theorem — and with it `reach_inv` — no longer checks), the consumer of a two-stage buffer looks at the producer and
    of a three-stage buffer at the worker, and data is accessed after the grant and before the publication. -/
theorem C03_source_orderings_and_program_order :
    (∀ t, ldAcq t = true) ∧ (∀ t, stRel t = true) ∧
    Gen.concAcc.prodIndex.map shape = [(.prodIdx, .load, false)] ∧ Gen.concAcc.workIndex.map shape = [(.workIdx, .load, false)] ∧
    Gen.concAcc.consIndex.map shape = [(.consIdx, .load, false)] ∧ Gen.concAcc.setProdIndex.map shape = [(.prodIdx, .store, false)] ∧
    Gen.concAcc.setWorkIndex.map shape = [(.workIdx, .store, false)] ∧ Gen.concAcc.setConsIndex.map shape = [(.consIdx, .store, false)] ∧
    (∀ w, lead w .P = .C ∧ lead w .W = .P ∧ lead w .C = (if w then .W else .P)) ∧
    (∀ w, Gen.prodSucc w = .cons ∧ Gen.workSucc w = .prod ∧ Gen.consSucc w = (if w then .work else .prod)) ∧
    Gen.skelPush = [⟨.nextRefMutInit, .none⟩, ⟨.userF, .many⟩, ⟨.advance, .lit 1⟩] ∧
    Gen.skelExtractItem = [⟨.nextRef, .none⟩, ⟨.userF, .many⟩, ⟨.advance, .lit 1⟩] ∧
    Call.bracketed .nextChunkMut Gen.skelPushSlice = true ∧
    Call.bracketed .nextChunkMut Gen.skelExtractSlice = true ∧
    Gen.skelNext = [⟨.check, .lit 1⟩, ⟨.takeInner, .none⟩, ⟨.advance', .lit 1⟩] ∧
    Gen.skelNextDuplicate = [⟨.check, .lit 1⟩, ⟨.innerDuplicate, .none⟩, ⟨.advance', .lit 1⟩] ∧
    Gen.skelAdvance = [⟨.advanceLocal, .count⟩, ⟨.setAtomicIndex, .index⟩] :=
  ⟨ldAcq_all, stRel_all, rfl, rfl, rfl, rfl, rfl, rfl, fun w => ⟨rfl, rfl, rfl⟩, fun w => ⟨rfl, rfl, rfl⟩, rfl, rfl, rfl, rfl, rfl, rfl, rfl⟩

/-- Non-vacuity: the hypotheses are satisfiable — a reachable state in which the producer of a three-slot buffer has loaded
    the consumer's index, written a slot inside the granted window, moved on and published. -/
example : ∃ s, Reach 3 false s ∧ s.tP.pos = 1 ∧ s.tP.cached = 1 ∧ s.hP.length = 2 ∧ s.raced = false := by
  let m0 : Msg := ⟨0, VC.zero, true⟩
  have r0 : Reach 3 false (init 3 false) := Reach.init
  have r1 := Reach.step r0 (Step.refresh (init 3 false) .P m0 (List.mem_cons_self ..) (Nat.le_refl _) (by decide))
  have r2 := Reach.step r1 (Step.access _ .P 0 (by decide) (by decide) (by decide))
  have r3 := Reach.step r2 (Step.moveLocal _ .P 1 (by decide) (by decide))
  have r4 := Reach.step r3 (Step.publish _ .P (by decide))
  exact ⟨_, r4, by decide, by decide, by decide, (reach_inv (by decide) r4).2⟩

end MRB.Props.C03
