//! Independent reference for the sequential API: logical positions (no wrap-around), the list of
//! accepted items, the contract of the `unsafe` functions, and what the physical slots must hold.
//! It decides (a) which operations a generator may issue (contract-respecting histories only) and
//! (b) whether an observed behaviour violates a property, independently of the Lean model.
use crate::ops::{Op, Out, Role};

#[derive(Clone, Debug)]
pub struct Oracle {
    pub len: usize,
    pub has_w: bool,
    pub heap: bool,
    pub owned: bool,
    pub pos: [usize; 3],
    pub publ: [usize; 3],
    pub det: [bool; 3],
    pub live: [bool; 3],
    pub flags: [bool; 3],
    pub live_count: usize,
    pub freed: usize,
    /// item at every logical position below the producer's
    pub hist: Vec<u64>,
    /// what each physical slot holds (0 = empty)
    pub slots: Vec<u64>,
    /// size of the window last granted to each role and not yet invalidated by a move of that role
    pub granted: [usize; 3],
    pub delivered: Vec<u64>,
    /// logical position at which the current session started (re-split)
    pub moved_out_pending: usize,
}

/// Expected abstract outcome.
#[derive(Clone, PartialEq, Eq, Debug)]
pub enum AOut { None, Ok, Num(usize), Item(u64), Err(u64), Vals(Vec<u64>), Granted(usize), Panic }

pub fn abs(op: &Op, o: &Out) -> AOut {
    let pg = matches!(op, Op::Gw(Role::P) | Op::Se(Role::P, _) | Op::Sa(Role::P) | Op::Sm(Role::P, _) | Op::Nim | Op::Nimi | Op::Nsm(_));
    match o {
        Out::None => AOut::None, Out::Ok => AOut::Ok, Out::Num(n) => AOut::Num(*n),
        Out::Item(v) => if pg { AOut::Granted(1) } else { AOut::Item(*v) },
        Out::Err(v) => AOut::Err(*v),
        Out::Win { vals, .. } => if pg { AOut::Granted(vals.len()) } else { AOut::Vals(vals.clone()) },
        Out::Vals(v) => AOut::Vals(v.clone()),
        Out::Panic => AOut::Panic,
    }
}

#[derive(Clone, Debug, Default)]
pub struct Expect {
    pub out: Option<AOut>,
    pub drops: Vec<u64>,
}

impl Oracle {
    pub fn new(slots: Vec<u64>, has_w: bool, heap: bool, owned: bool) -> Oracle {
        let len = slots.len();
        Oracle { len, has_w, heap, owned, pos: [0; 3], publ: [0; 3], det: [false; 3], live: [true, has_w, true],
                 flags: [true, has_w, true], live_count: if has_w { 3 } else { 2 }, freed: 0, hist: vec![], slots,
                 granted: [0; 3], delivered: vec![], moved_out_pending: 0 }
    }

    pub fn limit(&self, r: Role) -> usize {
        match r {
            Role::P => self.publ[2] + (self.len - 1),
            Role::W => self.publ[0],
            Role::C => if self.has_w { self.publ[1] } else { self.publ[0] },
        }
    }
    pub fn avail(&self, r: Role) -> usize { self.limit(r).saturating_sub(self.pos[r.i()]) }
    pub fn idx(&self, r: Role) -> usize { self.pos[r.i()] % self.len }
    pub fn pub_idx(&self, r: Role) -> usize { self.publ[r.i()] % self.len }
    fn slot_of(&self, q: usize) -> usize { q % self.len }
    pub fn val_at(&self, q: usize) -> u64 { self.slots[self.slot_of(q)] }
    pub fn window(&self, q: usize, n: usize) -> Vec<u64> { (0..n).map(|k| self.val_at(q + k)).collect() }
    pub fn all_dropped(&self) -> bool { !self.live[0] && !self.live[1] && !self.live[2] }
    pub fn buffer_gone(&self) -> bool { self.heap && self.all_dropped() }

    /// Is `op` within the documented contract in the current state?
    pub fn allowed(&self, op: &Op) -> bool {
        use Op::*;
        if let Some(r) = op.role() { if !self.live[r.i()] { return false; } }
        let attached = |r: Role| !self.det[r.i()];
        match op {
            Avail(_) | Gw(_) | Se(..) | Sa(_) => true,
            Sm(_, _) => true,
            Adv(r, n, vs) => *n <= self.avail(*r) && (*r != Role::P || (vs.len() == *n && *vs == self.window(self.pos[0], *n) && self.no_zero_publish(*n))),
            Poke(r, k, _) => *k < self.granted[r.i()] && *k < self.avail(*r) && self.store_ok(*r, *k),
            Push(_) => attached(Role::P) && (self.avail(Role::P) == 0 || !self.owned || self.val_at(self.pos[0]) != 0),
            PushI(_) => attached(Role::P),
            PushS(v) | PushSI(v) => attached(Role::P) && !self.owned && v.len() <= self.len + 1,
            PushSC(v) => attached(Role::P) && v.len() <= self.len + 1
                && (v.len() > self.avail(Role::P) || !self.owned || (0..v.len()).all(|k| self.val_at(self.pos[0] + k) != 0)),
            PushSCI(v) => attached(Role::P) && v.len() <= self.len + 1,
            Nim | Nimi => attached(Role::P),
            Nsm(_) => attached(Role::P),
            Reset(r) => *r != Role::P,
            Peek | PeekS(_) | PeekA => attached(Role::C),
            PopM => attached(Role::C),
            Pop | Copy | CopyS(_) => attached(Role::C) && !self.owned,
            Clone => attached(Role::C) && (self.avail(Role::C) == 0 || !self.owned || self.val_at(self.pos[2]) != 0),
            CloneS(n) => attached(Role::C) && (*n > self.avail(Role::C) || !self.owned || (0..*n).all(|k| self.val_at(self.pos[2] + k) != 0)),
            Detach(r) => attached(*r),
            Attach(r) | Sync(r) => self.det[r.i()],
            SetI(r, i) => self.det[r.i()] && *i < self.len && self.set_index_target(*r, *i) <= self.limit(*r)
                // a detached producer jumping forward would publish slots without saying what they hold
                && (*r != Role::P || self.set_index_target(*r, *i) <= self.pos[0]),
            Back(r, n) => self.det[r.i()] && *n <= self.pos[r.i()] - self.publ[r.i()],
            Drop(_) => true,
            Resplit(_) => !self.heap && self.all_dropped(),
        }
    }

    /// A producer must not publish empty slots of an owned type (they would be read as values).
    fn no_zero_publish(&self, n: usize) -> bool { !self.owned || (0..n).all(|k| self.val_at(self.pos[0] + k) != 0) }

    /// Plain stores through a reference drop the old content: only onto occupied slots for owned types.
    fn store_ok(&self, r: Role, k: usize) -> bool { !self.owned || self.val_at(self.pos[r.i()] + k) != 0 }

    pub fn set_index_target(&self, r: Role, i: usize) -> usize {
        let p = self.publ[r.i()];
        p + (i + self.len - p % self.len) % self.len
    }

    fn publish(&mut self, r: Role, v: usize) {
        if r == Role::C {
            let from = self.publ[2];
            for q in from..v { let x = self.hist.get(q).copied().unwrap_or(0); self.delivered.push(x); }
        }
        self.publ[r.i()] = v;
    }

    fn mv(&mut self, r: Role, n: usize) {
        if r == Role::P {
            let p = self.pos[0];
            let w = self.window(p, n);
            self.hist.truncate(p);
            self.hist.extend(w);
        }
        self.pos[r.i()] += n;
        self.granted[r.i()] = 0;
        if !self.det[r.i()] { let v = self.pos[r.i()]; self.publish(r, v); }
    }

    fn assign(&mut self, q: usize, v: u64, drops: &mut Vec<u64>) {
        let s = self.slot_of(q);
        if self.owned && self.slots[s] != 0 { drops.push(self.slots[s]); }
        self.slots[s] = v;
        if q < self.hist.len() { self.hist[q] = v; }
    }
    fn write(&mut self, q: usize, v: u64) {
        let s = self.slot_of(q);
        self.slots[s] = v;
        if q < self.hist.len() { self.hist[q] = v; }
    }
    fn init_store(&mut self, q: usize, v: u64, drops: &mut Vec<u64>) {
        if self.val_at(q) == 0 { self.write(q, v) } else { self.assign(q, v, drops) }
    }

    fn grant_one(&mut self, r: Role) -> AOut {
        if self.avail(r) >= 1 { self.granted[r.i()] = 1; if r == Role::P { AOut::Granted(1) } else { AOut::Item(self.val_at(self.pos[r.i()])) } } else { AOut::None }
    }
    fn grant_win(&mut self, r: Role, n: usize) -> AOut {
        if n <= self.avail(r) { self.granted[r.i()] = n; if r == Role::P { AOut::Granted(n) } else { AOut::Vals(self.window(self.pos[r.i()], n)) } } else { AOut::None }
    }

    /// Applies `op` (assumed `allowed`) and returns what the implementation must show.
    pub fn apply(&mut self, op: &Op) -> Expect {
        use Op::*;
        let mut drops = vec![];
        let out = match op {
            Avail(r) => AOut::Num(self.avail(*r)),
            Adv(r, n, _) => { self.mv(*r, *n); AOut::Ok }
            Gw(r) => self.grant_one(*r),
            Se(r, n) => self.grant_win(*r, *n),
            Sa(r) => { let a = self.avail(*r); if a == 0 { AOut::None } else { self.grant_win(*r, a) } }
            Sm(r, k) => { if *k == 0 { AOut::Panic } else { let a = self.avail(*r); let n = a - a % k; if n == 0 { AOut::None } else { self.grant_win(*r, n) } } }
            Poke(r, k, v) => { let q = self.pos[r.i()] + k; self.assign(q, *v, &mut drops); AOut::Ok }
            Push(v) => { if self.avail(Role::P) >= 1 { let q = self.pos[0]; self.assign(q, *v, &mut drops); self.mv(Role::P, 1); AOut::Ok } else { AOut::Err(*v) } }
            PushI(v) => { if self.avail(Role::P) >= 1 { let q = self.pos[0]; self.init_store(q, *v, &mut drops); self.mv(Role::P, 1); AOut::Ok } else { AOut::Err(*v) } }
            PushS(vs) | PushSI(vs) => { if vs.len() <= self.avail(Role::P) { let q = self.pos[0]; for (k, v) in vs.iter().enumerate() { self.write(q + k, *v); } self.mv(Role::P, vs.len()); AOut::Ok } else { AOut::None } }
            PushSC(vs) => { if vs.len() <= self.avail(Role::P) { let q = self.pos[0]; for (k, v) in vs.iter().enumerate() { self.assign(q + k, *v, &mut drops); } self.mv(Role::P, vs.len()); AOut::Ok } else { AOut::None } }
            PushSCI(vs) => { if vs.len() <= self.avail(Role::P) { let q = self.pos[0]; for (k, v) in vs.iter().enumerate() { self.init_store(q + k, *v, &mut drops); } self.mv(Role::P, vs.len()); AOut::Ok } else { AOut::None } }
            Nim | Nimi => self.grant_one(Role::P),
            Nsm(n) => self.grant_win(Role::P, *n),
            Reset(r) => {
                let lim = self.limit(*r);
                self.pos[r.i()] = lim; self.granted[r.i()] = 0;
                if !self.det[r.i()] { self.publ[r.i()] = lim; }
                AOut::Ok
            }
            Peek => self.grant_one(Role::C),
            PeekS(n) => self.grant_win(Role::C, *n),
            PeekA => { let a = self.avail(Role::C); self.grant_win(Role::C, a) }
            PopM => { if self.avail(Role::C) >= 1 { let q = self.pos[2]; let v = self.val_at(q); self.mv(Role::C, 1); let s = self.slot_of(q); self.slots[s] = 0; AOut::Item(v) } else { AOut::None } }
            Pop | Copy | Clone => { if self.avail(Role::C) >= 1 { let v = self.val_at(self.pos[2]); self.mv(Role::C, 1); AOut::Item(v) } else { AOut::None } }
            CopyS(n) | CloneS(n) => { if *n <= self.avail(Role::C) { let v = self.window(self.pos[2], *n); self.mv(Role::C, *n); AOut::Vals(v) } else { AOut::None } }
            Detach(r) => { self.det[r.i()] = true; AOut::Ok }
            Attach(r) => { let v = self.pos[r.i()]; self.publish(*r, v); self.det[r.i()] = false; AOut::Ok }
            SetI(r, i) => { self.pos[r.i()] = self.set_index_target(*r, *i); self.granted[r.i()] = 0; AOut::Ok }
            Back(r, n) => { self.pos[r.i()] -= n; self.granted[r.i()] = 0; AOut::Ok }
            Sync(r) => { let v = self.pos[r.i()]; self.publish(*r, v); AOut::Ok }
            Drop(r) => {
                self.live[r.i()] = false; self.flags[r.i()] = false; self.live_count -= 1; self.granted[r.i()] = 0;
                if self.live_count == 0 && self.heap {
                    self.freed += 1;
                    if self.owned { drops.extend(self.slots.iter().copied().filter(|x| *x != 0)); }
                }
                AOut::Ok
            }
            Resplit(w) => {
                self.has_w = *w; self.pos = [0; 3]; self.publ = [0; 3]; self.det = [false; 3];
                self.live = [true, *w, true]; self.flags = [true, if *w { true } else { self.flags[1] }, true];
                self.live_count += if *w { 3 } else { 2 }; self.hist.clear(); self.granted = [0; 3];
                AOut::Ok
            }
        };
        Expect { out: Some(out), drops }
    }
}
