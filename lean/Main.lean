import MRB.Driver
def main : IO Unit := do
  let i ← IO.getStdin
  let o ← IO.getStdout
  MRB.Driver.loop i o none
  o.flush
