/-
  MRB.Conc.Data — what the threads see: the ring order on the *true* positions, exclusive windows, and the contents of
  the pipeline (C02, C04 concurrent part, C05 concurrent part).

  Data accesses are non-atomic; since no reachable execution of the machine contains a data race (`reach_inv`), a single
  global memory is an adequate model of slot contents (data-race freedom). Slice operations are sequences of the one-item
  steps below without a publication in between — the machine allows even more interleavings than the API does.
-/
import MRB.Conc.Inv

set_option linter.unusedVariables false
set_option linter.unusedSimpArgs false

namespace MRB.Conc
open MRB

/-- Ring order on the true positions, including what each thread believes it may still use. -/
theorem CInv.order {s : St} (h : CInv s) :
    (s.hasW = true → s.tC.pos + s.tC.cached ≤ s.tW.pos ∧ s.tW.pos + s.tW.cached ≤ s.tP.pos ∧ s.tP.pos + s.tP.cached ≤ s.tC.pos + (s.L - 1)) ∧
    (s.hasW = false → s.tC.pos + s.tC.cached ≤ s.tP.pos ∧ s.tP.pos + s.tP.cached ≤ s.tC.pos + (s.L - 1)) := by
  have j2P := h.j2 .P; have j2W := h.j2 .W; have j2C := h.j2 .C
  have kP := h.j2k .P; have kW := h.j2k .W; have kC := h.j2k .C
  have bP := h.j1b .P; have bW := h.j1b .W; have bC := h.j1b .C
  simp only [St.thr, St.hist, lead, slack] at *
  constructor <;> intro hW <;> simp only [hW, if_true, Bool.false_eq_true, if_false] at kC <;> omega

/-- **Exclusive windows**: the slots two different iterators may currently use (from their position up to what they
    remember as available) never coincide — in any reachable state, whatever stale values were read. -/
theorem exclusive_windows {s : St} (h : CInv s) (t u : Role) (htu : t ≠ u) (ht : t = .W → s.hasW = true) (hu : u = .W → s.hasW = true)
    (q q' : Nat) (h1 : (s.thr t).pos ≤ q) (h2 : q < (s.thr t).pos + (s.thr t).cached)
    (h3 : (s.thr u).pos ≤ q') (h4 : q' < (s.thr u).pos + (s.thr u).cached) : q % s.L ≠ q' % s.L := by
  intro e
  have hL := h.hL
  have hA : q' < q + s.L → q' ≤ q := fun hh => mod_lt_step hL e.symm hh
  have hB : q < q' + s.L → q ≤ q' := fun hh => mod_lt_step hL e hh
  obtain ⟨o3, o2⟩ := h.order
  cases hW : s.hasW
  · have := o2 hW
    have ht' : t ≠ .W := fun e => by have := ht e; simp [hW] at this
    have hu' : u ≠ .W := fun e => by have := hu e; simp [hW] at this
    clear ht hu
    cases t <;> cases u <;> first | exact absurd rfl ht' | exact absurd rfl hu' | exact absurd rfl htu |
      (simp only [St.thr] at *; omega)
  · have := o3 hW
    clear ht hu
    cases t <;> cases u <;> first | exact absurd rfl htu | (simp only [St.thr] at *; omega)

/-- What a thread remembers as available never exceeds what is really available (concurrent form of C05):
    the consumer never believes it may pass the worker's true position, etc. -/
theorem cached_never_over {s : St} (h : CInv s) :
    s.tC.cached ≤ (if s.hasW then s.tW.pos else s.tP.pos) - s.tC.pos ∧ (s.hasW = true → s.tW.cached ≤ s.tP.pos - s.tW.pos) ∧
    s.tP.cached ≤ s.tC.pos + (s.L - 1) - s.tP.pos := by
  obtain ⟨o3, o2⟩ := h.order
  cases hW : s.hasW
  · have := o2 hW; simp; omega
  · have := o3 hW; simp; omega

theorem mod_ne_of_lt_lap' {q q' L : Nat} (hL : 0 < L) (hne : q ≠ q') (hlt : q' < q + L) (hlt' : q < q' + L) : q % L ≠ q' % L := by
  intro h
  rcases Nat.lt_or_ge q q' with hh | hh
  · have := mod_lt_step hL h.symm hlt; omega
  · have := mod_lt_step hL h hlt'; omega

/-! ### contents -/

/-- Machine state + slot contents + what the consumer has seen. `inp q` is the value the producer writes at
    logical position `q`; `f` is the worker's transformation. -/
structure DSt where
  c : St
  mem : Nat → Nat
  log : List Nat

def DSt.produce1 (d : DSt) (inp : Nat → Nat) : DSt :=
  let q := d.c.tP.pos
  { d with c := moveLocal (access d.c .P q) .P 1, mem := fun j => if j = q % d.c.L then inp q else d.mem j }

def DSt.work1 (d : DSt) (f : Nat → Nat) : DSt :=
  let q := d.c.tW.pos
  { d with c := moveLocal (access d.c .W q) .W 1, mem := fun j => if j = q % d.c.L then f (d.mem j) else d.mem j }

def DSt.consume1 (d : DSt) : DSt :=
  let q := d.c.tC.pos
  { d with c := moveLocal (access d.c .C q) .C 1, log := d.log ++ [d.mem (q % d.c.L)] }

inductive DStep (inp f : Nat → Nat) : DSt → DSt → Prop
  | produce (d) : 1 ≤ d.c.tP.cached → DStep inp f d (d.produce1 inp)
  | work (d) : d.c.hasW = true → 1 ≤ d.c.tW.cached → DStep inp f d (d.work1 f)
  | consume (d) : 1 ≤ d.c.tC.cached → DStep inp f d d.consume1
  | refresh (d t m) : m ∈ d.c.hist (lead d.c.hasW t) → (d.c.thr t).k ≤ m.val → (t = .W → d.c.hasW = true) → DStep inp f d { d with c := refresh d.c t m }
  | publish (d t) : (t = .W → d.c.hasW = true) → DStep inp f d { d with c := publish d.c t }
  /-- `Detached::go_back(n)` of the consumer: it un-reads its last `n` items (none of them released yet). -/
  | cback (d n) : lastVal d.c.hC + n ≤ d.c.tC.pos →
      DStep inp f d { d with c := goBack d.c .C n, log := d.log.take (d.c.tC.pos - n) }
  /-- `Detached::go_back(n)` of the producer: it withdraws its last `n` unpublished items (and may write them again). -/
  | pback (d n) : lastVal d.c.hP + n ≤ d.c.tP.pos → DStep inp f d { d with c := goBack d.c .P n }

inductive DReach (L : Nat) (hasW : Bool) (inp f : Nat → Nat) : DSt → Prop
  | init (mem) : DReach L hasW inp f ⟨init L hasW, mem, []⟩
  | step {d d'} : DReach L hasW inp f d → DStep inp f d d' → DReach L hasW inp f d'

/-- The value an item carries when it reaches the consumer. -/
def outVal (hasW : Bool) (inp f : Nat → Nat) (q : Nat) : Nat := if hasW then f (inp q) else inp q

structure DInv (inp f : Nat → Nat) (d : DSt) : Prop where
  done : ∀ q, lastVal d.c.hC ≤ q → q < (if d.c.hasW then d.c.tW.pos else d.c.tP.pos) → d.mem (q % d.c.L) = outVal d.c.hasW inp f q
  raw : d.c.hasW = true → ∀ q, d.c.tW.pos ≤ q → q < d.c.tP.pos → d.mem (q % d.c.L) = inp q
  log : d.log = (List.range d.c.tC.pos).map (outVal d.c.hasW inp f)

theorem thr_access_pos (s : St) (t u : Role) (q : Nat) : ((access s t q).thr u).pos = (s.thr u).pos ∧ ((access s t q).thr u).cached = (s.thr u).cached ∧
    (access s t q).L = s.L ∧ (access s t q).hasW = s.hasW := by
  cases t <;> cases u <;> simp [access, St.setThr, St.thr]

end MRB.Conc

namespace MRB.Conc
open MRB

/-- The machine component of a reachable data state is reachable in the bare machine. -/
theorem DReach.machine {L hasW inp f d} (r : DReach L hasW inp f d) : Reach L hasW d.c := by
  induction r with
  | init mem => exact Reach.init
  | step r st ih =>
    cases st with
    | produce h1 =>
      rename_i d0
      have a : Step d0.c (access d0.c .P d0.c.tP.pos) := Step.access d0.c .P d0.c.tP.pos (Nat.le_refl _) (by simp only [St.thr]; omega) (by simp)
      have b : Step (access d0.c .P d0.c.tP.pos) (moveLocal (access d0.c .P d0.c.tP.pos) .P 1) :=
        Step.moveLocal _ .P 1 (by have := (thr_access_pos d0.c .P .P d0.c.tP.pos).2.1; simp only [St.thr] at this ⊢; omega) (by simp)
      exact Reach.step (Reach.step ih a) b
    | work hW h1 =>
      rename_i d0
      have a : Step d0.c (access d0.c .W d0.c.tW.pos) := Step.access d0.c .W d0.c.tW.pos (Nat.le_refl _) (by simp only [St.thr]; omega) (fun _ => hW)
      have b : Step (access d0.c .W d0.c.tW.pos) (moveLocal (access d0.c .W d0.c.tW.pos) .W 1) :=
        Step.moveLocal _ .W 1 (by have := (thr_access_pos d0.c .W .W d0.c.tW.pos).2.1; simp only [St.thr] at this ⊢; omega)
          (fun _ => by rw [(thr_access_pos d0.c .W .W d0.c.tW.pos).2.2.2]; exact hW)
      exact Reach.step (Reach.step ih a) b
    | consume h1 =>
      rename_i d0
      have a : Step d0.c (access d0.c .C d0.c.tC.pos) := Step.access d0.c .C d0.c.tC.pos (Nat.le_refl _) (by simp only [St.thr]; omega) (by simp)
      have b : Step (access d0.c .C d0.c.tC.pos) (moveLocal (access d0.c .C d0.c.tC.pos) .C 1) :=
        Step.moveLocal _ .C 1 (by have := (thr_access_pos d0.c .C .C d0.c.tC.pos).2.1; simp only [St.thr] at this ⊢; omega) (by simp)
      exact Reach.step (Reach.step ih a) b
    | refresh t m hm hc ht => exact Reach.step ih (Step.refresh _ t m hm hc ht)
    | publish t ht => exact Reach.step ih (Step.publish _ t ht)
    | cback n hn => exact Reach.step ih (Step.goBack _ .C n hn (by simp))
    | pback n hn => exact Reach.step ih (Step.goBack _ .P n hn (by simp))

theorem Reach.params {L hasW s} (r : Reach L hasW s) : s.L = L ∧ s.hasW = hasW := by
  induction r with
  | init => exact ⟨rfl, rfl⟩
  | step r st ih =>
    cases st with
    | refresh t m _ _ _ => simpa [refresh] using ih
    | access t q _ _ _ => rw [(thr_access_pos _ t t q).2.2.1, (thr_access_pos _ t t q).2.2.2]; exact ih
    | moveLocal t n _ _ => simpa [moveLocal] using ih
    | goBack t n _ _ => simpa [goBack] using ih
    | publish t _ => simpa [publish] using ih

theorem hist_access (s : St) (t u : Role) (q : Nat) : (access s t q).hist u = s.hist u := by cases t <;> cases u <;> rfl

/-- Histories are never empty: there is always a newest message to read. -/
theorem Reach.hist_ne_nil {L hasW s} (r : Reach L hasW s) (u : Role) : s.hist u ≠ [] := by
  induction r with
  | init => cases u <;> simp [Conc.init, St.hist]
  | step r st ih =>
    cases st with
    | refresh t m _ _ _ => simpa [refresh] using ih
    | access t q _ _ _ => rw [hist_access]; exact ih
    | moveLocal t n _ _ => simpa [moveLocal] using ih
    | goBack t n _ _ => simpa [goBack] using ih
    | publish t _ => simp only [publish, hist_pushMsg, hist_setThr]; split <;> simp [ih]

/-- Positions and parameters after one-item steps. -/
theorem pos_after (s : St) (t : Role) : 
    ((moveLocal (access s t (s.thr t).pos) t 1).thr t).pos = (s.thr t).pos + 1 ∧
    (∀ u, u ≠ t → ((moveLocal (access s t (s.thr t).pos) t 1).thr u).pos = (s.thr u).pos) ∧
    (moveLocal (access s t (s.thr t).pos) t 1).L = s.L ∧ (moveLocal (access s t (s.thr t).pos) t 1).hasW = s.hasW := by
  refine ⟨?_, ?_, ?_, ?_⟩
  · simp only [moveLocal, thr_setThr, if_true]; rw [(thr_access_pos s t t _).1]
  · intro u hu; simp only [moveLocal, thr_setThr, if_neg hu]; exact (thr_access_pos s t u _).1
  · simp only [moveLocal, L_setThr]; exact (thr_access_pos s t t _).2.2.1
  · simp only [moveLocal, hasW_setThr]; exact (thr_access_pos s t t _).2.2.2

theorem after_P (s : St) : (moveLocal (access s .P s.tP.pos) .P 1).tP.pos = s.tP.pos + 1 ∧ (moveLocal (access s .P s.tP.pos) .P 1).tW.pos = s.tW.pos ∧
    (moveLocal (access s .P s.tP.pos) .P 1).tC.pos = s.tC.pos ∧ (moveLocal (access s .P s.tP.pos) .P 1).L = s.L ∧ (moveLocal (access s .P s.tP.pos) .P 1).hasW = s.hasW := by
  simp [moveLocal, access, St.setThr, St.thr]
theorem after_W (s : St) : (moveLocal (access s .W s.tW.pos) .W 1).tP.pos = s.tP.pos ∧ (moveLocal (access s .W s.tW.pos) .W 1).tW.pos = s.tW.pos + 1 ∧
    (moveLocal (access s .W s.tW.pos) .W 1).tC.pos = s.tC.pos ∧ (moveLocal (access s .W s.tW.pos) .W 1).L = s.L ∧ (moveLocal (access s .W s.tW.pos) .W 1).hasW = s.hasW := by
  simp [moveLocal, access, St.setThr, St.thr]
theorem after_C (s : St) : (moveLocal (access s .C s.tC.pos) .C 1).tP.pos = s.tP.pos ∧ (moveLocal (access s .C s.tC.pos) .C 1).tW.pos = s.tW.pos ∧
    (moveLocal (access s .C s.tC.pos) .C 1).tC.pos = s.tC.pos + 1 ∧ (moveLocal (access s .C s.tC.pos) .C 1).L = s.L ∧ (moveLocal (access s .C s.tC.pos) .C 1).hasW = s.hasW := by
  simp [moveLocal, access, St.setThr, St.thr]

theorem refresh_frame (s : St) (t : Role) (m : Msg) : (refresh s t m).tP.pos = s.tP.pos ∧ (refresh s t m).tW.pos = s.tW.pos ∧
    (refresh s t m).tC.pos = s.tC.pos ∧ (refresh s t m).L = s.L ∧ (refresh s t m).hasW = s.hasW := by
  cases t <;> simp [refresh, St.setThr, St.thr]
theorem publish_frame (s : St) (t : Role) : (publish s t).tP.pos = s.tP.pos ∧ (publish s t).tW.pos = s.tW.pos ∧
    (publish s t).tC.pos = s.tC.pos ∧ (publish s t).L = s.L ∧ (publish s t).hasW = s.hasW := by
  cases t <;> simp [publish, St.setThr, St.thr, St.pushMsg]

theorem goBack_frame_C (s : St) (n : Nat) : (goBack s .C n).tP.pos = s.tP.pos ∧ (goBack s .C n).tW.pos = s.tW.pos ∧
    (goBack s .C n).tC.pos = s.tC.pos - n ∧ (goBack s .C n).L = s.L ∧ (goBack s .C n).hasW = s.hasW ∧ (goBack s .C n).hC = s.hC := by
  simp [goBack, St.setThr, St.thr]
theorem goBack_frame_P (s : St) (n : Nat) : (goBack s .P n).tP.pos = s.tP.pos - n ∧ (goBack s .P n).tW.pos = s.tW.pos ∧
    (goBack s .P n).tC.pos = s.tC.pos ∧ (goBack s .P n).L = s.L ∧ (goBack s .P n).hasW = s.hasW ∧ (goBack s .P n).hC = s.hC := by
  simp [goBack, St.setThr, St.thr]
theorem hC_after (s : St) (t : Role) : (moveLocal (access s t (s.thr t).pos) t 1).hC = s.hC := by
  cases t <;> simp [moveLocal, access, St.setThr, St.thr]
theorem hC_refresh (s : St) (t : Role) (m : Msg) : (refresh s t m).hC = s.hC := by
  cases t <;> simp [refresh, St.setThr, St.thr]
/-- The consumer's published position after any publication: its own position if it was the consumer's, unchanged otherwise. -/
theorem lastC_publish (s : St) (t : Role) : lastVal (publish s t).hC = if t = .C then s.tC.pos else lastVal s.hC := by
  cases t <;> simp [publish, St.setThr, St.thr, St.pushMsg]

/-- **C02 (content invariant).** In every reachable state of every interleaving: the slots between the consumer's and
    the worker's true positions hold the fully processed items, those between worker and producer the raw ones, and
    the consumer's log is exactly the processed input, in order, one entry per position — a prefix of what was produced. -/
theorem dreach_inv {L : Nat} {hasW : Bool} {inp f : Nat → Nat} (hL : 1 ≤ L) {d : DSt} (r : DReach L hasW inp f d) : DInv inp f d := by
  induction r with
  | init mem =>
    exact ⟨by intro q h1 h2; cases hasW <;> simp [init] at h2, by intro _ q h1 h2; simp [init] at h2, by simp [init]⟩
  | step r st ih =>
    rename_i d0 d1
    have hm := r.machine
    obtain ⟨inv, _⟩ := reach_inv hL hm
    obtain ⟨pL, pW⟩ := hm.params
    obtain ⟨o3, o2⟩ := inv.order
    have hLpos : 0 < d0.c.L := by rw [pL]; exact hL
    -- the producer never believes it may pass the consumer's *published* position (plus one lap minus one)
    have jP := inv.j2 .P; have kP := inv.j2k .P; have bC := inv.j1b .C
    simp only [St.thr, St.hist, lead, slack] at jP kP bC
    cases st with
    | produce h1 =>
      obtain ⟨p1, eW, eC, p3, p4⟩ := after_P d0.c
      have eH := hC_after d0.c .P
      simp only [St.thr] at eH
      refine ⟨?_, ?_, ?_⟩
      · intro q h1' h2'
        simp only [DSt.produce1, p3, p4, eC, eW, p1, eH] at h1' h2' ⊢
        cases hW : d0.c.hasW
        · have := o2 hW
          simp only [hW, Bool.false_eq_true, if_false] at h2' ⊢
          by_cases hq : q = d0.c.tP.pos
          · subst hq; simp [outVal, hW]
          · have hne : q % d0.c.L ≠ d0.c.tP.pos % d0.c.L := mod_ne_of_lt_lap' hLpos hq (by omega) (by omega)
            simp only [hne, if_false]
            have := ih.done q h1' (by simp only [hW, Bool.false_eq_true, if_false]; omega)
            simpa [hW] using this
        · have := o3 hW
          simp only [hW, if_true] at h2' ⊢
          have hne : q % d0.c.L ≠ d0.c.tP.pos % d0.c.L := mod_ne_of_lt_lap' hLpos (by omega) (by omega) (by omega)
          simp only [hne, if_false]
          have := ih.done q h1' (by simp only [hW, if_true]; omega)
          simpa [hW] using this
      · intro hW q h1' h2'
        simp only [DSt.produce1, p3, p4, eC, eW, p1] at hW h1' h2' ⊢
        have := o3 hW
        by_cases hq : q = d0.c.tP.pos
        · subst hq; simp
        · have hne : q % d0.c.L ≠ d0.c.tP.pos % d0.c.L := mod_ne_of_lt_lap' hLpos hq (by omega) (by omega)
          simp only [hne, if_false]
          exact ih.raw hW q h1' (by omega)
      · simp only [DSt.produce1, p4, eC]; exact ih.log
    | work hW h1 =>
      obtain ⟨eP, p1, eC, p3, p4⟩ := after_W d0.c
      have eH := hC_after d0.c .W
      simp only [St.thr] at eH
      have := o3 hW
      refine ⟨?_, ?_, ?_⟩
      · intro q h1' h2'
        simp only [DSt.work1, p3, p4, eC, eP, p1, hW, if_true, eH] at h1' h2' ⊢
        by_cases hq : q = d0.c.tW.pos
        · subst hq
          simp only [if_true, outVal]
          rw [ih.raw hW _ (Nat.le_refl _) (by omega)]
        · have hne : q % d0.c.L ≠ d0.c.tW.pos % d0.c.L := mod_ne_of_lt_lap' hLpos hq (by omega) (by omega)
          simp only [hne, if_false]
          have := ih.done q h1' (by simp only [hW, if_true]; omega)
          simpa [hW] using this
      · intro _ q h1' h2'
        simp only [DSt.work1, p3, p4, eC, eP, p1] at h1' h2' ⊢
        have hne : q % d0.c.L ≠ d0.c.tW.pos % d0.c.L := mod_ne_of_lt_lap' hLpos (by omega) (by omega) (by omega)
        simp only [hne, if_false]
        exact ih.raw hW q (by omega) h2'
      · simp only [DSt.work1, p4, eC]; exact ih.log
    | consume h1 =>
      obtain ⟨eP, eW, p1, p3, p4⟩ := after_C d0.c
      have eH := hC_after d0.c .C
      simp only [St.thr] at eH
      refine ⟨?_, ?_, ?_⟩
      · intro q h1' h2'
        simp only [DSt.consume1, p3, p4, eW, eP, p1, eH] at h1' h2' ⊢
        exact ih.done q h1' h2'
      · intro hW q h1' h2'
        simp only [DSt.consume1, p3, p4, eW, eP, p1] at hW h1' h2' ⊢
        exact ih.raw hW q h1' h2'
      · simp only [DSt.consume1, p4, p1]
        rw [List.range_succ, List.map_append, ih.log]
        congr 1
        simp only [List.map_cons, List.map_nil]
        congr 1
        apply ih.done _ bC
        cases hW : d0.c.hasW
        · have := o2 hW; simp; omega
        · have := o3 hW; simp; omega
    | refresh t m hm' hc ht =>
      obtain ⟨eP, eW, eC, eL, eH⟩ := refresh_frame d0.c t m
      have eHC := hC_refresh d0.c t m
      exact ⟨by intro q h1 h2; simp only [eP, eW, eC, eL, eH, eHC] at h1 h2 ⊢; exact ih.done q h1 h2,
             by intro hW q h1 h2; simp only [eP, eW, eC, eL, eH] at hW h1 h2 ⊢; exact ih.raw hW q h1 h2,
             by simp only [eH, eC]; exact ih.log⟩
    | publish t ht =>
      obtain ⟨eP, eW, eC, eL, eH⟩ := publish_frame d0.c t
      have eHC := lastC_publish d0.c t
      refine ⟨?_, by intro hW q h1 h2; simp only [eP, eW, eC, eL, eH] at hW h1 h2 ⊢; exact ih.raw hW q h1 h2,
             by simp only [eH, eC]; exact ih.log⟩
      intro q h1 h2
      simp only [eP, eW, eC, eL, eH, eHC] at h1 h2 ⊢
      refine ih.done q ?_ h2
      split at h1 <;> omega
    | cback n hn =>
      obtain ⟨eP, eW, eC, eL, eH, eHC⟩ := goBack_frame_C d0.c n
      refine ⟨by intro q h1 h2; simp only [eP, eW, eL, eH, eHC] at h1 h2 ⊢; exact ih.done q h1 h2,
              by intro hW q h1 h2; simp only [eP, eW, eL, eH] at hW h1 h2 ⊢; exact ih.raw hW q h1 h2, ?_⟩
      simp only [eH, eC]
      rw [ih.log, ← List.map_take, List.take_range, Nat.min_eq_left (Nat.sub_le _ _)]
    | pback n hn =>
      obtain ⟨eP, eW, eC, eL, eH, eHC⟩ := goBack_frame_P d0.c n
      refine ⟨?_, by intro hW q h1 h2; simp only [eP, eW, eL, eH] at hW h1 h2 ⊢; exact ih.raw hW q h1 (by omega),
              by simp only [eH, eC]; exact ih.log⟩
      intro q h1 h2
      simp only [eP, eW, eL, eH, eHC] at h1 h2 ⊢
      refine ih.done q h1 ?_
      split at h2 <;> simp_all <;> omega

end MRB.Conc
