/-
  MRB.Conc.Inv — the invariant of the concurrent machine (J1–J5 of DESIGN.md §3.6) and its consequences:
  an access inside the window an iterator was granted never races, in any interleaving and under any release/acquire
  consistent choice of (stale) index values, for any buffer length and any number of steps.
-/
import MRB.Conc.Machine

set_option linter.unusedVariables false

namespace MRB.Conc
open MRB

/-- How far behind the value `t` publishes the accesses of `u` are covered by the view `t` publishes with it. -/
def shift (L : Nat) : Role → Role → Nat
  | .W, .C => L - 1 | .P, .W => L - 1 | .P, .C => L - 1 | _, _ => 0

/-- Accesses of `u` below this position are in the clock of thread `t`. -/
def bound (s : St) : Role → Role → Nat
  | .W, .P => s.tW.k | .W, .C => s.tW.k - (s.L - 1)
  | .C, _ => s.tC.k | .P, _ => s.tP.k
  | .W, .W => 0

structure CInv (s : St) : Prop where
  hL : 1 ≤ s.L
  j1a : ∀ t, ∀ m ∈ s.hist t, m.val ≤ lastVal (s.hist t)
  j1b : ∀ t, lastVal (s.hist t) ≤ (s.thr t).pos
  j2 : ∀ t, (s.thr t).pos + (s.thr t).cached ≤ (s.thr t).k + slack s.L t
  j2k : ∀ t, (s.thr t).k ≤ lastVal (s.hist (lead s.hasW t))
  jrel : ∀ t, ∀ m ∈ s.hist t, m.rel = true
  j3 : ∀ j u r, s.acc j u = some r → r.q % s.L = j ∧ r.q < (s.thr u).k + slack s.L u ∧ r.stamp ≤ ((s.thr u).vc).get u
  j4 : ∀ t, ∀ m ∈ s.hist t, ∀ j u r, s.acc j u = some r → r.q + shift s.L t u < m.val → r.stamp ≤ m.vc.get u
  j5 : ∀ t u, t ≠ u → ∀ j r, s.acc j u = some r → r.q < bound s t u → r.stamp ≤ ((s.thr t).vc).get u
  jw : s.hasW = false → (∀ j, s.acc j .W = none) ∧ s.tW.pos = 0 ∧ s.tW.k = 0 ∧ s.tW.cached = 0 ∧ lastVal s.hW = 0

def racy (s : St) (t : Role) (j : Nat) : Prop :=
  ∃ u r, u ≠ t ∧ s.acc j u = some r ∧ ¬ r.stamp ≤ ((s.thr t).vc).get u

theorem racyB_iff (s : St) (t : Role) (j : Nat) : racyB s t j = true ↔ racy s t j := by
  unfold racyB racy
  constructor
  · intro h
    simp only [List.any_cons, List.any_nil, Bool.or_false, Bool.or_eq_true, Bool.and_eq_true, bne_iff_ne, ne_eq] at h
    rcases h with h | h | h <;> obtain ⟨hne, hm⟩ := h
    · cases ha : s.acc j .P with
      | none => simp [ha] at hm
      | some r => rw [ha] at hm; exact ⟨.P, r, hne, ha, by simpa using hm⟩
    · cases ha : s.acc j .W with
      | none => simp [ha] at hm
      | some r => rw [ha] at hm; exact ⟨.W, r, hne, ha, by simpa using hm⟩
    · cases ha : s.acc j .C with
      | none => simp [ha] at hm
      | some r => rw [ha] at hm; exact ⟨.C, r, hne, ha, by simpa using hm⟩
  · rintro ⟨u, r, hne, ha, hbad⟩
    simp only [List.any_cons, List.any_nil, Bool.or_false, Bool.or_eq_true, Bool.and_eq_true, bne_iff_ne, ne_eq]
    cases u
    · left; exact ⟨hne, by rw [ha]; simpa using hbad⟩
    · right; left; exact ⟨hne, by rw [ha]; simpa using hbad⟩
    · right; right; exact ⟨hne, by rw [ha]; simpa using hbad⟩

theorem mod_lt_step {L q q' : Nat} (hL : 1 ≤ L) (h1 : q' % L = q % L) (h2 : q' < q + L) : q' ≤ q := by
  rcases Nat.lt_or_ge q q' with h | h
  · exfalso
    have hd : (q' - q) % L = 0 := by
      have := Nat.sub_mod_eq_zero_of_mod_eq h1
      simpa using this
    have hlt : q' - q < L := by omega
    rw [Nat.mod_eq_of_lt hlt] at hd
    omega
  · exact h

theorem mod_lt_add {L a b : Nat} (hL : 1 ≤ L) (h1 : a % L = b % L) (h2 : a < b) : a + L ≤ b := by
  rcases Nat.lt_or_ge b (a + L) with h | h
  · exfalso
    have hd : (b - a) % L = 0 := Nat.sub_mod_eq_zero_of_mod_eq h1.symm
    rw [Nat.mod_eq_of_lt (by omega)] at hd
    omega
  · exact h

/-- The heart of C03: under the invariant, an access inside the granted window does not race. -/
theorem access_no_race (s : St) (h : CInv s) (t : Role) (q : Nat) (ht : t = .W → s.hasW = true)
    (hq1 : (s.thr t).pos ≤ q) (hq2 : q < (s.thr t).pos + (s.thr t).cached) :
    ¬ racy s t (q % s.L) := by
  rintro ⟨u, r, hut, hacc, hbad⟩
  apply hbad
  obtain ⟨hmod, hlt, _⟩ := h.j3 _ _ _ hacc
  apply h.j5 t u (Ne.symm hut) _ r hacc
  have hL := h.hL
  have hA : r.q < q + s.L → r.q ≤ q := fun hh => mod_lt_step hL hmod hh
  have hB : r.q < q → r.q + s.L ≤ q := fun hh => mod_lt_add hL hmod hh
  have j2 := h.j2; have j2k := h.j2k; have j1b := h.j1b
  have j2P := j2 .P; have j2W := j2 .W; have j2C := j2 .C
  have kP := j2k .P; have kW := j2k .W; have kC := j2k .C
  have bP := j1b .P; have bW := j1b .W; have bC := j1b .C
  have jw := h.jw
  simp only [St.thr, St.hist, lead, slack] at *
  cases hW : s.hasW
  · -- two stages: the worker does not exist
    obtain ⟨w1, w2, w3, w4, w5⟩ := jw hW
    simp only [hW, Bool.false_eq_true, if_false] at kC
    cases t <;> cases u <;> simp only [bound, slack, St.thr, ne_eq, reduceCtorEq, not_true_eq_false, not_false_eq_true] at * <;>
      first
      | omega
      | (exfalso; have := ht rfl; simp [hW] at this)
      | (exfalso; rw [w1] at hacc; cases hacc)
  · simp only [hW, if_true] at kC
    cases t <;> cases u <;> simp only [bound, slack, St.thr, ne_eq, reduceCtorEq, not_true_eq_false, not_false_eq_true] at * <;> omega

/-! ### projection lemmas -/
@[simp] theorem thr_setThr (s : St) (t u : Role) (x : Thr) :
    (s.setThr t x).thr u = if u = t then x else s.thr u := by
  cases t <;> cases u <;> simp [St.setThr, St.thr]
@[simp] theorem hist_setThr (s : St) (t u : Role) (x : Thr) : (s.setThr t x).hist u = s.hist u := by
  cases t <;> cases u <;> rfl
@[simp] theorem acc_setThr (s : St) (t : Role) (x : Thr) : (s.setThr t x).acc = s.acc := by cases t <;> rfl
@[simp] theorem L_setThr (s : St) (t : Role) (x : Thr) : (s.setThr t x).L = s.L := by cases t <;> rfl
@[simp] theorem hasW_setThr (s : St) (t : Role) (x : Thr) : (s.setThr t x).hasW = s.hasW := by cases t <;> rfl
@[simp] theorem raced_setThr (s : St) (t : Role) (x : Thr) : (s.setThr t x).raced = s.raced := by cases t <;> rfl
@[simp] theorem raced_pushMsg (s : St) (t : Role) (m : Msg) : (s.pushMsg t m).raced = s.raced := by cases t <;> rfl
@[simp] theorem hW_setThr (s : St) (t : Role) (x : Thr) : (s.setThr t x).hW = s.hW := by cases t <;> rfl
@[simp] theorem thr_pushMsg (s : St) (t u : Role) (m : Msg) : (s.pushMsg t m).thr u = s.thr u := by
  cases t <;> cases u <;> rfl
@[simp] theorem hist_pushMsg (s : St) (t u : Role) (m : Msg) :
    (s.pushMsg t m).hist u = if u = t then s.hist u ++ [m] else s.hist u := by
  cases t <;> cases u <;> simp [St.pushMsg, St.hist]
@[simp] theorem acc_pushMsg (s : St) (t : Role) (m : Msg) : (s.pushMsg t m).acc = s.acc := by cases t <;> rfl
@[simp] theorem L_pushMsg (s : St) (t : Role) (m : Msg) : (s.pushMsg t m).L = s.L := by cases t <;> rfl
@[simp] theorem hasW_pushMsg (s : St) (t : Role) (m : Msg) : (s.pushMsg t m).hasW = s.hasW := by cases t <;> rfl
@[simp] theorem lastVal_append (h : List Msg) (m : Msg) : lastVal (h ++ [m]) = m.val := by simp [lastVal]

theorem VC.get_join (a b : VC) (u : Role) : (a.join b).get u = max (a.get u) (b.get u) := by cases u <;> rfl
theorem VC.get_tick (a : VC) (t u : Role) : (a.tick t).get u = if u = t then a.get u + 1 else a.get u := by
  cases t <;> cases u <;> simp [VC.tick, VC.get]
theorem VC.get_zero (u : Role) : VC.zero.get u = 0 := by cases u <;> rfl

/-- Tie to the source: every index is loaded with (at least) Acquire and stored with (at least) Release. -/
theorem ldAcq_all (t : Role) : ldAcq t = true := by cases t <;> rfl
theorem stRel_all (t : Role) : stRel t = true := by cases t <;> rfl

theorem bound_congr (s s' : St) (hL : s'.L = s.L) (hk : ∀ t, (s'.thr t).k = (s.thr t).k) (t u : Role) :
    bound s' t u = bound s t u := by
  have := hk .P; have := hk .W; have := hk .C
  cases t <;> cases u <;> simp_all [bound, St.thr]

end MRB.Conc

namespace MRB.Conc
open MRB

theorem init_inv (L : Nat) (hasW : Bool) (hL : 1 ≤ L) : CInv (init L hasW) := by
  constructor
  · exact hL
  · intro t m hm; cases t <;> simp [init, St.hist] at hm <;> subst hm <;> simp [init, St.hist, lastVal]
  · intro t; cases t <;> simp [init, St.hist, St.thr, lastVal]
  · intro t; cases t <;> simp [init, St.thr]
  · intro t; cases t <;> simp [init, St.thr, lastVal, St.hist, lead] <;> split <;> simp
  · intro t m hm; cases t <;> simp [init, St.hist] at hm <;> subst hm <;> rfl
  · intro j u r hr; simp [init] at hr
  · intro t m hm j u r hr; simp [init] at hr
  · intro t u _ j r hr; simp [init] at hr
  · intro _; simp [init, lastVal]

theorem refresh_inv (s : St) (h : CInv s) (t : Role) (m : Msg) (ht : t = .W → s.hasW = true)
    (hm : m ∈ s.hist (lead s.hasW t)) (hcoh : (s.thr t).k ≤ m.val) : CInv (refresh s t m) := by
  have hL := h.hL
  have hmle := h.j1a (lead s.hasW t) m hm
  have j2t := h.j2 t
  have hmrel := h.jrel _ m hm
  have hacq := ldAcq_all (lead s.hasW t)
  have hvc : ∀ u, (((refresh s t m).thr t).vc).get u = max (((s.thr t).vc.tick t).get u) (m.vc.get u) := by
    intro u; simp only [refresh, thr_setThr, if_true, hacq, hmrel, Bool.and_self, VC.get_join]
  constructor
  · simpa [refresh] using hL
  · intro u m' hm'; simpa [refresh] using h.j1a u m' (by simpa [refresh] using hm')
  · intro u; simp only [refresh, thr_setThr, hist_setThr]; split
    · subst_vars; simpa using h.j1b _
    · exact h.j1b u
  · intro u; simp only [refresh, thr_setThr, L_setThr]; split
    · subst_vars; simp only; omega
    · exact h.j2 u
  · intro u; simp only [refresh, thr_setThr, hist_setThr, hasW_setThr]; split
    · subst_vars; simpa using hmle
    · exact h.j2k u
  · intro u m' hm'; exact h.jrel u m' (by simpa [refresh] using hm')
  · intro j u r hr
    simp only [refresh, acc_setThr] at hr
    obtain ⟨a, b, c⟩ := h.j3 j u r hr
    refine ⟨by simpa [refresh] using a, ?_, ?_⟩
    · simp only [refresh, thr_setThr, L_setThr]; split
      · subst_vars; simp only; omega
      · exact b
    · by_cases hut : u = t
      · subst hut; rw [hvc]; simp only [VC.get_tick, if_true]; omega
      · simp only [refresh, thr_setThr, if_neg hut]; exact c
  · intro u m' hm' j v r hr hlt
    simp only [refresh, acc_setThr, hist_setThr, L_setThr] at *
    exact h.j4 u m' hm' j v r hr hlt
  · intro t' u hne j r hr hlt
    simp only [refresh, acc_setThr] at hr
    by_cases htt : t' = t
    · subst htt
      rw [hvc]
      simp only [VC.get_tick, if_neg (Ne.symm hne)]
      have cert := h.j4 (lead s.hasW t') m hm j u r hr
      have old := h.j5 t' u hne j r hr
      have jw := h.jw
      have : r.stamp ≤ m.vc.get u ∨ r.stamp ≤ ((s.thr t').vc).get u := by
        cases hW : s.hasW
        · obtain ⟨w1, _⟩ := jw hW
          cases t' <;> cases u <;>
            simp only [bound, refresh, St.setThr, St.thr, lead, shift, slack, hW, ne_eq, reduceCtorEq, Bool.false_eq_true, if_false,
              not_true_eq_false, not_false_eq_true] at * <;>
            first
            | (left; apply cert; omega)
            | (right; apply old; omega)
            | contradiction
            | (exfalso; have := ht rfl; simp at this)
            | (exfalso; rw [w1] at hr; cases hr)
        · cases t' <;> cases u <;>
            simp only [bound, refresh, St.setThr, St.thr, lead, shift, slack, hW, ne_eq, reduceCtorEq, if_true,
              not_true_eq_false, not_false_eq_true] at * <;>
            first
            | (left; apply cert; omega)
            | (right; apply old; omega)
            | contradiction
      omega
    · have e : ((refresh s t m).thr t') = s.thr t' := by simp only [refresh, thr_setThr, if_neg htt]
      rw [e]
      apply h.j5 t' u hne j r hr
      cases t' <;> cases t <;> cases u <;> simp_all [bound, refresh, St.setThr, St.thr]
  · intro hW
    have := h.jw (by simpa [refresh] using hW)
    have hne : t ≠ .W := fun e => by have := ht e; simp [refresh] at hW; simp_all
    cases t <;> simp_all [refresh, St.setThr]

theorem moveLocal_inv (s : St) (h : CInv s) (t : Role) (n : Nat) (ht : t = .W → s.hasW = true) (hn : n ≤ (s.thr t).cached) :
    CInv (moveLocal s t n) := by
  have hk : ∀ u, ((moveLocal s t n).thr u).k = (s.thr u).k := by
    intro u; simp only [moveLocal, thr_setThr]; split <;> simp_all
  have hvc : ∀ u, ((moveLocal s t n).thr u).vc = (s.thr u).vc := by
    intro u; simp only [moveLocal, thr_setThr]; split <;> simp_all
  have j2t := h.j2 t
  constructor
  · simpa [moveLocal] using h.hL
  · intro u m hm; simpa [moveLocal] using h.j1a u m (by simpa [moveLocal] using hm)
  · intro u; simp only [moveLocal, thr_setThr, hist_setThr]; split
    · subst_vars; have := h.j1b u; simp only; omega
    · exact h.j1b u
  · intro u; simp only [moveLocal, thr_setThr, L_setThr]; split
    · subst_vars; simp only; omega
    · exact h.j2 u
  · intro u; rw [hk]; simpa [moveLocal] using h.j2k u
  · intro u m hm; exact h.jrel u m (by simpa [moveLocal] using hm)
  · intro j u r hr
    simp only [moveLocal, acc_setThr] at hr
    obtain ⟨a, b, c⟩ := h.j3 j u r hr
    refine ⟨by simpa [moveLocal] using a, by rw [hk]; simpa [moveLocal] using b, by rw [hvc]; exact c⟩
  · intro u m hm j v r hr hlt
    simp only [moveLocal, acc_setThr, hist_setThr, L_setThr] at *
    exact h.j4 u m hm j v r hr hlt
  · intro t' u hne j r hr hlt
    simp only [moveLocal, acc_setThr] at hr
    rw [bound_congr s _ (by simp [moveLocal]) hk] at hlt
    rw [hvc]; exact h.j5 t' u hne j r hr hlt
  · intro hW
    have := h.jw (by simpa [moveLocal] using hW)
    have hne : t ≠ .W := fun e => by have := ht e; simp [moveLocal] at hW; simp_all
    cases t <;> simp_all [moveLocal, St.setThr]

theorem goBack_inv (s : St) (h : CInv s) (t : Role) (n : Nat) (ht : t = .W → s.hasW = true)
    (hn : lastVal (s.hist t) + n ≤ (s.thr t).pos) : CInv (goBack s t n) := by
  have hk : ∀ u, ((goBack s t n).thr u).k = (s.thr u).k := by
    intro u; simp only [goBack, thr_setThr]; split <;> simp_all
  have hvc : ∀ u, ((goBack s t n).thr u).vc = (s.thr u).vc := by
    intro u; simp only [goBack, thr_setThr]; split <;> simp_all
  have j2t := h.j2 t
  constructor
  · simpa [goBack] using h.hL
  · intro u m hm; simpa [goBack] using h.j1a u m (by simpa [goBack] using hm)
  · intro u; simp only [goBack, thr_setThr, hist_setThr]; split
    · subst_vars; simp only; omega
    · exact h.j1b u
  · intro u; simp only [goBack, thr_setThr, L_setThr]; split
    · subst_vars; simp only; omega
    · exact h.j2 u
  · intro u; rw [hk]; simpa [goBack] using h.j2k u
  · intro u m hm; exact h.jrel u m (by simpa [goBack] using hm)
  · intro j u r hr
    simp only [goBack, acc_setThr] at hr
    obtain ⟨a, b, c⟩ := h.j3 j u r hr
    refine ⟨by simpa [goBack] using a, by rw [hk]; simpa [goBack] using b, by rw [hvc]; exact c⟩
  · intro u m hm j v r hr hlt
    simp only [goBack, acc_setThr, hist_setThr, L_setThr] at *
    exact h.j4 u m hm j v r hr hlt
  · intro t' u hne j r hr hlt
    simp only [goBack, acc_setThr] at hr
    rw [bound_congr s _ (by simp [goBack]) hk] at hlt
    rw [hvc]; exact h.j5 t' u hne j r hr hlt
  · intro hW
    have := h.jw (by simpa [goBack] using hW)
    have hne : t ≠ .W := fun e => by have := ht e; simp [goBack] at hW; simp_all
    cases t <;> simp_all [goBack, St.setThr]

end MRB.Conc

namespace MRB.Conc
open MRB

theorem publish_inv (s : St) (h : CInv s) (t : Role) (ht : t = .W → s.hasW = true) : CInv (publish s t) := by
  have hL := h.hL
  have j2t := h.j2 t
  have j1bt := h.j1b t
  have hrel := stRel_all t
  have hk : ∀ u, ((publish s t).thr u).k = (s.thr u).k := by
    intro u; simp only [publish, thr_pushMsg, thr_setThr]; split <;> simp_all
  have hLL : (publish s t).L = s.L := by simp [publish]
  have hpos : ∀ u, ((publish s t).thr u).pos = (s.thr u).pos := by
    intro u; simp only [publish, thr_pushMsg, thr_setThr]; split <;> simp_all
  have hcached : ∀ u, ((publish s t).thr u).cached = (s.thr u).cached := by
    intro u; simp only [publish, thr_pushMsg, thr_setThr]; split <;> simp_all
  have hvcge : ∀ u v, ((s.thr u).vc).get v ≤ (((publish s t).thr u).vc).get v := by
    intro u v; simp only [publish, thr_pushMsg, thr_setThr]; split
    · subst_vars; simp only [VC.get_tick]; split <;> omega
    · exact Nat.le_refl _
  constructor
  · rw [hLL]; exact hL
  · intro u m' hm'
    simp only [publish, hist_pushMsg, hist_setThr] at hm' ⊢
    split at hm'
    · subst_vars
      simp only [if_true, lastVal_append]
      rcases List.mem_append.1 hm' with hm' | hm'
      · have := h.j1a _ m' hm'; omega
      · simp at hm'; subst hm'; simp
    · rename_i hne; simp only [if_neg hne]; exact h.j1a u m' hm'
  · intro u; rw [hpos]; simp only [publish, hist_pushMsg, hist_setThr]
    split
    · subst_vars; simp
    · exact h.j1b u
  · intro u; rw [hpos, hcached, hk, hLL]; exact h.j2 u
  · intro u; rw [hk]; simp only [publish, hist_pushMsg, hist_setThr, hasW_pushMsg, hasW_setThr]
    have := h.j2k u
    by_cases hl : lead s.hasW u = t
    · simp only [hl, if_true, lastVal_append]; rw [hl] at this; omega
    · simp only [if_neg hl]; exact this
  · intro u m' hm'
    simp only [publish, hist_pushMsg, hist_setThr] at hm'
    split at hm'
    · rename_i e; subst e
      rcases List.mem_append.1 hm' with hm' | hm'
      · exact h.jrel _ m' hm'
      · simp at hm'; subst hm'; exact hrel
    · exact h.jrel u m' hm'
  · intro j u r hr
    simp only [publish, acc_pushMsg, acc_setThr] at hr
    obtain ⟨a, b, c⟩ := h.j3 j u r hr
    refine ⟨by rw [hLL]; exact a, by rw [hk, hLL]; exact b, Nat.le_trans c (hvcge u u)⟩
  · -- J4: old messages keep their certificates; the new message is certified by J5 (this is where Release matters)
    intro u m' hm' j v r hr hlt
    simp only [publish, acc_pushMsg, acc_setThr, hist_pushMsg, hist_setThr, L_pushMsg, L_setThr] at *
    split at hm'
    · subst_vars
      rcases List.mem_append.1 hm' with hm' | hm'
      · exact h.j4 _ m' hm' j v r hr hlt
      · simp at hm'; subst hm'
        simp only [hrel, if_true, VC.get_tick]
        by_cases hvu : v = u
        · subst hvu
          have := (h.j3 j v r hr).2.2
          simp; omega
        · simp only [if_neg hvu]
          apply h.j5 u v (Ne.symm hvu) j r hr
          have j2u := h.j2 u
          simp only at hlt
          cases u <;> cases v <;>
            simp only [bound, shift, slack, St.thr, ne_eq, reduceCtorEq, not_true_eq_false, not_false_eq_true] at * <;> omega
    · exact h.j4 u m' hm' j v r hr hlt
  · intro t' u hne j r hr hlt
    simp only [publish, acc_pushMsg, acc_setThr] at hr
    rw [bound_congr s _ hLL hk] at hlt
    exact Nat.le_trans (h.j5 t' u hne j r hr hlt) (hvcge t' u)
  · intro hW
    have hW' : s.hasW = false := by simpa [publish] using hW
    have := h.jw hW'
    have hne : t ≠ .W := fun e => by have := ht e; simp_all
    cases t <;> simp_all [publish, St.setThr, St.pushMsg]

theorem access_inv (s : St) (h : CInv s) (t : Role) (q : Nat) (ht : t = .W → s.hasW = true)
    (hq1 : (s.thr t).pos ≤ q) (hq2 : q < (s.thr t).pos + (s.thr t).cached) :
    CInv (access s t q) := by
  have hL := h.hL
  have hthr : ∀ u, (access s t q).thr u = if u = t then { s.thr t with vc := (s.thr t).vc.tick t } else s.thr u := by
    intro u; cases t <;> cases u <;> simp [access, St.setThr, St.thr]
  have hhist : ∀ u, (access s t q).hist u = s.hist u := by
    intro u; cases t <;> cases u <;> rfl
  have hLL : (access s t q).L = s.L := by cases t <;> rfl
  have hWW : (access s t q).hasW = s.hasW := by cases t <;> rfl
  have hacc : ∀ j u, (access s t q).acc j u =
      if j = q % s.L ∧ u = t then some ⟨((s.thr t).vc.tick t).get t, q⟩ else s.acc j u := by
    intro j u; cases t <;> simp [access, St.setThr]
  have hk : ∀ u, ((access s t q).thr u).k = (s.thr u).k := by
    intro u; rw [hthr]; split <;> simp_all
  have hpos : ∀ u, ((access s t q).thr u).pos = (s.thr u).pos := by
    intro u; rw [hthr]; split <;> simp_all
  have hcached : ∀ u, ((access s t q).thr u).cached = (s.thr u).cached := by
    intro u; rw [hthr]; split <;> simp_all
  have hvc : ∀ u v, ((s.thr u).vc).get v ≤ (((access s t q).thr u).vc).get v := by
    intro u v; rw [hthr]; split
    · subst_vars; simp only [VC.get_tick]; split <;> omega
    · exact Nat.le_refl _
  have j2 := h.j2; have j2k := h.j2k; have j1b := h.j1b; have j1a := h.j1a
  have j2P := j2 .P; have j2W := j2 .W; have j2C := j2 .C
  have kP := j2k .P; have kW := j2k .W; have kC := j2k .C
  have bP := j1b .P; have bW := j1b .W; have bC := j1b .C
  have jw := h.jw
  constructor
  · rw [hLL]; exact hL
  · intro u m hm; rw [hhist] at hm ⊢; exact h.j1a u m hm
  · intro u; rw [hhist, hpos]; exact h.j1b u
  · intro u; rw [hpos, hcached, hk, hLL]; exact h.j2 u
  · intro u; rw [hk, hWW, hhist]; exact h.j2k u
  · intro u m hm; rw [hhist] at hm; exact h.jrel u m hm
  · intro j u r hr
    rw [hacc] at hr; rw [hLL, hk]
    split at hr
    · rename_i hc; obtain ⟨hj, hu⟩ := hc; subst hu; subst hj
      cases hr
      refine ⟨rfl, ?_, ?_⟩
      · have := h.j2 u; simp only; omega
      · rw [hthr]; simp
    · obtain ⟨a, b, c⟩ := h.j3 j u r hr
      exact ⟨a, b, Nat.le_trans c (hvc u u)⟩
  · -- J4 stability: the new record lies above every certified frontier
    intro u m hm j v r hr hlt
    rw [hhist] at hm; rw [hacc] at hr; rw [hLL] at hlt
    split at hr
    · rename_i hc; obtain ⟨hj, hv⟩ := hc; subst hv; cases hr
      exfalso
      have hmle := j1a u m hm
      simp only [St.thr, St.hist, lead, slack] at *
      cases hW : s.hasW
      · obtain ⟨w1, w2, w3, w4, w5⟩ := jw hW
        simp only [hW, Bool.false_eq_true, if_false] at kC
        cases u <;> cases v <;> simp only [shift, St.thr, St.hist] at * <;>
          first | omega | (have := ht rfl; simp [hW] at this)
      · simp only [hW, if_true] at kC
        cases u <;> cases v <;> simp only [shift, St.thr, St.hist] at * <;> omega
    · exact h.j4 u m hm j v r hr hlt
  · intro t' u hne j r hr hlt
    rw [hacc] at hr
    rw [bound_congr s _ hLL hk] at hlt
    split at hr
    · rename_i hc; obtain ⟨hj, hu⟩ := hc; subst hu; cases hr
      exfalso
      simp only [St.thr, St.hist, lead, slack] at *
      cases hW : s.hasW
      · obtain ⟨w1, w2, w3, w4, w5⟩ := jw hW
        simp only [hW, Bool.false_eq_true, if_false] at kC
        cases t' <;> cases u <;> simp only [bound, St.thr, ne_eq, reduceCtorEq, not_true_eq_false, not_false_eq_true] at * <;>
          first | omega | (have := ht rfl; simp [hW] at this)
      · simp only [hW, if_true] at kC
        cases t' <;> cases u <;> simp only [bound, St.thr, ne_eq, reduceCtorEq, not_true_eq_false,
          not_false_eq_true] at * <;> omega
    · exact Nat.le_trans (h.j5 t' u hne j r hr hlt) (hvc t' u)
  · intro hW
    have hW' : s.hasW = false := by rw [← hWW]; exact hW
    obtain ⟨w1, w2, w3, w4, w5⟩ := jw hW'
    have hne : t ≠ .W := fun e => by have := ht e; simp_all
    refine ⟨?_, ?_, ?_, ?_, ?_⟩
    · intro j; rw [hacc]; simp [Ne.symm hne, w1]
    · have := hpos .W; simpa [St.thr, w2] using this
    · have := hk .W; simpa [St.thr, w3] using this
    · have := hcached .W; simpa [St.thr, w4] using this
    · have := hhist .W; simp only [St.hist] at this; rw [this]; exact w5

/-- **C03.** No reachable state has recorded a race: every access inside a granted window is ordered after all
    conflicting accesses of the other threads, in every interleaving and for every stale-but-coherent choice of index values. -/
theorem reach_inv {L : Nat} {hasW : Bool} (hL : 1 ≤ L) {s : St} (r : Reach L hasW s) : CInv s ∧ s.raced = false := by
  induction r with
  | init => exact ⟨init_inv L hasW hL, rfl⟩
  | step r st ih =>
    obtain ⟨inv, nr⟩ := ih
    cases st with
    | refresh t m hm hc ht => exact ⟨refresh_inv _ inv t m ht hm hc, by simpa [refresh] using nr⟩
    | access t q h1 h2 ht =>
      refine ⟨access_inv _ inv t q ht h1 h2, ?_⟩
      have hnr := access_no_race _ inv t q ht h1 h2
      rename_i s0
      have : racyB s0 t (q % s0.L) = false := by
        cases hb : racyB s0 t (q % s0.L)
        · rfl
        · exact absurd ((racyB_iff _ _ _).1 hb) hnr
      cases t <;> simp [access, St.setThr, nr, this]
    | moveLocal t n hn ht => exact ⟨moveLocal_inv _ inv t n ht hn, by simpa [moveLocal] using nr⟩
    | goBack t n hn ht => exact ⟨goBack_inv _ inv t n ht hn, by simpa [goBack] using nr⟩
    | publish t ht => exact ⟨publish_inv _ inv t ht, by simpa [publish] using nr⟩

end MRB.Conc
