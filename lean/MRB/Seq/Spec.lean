/-
  MRB.Seq.Spec — the abstract specification the physical machine is proved to refine.

  No ring, no wrap-around, no remembered availability. Every iterator has a *logical position* that only
  counts items (position `q` is the `q`-th item ever accepted); `hist` is the list of all accepted items in
  push order (an entry is updated when the worker, or anybody holding a mutable grant on it, edits that
  item); an iterator may use exactly the items between its own position and the published position of the
  iterator ahead of it (the producer: up to `len - 1` beyond the consumer's published position).
  `delivered` logs what the consumer has obtained: the items it has moved past, at the moment it publishes.
  Short enough to be read in a few minutes; C01/C04/C05/C11/C12/C18 are stated on it.
-/
import MRB.Seq.Machine

namespace MRB

structure Sp where
  len : Nat
  hasW : Bool
  posP : Nat := 0          -- logical positions of the iterators themselves
  posW : Nat := 0
  posC : Nat := 0
  pubP : Nat := 0          -- logical positions they have published
  pubW : Nat := 0
  pubC : Nat := 0
  detP : Bool := false
  detW : Bool := false
  detC : Bool := false
  hist : List Nat := []            -- item `q` (current value) for every position below the producer's
  delivered : List Nat := []       -- everything the consumer obtained, in order
  mask : List Bool := []           -- per position below `pubC`: delivered (true) or skipped by a reset (false)
  deriving Repr, Inhabited

namespace Sp

def pos (a : Sp) : Role → Nat
  | .P => a.posP | .W => a.posW | .C => a.posC

def setPos (a : Sp) (r : Role) (v : Nat) : Sp :=
  match r with
  | .P => { a with posP := v } | .W => { a with posW := v } | .C => { a with posC := v }

def pubOf (a : Sp) : Role → Nat
  | .P => a.pubP | .W => a.pubW | .C => a.pubC

def det (a : Sp) : Role → Bool
  | .P => a.detP | .W => a.detW | .C => a.detC

def setDet (a : Sp) (r : Role) (b : Bool) : Sp :=
  match r with
  | .P => { a with detP := b } | .W => { a with detW := b } | .C => { a with detC := b }

/-- Upper end (exclusive) of what `r` may use: the published position of the iterator ahead of it
    (for the producer: `len - 1` beyond the consumer's, so that one slot always stays free). -/
def limit (a : Sp) (r : Role) : Nat :=
  match r with
  | .P => a.pubC + (a.len - 1)
  | .W => a.pubP
  | .C => if a.hasW then a.pubW else a.pubP

/-- True availability of `r`. -/
def avail (a : Sp) (r : Role) : Nat := a.limit r - a.pos r

def valAt (a : Sp) (q : Nat) : Nat := a.hist.getD q 0

/-- The `n` items starting at position `q`. -/
def window (a : Sp) (q n : Nat) : List Nat := (List.range n).map fun k => a.valAt (q + k)

/-- `r` publishes position `v`. When the consumer publishes, the items it has moved past are delivered. -/
def publish (a : Sp) (r : Role) (v : Nat) : Sp :=
  match r with
  | .P => { a with pubP := v }
  | .W => { a with pubW := v }
  | .C => { a with pubC := v,
                   delivered := a.delivered ++ a.window a.pubC (v - a.pubC),
                   mask := a.mask ++ List.replicate (v - a.pubC) true }

/-- Move `r` forward by `n`; an attached iterator publishes. The producer's move accepts the items `vs`. -/
def move (a : Sp) (r : Role) (n : Nat) (vs : List Nat) : Sp :=
  let a1 := match r with
    | .P => { a with hist := a.hist.take a.posP ++ vs }
    | _ => a
  let a2 := a1.setPos r (a.pos r + n)
  if a.det r then a2 else a2.publish r (a.pos r + n)

/-- Somebody holding a mutable grant stores `v` into the item at position `q`
    (stores of the producer into slots it has not yet published are not items yet: no effect here). -/
def store (a : Sp) (r : Role) (q v : Nat) : Sp :=
  match r with
  | .P => a
  | _ => { a with hist := a.hist.set q v }

end Sp

/-- The abstract outcome of an operation: slices lose their physical offsets. -/
inductive AOut
  | none | ok | num (n : Nat) | item (v : Nat) | err (v : Nat) | vals (vs : List Nat) | granted (n : Nat) | panic
  deriving DecidableEq, Repr, Inhabited

/-- Abstraction of a physical outcome. What the producer is granted are slots to fill, not items:
    only their number is part of the specification. -/
def Out.abs (producerGrant : Bool) : Out → AOut
  | .none => .none | .ok => .ok | .num n => .num n
  | .item v => if producerGrant then .granted 1 else .item v
  | .err v => .err v
  | .win _ _ _ _ vs => if producerGrant then .granted vs.length else .vals vs
  | .vals vs => .vals vs
  | .panic => .panic

/-- Is the outcome of `op` a grant to the producer? -/
def Op.producerGrant : Op → Bool
  | .getWorkable .P | .sliceExact .P _ | .sliceAvail .P | .sliceMultipleOf .P _
  | .nextItemMut | .nextItemMutInit | .nextSlicesMut _ => true
  | _ => false

namespace Sp

def grantOne (a : Sp) (r : Role) : Sp × AOut :=
  if 1 ≤ a.avail r then (a, if r = .P then .granted 1 else .item (a.valAt (a.pos r))) else (a, .none)

def grantWin (a : Sp) (r : Role) (n : Nat) : Sp × AOut :=
  if n ≤ a.avail r then (a, if r = .P then .granted n else .vals (a.window (a.pos r) n)) else (a, .none)

/-- One step of the specification. -/
def step (a : Sp) : Op → Sp × AOut
  | .available r => (a, .num (a.avail r))
  | .advance r n vs => (a.move r n vs, .ok)
  | .getWorkable r => a.grantOne r
  | .sliceExact r n => a.grantWin r n
  | .sliceAvail r => if a.avail r = 0 then (a, .none) else a.grantWin r (a.avail r)
  | .sliceMultipleOf r k =>
      if k = 0 then (a, .panic) else
      let n := a.avail r - a.avail r % k
      if n = 0 then (a, .none) else a.grantWin r n
  | .poke r k v => (a.store r (a.pos r + k) v, .ok)
  | .push v | .pushInit v =>
      if 1 ≤ a.avail .P then (a.move .P 1 [v], .ok) else (a, .err v)
  | .pushSlice vs | .pushSliceInit vs | .pushSliceClone vs | .pushSliceCloneInit vs =>
      if vs.length ≤ a.avail .P then (a.move .P vs.length vs, .ok) else (a, .none)
  | .nextItemMut | .nextItemMutInit => a.grantOne .P
  | .nextSlicesMut n => a.grantWin .P n
  | .resetIndex r =>
      match r with
      | .P => (a, .panic)
      | .W =>
        let a1 := a.setPos .W (a.limit .W)
        (if a.detW then a1 else a1.publish .W (a.limit .W), .ok)
      | .C =>
        (if a.detC then a.setPos .C (a.limit .C)
         else { a with posC := a.limit .C, pubC := a.limit .C, mask := a.mask ++ List.replicate (a.limit .C - a.pubC) false }, .ok)
  | .peekRef => a.grantOne .C
  | .peekSlice n => a.grantWin .C n
  | .peekAvailable => a.grantWin .C (a.avail .C)
  | .popMove | .pop | .copyItem | .cloneItem =>
      if 1 ≤ a.avail .C then (a.move .C 1 [], .item (a.valAt a.posC)) else (a, .none)
  | .copySlice n | .cloneSlice n =>
      if n ≤ a.avail .C then (a.move .C n [], .vals (a.window a.posC n)) else (a, .none)
  | .detach r => (a.setDet r true, .ok)
  | .attach r => ((a.publish r (a.pos r)).setDet r false, .ok)
  | .setIndex r i =>
      -- the unique position in the unpublished window `[pub r, pub r + len)` that lies on ring index `i`
      (a.setPos r (a.pubOf r + (i + a.len - a.pubOf r % a.len) % a.len), .ok)
  | .goBack r n => (a.setPos r (a.pos r - n), .ok)
  | .syncIndex r => (a.publish r (a.pos r), .ok)
  | .dropIt _ => (a, .ok)
  | .resplit withW => ({ len := a.len, hasW := withW }, .ok)   -- a new session: everything restarts

def init (len : Nat) (hasW : Bool) : Sp := { len := len, hasW := hasW }

end Sp

end MRB
