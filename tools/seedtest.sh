#!/bin/bash
# usage: seedtest.sh <seed-dir-name> <property>...   — applies a seeded mutation to /repo, runs the checks, reverts.
# /verif/evidence is saved before and restored after (the mutant's evidence is kept under .cache/seedruns/<seed>/),
# so /verif/evidence always describes the unchanged tree.
S=/verif/seeded/$1; shift
cd /repo && git status --short | grep -q . && { echo "repo dirty"; exit 2; }
git apply $S/patch.diff || { echo "patch failed"; exit 2; }
BK=$(mktemp -d /tmp/seedtest.XXXXXX)
cp -a /verif/evidence $BK/evidence
trap 'cd /repo && git checkout -- . && /verif/rs2lean/target/debug/rs2lean /repo /verif/lean/snapshot.json /verif/lean/MRB/Gen >/dev/null; mkdir -p /verif/.cache/seedruns/'"$(basename $S)"' && cp -a /verif/evidence/. /verif/.cache/seedruns/'"$(basename $S)"'/ ; rm -rf /verif/evidence && mv $BK/evidence /verif/evidence; rm -rf $BK' EXIT
cd /verif
for p in "$@"; do
  out=$(./check $p 2>&1); rc=$?
  echo "== $(basename $S) :: $p rc=$rc"
  echo "$out" | grep -E "VIOLATION|KNOWN|\[check" | head -5
done
