//! adetprobe (cargo feature `async`): small-scope exhaustive check of `AsyncDetached` (advance / go_back / sync_index /
//! attach), which the operation-history harness does not drive. For every buffer length 1..=9, every ring position,
//! every role that can be detached (worker, consumer) and every contract-respecting (advance a, go_back b): the index
//! after `attach`, the remembered availability and the published indices before/after, compared with an independent
//! expectation and with the Lean model (the same history as plain lines through the driver).
#[cfg(not(feature = "async"))]
fn main() { eprintln!("adetprobe needs --features async"); std::process::exit(2); }

#[cfg(feature = "async")]
fn main() { imp::main() }

#[cfg(feature = "async")]
mod imp {
use mrb_harness::driver::Driver;
use mrb_harness::json::{arr, esc, obj};
use mutringbuf::iterators::async_iterators::AsyncIterator;
use mutringbuf::iterators::{AsyncConsIter, AsyncWorkIter};
use mutringbuf::*;

struct Row { ok: bool, tags: &'static str, case: String, detail: String }

pub fn main() {
    let a: Vec<String> = std::env::args().collect();
    let drv = a.iter().position(|x| x == "--driver").map(|i| a[i + 1].clone());
    let mut d = drv.map(|p| Driver::spawn(&p).expect("cannot start the Lean driver"));
    let mut rows: Vec<Row> = vec![];
    let mut n_cases = 0usize;
    for len in 1usize..=9 {
        for r in 0..len {            // ring position of all three iterators before the experiment
            for m in 0..len {        // items in flight for the detached stage (≤ len - 1)
                for adv in 0..=m {
                    for back in 0..=adv {
                        for role in ["W", "C"] {
                            n_cases += 1;
                            run_one(len, r, m, adv, back, role, &mut d, &mut rows);
                        }
                    }
                }
            }
        }
    }
    let bad: Vec<String> = rows.iter().filter(|r| !r.ok).take(12).map(|r| obj(&[("tags", esc(r.tags)), ("case", esc(&r.case)), ("detail", esc(&r.detail))])).collect();
    println!("{}", obj(&[("cases", n_cases.to_string()), ("failures", arr(&bad)), ("failing", rows.iter().filter(|r| !r.ok).count().to_string())]));
}

fn run_one(len: usize, r: usize, m: usize, adv: usize, back: usize, role: &str, d: &mut Option<Driver>, rows: &mut Vec<Row>) {
    let buf = ConcurrentHeapRB::<u64>::from((100..100 + len as u64).collect::<Vec<u64>>());
    let (mut p, mut w, mut c) = buf.split_mut();
    let mut lines: Vec<String> = vec![format!("init {} 1 1 0 {}", len, (100..100 + len as u64).map(|v| v.to_string()).collect::<Vec<_>>().join(" "))];
    // pre-roll: every stage to ring position r
    for k in 0..r {
        if p.push(1000 + k as u64).is_err() { return; }
        lines.push(format!("push {}", 1000 + k));
        unsafe { w.advance(1) }; lines.push("adv W 1".into());
        unsafe { c.advance(1) }; lines.push("adv C 1".into());
    }
    // m items for the stage under test
    for k in 0..m {
        if p.push(2000 + k as u64).is_err() { return; }
        lines.push(format!("push {}", 2000 + k));
        if role == "C" { unsafe { w.advance(1) }; lines.push("adv W 1".into()); }
    }
    let exp_idx = (r + adv - back) % len;
    let (got_idx, got_ca, pub_before, pub_after);
    if role == "W" {
        let aw = AsyncWorkIter::from_sync(w);
        let mut det = aw.detach();
        lines.push("detach W".into());
        unsafe { det.advance(adv) }; lines.push(format!("adv W {adv}"));
        unsafe { det.go_back(back) }; lines.push(format!("back W {back}"));
        pub_before = p.work_index();
        let aw = det.attach(); lines.push("attach W".into());
        got_idx = aw.index(); got_ca = aw.inner().verif_cached_avail(); pub_after = p.work_index();
        drop(aw);
    } else {
        let ac = AsyncConsIter::from_sync(c);
        let mut det = ac.detach();
        lines.push("detach C".into());
        unsafe { det.advance(adv) }; lines.push(format!("adv C {adv}"));
        unsafe { det.go_back(back) }; lines.push(format!("back C {back}"));
        pub_before = p.cons_index();
        let ac = det.attach(); lines.push("attach C".into());
        got_idx = ac.index(); got_ca = ac.inner().verif_cached_avail(); pub_after = p.cons_index();
        drop(ac);
        drop(w);
    }
    let case = format!("# AsyncDetached, role {role}: len={len}, all stages at ring position {r}, {m} items in flight, advance({adv}), go_back({back}), attach\n{}", lines.join("\n"));
    let ok = got_idx == exp_idx && pub_before == r % len && pub_after == exp_idx;
    if !ok {
        rows.push(Row { ok: false, tags: "C12,C13", case: case.clone(), detail: format!("index after attach {got_idx} (expected {exp_idx}); published index while detached {pub_before} (expected {}), after attach {pub_after} (expected {exp_idx})", r % len) });
    }
    if let Some(d) = d.as_mut() {
        let mut last = String::new();
        for l in &lines { last = d.ask(l); }
        // "… | idx P W C ca P W C pub P W C …"
        let f: Vec<&str> = last.split_whitespace().collect();
        let at = |k: &str| f.iter().position(|x| *x == k);
        if let (Some(i), Some(ca), Some(pb)) = (at("idx"), at("ca"), at("pub")) {
            let k = if role == "W" { 1 } else { 2 };
            let (mi, mc, mp) = (f[i + 1 + k].parse::<usize>().unwrap_or(usize::MAX), f[ca + 1 + k].parse::<usize>().unwrap_or(usize::MAX), f[pb + 1 + k].parse::<usize>().unwrap_or(usize::MAX));
            if (mi, mc, mp) != (got_idx, got_ca, pub_after) {
                rows.push(Row { ok: false, tags: "", case, detail: format!("implementation: idx {got_idx} cached {got_ca} published {pub_after}; Lean model: idx {mi} cached {mc} published {mp}") });
            }
        } else {
            rows.push(Row { ok: false, tags: "", case, detail: format!("driver answer not understood: {last}") });
        }
    }
    drop(p);
}
}
