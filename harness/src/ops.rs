//! Operation alphabet (mirrors `MRB.Op` of the Lean model) and the line protocol.
#[derive(Clone, Copy, PartialEq, Eq, Debug, Hash, PartialOrd, Ord)]
pub enum Role { P = 0, W = 1, C = 2 }
pub const ROLES: [Role; 3] = [Role::P, Role::W, Role::C];

impl Role {
    pub fn ch(self) -> char { match self { Role::P => 'P', Role::W => 'W', Role::C => 'C' } }
    pub fn i(self) -> usize { self as usize }
    pub fn parse(s: &str) -> Option<Role> { match s { "P" => Some(Role::P), "W" => Some(Role::W), "C" => Some(Role::C), _ => None } }
}

#[derive(Clone, PartialEq, Eq, Debug, Hash)]
pub enum Op {
    Avail(Role), Adv(Role, usize, Vec<u64>), Gw(Role), Se(Role, usize), Sa(Role), Sm(Role, usize), Poke(Role, usize, u64),
    Push(u64), PushI(u64), PushS(Vec<u64>), PushSI(Vec<u64>), PushSC(Vec<u64>), PushSCI(Vec<u64>),
    Nim, Nimi, Nsm(usize), Reset(Role), Peek, PeekS(usize), PeekA, PopM, Pop, Copy, Clone, CopyS(usize), CloneS(usize),
    Detach(Role), Attach(Role), SetI(Role, usize), Back(Role, usize), Sync(Role), Drop(Role), Resplit(bool),
}

fn vs(v: &[u64]) -> String { v.iter().map(|x| format!(" {x}")).collect() }

impl Op {
    pub fn line(&self) -> String {
        use Op::*;
        match self {
            Avail(r) => format!("avail {}", r.ch()),
            Adv(r, n, v) => format!("adv {} {}{}", r.ch(), n, vs(v)),
            Gw(r) => format!("gw {}", r.ch()),
            Se(r, n) => format!("se {} {}", r.ch(), n),
            Sa(r) => format!("sa {}", r.ch()),
            Sm(r, k) => format!("sm {} {}", r.ch(), k),
            Poke(r, k, v) => format!("poke {} {} {}", r.ch(), k, v),
            Push(v) => format!("push {v}"),
            PushI(v) => format!("pushi {v}"),
            PushS(v) => format!("pushs{}", vs(v)),
            PushSI(v) => format!("pushsi{}", vs(v)),
            PushSC(v) => format!("pushsc{}", vs(v)),
            PushSCI(v) => format!("pushsci{}", vs(v)),
            Nim => "nim".into(), Nimi => "nimi".into(), Nsm(n) => format!("nsm {n}"),
            Reset(r) => format!("reset {}", r.ch()),
            Peek => "peek".into(), PeekS(n) => format!("peeks {n}"), PeekA => "peeka".into(),
            PopM => "popm".into(), Pop => "pop".into(), Copy => "copy".into(), Clone => "clone".into(),
            CopyS(n) => format!("copys {n}"), CloneS(n) => format!("clones {n}"),
            Detach(r) => format!("detach {}", r.ch()), Attach(r) => format!("attach {}", r.ch()),
            SetI(r, i) => format!("seti {} {}", r.ch(), i), Back(r, n) => format!("back {} {}", r.ch(), n),
            Sync(r) => format!("sync {}", r.ch()), Drop(r) => format!("drop {}", r.ch()),
            Resplit(w) => format!("resplit {}", *w as u8),
        }
    }

    pub fn parse(line: &str) -> Option<Op> {
        use Op::*;
        let w: Vec<&str> = line.split_whitespace().collect();
        let n = |s: &str| s.parse::<usize>().ok();
        let v = |s: &str| s.parse::<u64>().ok();
        let list = |ws: &[&str]| ws.iter().map(|s| s.parse::<u64>().ok()).collect::<Option<Vec<u64>>>();
        Some(match w.as_slice() {
            ["avail", r] => Avail(Role::parse(r)?),
            ["adv", r, k, rest @ ..] => Adv(Role::parse(r)?, n(k)?, list(rest)?),
            ["gw", r] => Gw(Role::parse(r)?),
            ["se", r, k] => Se(Role::parse(r)?, n(k)?),
            ["sa", r] => Sa(Role::parse(r)?),
            ["sm", r, k] => Sm(Role::parse(r)?, n(k)?),
            ["poke", r, k, x] => Poke(Role::parse(r)?, n(k)?, v(x)?),
            ["push", x] => Push(v(x)?),
            ["pushi", x] => PushI(v(x)?),
            ["pushs", rest @ ..] => PushS(list(rest)?),
            ["pushsi", rest @ ..] => PushSI(list(rest)?),
            ["pushsc", rest @ ..] => PushSC(list(rest)?),
            ["pushsci", rest @ ..] => PushSCI(list(rest)?),
            ["nim"] => Nim, ["nimi"] => Nimi, ["nsm", k] => Nsm(n(k)?),
            ["reset", r] => Reset(Role::parse(r)?),
            ["peek"] => Peek, ["peeks", k] => PeekS(n(k)?), ["peeka"] => PeekA,
            ["popm"] => PopM, ["pop"] => Pop, ["copy"] => Copy, ["clone"] => Clone,
            ["copys", k] => CopyS(n(k)?), ["clones", k] => CloneS(n(k)?),
            ["detach", r] => Detach(Role::parse(r)?), ["attach", r] => Attach(Role::parse(r)?),
            ["seti", r, i] => SetI(Role::parse(r)?, n(i)?), ["back", r, k] => Back(Role::parse(r)?, n(k)?),
            ["sync", r] => Sync(Role::parse(r)?), ["drop", r] => Drop(Role::parse(r)?),
            ["resplit", b] => Resplit(n(b)? != 0),
            _ => return None,
        })
    }

    /// short name for histograms
    pub fn kind(&self) -> &'static str {
        use Op::*;
        match self {
            Avail(_) => "avail", Adv(..) => "adv", Gw(_) => "gw", Se(..) => "se", Sa(_) => "sa", Sm(..) => "sm", Poke(..) => "poke",
            Push(_) => "push", PushI(_) => "pushi", PushS(_) => "pushs", PushSI(_) => "pushsi", PushSC(_) => "pushsc", PushSCI(_) => "pushsci",
            Nim => "nim", Nimi => "nimi", Nsm(_) => "nsm", Reset(_) => "reset", Peek => "peek", PeekS(_) => "peeks", PeekA => "peeka",
            PopM => "popm", Pop => "pop", Copy => "copy", Clone => "clone", CopyS(_) => "copys", CloneS(_) => "clones",
            Detach(_) => "detach", Attach(_) => "attach", SetI(..) => "seti", Back(..) => "back", Sync(_) => "sync", Drop(_) => "drop", Resplit(_) => "resplit",
        }
    }

    pub fn role(&self) -> Option<Role> {
        use Op::*;
        Some(match self {
            Avail(r) | Adv(r, ..) | Gw(r) | Se(r, _) | Sa(r) | Sm(r, _) | Poke(r, ..) | Reset(r) | Detach(r) | Attach(r) | SetI(r, _) | Back(r, _) | Sync(r) | Drop(r) => *r,
            Push(_) | PushI(_) | PushS(_) | PushSI(_) | PushSC(_) | PushSCI(_) | Nim | Nimi | Nsm(_) => Role::P,
            Peek | PeekS(_) | PeekA | PopM | Pop | Copy | Clone | CopyS(_) | CloneS(_) => Role::C,
            Resplit(_) => return None,
        })
    }
}

/// Outcome of an operation as observed on the implementation / predicted by the model.
#[derive(Clone, PartialEq, Eq, Debug)]
pub enum Out {
    None, Ok, Num(usize), Item(u64), Err(u64),
    Win { ho: usize, hl: usize, to: usize, tl: usize, vals: Vec<u64> },
    Vals(Vec<u64>),
    Panic,
}

impl Out {
    pub fn line(&self) -> String {
        match self {
            Out::None => "none".into(), Out::Ok => "ok".into(), Out::Num(n) => format!("num {n}"),
            Out::Item(v) => format!("item {v}"), Out::Err(v) => format!("err {v}"),
            Out::Win { ho, hl, to, tl, vals } => format!("win {ho} {hl} {to} {tl} : {}", vals.iter().map(|x| x.to_string()).collect::<Vec<_>>().join(" ")),
            Out::Vals(vals) => format!("vals {}", vals.iter().map(|x| x.to_string()).collect::<Vec<_>>().join(" ")),
            Out::Panic => "panic".into(),
        }
    }
}

/// Everything observable after a step.
#[derive(Clone, PartialEq, Eq, Debug, Default)]
pub struct Obs {
    pub idx: [usize; 3],
    pub ca: [usize; 3],
    pub publ: [usize; 3],
    pub fl: [bool; 3],
    pub freed: usize,
    pub drops: Vec<u64>,
    pub drop_zero: bool,
}

impl Obs {
    pub fn line(&self) -> String {
        format!("idx {} {} {} ca {} {} {} pub {} {} {} fl {} {} {} freed {} drops [{}] fault {}",
            self.idx[0], self.idx[1], self.idx[2], self.ca[0], self.ca[1], self.ca[2], self.publ[0], self.publ[1], self.publ[2],
            self.fl[0] as u8, self.fl[1] as u8, self.fl[2] as u8, self.freed,
            self.drops.iter().map(|x| x.to_string()).collect::<Vec<_>>().join(" "),
            if self.drop_zero { "dropZero" } else { "-" })
    }
}
