/-
  C01 — the consumer gets exactly the pushed items, once, in order, with the worker's edits.
  Property theorems only (helper lemmas live in MRB/Seq/*). Statements quantify over every buffer length,
  every variant flag, every contract-respecting history of any length.
-/
import MRB.Seq.Run

namespace MRB.Props.C01
open MRB

/-- Every outcome of every operation of a contract-respecting history is the outcome the FIFO specification
    prescribes (values delivered to the consumer included), and the final states correspond. -/
theorem C01_history_refines_fifo_spec (slots : List Nat) (hasW heap owned : Bool) (hlen : 1 ≤ slots.length) (hlt : slots.length < 2 ^ 63)
    (ops : List Op) (hal : AllowedRun (St.init slots hasW heap owned) (Sp.init slots.length hasW) ops) :
    Rel (run (St.init slots hasW heap owned) ops).1 ((Sp.init slots.length hasW).run ops).1 ∧
    absOuts ops (run (St.init slots hasW heap owned) ops).2 = ((Sp.init slots.length hasW).run ops).2 :=
  run_refines (rel_init slots hasW heap owned hlen hlt) ops hal

/-- What the consumer has obtained is the list of accepted items (in push order, each with the edits made
    while it was in flight) below its published position, minus what explicit resets skipped. -/
theorem C01_fifo {s : St} {a : Sp} (r : Reach s a) : a.delivered = pick a.mask a.hist := r.fifo

/-- Without skipped positions the delivered sequence is exactly a prefix of the accepted sequence:
    nothing lost, duplicated, reordered or invented. -/
theorem C01_prefix_when_nothing_skipped {s : St} {a : Sp} (r : Reach s a) (hm : a.mask = List.replicate a.pubC true) :
    a.delivered = a.hist.take a.pubC := by
  have hF := r.fifo
  have hl : a.pubC ≤ a.hist.length := by have := r.rel.availP_le.2; have := r.rel.hist_len; omega
  unfold Sp.Fifo at hF
  rw [hF, hm, pick_take_of_le]
  simp only [List.length_replicate]
  generalize hL : a.hist.take a.pubC = L
  have : L.length = a.pubC := by rw [← hL]; simp; omega
  rw [← this]; exact pick_replicate_true L

/-- A successful `pop` returns the oldest item not yet consumed, as currently stored by producer and worker,
    and the physical slot it is read from holds exactly that item. -/
theorem C01_pop_returns_head {s : St} {a : Sp} (h : Rel s a) (hal : Allowed s a .pop) (hav : 1 ≤ a.avail .C) :
    (step s .pop).2 = .item (a.hist.getD a.posC 0) := by
  have := (step_refines h .pop hal).2
  simp only [Sp.step, hav, if_true, Op.producerGrant] at this
  cases hs : (step s .pop).2 <;> rw [hs] at this <;> simp [Out.abs, Sp.valAt] at this
  rw [this]; simp [List.getD_eq_getElem?_getD]

/-- With a worker stage the consumer never reaches an item the worker has not released, and the worker never
    reaches an item the producer has not published; positions never run backwards past what was published. -/
theorem C01_only_released_items {s : St} {a : Sp} (r : Reach s a) :
    a.pubC ≤ a.posC ∧ a.posC ≤ (if a.hasW then a.pubW else a.pubP) ∧ (a.hasW = true → a.pubW ≤ a.posW ∧ a.posW ≤ a.pubP) ∧
    a.pubP ≤ a.posP ∧ a.posP ≤ a.hist.length :=
  ⟨r.rel.leC, r.rel.ordC, fun hW => ⟨r.rel.leW, r.rel.ordW hW⟩, r.rel.leP, r.rel.hist_len⟩

/-- The slots between consumer and producer hold exactly the items in flight (ring position = logical position mod len). -/
theorem C01_slots_hold_items_in_flight {s : St} {a : Sp} (r : Reach s a) (q : Nat) (h1 : a.pubC ≤ q) (h2 : q < a.posP) :
    s.slots.getD (q % s.len) 0 = a.hist.getD q 0 := r.rel.content q h1 h2

/-- Tie to the source: the call order of the data path, as rs2lean reads it from the current tree, is the one the
    model composes (grant, then the data access, then advance = local move followed by publication of the *new* index),
    and each stage looks at / stores to the published index the model wires it to. -/
theorem C01_source_call_order_and_wiring :
    Gen.skelNext = [⟨.check, .lit 1⟩, ⟨.takeInner, .none⟩, ⟨.advance', .lit 1⟩] ∧
    Gen.skelNextDuplicate = [⟨.check, .lit 1⟩, ⟨.innerDuplicate, .none⟩, ⟨.advance', .lit 1⟩] ∧
    Gen.skelNextRef = [⟨.check, .lit 1⟩, ⟨.innerRef, .none⟩] ∧
    Gen.skelNextRefMut = [⟨.check, .lit 1⟩, ⟨.innerRefMut, .none⟩] ∧
    Gen.skelNextRefMutInit = [⟨.check, .lit 1⟩, ⟨.asMutPtr, .none⟩] ∧
    Gen.skelNextChunk = [⟨.check, .count⟩] ∧ Gen.skelNextChunkMut.map (·.name) = [.check, .asMutPtr] ∧
    Gen.skelPush = [⟨.nextRefMutInit, .none⟩, ⟨.userF, .many⟩, ⟨.advance, .lit 1⟩] ∧
    Call.bracketed .nextChunkMut Gen.skelPushSlice = true ∧
    Gen.skelExtractItem = [⟨.nextRef, .none⟩, ⟨.userF, .many⟩, ⟨.advance, .lit 1⟩] ∧
    Call.bracketed .nextChunkMut Gen.skelExtractSlice = true ∧
    Gen.skelPop = [⟨.nextDuplicate, .none⟩] ∧ Gen.skelPopMove = [⟨.next, .none⟩] ∧ Gen.skelPeekRef = [⟨.nextRef, .none⟩] ∧
    Gen.skelPeekSlice = [⟨.nextChunk, .count⟩] ∧ Gen.skelPeekAvailable.map (·.name) = [.available, .peekSlice] ∧
    Gen.skelAdvance = [⟨.advanceLocal, .count⟩, ⟨.setAtomicIndex, .index⟩] ∧ Gen.skelPubAdvance = [⟨.advance', .count⟩] ∧
    Gen.skelGetWorkable = [⟨.nextRefMut, .none⟩] ∧ Gen.skelGetWorkableSliceExact = [⟨.nextChunkMut, .count⟩] ∧
    (∀ w, Gen.prodSucc w = .cons) ∧ (∀ w, Gen.workSucc w = .prod) ∧ (∀ w, Gen.consSucc w = if w then .work else .prod) ∧
    Gen.prodPub = .prod ∧ Gen.workPub = .work ∧ Gen.consPub = .cons :=
  ⟨rfl, rfl, rfl, rfl, rfl, rfl, rfl, rfl, rfl, rfl, rfl, rfl, rfl, rfl, rfl, rfl, rfl, rfl, rfl, rfl,
   fun _ => rfl, fun _ => rfl, fun _ => rfl, rfl, rfl, rfl⟩

/-- Non-vacuity: a three-stage buffer of length 3 after a wrap-around, worker edit and two deliveries. -/
example :
    let ops : List Op := [.push 7, .push 8, .sliceExact .W 2, .poke .W 1 80, .advance .W 2 [], .pop, .push 9, .push 10, .pop]
    let s0 := St.init [0, 0, 0] true true false
    (run s0 ops).2 = [.ok, .ok, .win 0 2 0 0 [7, 8], .ok, .ok, .item 7, .ok, .err 10, .item 80] ∧
    (((Sp.init 3 true).run ops).1.delivered = [7, 80]) := by decide

end MRB.Props.C01
