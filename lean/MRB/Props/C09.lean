/-
  C09 — empty (zeroed) slots are never read or dropped; `*_init` pushes handle both kinds.
-/
import MRB.Seq.Run

namespace MRB.Props.C09
open MRB

/-- The `*_init` store on an empty slot runs no destructor; on an occupied slot it destroys the old value
    exactly once; it never raises the "destructor on empty slot" fault by itself. -/
theorem C09_init_branches (s : St) (i v : Nat) (ho : s.owned = true) (hf : s.fault = none) :
    (s.slotAt i = 0 → (initSlot s i v).drops = s.drops) ∧ (s.slotAt i ≠ 0 → (initSlot s i v).drops = s.drops ++ [s.slotAt i]) ∧
    (initSlot s i v).fault = none := by
  refine ⟨fun h => ?_, fun h => ?_, ?_⟩
  · simp [initSlot, h, writeSlot, St.setSlot]
  · simp [initSlot, h, assignSlot, ho, St.setSlot]
  · by_cases h : s.slotAt i = 0
    · simp [initSlot, h, writeSlot, St.setSlot, hf]
    · simp [initSlot, h, assignSlot, ho, St.setSlot, hf]

/-- A plain (assigning) store onto an *empty* slot of an owned type is exactly the forbidden case: it is the
    only way a store reaches the "destructor on an empty slot" fault. -/
theorem C09_plain_store_faults_iff_empty (s : St) (i v : Nat) (ho : s.owned = true) (hf : s.fault = none) :
    (assignSlot s i v).fault = some .dropZero ↔ s.slotAt i = 0 := by
  by_cases h : s.slotAt i = 0
  · simp [assignSlot, ho, h, St.setFault, St.setSlot, hf]
  · simp [assignSlot, ho, h, St.setSlot, hf]

/-- Releasing the buffer never passes an empty slot to a destructor. -/
theorem C09_release_skips_empty (s : St) : 0 ∉ (releaseStorage s).drops.drop s.drops.length := by
  unfold releaseStorage; split <;> simp

/-- Tie to the source: the `*_init` forms test every slot separately, and the emptiness test looks at all bytes. -/
theorem C09_source_init_shapes :
    Gen.storePushInit = .initBranch ∧ Gen.storePushSliceInit = .perSlotInitCopy ∧ Gen.storePushSliceCloneInit = .perSlotInitClone ∧
    Gen.pinCheckZeroed = "{unsafe{(*slice_from_raw_parts(ptras*constu8,size_of::<T>())).iter().all(|x|*x==0)}}" ∧
    Gen.pinCellDrop = "{if!UnsafeSyncCell::check_zeroed(self.0.get_mut().as_mut_ptr()){unsafe{self.0.get_mut().assume_init_drop()}}}" :=
  ⟨rfl, rfl, rfl, rfl, rfl⟩

/-- Non-vacuity: `new_zeroed`, `*_init` pushes over empty and occupied slots alternating, no fault, one destructor per replaced value. -/
example :
    let ops : List Op := [.pushInit 5, .pushInit 6, .popMove, .cloneItem, .pushSliceCloneInit [7, 8], .dropIt .P, .dropIt .C]
    let r := run (St.init [0, 0, 0, 0] false true true) ops
    r.1.fault = none ∧ r.1.drops = [6, 7, 8] ∧ r.2 = [.ok, .ok, .item 5, .item 6, .ok, .ok, .ok] := by decide

end MRB.Props.C09
