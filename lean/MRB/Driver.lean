/-
  MRB.Driver — line protocol around the executable model, used by the correspondence check (tie B).
  One request per line on stdin, one answer per line on stdout. Core Lean only.

    init <len> <hasW> <heap> <owned> <slot>*        start a case
    <op> <args>*                                    apply an operation, print outcome and observables
-/
import MRB.Seq.Machine
import MRB.Seq.Spec
import MRB.Traits
import MRB.Async
import MRB.Vmem
import MRB.Conc.Replay

namespace MRB.Driver
open MRB

def parseRole : String → Option Role
  | "P" => some .P | "W" => some .W | "C" => some .C | _ => none

def nats (ws : List String) : Option (List Nat) := ws.mapM String.toNat?

def parseOp (ws : List String) : Option Op :=
  match ws with
  | ["avail", r] => do pure (.available (← parseRole r))
  | "adv" :: r :: n :: vs => do pure (.advance (← parseRole r) (← n.toNat?) (← nats vs))
  | ["gw", r] => do pure (.getWorkable (← parseRole r))
  | ["se", r, n] => do pure (.sliceExact (← parseRole r) (← n.toNat?))
  | ["sa", r] => do pure (.sliceAvail (← parseRole r))
  | ["sm", r, k] => do pure (.sliceMultipleOf (← parseRole r) (← k.toNat?))
  | ["poke", r, k, v] => do pure (.poke (← parseRole r) (← k.toNat?) (← v.toNat?))
  | ["push", v] => do pure (.push (← v.toNat?))
  | ["pushi", v] => do pure (.pushInit (← v.toNat?))
  | "pushs" :: vs => do pure (.pushSlice (← nats vs))
  | "pushsi" :: vs => do pure (.pushSliceInit (← nats vs))
  | "pushsc" :: vs => do pure (.pushSliceClone (← nats vs))
  | "pushsci" :: vs => do pure (.pushSliceCloneInit (← nats vs))
  | ["nim"] => some .nextItemMut
  | ["nimi"] => some .nextItemMutInit
  | ["nsm", n] => do pure (.nextSlicesMut (← n.toNat?))
  | ["reset", r] => do pure (.resetIndex (← parseRole r))
  | ["peek"] => some .peekRef
  | ["peeks", n] => do pure (.peekSlice (← n.toNat?))
  | ["peeka"] => some .peekAvailable
  | ["popm"] => some .popMove
  | ["pop"] => some .pop
  | ["copy"] => some .copyItem
  | ["clone"] => some .cloneItem
  | ["copys", n] => do pure (.copySlice (← n.toNat?))
  | ["clones", n] => do pure (.cloneSlice (← n.toNat?))
  | ["detach", r] => do pure (.detach (← parseRole r))
  | ["attach", r] => do pure (.attach (← parseRole r))
  | ["seti", r, i] => do pure (.setIndex (← parseRole r) (← i.toNat?))
  | ["back", r, n] => do pure (.goBack (← parseRole r) (← n.toNat?))
  | ["sync", r] => do pure (.syncIndex (← parseRole r))
  | ["drop", r] => do pure (.dropIt (← parseRole r))
  | ["resplit", w] => do pure (.resplit ((← w.toNat?) != 0))
  | _ => none

def natList (l : List Nat) : String := " ".intercalate (l.map toString)

/-- Window geometry under the `vmem` feature: the single slice of the regenerated `next_chunk*` (vmem variant)
for the same index and count (by `C17_slice_window_is_ring` it reaches the same ring slots under the mirror). -/
def vmWin (len ho hl tl : Nat) : Nat × Nat × Nat × Nat :=
  (Gen.nextChunkVm.headOff ho 0 0 len (hl + tl) 0, Gen.nextChunkVm.headLen ho 0 0 len (hl + tl) 0,
   Gen.nextChunkVm.tailOff ho 0 0 len (hl + tl) 0, Gen.nextChunkVm.tailLen ho 0 0 len (hl + tl) 0)

def renderOutVm (len : Nat) : Out → String
  | .win ho hl _ tl vs => let (a, b, c, d) := vmWin len ho hl tl; s!"win {a} {b} {c} {d} : {" ".intercalate (vs.map toString)}"
  | .none => "none"
  | .ok => "ok"
  | .num n => s!"num {n}"
  | .item v => s!"item {v}"
  | .err v => s!"err {v}"
  | .vals vs => s!"vals {" ".intercalate (vs.map toString)}"
  | .panic => "panic"

def renderOut : Out → String
  | .none => "none"
  | .ok => "ok"
  | .num n => s!"num {n}"
  | .item v => s!"item {v}"
  | .err v => s!"err {v}"
  | .win ho hl to tl vs => s!"win {ho} {hl} {to} {tl} : {natList vs}"
  | .vals vs => s!"vals {natList vs}"
  | .panic => "panic"

def renderAOut : AOut → String
  | .none => "none" | .ok => "ok" | .num n => s!"num {n}" | .item v => s!"item {v}" | .err v => s!"err {v}"
  | .vals vs => s!"vals {natList vs}" | .granted n => s!"granted {n}" | .panic => "panic"

def b (x : Bool) : String := if x then "1" else "0"

def renderFault : Option Fault → String
  | none => "-"
  | some .uncheckedArith => "uncheckedArith" | some .outOfBounds => "outOfBounds" | some .dropZero => "dropZero"
  | some .readZero => "readZero" | some .useAfterFree => "useAfterFree" | some .doubleFree => "doubleFree"

/-- Observables after a step (everything the harness can read without disturbing the iterators). -/
def renderObs (s : St) (newDrops : List Nat) : String :=
  s!"idx {s.p.idx} {s.w.idx} {s.c.idx} ca {s.p.cached} {s.w.cached} {s.c.cached} pub {s.pubP} {s.pubW} {s.pubC} " ++
  s!"fl {b s.flagP} {b s.flagW} {b s.flagC} freed {s.freed} drops [{natList newDrops}] fault {renderFault s.fault}"

structure Case where
  st : St
  sp : Sp
  heldP : Option Op := none
  heldW : Option Op := none
  heldC : Option Op := none
  wakes : Nat := 0
  vm : Bool := false      -- `initvm`: the harness was built with the `vmem` feature
  deriving Inhabited

def Case.ast (c : Case) : ASt := { st := c.st, heldP := c.heldP, heldW := c.heldW, heldC := c.heldC, wakes := c.wakes }
def Case.withAst (c : Case) (a : ASt) : Case := { c with st := a.st, heldP := a.heldP, heldW := a.heldW, heldC := a.heldC, wakes := a.wakes }

def renderPolled : Polled → String
  | .ready o => "ready " ++ renderOut o
  | .pending => "pending"

/-- Keep the specification in step with the physical machine across a poll (it steps only when the operation is carried out). -/
def specAfterPoll (sp : Sp) (op : Op) (p : Polled) : Sp :=
  match p with
  | .ready _ => (sp.step op).1
  | .pending => sp

def c16Table : String :=
  let row (t : Traits.Ty) : String :=
    let b := match t.base with | .prod => "P" | .work => "W" | .cons => "C"
    let w := match t.wrap with | .plain => "plain" | .detached => "detached" | .async => "async" | .asyncDetached => "asyncdetached" | .future => "future"
    s!"{b} {w} conc={Driver.b t.concurrent} isend={Driver.b t.itemSend} isync={Driver.b t.itemSync} send={Driver.b (Traits.isSend t)} sync={Driver.b (Traits.isSync t)}"
  ";".intercalate (Traits.allTys.map row)

/-- `c17`: the verdicts of the vmem decision procedures on the regenerated tables, and the rounding function on a request. -/
def c17Verdict : String :=
  let v := Vmem.verdict
  s!"placed={v.placed} mirror={v.mirror} contents={v.contents} unmap={v.unmap} destroys={v.destroys} returnsBase={v.returnsBase}"

def g3Table : String :=
  let loc : Loc → String
    | .prodIdx => "prodIdx" | .workIdx => "workIdx" | .consIdx => "consIdx" | .prodAlive => "prodAlive" | .workAlive => "workAlive"
    | .consAlive => "consAlive" | .aliveIters => "aliveIters" | .other s => s
  let kind : AccKind → String
    | .load => "load" | .store => "store" | .fetchAdd | .fetchSub => "rmw" | .read => "read" | .write => "write" | .addAssign | .subAssign => "rmwplain"
  let ord : MemOrd → String
    | .relaxed => "relaxed" | .acquire => "acquire" | .release => "release" | .acqRel => "acqrel" | .seqCst => "seqcst" | .plain => "plain"
  let all := Gen.concAcc.prodIndex ++ Gen.concAcc.workIndex ++ Gen.concAcc.consIndex ++ Gen.concAcc.setProdIndex ++ Gen.concAcc.setWorkIndex ++
    Gen.concAcc.setConsIndex ++ Gen.concAcc.prodAlive ++ Gen.concAcc.workAlive ++ Gen.concAcc.consAlive ++ Gen.concAcc.setProdAlive ++
    Gen.concAcc.setWorkAlive ++ Gen.concAcc.setConsAlive ++ Gen.concAcc.releaseIter
  ";".intercalate (all.map fun a => s!"{kind a.kind} {loc a.loc} {ord a.ord}")

def handle (c : Option Case) (line : String) : Option Case × String :=
  let ws := (line.trimAscii.toString.splitOn " ").filter (· ≠ "")
  match ws with
  | "init" :: len :: hasW :: heap :: owned :: slots =>
    match len.toNat?, hasW.toNat?, heap.toNat?, owned.toNat?, nats slots with
    | some len, some w, some h, some o, some sl =>
      if sl.length ≠ len ∨ len = 0 then (c, "bad-init") else
      let st := St.init sl (w != 0) (h != 0) (o != 0)
      (some { st := st, sp := Sp.init len (w != 0) }, "ok " ++ renderObs st [])
    | _, _, _, _, _ => (c, "bad-init")
  | "initvm" :: len :: hasW :: heap :: owned :: slots =>
    match len.toNat?, hasW.toNat?, heap.toNat?, owned.toNat?, nats slots with
    | some len, some w, some h, some o, some sl =>
      if sl.length ≠ len ∨ len = 0 then (c, "bad-init") else
      let st := St.init sl (w != 0) (h != 0) (o != 0)
      (some { st := st, sp := Sp.init len (w != 0), vm := true }, "ok " ++ renderObs st [])
    | _, _, _, _, _ => (c, "bad-init")
  | [] => (c, "")
  | ["c16"] => (c, c16Table)
  | ["g3"] => (c, g3Table)
  | ["c17"] => (c, c17Verdict)
  | ["c17round", ps, req] => (c, match ps.toNat?, req.toNat? with
      | some ps, some req => if ps = 0 then "bad-op" else toString (Gen.pageSizeMul 0 0 0 ps req 0)
      | _, _ => "bad-op")
  | "poll" :: rest =>
    match c, parseOp rest with
    | some c, some op =>
      let (s1, p) := poll c.st op
      let nd := s1.drops.drop c.st.drops.length
      (some { c with st := s1, sp := specAfterPoll c.sp op p }, renderPolled p ++ " | " ++ renderObs s1 nd ++ s!" wakes {c.wakes}")
    | none, _ => (c, "no-case")
    | _, none => (c, "bad-op")
  | "pollwith" :: rest =>
    -- `pollwith <op> :: <other stage's op>`: the other stage acts while the waker is being registered (engine wakeprobe)
    let i := rest.idxOf "::"
    match c, parseOp (rest.take i), parseOp (rest.drop (i + 1)) with
    | some c, some op, some e =>
      let (s1, p) := pollWith c.st op e
      (some { c with st := s1 }, renderPolled p)
    | none, _, _ => (c, "no-case")
    | _, _, _ => (c, "bad-op")
  | "hold" :: r :: rest =>
    match c, parseRole r, parseOp rest with
    | some c, some r, some op =>
      let (a1, p) := c.ast.hold r op
      let nd := a1.st.drops.drop c.st.drops.length
      (some { c.withAst a1 with sp := specAfterPoll c.sp op p }, renderPolled p ++ " | " ++ renderObs a1.st nd ++ s!" wakes {a1.wakes}")
    | _, _, _ => (c, "bad-op")
  | ["repoll", r] =>
    match c, parseRole r with
    | some c, some r =>
      match c.ast.held r with
      | none => (some c, "no-future")
      | some op =>
        let (a1, p) := c.ast.repoll r
        let nd := a1.st.drops.drop c.st.drops.length
        (some { c.withAst a1 with sp := specAfterPoll c.sp op p }, renderPolled p ++ " | " ++ renderObs a1.st nd ++ s!" wakes {a1.wakes}")
    | _, _ => (c, "bad-op")
  | ["dropfut", r] =>
    match c, parseRole r with
    | some c, some r => (some (c.withAst (c.ast.dropFut r)), "ok | " ++ renderObs c.st [] ++ s!" wakes {c.wakes}")
    | _, _ => (c, "bad-op")
  | _ =>
    match c, parseOp ws with
    | some c, some op =>
      let (st1, o) := step c.st op
      let (sp1, ao) := c.sp.step op
      let nd := st1.drops.drop c.st.drops.length
      let specNote := if o.abs op.producerGrant = ao then "" else s!" SPECDIFF spec={renderAOut ao}"
      (some { c with st := st1, sp := sp1 }, (if c.vm then renderOutVm c.st.len o else renderOut o) ++ " | " ++ renderObs st1 nd ++ specNote)
    | none, _ => (c, "no-case")
    | _, none => (c, "bad-op")

partial def loop (h : IO.FS.Stream) (out : IO.FS.Stream) (c : Option Case) (cs : Option Conc.St := none) (ds : Option Conc.DropSt := none) : IO Unit := do
  let line ← h.getLine
  if line.isEmpty then return ()
  let ws := (line.trimAscii.toString.splitOn " ").filter (· ≠ "")
  -- lines of a recorded concurrent execution (`cinit L hasW`, then `cld` / `cst` / `cac` / `cq`) go to the concurrent machine
  match ws with
  | ["cinit", l, w] =>
    match l.toNat?, w.toNat? with
    | some l, some w =>
      out.putStrLn (if l = 0 then "fail zero-length" else "ok")
      out.flush
      loop h out c (if l = 0 then none else some (Conc.init l (w != 0))) (some (Conc.dinit (w != 0)))
    | _, _ =>
      out.putStrLn "fail bad-line"
      out.flush
      loop h out c cs ds
  | x :: _ =>
    if x == "cld" || x == "cst" || x == "cac" || x == "cq" then
      match cs with
      | some s =>
        let (s1, ans) := Conc.replayLine s ws
        out.putStrLn ans
        out.flush
        loop h out c (some s1) ds
      | none =>
        out.putStrLn "fail no-cinit"
        out.flush
        loop h out c cs ds
    else if x == "cdf" || x == "cdd" || x == "cdx" then
      match ds with
      | some d =>
        let (d1, ans) := Conc.dropReplayLine d ws
        out.putStrLn ans
        out.flush
        loop h out c cs (some d1)
      | none =>
        out.putStrLn "fail no-cinit"
        out.flush
        loop h out c cs ds
    else
      let (c', ans) := handle c line
      out.putStrLn ans
      out.flush
      loop h out c' cs ds
  | [] =>
    let (c', ans) := handle c line
    out.putStrLn ans
    out.flush
    loop h out c' cs ds

end MRB.Driver
