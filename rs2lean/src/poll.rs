//! `MRBFuture::poll` as the set of event sequences it can perform: a small nondeterministic interpreter over the syntax tree.
//! Events: an attempt (a call whose first argument is the iterator: succeeds or fails), the waker registration, the two
//! results. Boolean locals, `for x in [false, true]`, `loop`, `break`, `return`, `if`/`if let`/`match` on the outcome of the
//! last attempt, and private helper methods of the future (executed in place) are followed; anything else that contains an
//! event makes the trace end in `unknown`.
use crate::sym::q;
use std::collections::{BTreeMap, BTreeSet, HashMap};
use syn::{Block, Expr, Pat, Stmt};

#[derive(Clone, Debug, PartialEq)]
enum Val { Bool(bool), Ready, Pending, Unknown }

#[derive(Clone, PartialEq)]
enum Flow { Next, Break, Ret }

#[derive(Clone)]
struct St {
    bools: BTreeMap<String, bool>,
    trace: Vec<&'static str>,
    /// outcome of the last attempt, if any
    outcome: Option<bool>,
    /// has the payload been put back since the last failed attempt?
    restored: bool,
    restores_ok: bool,
}

pub struct Interp<'a> { pub helpers: HashMap<String, &'a Block>, pub depth: usize }

type Out = Vec<(St, Val, Flow)>;

fn pat_text(p: &Pat) -> String { quote::quote!(#p).to_string().replace(' ', "") }

fn has_event(t: &str) -> bool { t.contains("self.iter,") || t.contains("this.iter,") || t.contains("register_waker") || t.contains("Poll::") }

impl<'a> Interp<'a> {
    fn seq(&self, es: Vec<&Expr>, st: St) -> Vec<St> {
        // evaluates sub-expressions left to right, keeping only the states (values dropped); non-`Next` flows are not expected here
        let mut sts = vec![st];
        for e in es { let mut n = vec![]; for s in sts { for (s2, _, _) in self.expr(e, s) { n.push(s2); } } sts = n; }
        sts
    }

    fn choose(&self, st: &St, v: &Val, pats: &[String]) -> Vec<usize> {
        // which of the patterns can match, given what is known
        let ok_pat = |p: &str| p.starts_with("Ok(") || p.starts_with("Some(") || p.starts_with("Poll::Ready(");
        let err_pat = |p: &str| p.starts_with("Err(") || p == "None";
        let mut res = vec![];
        for (k, p) in pats.iter().enumerate() {
            let m = if ok_pat(p) { st.outcome != Some(false) } else if err_pat(p) { st.outcome != Some(true) }
                else if p == "true" { *v != Val::Bool(false) } else if p == "false" { *v != Val::Bool(true) } else { true };
            if m { res.push(k); }
            // a pattern that certainly matches ends the search
            let certain = (ok_pat(p) && st.outcome == Some(true)) || (err_pat(p) && st.outcome == Some(false)) || (p == "true" && *v == Val::Bool(true)) || (p == "false" && *v == Val::Bool(false)) || p == "_" || (!ok_pat(p) && !err_pat(p) && p != "true" && p != "false");
            if m && certain { break; }
        }
        res
    }

    fn expr(&self, e: &Expr, st: St) -> Out {
        match e {
            Expr::Paren(p) => self.expr(&p.expr, st),
            Expr::Group(p) => self.expr(&p.expr, st),
            Expr::Reference(r) => self.expr(&r.expr, st),
            Expr::Cast(c) => self.expr(&c.expr, st),
            Expr::Try(t) => self.expr(&t.expr, st),
            Expr::Lit(l) => { let t = q(&Expr::Lit(l.clone())); vec![(st, match t.as_str() { "true" => Val::Bool(true), "false" => Val::Bool(false), _ => Val::Unknown }, Flow::Next)] }
            Expr::Path(_) => {
                let t = q(e);
                let v = if t.ends_with("Poll::Pending") || t == "Pending" { Val::Pending } else { match st.bools.get(&t) { Some(b) => Val::Bool(*b), None => Val::Unknown } };
                vec![(st, v, Flow::Next)]
            }
            Expr::Unary(u) if matches!(u.op, syn::UnOp::Not(_)) => self.expr(&u.expr, st).into_iter().map(|(s, v, f)| (s, match v { Val::Bool(b) => Val::Bool(!b), _ => Val::Unknown }, f)).collect(),
            Expr::Unary(u) => self.expr(&u.expr, st),
            Expr::Block(b) => self.block(&b.block, st),
            Expr::Unsafe(u) => self.block(&u.block, st),
            Expr::Return(r) => match &r.expr { Some(x) => self.expr(x, st).into_iter().map(|(s, v, _)| (s, v, Flow::Ret)).collect(), None => vec![(st, Val::Unknown, Flow::Ret)] },
            Expr::Break(b) => match &b.expr { Some(x) => self.expr(x, st).into_iter().map(|(s, v, _)| (s, v, Flow::Break)).collect(), None => vec![(st, Val::Unknown, Flow::Break)] },
            Expr::Assign(a) => {
                let lt = q(&a.left);
                let mut out = vec![];
                for (mut s, v, f) in self.expr(&a.right, st) {
                    if let (Expr::Path(_), Val::Bool(b)) = (&*a.left, &v) { s.bools.insert(lt.clone(), *b); }
                    else if let Expr::Path(_) = &*a.left { s.bools.remove(&lt); }
                    if lt.ends_with(".p") && q(&a.right).starts_with("Some(") { s.restored = true; }
                    out.push((s, Val::Unknown, f));
                }
                out
            }
            Expr::Call(c) => {
                let ft = q(&c.func);
                if ft.ends_with("Poll::Ready") || ft == "Ready" {
                    return self.seq(c.args.iter().collect(), st).into_iter().map(|s| (s, Val::Ready, Flow::Next)).collect();
                }
                let first = c.args.first().map(|a| q(a)).unwrap_or_default();
                if first == "self.iter" || first == "this.iter" {
                    let mut out = vec![];
                    for s in self.seq(std::iter::once(&*c.func).chain(c.args.iter().skip(1)).collect(), st) {
                        let mut a = s.clone(); a.trace.push("attemptOk"); a.outcome = Some(true); out.push((a, Val::Unknown, Flow::Next));
                        let mut b = s; b.trace.push("attemptFail"); b.outcome = Some(false); b.restored = false; out.push((b, Val::Unknown, Flow::Next));
                    }
                    return out;
                }
                self.seq(std::iter::once(&*c.func).chain(c.args.iter()).collect(), st).into_iter().map(|s| (s, Val::Unknown, Flow::Next)).collect()
            }
            Expr::MethodCall(m) => {
                let name = m.method.to_string();
                let sts = self.seq(std::iter::once(&*m.receiver).chain(m.args.iter()).collect(), st);
                if name == "register_waker" { return sts.into_iter().map(|mut s| { s.trace.push("register"); (s, Val::Unknown, Flow::Next) }).collect(); }
                let recv = q(&m.receiver);
                if (recv == "self" || recv == "this") && self.depth < 3 { if let Some(b) = self.helpers.get(&name) {
                    let inner = Interp { helpers: self.helpers.clone(), depth: self.depth + 1 };
                    let mut out = vec![];
                    for s in sts {
                        let saved = s.bools.clone();
                        let mut s0 = s; s0.bools = BTreeMap::new();
                        for (mut s2, v, _) in inner.block(b, s0) { s2.bools = saved.clone(); out.push((s2, v, Flow::Next)); }
                    }
                    return out;
                } }
                sts.into_iter().map(|s| (s, Val::Unknown, Flow::Next)).collect()
            }
            Expr::If(i) => {
                let (pat, cond_e): (Option<String>, &Expr) = match &*i.cond { Expr::Let(l) => (Some(pat_text(&l.pat)), &l.expr), c => (None, c) };
                let mut out = vec![];
                for (s, v, f) in self.expr(cond_e, st) {
                    if f != Flow::Next { out.push((s, v, f)); continue; }
                    let (take_then, take_else) = match &pat {
                        Some(p) => { let c = self.choose(&s, &v, &[p.clone(), "_".into()]); (c.contains(&0), c.contains(&1)) }
                        None => match v { Val::Bool(true) => (true, false), Val::Bool(false) => (false, true), _ => (true, true) },
                    };
                    if take_then { out.extend(self.block(&i.then_branch, s.clone())); }
                    if take_else { match &i.else_branch { Some((_, e)) => out.extend(self.expr(e, s)), None => out.push((s, Val::Unknown, Flow::Next)) } }
                }
                out
            }
            Expr::Match(m) => {
                let pats: Vec<String> = m.arms.iter().map(|a| pat_text(&a.pat)).collect();
                let mut out = vec![];
                for (s, v, f) in self.expr(&m.expr, st) {
                    if f != Flow::Next { out.push((s, v, f)); continue; }
                    for k in self.choose(&s, &v, &pats) { out.extend(self.expr(&m.arms[k].body, s.clone())); }
                }
                out
            }
            Expr::Loop(l) => self.iterate(&l.body, st, None, 4),
            Expr::ForLoop(fl) => {
                // `for x in [false, true]` / `for _ in 0..2`
                let name = match &*fl.pat { Pat::Ident(i) => Some(i.ident.to_string()), _ => None };
                let it = q(&fl.expr);
                let vals: Option<Vec<Option<bool>>> = if let Expr::Array(a) = &*fl.expr {
                    a.elems.iter().map(|x| match q(x).as_str() { "true" => Some(Some(true)), "false" => Some(Some(false)), _ => None }).collect()
                } else if let Some((a, b)) = it.split_once("..") { match (a.parse::<usize>(), b.trim_start_matches('=').parse::<usize>()) { (Ok(a), Ok(b)) if b >= a && b - a <= 4 => Some(vec![None; b - a + if it.contains("..=") { 1 } else { 0 }]), _ => None } } else { None };
                match vals { Some(vs) => self.iterate(&fl.body, st, Some((name, vs)), 0), None => self.unknown(st) }
            }
            Expr::Let(l) => self.expr(&l.expr, st),
            Expr::Tuple(t) => self.seq(t.elems.iter().collect(), st).into_iter().map(|s| (s, Val::Unknown, Flow::Next)).collect(),
            Expr::Field(f) => self.expr(&f.base, st).into_iter().map(|(s, _, fl)| (s, Val::Unknown, fl)).collect(),
            Expr::Binary(b) => self.seq(vec![&b.left, &b.right], st).into_iter().map(|s| (s, Val::Unknown, Flow::Next)).collect(),
            other => { if has_event(&q(other)) { self.unknown(st) } else { vec![(st, Val::Unknown, Flow::Next)] } }
        }
    }

    fn unknown(&self, mut st: St) -> Out { st.trace.push("unknown"); vec![(st, Val::Unknown, Flow::Ret)] }

    /// Runs a loop body: `vals` = the values the loop variable takes (a `for`), or `None` for `loop` (at most `fuel` rounds).
    fn iterate(&self, body: &Block, st: St, vals: Option<(Option<String>, Vec<Option<bool>>)>, fuel: usize) -> Out {
        let rounds: Vec<Option<bool>> = match &vals { Some((_, v)) => v.clone(), None => vec![None; fuel] };
        let mut live = vec![st];
        let mut done: Out = vec![];
        for r in rounds {
            let mut next = vec![];
            for mut s in live {
                if let (Some((Some(n), _)), Some(b)) = (&vals, r) { s.bools.insert(n.clone(), b); }
                for (s2, v, f) in self.block(body, s) {
                    match f { Flow::Next => next.push(s2), Flow::Break => done.push((s2, v, Flow::Next)), Flow::Ret => done.push((s2, v, Flow::Ret)) }
                }
            }
            live = next;
        }
        if vals.is_some() { for s in live { done.push((s, Val::Unknown, Flow::Next)); } }
        else { for s in live { done.extend(self.unknown(s)); } } // a `loop` still running after `fuel` rounds
        done
    }

    fn block(&self, b: &Block, st: St) -> Out {
        let mut live: Vec<(St, Val)> = vec![(st, Val::Unknown)];
        let mut done: Out = vec![];
        let n = b.stmts.len();
        for (k, s) in b.stmts.iter().enumerate() {
            let mut next = vec![];
            for (st, _) in live {
                let res: Out = match s {
                    Stmt::Local(l) => {
                        let name = match &l.pat { Pat::Ident(i) => Some(i.ident.to_string()), Pat::Type(t) => match &*t.pat { Pat::Ident(i) => Some(i.ident.to_string()), _ => None }, _ => None };
                        match &l.init {
                            Some(init) => {
                                let mut out = vec![];
                                for (mut s2, v, f) in self.expr(&init.expr, st) {
                                    if f != Flow::Next { out.push((s2, v, f)); continue; }
                                    // `let Some(x) = e else { diverge }`
                                    if let (Some((_, els)), false) = (&init.diverge, name.is_some()) {
                                        let c = self.choose(&s2, &v, &[pat_text(&l.pat), "_".into()]);
                                        if c.contains(&1) { out.extend(self.expr(els, s2.clone())); }
                                        if !c.contains(&0) { continue; }
                                    }
                                    if let Some(n) = &name { match v { Val::Bool(b) => { s2.bools.insert(n.clone(), b); } _ => { s2.bools.remove(n); } } }
                                    out.push((s2, Val::Unknown, Flow::Next));
                                }
                                out
                            }
                            None => vec![(st, Val::Unknown, Flow::Next)],
                        }
                    }
                    Stmt::Expr(e, semi) => self.expr(e, st).into_iter().map(|(s2, v, f)| (s2, if semi.is_some() && f == Flow::Next { Val::Unknown } else { v }, f)).collect(),
                    Stmt::Macro(m) => { let t = m.mac.tokens.to_string(); if has_event(&t.replace(' ', "")) { self.unknown(st) } else { vec![(st, Val::Unknown, Flow::Next)] } }
                    Stmt::Item(_) => vec![(st, Val::Unknown, Flow::Next)],
                };
                for (s2, v, f) in res { if f == Flow::Next { next.push((s2, v)); } else { done.push((s2, v, f)); } }
            }
            live = next;
            let _ = (k, n);
        }
        for (s, v) in live { done.push((s, v, Flow::Next)); }
        done
    }
}

/// The set of event sequences of `poll` (sorted), and whether every path that returns `Pending` has put the payload back.
pub fn traces(body: &Block, helpers: HashMap<String, &Block>) -> (Vec<Vec<&'static str>>, bool) {
    let it = Interp { helpers, depth: 0 };
    let st = St { bools: BTreeMap::new(), trace: vec![], outcome: None, restored: true, restores_ok: true };
    let mut set: BTreeSet<Vec<&'static str>> = BTreeSet::new();
    let mut restores = true;
    for (mut s, v, _) in it.block(body, st) {
        match v { Val::Ready => s.trace.push("ready"), Val::Pending => { s.trace.push("pending"); if !s.restored { restores = false; } }, _ => { if s.trace.last() != Some(&"unknown") { s.trace.push("unknown"); } } }
        let _ = s.restores_ok;
        set.insert(s.trace);
    }
    (set.into_iter().collect(), restores)
}
