/-
  MRB.Seq.Life — iterator life cycle on one thread: liveness flags, the counter of live iterators, and the
  release of a heap buffer by the last iterator dropped.
-/
import MRB.Seq.Refine

set_option linter.unusedVariables false

namespace MRB

/-- The part of the state the drop protocol is about. -/
structure Life where
  pl : Bool
  wl : Bool
  cl : Bool
  fP : Bool
  fW : Bool
  fC : Bool
  count : Nat
  freed : Nat
  heap : Bool
  deriving DecidableEq, Repr

def St.life (s : St) : Life :=
  { pl := s.p.live, wl := s.w.live, cl := s.c.live, fP := s.flagP, fW := s.flagW, fC := s.flagC,
    count := s.liveCount, freed := s.freed, heap := s.heap }

theorem life_setIt (s : St) (r : Role) (i : It) (h : i.live = (s.it r).live) : (s.setIt r i).life = s.life := by
  cases r <;> simp [St.setIt, St.life, St.it] at h ⊢ <;> exact h

theorem life_setPub (s : St) (f : Fld) (v : Nat) : (s.setPub f v).life = s.life := by cases f <;> rfl
theorem life_setFault (s : St) (f : Fault) : (s.setFault f).life = s.life := by unfold St.setFault; split <;> rfl
theorem life_setSlot (s : St) (i v : Nat) : (s.setSlot i v).life = s.life := rfl

theorem life_refresh (s : St) (r : Role) : (refresh s r).1.life = s.life := by
  unfold refresh; exact life_setIt _ _ _ rfl

theorem life_check (s : St) (r : Role) (n : Nat) : (check s r n).1.life = s.life := by
  unfold check; exact life_setIt _ _ _ rfl

theorem life_applyGen (s : St) (r : Role) (fi fc fp) (n : Nat) : (applyGen s r fi fc fp n).life = s.life := by
  unfold applyGen
  simp only
  cases fp (s.it r).idx (s.it r).cached (succIdx s r) s.len n 0 with
  | some v => simp only; rw [life_setPub]; exact life_setIt _ _ _ rfl
  | none => exact life_setIt _ _ _ rfl

theorem life_assignSlot (s : St) (i v : Nat) : (assignSlot s i v).life = s.life := by
  unfold assignSlot
  simp only [life_setSlot]
  split
  · split
    · exact life_setFault _ _
    · rfl
  · rfl

theorem life_writeSlot (s : St) (i v : Nat) : (writeSlot s i v).life = s.life := rfl
theorem life_initSlot (s : St) (i v : Nat) : (initSlot s i v).life = s.life := by
  unfold initSlot; split
  · rfl
  · exact life_assignSlot _ _ _

theorem life_readGuard (s : St) (v : Nat) : (readGuard s v).life = s.life := by
  unfold readGuard; split
  · exact life_setFault _ _
  · rfl

theorem life_foldl_readGuard (s : St) (vs : List Nat) : (vs.foldl readGuard s).life = s.life := by
  induction vs generalizing s with
  | nil => rfl
  | cons v vs ih => rw [List.foldl_cons, ih, life_readGuard]

theorem life_storeWindow (store : St → Nat → Nat → St) (hs : ∀ s i v, (store s i v).life = s.life) (s : St) (idx n : Nat) (vs : List Nat) :
    (storeWindow store s idx n vs).life = s.life := by
  unfold storeWindow
  generalize List.range n = l
  generalize s.len = L
  induction l generalizing s with
  | nil => rfl
  | cons k ks ih => rw [List.foldl_cons, ih, hs]

theorem life_grantOne (s : St) (r : Role) : (grantOne s r).1.life = s.life := by
  unfold grantOne
  have := life_check s r 1
  cases hc : check s r 1 with
  | mk s1 ok => rw [hc] at this; cases ok <;> simpa using this

theorem life_grantWindow (s : St) (r : Role) (n : Nat) : (grantWindow s r n).1.life = s.life := by
  unfold grantWindow
  have := life_check s r n
  cases hc : check s r n with
  | mk s1 ok =>
    rw [hc] at this
    cases ok
    · simpa using this
    · simp only [if_true]; split
      · exact this
      · rw [life_setFault]; exact this

theorem life_grantWindowRO (s : St) (r : Role) (n : Nat) : (grantWindowRO s r n).1.life = s.life := by
  unfold grantWindowRO
  have := life_check s r n
  cases hc : check s r n with
  | mk s1 ok =>
    rw [hc] at this
    cases ok
    · simpa using this
    · simp only [if_true]; split
      · exact this
      · rw [life_setFault]; exact this

theorem life_pushWith (store : St → Nat → Nat → St) (hs : ∀ s i v, (store s i v).life = s.life) (s : St) (v : Nat) :
    (pushWith store s v).1.life = s.life := by
  unfold pushWith
  have := life_check s .P 1
  cases hc : check s .P 1 with
  | mk s1 ok =>
    rw [hc] at this
    cases ok
    · simpa using this
    · simp only [if_true, advanceGlobal]; rw [life_applyGen, hs]; exact this

theorem life_pushSliceWith (store : St → Nat → Nat → St) (hs : ∀ s i v, (store s i v).life = s.life) (s : St) (vs : List Nat) :
    (pushSliceWith store s vs).1.life = s.life := by
  unfold pushSliceWith
  have := life_check s .P vs.length
  cases hc : check s .P vs.length with
  | mk s1 ok =>
    rw [hc] at this
    cases ok
    · simpa [hc] using this
    · simp only [hc, if_true, advanceGlobal]; rw [life_applyGen, life_storeWindow _ hs]
      split
      · exact this
      · rw [life_setFault]; exact this

/-- Only `drop` and a re-split touch the life-cycle part of the state. -/
theorem life_step (s : St) (op : Op) (h1 : ∀ r, op ≠ .dropIt r) (h2 : ∀ w, op ≠ .resplit w) : (step s op).1.life = s.life := by
  cases op with
  | dropIt r => exact absurd rfl (h1 r)
  | resplit w => exact absurd rfl (h2 w)
  | available r => simp only [step]; exact life_refresh s r
  | advance r n vs => simp only [step, ite_pair, advanceLocalOnly, advanceGlobal]; split <;> exact life_applyGen ..
  | getWorkable r => exact life_grantOne s r
  | sliceExact r n => exact life_grantWindow s r n
  | sliceAvail r =>
    simp only [step]
    have := life_refresh s r
    cases hc : refresh s r with
    | mk s1 av => rw [hc] at this; simp only; split
                  · exact this
                  · rw [life_grantWindow]; exact this
  | sliceMultipleOf r k =>
    simp only [step]
    have := life_refresh s r
    cases hc : refresh s r with
    | mk s1 av => rw [hc] at this; simp only; split
                  · exact this
                  · split
                    · exact this
                    · rw [life_grantWindow]; exact this
  | poke r k v => exact life_assignSlot ..
  | push v => exact life_pushWith _ life_assignSlot s v
  | pushInit v => exact life_pushWith _ life_initSlot s v
  | pushSlice vs => exact life_pushSliceWith _ life_writeSlot s vs
  | pushSliceInit vs => exact life_pushSliceWith _ life_writeSlot s vs
  | pushSliceClone vs => exact life_pushSliceWith _ life_assignSlot s vs
  | pushSliceCloneInit vs => exact life_pushSliceWith _ life_initSlot s vs
  | nextItemMut => exact life_grantOne s .P
  | nextItemMutInit => exact life_grantOne s .P
  | nextSlicesMut n => exact life_grantWindow s .P n
  | resetIndex r =>
    simp only [step]
    split
    · exact life_applyGen ..
    · cases r
      · rfl
      · exact life_applyGen ..
      · exact life_applyGen ..
  | peekRef => exact life_grantOne s .C
  | peekSlice n => exact life_grantWindowRO s .C n
  | peekAvailable =>
    simp only [step]
    have := life_refresh s .C
    cases hc : refresh s .C with
    | mk s1 av => rw [hc] at this; simp only; rw [life_grantWindowRO]; exact this
  | popMove =>
    simp only [step]
    have := life_check s .C 1
    cases hc : check s .C 1 with
    | mk s1 ok => rw [hc] at this; cases ok
                  · simpa using this
                  · simp only [if_true, advanceGlobal]; rw [life_applyGen, life_setSlot, life_readGuard]; exact this
  | pop =>
    simp only [step]
    have := life_check s .C 1
    cases hc : check s .C 1 with
    | mk s1 ok => rw [hc] at this; cases ok
                  · simpa using this
                  · simp only [if_true, advanceGlobal]; rw [life_applyGen]; exact this
  | copyItem =>
    simp only [step]
    have := life_check s .C 1
    cases hc : check s .C 1 with
    | mk s1 ok => rw [hc] at this; cases ok
                  · simpa using this
                  · simp only [if_true, advanceGlobal]; rw [life_applyGen]; exact this
  | cloneItem =>
    simp only [step]
    have := life_check s .C 1
    cases hc : check s .C 1 with
    | mk s1 ok => rw [hc] at this; cases ok
                  · simpa using this
                  · simp only [if_true, advanceGlobal]; rw [life_applyGen, life_readGuard]; exact this
  | copySlice n =>
    simp only [step]
    have := life_grantWindow s .C n
    cases hc : grantWindow s .C n with
    | mk s1 o => rw [hc] at this; cases o <;> simp only [advanceGlobal] <;> (try rw [life_applyGen]) <;> exact this
  | cloneSlice n =>
    simp only [step]
    have := life_grantWindow s .C n
    cases hc : grantWindow s .C n with
    | mk s1 o => rw [hc] at this; cases o <;> simp only [advanceGlobal] <;> (try rw [life_applyGen, life_foldl_readGuard]) <;> exact this
  | detach r => simp only [step]; exact life_setIt _ _ _ rfl
  | attach r => simp only [step]; rw [life_setIt _ _ _ (by rfl)]; exact life_applyGen ..
  | setIndex r i => exact life_applyGen ..
  | goBack r n => exact life_applyGen ..
  | syncIndex r => exact life_applyGen ..

end MRB

namespace MRB

def b2n (b : Bool) : Nat := if b then 1 else 0

/-- Life-cycle invariant: the counter counts the live iterators, each flag tells whether its iterator is alive,
    a heap buffer has been released exactly when nobody is left, a stack buffer never. -/
structure LifeInv (l : Life) : Prop where
  count_eq : l.count = b2n l.pl + b2n l.wl + b2n l.cl
  flagP : l.fP = l.pl
  flagW : l.fW = l.wl
  flagC : l.fC = l.cl
  heap_freed : l.heap = true → l.freed = if l.count = 0 then 1 else 0
  stack_freed : l.heap = false → l.freed = 0

theorem lifeInv_init (slots : List Nat) (hasW heap owned : Bool) : LifeInv (St.init slots hasW heap owned).life := by
  cases hasW <;> cases heap <;> constructor <;> simp [St.init, St.life, b2n]

/-- What dropping iterator `r` does to the life-cycle part. -/
def Life.drop (l : Life) (r : Role) : Life :=
  let l1 : Life := match r with
    | .P => { l with pl := false, fP := false }
    | .W => { l with wl := false, fW := false }
    | .C => { l with cl := false, fC := false }
  let l2 : Life := { l1 with count := l1.count - 1 }
  if l2.count = 0 ∧ l2.heap = true then { l2 with freed := l2.freed + 1 } else l2

theorem life_dropIter (s : St) (r : Role) : (dropIter s r).life = s.life.drop r := by
  unfold dropIter releaseStorage Life.drop
  cases r <;> simp only [St.setIt, St.it, St.life] <;>
    by_cases c1 : s.liveCount - 1 = 0 ∧ s.heap = true <;> by_cases c2 : s.owned = true <;>
    simp [c1, c2]

theorem lifeInv_drop {l : Life} (h : LifeInv l) (r : Role) (hl : (match r with | .P => l.pl | .W => l.wl | .C => l.cl) = true) :
    LifeInv (l.drop r) := by
  obtain ⟨pl, wl, cl, fP, fW, fC, count, freed, heap⟩ := l
  obtain ⟨c, f1, f2, f3, hf, sf⟩ := h
  simp only at c f1 f2 f3 hf sf hl
  subst f1 f2 f3
  cases r <;> simp only at hl <;> subst hl
  · cases heap <;> cases fW <;> cases fC <;>
      simp [b2n] at c <;> subst c <;> simp [Life.drop, b2n] at hf sf ⊢ <;> constructor <;> simp_all [b2n]
  · cases heap <;> cases fP <;> cases fC <;>
      simp [b2n] at c <;> subst c <;> simp [Life.drop, b2n] at hf sf ⊢ <;> constructor <;> simp_all [b2n]
  · cases heap <;> cases fP <;> cases fW <;>
      simp [b2n] at c <;> subst c <;> simp [Life.drop, b2n] at hf sf ⊢ <;> constructor <;> simp_all [b2n]

end MRB
