//! Executes operations on the real crate, in-process, and reads back every observable.
use crate::ops::{Obs, Op, Out, Role};
use crate::tok::{self, Item, Tok, Tok12, C12};
use mutringbuf::iterators::{ConsIter, Detached, ProdIter, WorkIter};
use mutringbuf::{MRBIterator, MutRB};
use std::panic::{catch_unwind, AssertUnwindSafe};
use std::sync::atomic::{AtomicUsize, Ordering};

/// Number of heap buffers freed (reported by the `verif-hooks` FREE event).
pub static FREED: AtomicUsize = AtomicUsize::new(0);
pub static BOXED: AtomicUsize = AtomicUsize::new(0);
/// Address of the most recently boxed heap buffer (watched by the harness allocator).
pub static LAST_BOX: AtomicUsize = AtomicUsize::new(0);

pub fn count_hook(_phase: u8, ev: &mutringbuf::verif::Event) -> Option<usize> {
    if ev.kind == mutringbuf::verif::FREE { FREED.fetch_add(1, Ordering::SeqCst); }
    if ev.kind == mutringbuf::verif::BOX { BOXED.fetch_add(1, Ordering::SeqCst); LAST_BOX.store(ev.loc, Ordering::SeqCst); crate::alloc_watch::watch(ev.loc); }
    None
}

/// The part of the API that exists only for `Copy` items.
pub trait CopyApi: Item + Clone {
    fn push_slice<B: MutRB<Item = Self>>(p: &mut ProdIter<B>, s: &[Self]) -> Option<()>;
    fn push_slice_init<B: MutRB<Item = Self>>(p: &mut ProdIter<B>, s: &[Self]) -> Option<()>;
    fn copy_item<B: MutRB<Item = Self>, const W: bool>(c: &mut ConsIter<B, W>, d: &mut Self) -> Option<()>;
    fn copy_slice<B: MutRB<Item = Self>, const W: bool>(c: &mut ConsIter<B, W>, d: &mut [Self]) -> Option<()>;
    fn pop_dup<B: MutRB<Item = Self>, const W: bool>(c: &mut ConsIter<B, W>) -> Option<Self>;
}

impl CopyApi for u64 {
    fn push_slice<B: MutRB<Item = u64>>(p: &mut ProdIter<B>, s: &[u64]) -> Option<()> { p.push_slice(s) }
    fn push_slice_init<B: MutRB<Item = u64>>(p: &mut ProdIter<B>, s: &[u64]) -> Option<()> { p.push_slice_init(s) }
    fn copy_item<B: MutRB<Item = u64>, const W: bool>(c: &mut ConsIter<B, W>, d: &mut u64) -> Option<()> { c.copy_item(d) }
    fn copy_slice<B: MutRB<Item = u64>, const W: bool>(c: &mut ConsIter<B, W>, d: &mut [u64]) -> Option<()> { c.copy_slice(d) }
    fn pop_dup<B: MutRB<Item = u64>, const W: bool>(c: &mut ConsIter<B, W>) -> Option<u64> { c.pop() }
}

impl CopyApi for C12 {
    fn push_slice<B: MutRB<Item = C12>>(p: &mut ProdIter<B>, s: &[C12]) -> Option<()> { p.push_slice(s) }
    fn push_slice_init<B: MutRB<Item = C12>>(p: &mut ProdIter<B>, s: &[C12]) -> Option<()> { p.push_slice_init(s) }
    fn copy_item<B: MutRB<Item = C12>, const W: bool>(c: &mut ConsIter<B, W>, d: &mut C12) -> Option<()> { c.copy_item(d) }
    fn copy_slice<B: MutRB<Item = C12>, const W: bool>(c: &mut ConsIter<B, W>, d: &mut [C12]) -> Option<()> { c.copy_slice(d) }
    fn pop_dup<B: MutRB<Item = C12>, const W: bool>(c: &mut ConsIter<B, W>) -> Option<C12> { c.pop() }
}

impl CopyApi for Tok {
    fn push_slice<B: MutRB<Item = Tok>>(_: &mut ProdIter<B>, _: &[Tok]) -> Option<()> { unreachable!("Copy API on an owned item") }
    fn push_slice_init<B: MutRB<Item = Tok>>(_: &mut ProdIter<B>, _: &[Tok]) -> Option<()> { unreachable!("Copy API on an owned item") }
    fn copy_item<B: MutRB<Item = Tok>, const W: bool>(_: &mut ConsIter<B, W>, _: &mut Tok) -> Option<()> { unreachable!("Copy API on an owned item") }
    fn copy_slice<B: MutRB<Item = Tok>, const W: bool>(_: &mut ConsIter<B, W>, _: &mut [Tok]) -> Option<()> { unreachable!("Copy API on an owned item") }
    fn pop_dup<B: MutRB<Item = Tok>, const W: bool>(_: &mut ConsIter<B, W>) -> Option<Tok> { unreachable!("bitwise duplication of an owned item") }
}

impl CopyApi for Tok12 {
    fn push_slice<B: MutRB<Item = Tok12>>(_: &mut ProdIter<B>, _: &[Tok12]) -> Option<()> { unreachable!("Copy API on an owned item") }
    fn push_slice_init<B: MutRB<Item = Tok12>>(_: &mut ProdIter<B>, _: &[Tok12]) -> Option<()> { unreachable!("Copy API on an owned item") }
    fn copy_item<B: MutRB<Item = Tok12>, const W: bool>(_: &mut ConsIter<B, W>, _: &mut Tok12) -> Option<()> { unreachable!("Copy API on an owned item") }
    fn copy_slice<B: MutRB<Item = Tok12>, const W: bool>(_: &mut ConsIter<B, W>, _: &mut [Tok12]) -> Option<()> { unreachable!("Copy API on an owned item") }
    fn pop_dup<B: MutRB<Item = Tok12>, const W: bool>(_: &mut ConsIter<B, W>) -> Option<Tok12> { unreachable!("bitwise duplication of an owned item") }
}

pub enum Hold<I: MRBIterator> { Plain(I), Det(Detached<I>), Gone }

impl<I: MRBIterator> Hold<I> {
    pub fn live(&self) -> bool { !matches!(self, Hold::Gone) }
}

struct Grant<T> { h: *mut T, hl: usize, t: *mut T, tl: usize }
impl<T> Clone for Grant<T> { fn clone(&self) -> Self { *self } }
impl<T> Copy for Grant<T> {}

/// One split session on a buffer.
pub struct Sess<'b, B: MutRB<Item = T>, T: CopyApi, const W: bool> {
    pub p: Hold<ProdIter<'b, B>>,
    pub w: Hold<WorkIter<'b, B>>,
    pub c: Hold<ConsIter<'b, B, W>>,
    base: *const T,
    pub len: usize,
    pub last: Obs,
    grants: [Option<Grant<T>>; 3],
    free_base: usize,
    /// property-level complaints raised by the executor itself (destination touched by a refused copy, ...)
    pub complaints: Vec<String>,
}

macro_rules! on_iter {
    ($s:expr, $r:expr, |$it:ident| $body:expr) => {
        match $r {
            Role::P => match &mut $s.p { Hold::Plain($it) => $body, Hold::Det($it) => $body, Hold::Gone => panic!("harness: operation on a dropped producer") },
            Role::W => match &mut $s.w { Hold::Plain($it) => $body, Hold::Det($it) => $body, Hold::Gone => panic!("harness: operation on a dropped worker") },
            Role::C => match &mut $s.c { Hold::Plain($it) => $body, Hold::Det($it) => $body, Hold::Gone => panic!("harness: operation on a dropped consumer") },
        }
    };
}

#[cfg(not(feature = "vmem"))]
fn parts_mut<T>(w: (&mut [T], &mut [T])) -> Grant<T> { Grant { h: w.0.as_mut_ptr(), hl: w.0.len(), t: w.1.as_mut_ptr(), tl: w.1.len() } }
#[cfg(feature = "vmem")]
fn parts_mut<T>(w: &mut [T]) -> Grant<T> { Grant { h: w.as_mut_ptr(), hl: w.len(), t: core::ptr::null_mut(), tl: 0 } }
#[cfg(not(feature = "vmem"))]
fn parts<T>(w: (&[T], &[T])) -> Grant<T> { Grant { h: w.0.as_ptr() as *mut T, hl: w.0.len(), t: w.1.as_ptr() as *mut T, tl: w.1.len() } }
#[cfg(feature = "vmem")]
fn parts<T>(w: &[T]) -> Grant<T> { Grant { h: w.as_ptr() as *mut T, hl: w.len(), t: core::ptr::null_mut(), tl: 0 } }

impl<'b, B: MutRB<Item = T>, T: CopyApi, const W: bool> Sess<'b, B, T, W> {
    pub fn new(p: ProdIter<'b, B>, w: Option<WorkIter<'b, B>>, c: ConsIter<'b, B, W>, last: Option<Obs>) -> Self {
        let mut p = p;
        let len = p.buf_len();
        // address of slot 0: a zero-length window at index 0 (no state change: check(0) is always true)
        let base = unsafe { parts_mut(p.get_next_slices_mut(0).expect("zero-length window")).h as *const T };
        let mut s = Sess { p: Hold::Plain(p), w: match w { Some(w) => Hold::Plain(w), None => Hold::Gone }, c: Hold::Plain(c),
            base, len, last: last.unwrap_or_default(), grants: [None; 3], free_base: FREED.load(Ordering::SeqCst), complaints: vec![] };
        s.last.freed = 0;
        s.last = s.observe(vec![]);
        s
    }

    fn off(&self, p: *const T) -> usize { ((p as usize).wrapping_sub(self.base as usize)) / std::mem::size_of::<T>().max(1) }

    fn win_out(&self, g: Grant<T>) -> Out {
        let mut vals = Vec::with_capacity(g.hl + g.tl);
        unsafe {
            for k in 0..g.hl { vals.push((*g.h.add(k)).val()); }
            for k in 0..g.tl { vals.push((*g.t.add(k)).val()); }
        }
        Out::Win { ho: self.off(g.h), hl: g.hl, to: if g.tl == 0 { 0 } else { self.off(g.t) }, tl: g.tl, vals }
    }

    pub fn any_live(&self) -> bool { self.p.live() || self.w.live() || self.c.live() }

    pub fn observe(&mut self, drops: Vec<u64>) -> Obs {
        let mut o = self.last.clone();
        o.drops = drops;
        for r in crate::ops::ROLES {
            let live = match r { Role::P => self.p.live(), Role::W => self.w.live(), Role::C => self.c.live() };
            if live {
                o.idx[r.i()] = on_iter!(self, r, |it| it.index());
                o.ca[r.i()] = on_iter!(self, r, |it| it.verif_cached_avail());
            }
        }
        let any = if self.p.live() { Some(Role::P) } else if self.c.live() { Some(Role::C) } else if self.w.live() { Some(Role::W) } else { None };
        if let Some(r) = any {
            o.publ = on_iter!(self, r, |it| [it.prod_index(), it.work_index(), it.cons_index()]);
            o.fl = on_iter!(self, r, |it| [it.is_prod_alive(), it.is_work_alive(), it.is_cons_alive()]);
        } else {
            // nobody left to ask: flags were cleared by the drops themselves
            o.fl = [false, false, false];
        }
        o.freed = FREED.load(Ordering::SeqCst) - self.free_base;
        let dz = tok::LEDGER.with(|l| l.borrow().drop_zero > 0);
        o.drop_zero = dz;
        self.last = o.clone();
        o
    }

    /// Runs one operation. Destructor runs are recorded only while the crate's code is executing.
    pub fn exec(&mut self, op: &Op) -> (Out, Obs) {
        tok::take_drops();
        let mut after: Vec<T> = Vec::new(); // values to destroy outside the recording window
        let r = catch_unwind(AssertUnwindSafe(|| self.exec_inner(op, &mut after)));
        let drops = tok::take_drops();
        drop(after);
        tok::take_drops();
        let out = match r { Ok(o) => o, Err(_) => Out::Panic };
        let obs = self.observe(drops);
        (out, obs)
    }

    fn exec_inner(&mut self, op: &Op, after: &mut Vec<T>) -> Out {
        use Op::*;
        match op {
            Avail(r) => Out::Num(on_iter!(self, *r, |it| it.available())),
            Adv(r, n, _) => { on_iter!(self, *r, |it| unsafe { it.advance(*n) }); self.grants[r.i()] = None; Out::Ok }
            Gw(r) => {
                let g = on_iter!(self, *r, |it| it.get_workable().map(|x| Grant { h: x as *mut T, hl: 1, t: core::ptr::null_mut(), tl: 0 }));
                self.one(*r, g)
            }
            Se(r, n) => { let g = on_iter!(self, *r, |it| it.get_workable_slice_exact(*n).map(parts_mut)); self.win(*r, g) }
            Sa(r) => { let g = on_iter!(self, *r, |it| it.get_workable_slice_avail().map(parts_mut)); self.win(*r, g) }
            Sm(r, k) => { let g = on_iter!(self, *r, |it| it.get_workable_slice_multiple_of(*k).map(parts_mut)); self.win(*r, g) }
            Poke(r, k, v) => {
                let g = self.grants[r.i()].expect("harness: poke without a grant");
                let p = if *k < g.hl { unsafe { g.h.add(*k) } } else { unsafe { g.t.add(*k - g.hl) } };
                unsafe { *p = T::make(*v); }
                Out::Ok
            }
            Push(v) => match self.prod().push(T::make(*v)) { Ok(()) => Out::Ok, Err(x) => { let o = Out::Err(x.val()); after.push(x); o } },
            PushI(v) => match self.prod().push_init(T::make(*v)) { Ok(()) => Out::Ok, Err(x) => { let o = Out::Err(x.val()); after.push(x); o } },
            PushS(vs) => { let s: Vec<T> = vs.iter().map(|v| T::make(*v)).collect(); let r = T::push_slice(self.prod(), &s); after.extend(s); opt(r) }
            PushSI(vs) => { let s: Vec<T> = vs.iter().map(|v| T::make(*v)).collect(); let r = T::push_slice_init(self.prod(), &s); after.extend(s); opt(r) }
            PushSC(_) | PushSCI(_) => unreachable!("clone pushes go through exec_clone_push"),
            Nim => { let g = unsafe { self.prod().get_next_item_mut() }.map(|x| Grant { h: x as *mut T, hl: 1, t: core::ptr::null_mut(), tl: 0 }); self.one(Role::P, g) }
            Nimi => { let g = self.prod().get_next_item_mut_init().map(|x| Grant { h: x, hl: 1, t: core::ptr::null_mut(), tl: 0 }); self.one(Role::P, g) }
            Nsm(n) => { let g = unsafe { self.prod().get_next_slices_mut(*n) }.map(parts_mut); self.win(Role::P, g) }
            Reset(r) => {
                match r {
                    Role::W => match &mut self.w { Hold::Plain(it) => it.reset_index(), Hold::Det(d) => d.reset_index(), Hold::Gone => panic!("harness: gone") },
                    Role::C => match &mut self.c { Hold::Plain(it) => it.reset_index(), Hold::Det(d) => d.reset_index(), Hold::Gone => panic!("harness: gone") },
                    Role::P => panic!("harness: producer has no reset_index"),
                }
                self.grants[r.i()] = None;
                Out::Ok
            }
            Peek => { let g = self.cons().peek_ref().map(|x| Grant { h: x as *const T as *mut T, hl: 1, t: core::ptr::null_mut(), tl: 0 }); self.one(Role::C, g) }
            PeekS(n) => { let g = self.cons().peek_slice(*n).map(parts); self.win(Role::C, g) }
            PeekA => { let g = self.cons().peek_available().map(parts); self.win(Role::C, g) }
            PopM => match unsafe { self.cons().pop_move() } { Some(x) => { let o = Out::Item(x.val()); after.push(x); self.grants[2] = None; o } None => Out::None },
            Pop => match T::pop_dup(self.cons()) { Some(x) => { let o = Out::Item(x.val()); after.push(x); self.grants[2] = None; o } None => Out::None },
            Copy => {
                let mut d = T::scratch();
                let sv = d.val();
                let r = T::copy_item(self.cons(), &mut d);
                let o = match r { Some(()) => { self.grants[2] = None; Out::Item(d.val()) } None => { if d.val() != sv { self.complaints.push("C05: refused copy_item wrote the destination".into()); } Out::None } };
                after.push(d);
                o
            }
            Clone => {
                let mut d = T::scratch();
                let sv = d.val();
                let r = self.cons().clone_item(&mut d);
                let o = match r { Some(()) => { self.grants[2] = None; Out::Item(d.origin_or_val()) } None => { if d.val() != sv { self.complaints.push("C05: refused clone_item wrote the destination".into()); } Out::None } };
                after.push(d);
                o
            }
            CopyS(n) => {
                let mut d: Vec<T> = (0..*n).map(|_| T::scratch()).collect();
                let r = T::copy_slice(self.cons(), &mut d);
                let o = match r { Some(()) => { self.grants[2] = None; Out::Vals(d.iter().map(|x| x.val()).collect()) }
                    None => { if d.iter().any(|x| x.val() != T::scratch().val()) { self.complaints.push("C05: refused copy_slice wrote the destination".into()); } Out::None } };
                after.extend(d);
                o
            }
            CloneS(n) => {
                let mut d: Vec<T> = (0..*n).map(|_| T::scratch()).collect();
                let r = self.cons().clone_slice(&mut d);
                let o = match r { Some(()) => { self.grants[2] = None; Out::Vals(d.iter().map(|x| x.origin_or_val()).collect()) }
                    None => { if d.iter().any(|x| x.val() != T::scratch().val()) { self.complaints.push("C05: refused clone_slice wrote the destination".into()); } Out::None } };
                after.extend(d);
                o
            }
            Detach(r) => {
                match r {
                    Role::P => { if let Hold::Plain(it) = std::mem::replace(&mut self.p, Hold::Gone) { self.p = Hold::Det(it.detach()); } else { panic!("harness: detach") } }
                    Role::W => { if let Hold::Plain(it) = std::mem::replace(&mut self.w, Hold::Gone) { self.w = Hold::Det(it.detach()); } else { panic!("harness: detach") } }
                    Role::C => { if let Hold::Plain(it) = std::mem::replace(&mut self.c, Hold::Gone) { self.c = Hold::Det(it.detach()); } else { panic!("harness: detach") } }
                }
                Out::Ok
            }
            Attach(r) => {
                match r {
                    Role::P => { if let Hold::Det(d) = std::mem::replace(&mut self.p, Hold::Gone) { self.p = Hold::Plain(d.attach()); } else { panic!("harness: attach") } }
                    Role::W => { if let Hold::Det(d) = std::mem::replace(&mut self.w, Hold::Gone) { self.w = Hold::Plain(d.attach()); } else { panic!("harness: attach") } }
                    Role::C => { if let Hold::Det(d) = std::mem::replace(&mut self.c, Hold::Gone) { self.c = Hold::Plain(d.attach()); } else { panic!("harness: attach") } }
                }
                Out::Ok
            }
            SetI(r, i) => {
                match r {
                    Role::P => if let Hold::Det(d) = &mut self.p { unsafe { d.set_index(*i) } } else { panic!("harness: set_index") },
                    Role::W => if let Hold::Det(d) = &mut self.w { unsafe { d.set_index(*i) } } else { panic!("harness: set_index") },
                    Role::C => if let Hold::Det(d) = &mut self.c { unsafe { d.set_index(*i) } } else { panic!("harness: set_index") },
                }
                self.grants[r.i()] = None;
                Out::Ok
            }
            Back(r, n) => {
                match r {
                    Role::P => if let Hold::Det(d) = &mut self.p { unsafe { d.go_back(*n) } } else { panic!("harness: go_back") },
                    Role::W => if let Hold::Det(d) = &mut self.w { unsafe { d.go_back(*n) } } else { panic!("harness: go_back") },
                    Role::C => if let Hold::Det(d) = &mut self.c { unsafe { d.go_back(*n) } } else { panic!("harness: go_back") },
                }
                self.grants[r.i()] = None;
                Out::Ok
            }
            Sync(r) => {
                match r {
                    Role::P => if let Hold::Det(d) = &self.p { d.sync_index() } else { panic!("harness: sync_index") },
                    Role::W => if let Hold::Det(d) = &self.w { d.sync_index() } else { panic!("harness: sync_index") },
                    Role::C => if let Hold::Det(d) = &self.c { d.sync_index() } else { panic!("harness: sync_index") },
                }
                Out::Ok
            }
            Drop(r) => {
                match r { Role::P => self.p = Hold::Gone, Role::W => self.w = Hold::Gone, Role::C => self.c = Hold::Gone }
                self.grants[r.i()] = None;
                Out::Ok
            }
            Resplit(_) => unreachable!("handled by the runner"),
        }
    }

    fn prod(&mut self) -> &mut ProdIter<'b, B> { match &mut self.p { Hold::Plain(p) => p, _ => panic!("harness: producer not attached") } }
    fn cons(&mut self) -> &mut ConsIter<'b, B, W> { match &mut self.c { Hold::Plain(c) => c, _ => panic!("harness: consumer not attached") } }

    fn one(&mut self, r: Role, g: Option<Grant<T>>) -> Out {
        match g { Some(g) => { self.grants[r.i()] = Some(g); Out::Item(unsafe { (*g.h).val() }) } None => Out::None }
    }
    fn win(&mut self, r: Role, g: Option<Grant<T>>) -> Out {
        match g { Some(g) => { self.grants[r.i()] = Some(g); self.win_out(g) } None => Out::None }
    }
}

/// `push_slice_clone(_init)`: needs `T: Clone`; the ids the clones receive are predictable (ledger counter).
pub trait ClonePush: CopyApi {
    fn exec_clone_push<B: MutRB<Item = Self>>(p: &mut ProdIter<B>, n: usize, given: &[u64], init: bool) -> (Option<()>, Vec<Self>);
}
impl ClonePush for u64 {
    fn exec_clone_push<B: MutRB<Item = u64>>(p: &mut ProdIter<B>, _n: usize, given: &[u64], init: bool) -> (Option<()>, Vec<u64>) {
        let r = if init { p.push_slice_clone_init(given) } else { p.push_slice_clone(given) };
        (r, vec![])
    }
}
impl ClonePush for C12 {
    fn exec_clone_push<B: MutRB<Item = C12>>(p: &mut ProdIter<B>, _n: usize, given: &[u64], init: bool) -> (Option<()>, Vec<C12>) {
        let src: Vec<C12> = given.iter().map(|v| C12::make(*v)).collect();
        let r = if init { p.push_slice_clone_init(&src) } else { p.push_slice_clone(&src) };
        (r, vec![])
    }
}
impl ClonePush for Tok {
    fn exec_clone_push<B: MutRB<Item = Tok>>(p: &mut ProdIter<B>, n: usize, _given: &[u64], init: bool) -> (Option<()>, Vec<Tok>) {
        // the sources take the next n ids, the clones stored in the buffer the n after those
        let src: Vec<Tok> = (0..n).map(|_| Tok::with_id(tok::fresh_id())).collect();
        let r = if init { p.push_slice_clone_init(&src) } else { p.push_slice_clone(&src) };
        (r, src)
    }
}
impl ClonePush for Tok12 {
    fn exec_clone_push<B: MutRB<Item = Tok12>>(p: &mut ProdIter<B>, n: usize, _given: &[u64], init: bool) -> (Option<()>, Vec<Tok12>) {
        let src: Vec<Tok12> = (0..n).map(|_| Tok12::with_id(tok::fresh_id())).collect();
        let r = if init { p.push_slice_clone_init(&src) } else { p.push_slice_clone(&src) };
        (r, src)
    }
}

impl<'b, B: MutRB<Item = T>, T: ClonePush, const W: bool> Sess<'b, B, T, W> {
    pub fn exec_any(&mut self, op: &Op) -> (Out, Obs) {
        match op {
            Op::PushSC(vs) | Op::PushSCI(vs) => {
                let init = matches!(op, Op::PushSCI(_));
                tok::take_drops();
                let p = match &mut self.p { Hold::Plain(p) => p, _ => panic!("harness: producer not attached") };
                let (r, src) = T::exec_clone_push(p, vs.len(), vs, init);
                let drops = tok::take_drops();
                drop(src);
                tok::take_drops();
                let obs = self.observe(drops);
                (opt(r), obs)
            }
            _ => self.exec(op),
        }
    }
}

fn opt(r: Option<()>) -> Out { match r { Some(()) => Out::Ok, None => Out::None } }
