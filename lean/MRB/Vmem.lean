/-
  The `vmem` configuration: what the `mmap` / `memcpy` / `munmap` calls of `vmem_helper::new` and of
  `Drop for HeapStorage` (regenerated into `Gen.vmemMmapCalls`, `Gen.vmemCopies`, `Gen.vmemMunmap`) do to the
  doubled region, as a page table over element slots.

  Units.  Every address is an element offset `v` from the pointer `vmem_helper::new` returns; one view is `len`
  elements (`size = len · size_of::<T>()` bytes, a whole number of pages — `new` asserts it).  All mapping calls
  start and end on multiples of `size`, so which call backs offset `v` depends only on the block `v / len`.

  What is assumed about the kernel (trusted base): an anonymous mapping is fresh zero-filled memory private to
  that call; a `MAP_SHARED` mapping of a file descriptor at file offset 0 shows the pages of that object, and two
  such mappings show the same pages; a later `MAP_FIXED` mapping replaces what was mapped there; `munmap(p, n)`
  unmaps exactly `[p, p+n)`.
-/
import MRB.Gen.Tables

namespace MRB.Vmem
open MRB

/-- Identity of the memory behind one element slot. -/
inductive Page
  | anon (call off : Nat)   -- slot `off` of the fresh zero memory created by mapping call number `call`
  | obj (off : Nat)         -- slot `off` of the shared object
  deriving DecidableEq, Repr

def _root_.MRB.MmapCall.start (c : MmapCall) : Nat := c.fixedAt.getD 0
def _root_.MRB.MmapCall.coversBlock (c : MmapCall) (b : Nat) : Bool := decide (c.start ≤ b) && decide (b < c.start + c.lenMul)
def _root_.MRB.MmapCall.isShared (c : MmapCall) : Bool := c.flags.contains .shared && c.hasFd && !c.flags.contains .anon

/-- The calls are placed where the model says: the first lets the kernel choose (that address is the base, and is
what `new` returns), every later one names its address and is `MAP_FIXED` (without it the address is only a hint). -/
def wellPlaced : List MmapCall → Bool
  | [] => false
  | c :: cs => c.fixedAt.isNone && cs.all (fun d => d.fixedAt.isSome && d.flags.contains .fixed)

def winnerAux : List MmapCall → Nat → Nat → Option (Nat × MmapCall) → Option (Nat × MmapCall)
  | [], _, _, acc => acc
  | c :: cs, i, b, acc => winnerAux cs (i + 1) b (if c.coversBlock b then some (i, c) else acc)

/-- The mapping call (with its number) whose pages are visible in block `b` once all calls have run. -/
def winner (calls : List MmapCall) (b : Nat) : Option (Nat × MmapCall) := winnerAux calls 0 b none

def pageIn (len v : Nat) (w : Nat × MmapCall) : Page :=
  if w.2.isShared then .obj (v - w.2.start * len) else .anon w.1 (v - w.2.start * len)

/-- The page table: what backs element offset `v`. -/
def pageOf (calls : List MmapCall) (len v : Nat) : Option Page := (winner calls (v / len)).map (pageIn len v)

/-- "Every slot is reachable at two addresses one buffer length apart." -/
def Mirror (calls : List MmapCall) (len : Nat) : Prop :=
  ∀ v, v < len → ∃ p, pageOf calls len v = some p ∧ pageOf calls len (v + len) = some p

/-- The decision procedure for `Mirror`: both views are shared mappings of the object, at blocks 0 and 1. -/
def mirrorCheck (calls : List MmapCall) : Bool :=
  match winner calls 0, winner calls 1 with
  | some (_, c0), some (_, c1) => c0.isShared && c1.isShared && c0.start == 0 && c1.start == 1
  | _, _ => false

-- ---------------------------------------------------------------- winner lemmas

theorem winnerAux_spec (cs : List MmapCall) (all : List MmapCall) (i b : Nat) (acc : Option (Nat × MmapCall))
    (hacc : ∀ j c, acc = some (j, c) → c.coversBlock b = true ∧ all[j]? = some c)
    (hall : ∀ k, cs[k]? = all[i + k]?) :
    ∀ j c, winnerAux cs i b acc = some (j, c) → c.coversBlock b = true ∧ all[j]? = some c := by
  induction cs generalizing i acc with
  | nil => simpa [winnerAux] using hacc
  | cons d ds ih =>
    intro j c h
    unfold winnerAux at h
    refine ih (i + 1) _ ?_ ?_ j c h
    · intro j' c' h'
      by_cases hd : d.coversBlock b = true
      · rw [if_pos hd] at h'
        cases h'
        have := hall 0
        simp at this
        exact ⟨hd, this.symm⟩
      · rw [if_neg hd] at h'
        exact hacc j' c' h'
    · intro k
      have := hall (k + 1)
      simp only [List.getElem?_cons_succ] at this
      rw [this]; congr 1; omega

theorem winner_spec (calls : List MmapCall) (b j : Nat) (c : MmapCall) (h : winner calls b = some (j, c)) :
    c.coversBlock b = true ∧ calls[j]? = some c :=
  winnerAux_spec calls calls 0 b none (by intro _ _ h; cases h) (by intro k; simp) j c h

theorem coversBlock_iff (c : MmapCall) (b : Nat) : c.coversBlock b = true ↔ c.start ≤ b ∧ b < c.start + c.lenMul := by
  simp [MmapCall.coversBlock]

theorem block0 {len v : Nat} (hv : v < len) : v / len = 0 := Nat.div_eq_of_lt hv
theorem block1 {len v : Nat} (hv : v < len) : (v + len) / len = 1 := by
  have hl : 0 < len := by omega
  rw [Nat.add_div_right v hl, Nat.div_eq_of_lt hv]

/-- **The mirror is decided by the flags and placement of the two winning calls.** -/
theorem mirror_iff (calls : List MmapCall) (len : Nat) (hl : 0 < len) : Mirror calls len ↔ mirrorCheck calls = true := by
  constructor
  · intro h
    obtain ⟨p, h0, h1⟩ := h 0 hl
    unfold pageOf at h0 h1
    rw [block0 hl] at h0
    have : (0 + len) / len = 1 := block1 hl
    rw [this] at h1
    unfold mirrorCheck
    cases hw0 : winner calls 0 with
    | none => rw [hw0] at h0; simp at h0
    | some w0 =>
      cases hw1 : winner calls 1 with
      | none => rw [hw1] at h1; simp at h1
      | some w1 =>
        obtain ⟨i0, c0⟩ := w0
        obtain ⟨i1, c1⟩ := w1
        rw [hw0] at h0; rw [hw1] at h1
        simp only [Option.map_some, Option.some.injEq] at h0 h1
        have hc0 := winner_spec calls 0 i0 c0 hw0
        have hc1 := winner_spec calls 1 i1 c1 hw1
        have s0 := (coversBlock_iff c0 0).1 hc0.1
        have s1 := (coversBlock_iff c1 1).1 hc1.1
        have e : pageIn len 0 (i0, c0) = pageIn len (0 + len) (i1, c1) := by rw [h0, h1]
        unfold pageIn at e
        simp only at e ⊢
        by_cases a0 : c0.isShared = true <;> by_cases a1 : c1.isShared = true
        · rw [if_pos a0, if_pos a1] at e
          injection e with e
          have hs0 : c0.start = 0 := by omega
          have hs1 : c1.start = 1 := by
            have : c1.start = 0 ∨ c1.start = 1 := by omega
            rcases this with h | h
            · rw [h] at e; simp at e; omega
            · exact h
          simp [a0, a1, hs0, hs1]
        · rw [if_pos a0, if_neg a1] at e; cases e
        · rw [if_neg a0, if_pos a1] at e; cases e
        · rw [if_neg a0, if_neg a1] at e
          injection e with ei eo
          subst ei
          have : c0 = c1 := by
            have := hc0.2; rw [hc1.2] at this; injection this with this; exact this.symm
          subst this
          have hs0 : c0.start = 0 := by omega
          rw [hs0] at eo; simp at eo; omega
  · intro h v hv
    unfold mirrorCheck at h
    cases hw0 : winner calls 0 with
    | none => rw [hw0] at h; simp at h
    | some w0 =>
      cases hw1 : winner calls 1 with
      | none => rw [hw0, hw1] at h; simp at h
      | some w1 =>
        obtain ⟨i0, c0⟩ := w0
        obtain ⟨i1, c1⟩ := w1
        rw [hw0, hw1] at h
        simp only [Bool.and_eq_true, beq_iff_eq] at h
        obtain ⟨⟨⟨a0, a1⟩, hs0⟩, hs1⟩ := h
        refine ⟨.obj v, ?_, ?_⟩
        · unfold pageOf; rw [block0 hv, hw0]; simp [pageIn, a0, hs0]
        · unfold pageOf; rw [block1 hv, hw1]; simp [pageIn, a1, hs1]

/-- Under the mirror, every offset of the doubled region names the ring position `v % len`. -/
theorem mirror_mod (calls : List MmapCall) (len v : Nat) (h : Mirror calls len) (hv : v < 2 * len) :
    pageOf calls len v = pageOf calls len (v % len) := by
  by_cases hlt : v < len
  · rw [Nat.mod_eq_of_lt hlt]
  · obtain ⟨p, h0, h1⟩ := h (v - len) (by omega)
    have e : v - len + len = v := by omega
    rw [e] at h1
    have : v % len = v - len := by
      rw [Nat.mod_eq_sub_mod (by omega), Nat.mod_eq_of_lt (by omega)]
    rw [this, h0, h1]

-- ---------------------------------------------------------------- memory

abbrev Mem := Page → Nat
def zeroMem : Mem := fun _ => 0

def readV (calls : List MmapCall) (len : Nat) (m : Mem) (v : Nat) : Option Nat := (pageOf calls len v).map m
def writeV (calls : List MmapCall) (len : Nat) (m : Mem) (v x : Nat) : Mem :=
  match pageOf calls len v with
  | some p => fun q => if q = p then x else m q
  | none => m

theorem read_write_same (calls : List MmapCall) (len : Nat) (m : Mem) (v w x : Nat)
    (hp : pageOf calls len v = pageOf calls len w) (hm : pageOf calls len v ≠ none) :
    readV calls len (writeV calls len m v x) w = some x := by
  unfold readV writeV
  cases h : pageOf calls len v with
  | none => exact absurd h hm
  | some p => rw [← hp, h]; simp

theorem read_write_other (calls : List MmapCall) (len : Nat) (m : Mem) (v w x : Nat)
    (hp : pageOf calls len v ≠ pageOf calls len w) :
    readV calls len (writeV calls len m v x) w = readV calls len m w := by
  unfold readV writeV
  cases h : pageOf calls len v with
  | none => rfl
  | some p =>
    cases h2 : pageOf calls len w with
    | none => rfl
    | some q =>
      have : q ≠ p := by intro e; subst e; rw [h, h2] at hp; exact hp rfl
      simp [this]

/-- First view: mapped and injective as soon as some call backs block 0. -/
theorem view0 (calls : List MmapCall) (len : Nat) (w : Nat × MmapCall) (hw : winner calls 0 = some w) :
    (∀ k, k < len → pageOf calls len k = some (pageIn len k w)) ∧
    (∀ j k, j < len → k < len → pageOf calls len j = pageOf calls len k → j = k) := by
  obtain ⟨i, c⟩ := w
  have hc := winner_spec calls 0 i c hw
  have s0 := (coversBlock_iff c 0).1 hc.1
  have hs : c.start = 0 := by omega
  have hp : ∀ k, k < len → pageOf calls len k = some (pageIn len k (i, c)) := by
    intro k hk; unfold pageOf; rw [block0 hk, hw]; rfl
  refine ⟨hp, ?_⟩
  intro j k hj hk e
  rw [hp j hj, hp k hk] at e
  injection e with e
  unfold pageIn at e
  simp only at e
  by_cases a : c.isShared = true
  · rw [if_pos a, if_pos a, hs] at e; injection e with e; omega
  · rw [if_neg a, if_neg a, hs] at e; injection e with _ e; omega

/-- Copy `n` elements of `src` into the returned region, one element at a time. -/
def copyIn (calls : List MmapCall) (len : Nat) (src : List Nat) (m : Mem) : Nat → Mem
  | 0 => m
  | k + 1 => writeV calls len (copyIn calls len src m k) k (src.getD k 0)

def _root_.MRB.CopyCall.intoFresh (c : CopyCall) : Bool := c.dst == .fresh && c.src == .source

def applyCopy (calls : List MmapCall) (len : Nat) (src : List Nat) (m : Mem) (c : CopyCall) : Mem :=
  if c.intoFresh then copyIn calls len src m (c.lenMul * len) else m   -- a copy *out of* the fresh region leaves it as it is

/-- Memory of the doubled region when `vmem_helper::new` returns. -/
def built (calls : List MmapCall) (copies : List CopyCall) (len : Nat) (src : List Nat) : Mem :=
  copies.foldl (applyCopy calls len src) zeroMem

/-- "A buffer built from existing data holds that data." -/
def Holds (calls : List MmapCall) (copies : List CopyCall) (len : Nat) (src : List Nat) : Prop :=
  ∀ k, k < len → readV calls len (built calls copies len src) k = some (src.getD k 0)

/-- Decision procedure for `Holds`: the first view is mapped, some copy goes source → fresh, and every such copy is one view long. -/
def contentsCheck (calls : List MmapCall) (copies : List CopyCall) : Bool :=
  (winner calls 0).isSome && copies.any CopyCall.intoFresh && copies.all (fun c => !c.intoFresh || c.lenMul == 1)

theorem copyIn_spec (calls : List MmapCall) (len : Nat) (src : List Nat) (m : Mem) (w : Nat × MmapCall)
    (hw : winner calls 0 = some w) (n : Nat) (hn : n ≤ len) :
    (∀ k, k < n → readV calls len (copyIn calls len src m n) k = some (src.getD k 0)) ∧
    (∀ k, n ≤ k → k < len → readV calls len (copyIn calls len src m n) k = readV calls len m k) := by
  obtain ⟨hp, hinj⟩ := view0 calls len w hw
  induction n with
  | zero => exact ⟨by intro k hk; omega, by intro k _ _; rfl⟩
  | succ n ih =>
    obtain ⟨ih1, ih2⟩ := ih (by omega)
    constructor
    · intro k hk
      show readV calls len (writeV calls len _ n _) k = _
      by_cases e : k = n
      · subst e
        exact read_write_same _ _ _ _ _ _ rfl (by rw [hp k (by omega)]; simp)
      · rw [read_write_other _ _ _ _ _ _ (by intro h; exact e (hinj n k (by omega) (by omega) h).symm)]
        exact ih1 k (by omega)
    · intro k hk hkl
      show readV calls len (writeV calls len _ n _) k = _
      rw [read_write_other _ _ _ _ _ _ (by intro h; have := hinj n k (by omega) hkl h; omega)]
      exact ih2 k (by omega) hkl

theorem holds_of_check (calls : List MmapCall) (copies : List CopyCall) (len : Nat) (src : List Nat)
    (h : contentsCheck calls copies = true) : Holds calls copies len src := by
  unfold contentsCheck at h
  simp only [Bool.and_eq_true] at h
  obtain ⟨⟨hw, hany⟩, hall⟩ := h
  obtain ⟨w, hw⟩ := Option.isSome_iff_exists.1 hw
  -- invariant of the fold: once a source→fresh copy ran, the first view holds the data
  have key : ∀ (cs : List CopyCall) (m : Mem), cs.all (fun c => !c.intoFresh || c.lenMul == 1) = true →
      ((∀ k, k < len → readV calls len m k = some (src.getD k 0)) ∨ cs.any CopyCall.intoFresh = true) →
      ∀ k, k < len → readV calls len (cs.foldl (applyCopy calls len src) m) k = some (src.getD k 0) := by
    intro cs
    induction cs with
    | nil => intro m _ h; simpa using h
    | cons c cs ih =>
      intro m hall h
      simp only [List.all_cons, Bool.and_eq_true] at hall
      simp only [List.foldl_cons]
      refine ih _ hall.2 ?_
      by_cases hc : c.intoFresh = true
      · left
        have hl : c.lenMul = 1 := by simpa [hc] using hall.1
        unfold applyCopy; rw [if_pos hc, hl, Nat.one_mul]
        exact (copyIn_spec calls len src m w hw len (Nat.le_refl _)).1
      · rcases h with h | h
        · left; unfold applyCopy; rw [if_neg hc]; exact h
        · right; simpa [hc] using h
  exact key copies zeroMem hall (Or.inr hany)

/-- Without a source → fresh copy the region is still all zero when `new` returns. -/
theorem built_zero (calls : List MmapCall) (copies : List CopyCall) (len : Nat) (src : List Nat)
    (h : copies.any CopyCall.intoFresh = false) : built calls copies len src = zeroMem := by
  unfold built
  generalize zeroMem = m
  induction copies generalizing m with
  | nil => rfl
  | cons c cs ih =>
    simp only [List.any_cons, Bool.or_eq_false_iff] at h
    simp only [List.foldl_cons]
    rw [show applyCopy calls len src m c = m by unfold applyCopy; simp [h.1]]
    exact ih h.2 m

theorem not_holds_of_no_copy (calls : List MmapCall) (copies : List CopyCall) (len : Nat) (src : List Nat)
    (h : copies.any CopyCall.intoFresh = false) (k : Nat) (hk : k < len) (hne : src.getD k 0 ≠ 0) :
    ¬ Holds calls copies len src := by
  intro hh
  have := hh k hk
  rw [built_zero calls copies len src h] at this
  unfold readV zeroMem at this
  cases hp : pageOf calls len k with
  | none => rw [hp] at this; simp at this
  | some p => rw [hp] at this; simp at this; exact hne this.symm

-- ---------------------------------------------------------------- unmapping

/-- Number of `size`-blocks from the base to the end of the furthest mapping. -/
def extent (calls : List MmapCall) : Nat := calls.foldl (fun a c => max a (c.start + c.lenMul)) 0

def _root_.MRB.MunmapLen.bytes (u : MunmapLen) (len sz : Nat) : Nat := u.const * len ^ u.lenPow * sz ^ u.sizePow

def unmapCheck (calls : List MmapCall) (u : MunmapLen) : Bool := u.lenPow == 1 && u.sizePow == 1 && u.const == extent calls

theorem le_extent_aux (cs : List MmapCall) (a : Nat) :
    a ≤ cs.foldl (fun a c => max a (c.start + c.lenMul)) a ∧
    ∀ c ∈ cs, c.start + c.lenMul ≤ cs.foldl (fun a c => max a (c.start + c.lenMul)) a := by
  induction cs generalizing a with
  | nil => exact ⟨Nat.le_refl _, by intro c hc; cases hc⟩
  | cons d ds ih =>
    simp only [List.foldl_cons]
    obtain ⟨h1, h2⟩ := ih (max a (d.start + d.lenMul))
    refine ⟨by omega, ?_⟩
    intro c hc
    rcases List.mem_cons.1 hc with e | e
    · subst e; omega
    · exact h2 c e

theorem le_extent (calls : List MmapCall) (c : MmapCall) (hc : c ∈ calls) : c.start + c.lenMul ≤ extent calls :=
  (le_extent_aux calls 0).2 c hc

/-- **`munmap` releases exactly the reservation**: its length is `extent · len · size_of::<T>()` bytes, and every byte
of every mapped element lies inside it. -/
theorem unmap_sound (calls : List MmapCall) (u : MunmapLen) (h : unmapCheck calls u = true) (len sz : Nat) (hl : 0 < len) :
    u.bytes len sz = extent calls * len * sz ∧
    ∀ v, pageOf calls len v ≠ none → v * sz + sz ≤ u.bytes len sz := by
  unfold unmapCheck at h
  simp only [Bool.and_eq_true, beq_iff_eq] at h
  obtain ⟨⟨h1, h2⟩, h3⟩ := h
  have hb : u.bytes len sz = extent calls * len * sz := by
    unfold MunmapLen.bytes; rw [h1, h2, h3]; simp
  refine ⟨hb, ?_⟩
  intro v hv
  unfold pageOf at hv
  cases hw : winner calls (v / len) with
  | none => rw [hw] at hv; simp at hv
  | some w =>
    obtain ⟨i, c⟩ := w
    have hc := winner_spec calls _ i c hw
    have s := (coversBlock_iff c _).1 hc.1
    have hmem : c ∈ calls := List.mem_of_getElem? hc.2
    have he := le_extent calls c hmem
    have hvl : v / len + 1 ≤ extent calls := by omega
    have h4 : v < (v / len + 1) * len := by
      have := Nat.div_add_mod v len
      have := Nat.mod_lt v hl
      rw [Nat.add_mul, Nat.one_mul, Nat.mul_comm]; omega
    have h5 : (v / len + 1) * len ≤ extent calls * len := Nat.mul_le_mul_right _ hvl
    have h6 : (v + 1) * sz ≤ extent calls * len * sz := Nat.mul_le_mul_right _ (by omega)
    rw [hb]; rw [Nat.add_mul, Nat.one_mul] at h6; exact h6

/-- The verdicts the check prints for the regenerated tables. -/
structure Verdict where
  placed : Bool
  mirror : Bool
  contents : Bool
  unmap : Bool
  destroys : Bool
  returnsBase : Bool
  deriving Repr, DecidableEq

def verdict : Verdict :=
  { placed := wellPlaced Gen.vmemMmapCalls, mirror := mirrorCheck Gen.vmemMmapCalls,
    contents := contentsCheck Gen.vmemMmapCalls Gen.vmemCopies, unmap := unmapCheck Gen.vmemMmapCalls Gen.vmemMunmap,
    destroys := Gen.vmemDropDestroysItems, returnsBase := Gen.vmemReturnsFirstMapping }

end MRB.Vmem
