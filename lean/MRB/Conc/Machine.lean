/-
  MRB.Conc.Machine — the concurrent machine: producer, worker and consumer as threads over release/acquire atomics.

  Memory model: the release/acquire fragment of C11 in operational, view-based form. Every published index is an
  append-only list of messages (value, view of the writer, "stored with release?"); a thread may read any message not older
  than the one it read last (coherence); an acquire load of a release message joins the message's view into the thread's
  vector clock. This is exact for locations with a single writer, which holds for the three indices (each is stored only by
  its own iterator). Non-atomic slot accesses go through a vector-clock detector: an access races iff some other thread's last
  access to the same slot is not in the accessing thread's clock. The orderings are not written here: they are read off the
  accessor table rs2lean generates from `concurrent_rb.rs`.

  Positions are *logical* (they only count items); slot = position mod `L`. Core Lean only (linked into the driver).
-/
import MRB.Basic
import MRB.Gen.Tables

namespace MRB.Conc
open MRB

structure VC where
  p : Nat
  w : Nat
  c : Nat
  deriving Repr, DecidableEq, Inhabited

namespace VC
def get (v : VC) : Role → Nat | .P => v.p | .W => v.w | .C => v.c
def join (a b : VC) : VC := ⟨max a.p b.p, max a.w b.w, max a.c b.c⟩
def tick (v : VC) : Role → VC
  | .P => { v with p := v.p + 1 } | .W => { v with w := v.w + 1 } | .C => { v with c := v.c + 1 }
def zero : VC := ⟨0, 0, 0⟩
end VC

/-- A message in the history of a published index. -/
structure Msg where
  val : Nat
  vc : VC
  rel : Bool
  deriving Repr, Inhabited

structure Thr where
  pos : Nat        -- logical position of the iterator itself
  cached : Nat     -- remembered availability
  k : Nat          -- logical value of the message last read from the iterator ahead
  vc : VC
  deriving Repr, Inhabited

/-- Last access of a thread to a slot: the thread's own clock at that moment and the logical position accessed. -/
structure Rec where
  stamp : Nat
  q : Nat
  deriving Repr, Inhabited

structure St where
  L : Nat
  hasW : Bool
  tP : Thr
  tW : Thr
  tC : Thr
  hP : List Msg
  hW : List Msg
  hC : List Msg
  acc : Nat → Role → Option Rec
  raced : Bool

namespace St
def thr (s : St) : Role → Thr | .P => s.tP | .W => s.tW | .C => s.tC
def hist (s : St) : Role → List Msg | .P => s.hP | .W => s.hW | .C => s.hC
def setThr (s : St) (t : Role) (x : Thr) : St :=
  match t with | .P => { s with tP := x } | .W => { s with tW := x } | .C => { s with tC := x }
def pushMsg (s : St) (t : Role) (m : Msg) : St :=
  match t with | .P => { s with hP := s.hP ++ [m] } | .W => { s with hW := s.hW ++ [m] } | .C => { s with hC := s.hC ++ [m] }
end St

/-- The iterator ahead of `t` (whose published index `t` loads). -/
def lead (hasW : Bool) : Role → Role
  | .W => .P
  | .C => if hasW then .W else .P
  | .P => .C

def slack (L : Nat) : Role → Nat | .P => L - 1 | _ => 0

/-- Is the load of published index `f` at least Acquire / the store at least Release in the current source? -/
def isAcq : MemOrd → Bool | .acquire | .acqRel | .seqCst => true | _ => false
def isRel : MemOrd → Bool | .release | .acqRel | .seqCst => true | _ => false

def ldAcq : Role → Bool
  | .P => Gen.concAcc.prodIndex.all fun a => isAcq a.ord
  | .W => Gen.concAcc.workIndex.all fun a => isAcq a.ord
  | .C => Gen.concAcc.consIndex.all fun a => isAcq a.ord

def stRel : Role → Bool
  | .P => Gen.concAcc.setProdIndex.all fun a => isRel a.ord
  | .W => Gen.concAcc.setWorkIndex.all fun a => isRel a.ord
  | .C => Gen.concAcc.setConsIndex.all fun a => isRel a.ord

def lastVal (h : List Msg) : Nat := (h.getLast?.map (·.val)).getD 0

/-- Would an access of `t` to slot `j` race with an earlier access of another thread? -/
def racyB (s : St) (t : Role) (j : Nat) : Bool :=
  [Role.P, Role.W, Role.C].any fun u => u != t && (match s.acc j u with
    | some r => !decide (r.stamp ≤ ((s.thr t).vc).get u)
    | none => false)

/-- `available()` / the load inside `check`: acquire-load message `m` of the iterator ahead; remember the availability. -/
def refresh (s : St) (t : Role) (m : Msg) : St :=
  let th := s.thr t
  let base := th.vc.tick t
  s.setThr t { th with k := m.val, vc := if ldAcq (lead s.hasW t) && m.rel then base.join m.vc else base,
                       cached := m.val + slack s.L t - th.pos }

/-- A (non-atomic) access to the slot of logical position `q`. -/
def access (s : St) (t : Role) (q : Nat) : St :=
  let th := s.thr t
  let vc' := th.vc.tick t
  let s0 := { s with raced := s.raced || racyB s t (q % s.L) }
  let s1 := s0.setThr t { th with vc := vc' }
  { s1 with acc := fun j u => if j = q % s.L ∧ u = t then some ⟨vc'.get t, q⟩ else s1.acc j u }

/-- `advance_local(n)`. -/
def moveLocal (s : St) (t : Role) (n : Nat) : St :=
  let th := s.thr t
  s.setThr t { th with pos := th.pos + n, cached := th.cached - n }

/-- `Detached::go_back(n)`. -/
def goBack (s : St) (t : Role) (n : Nat) : St :=
  let th := s.thr t
  s.setThr t { th with pos := th.pos - n, cached := th.cached + n }

/-- `set_atomic_index(index)`: store the own position (with the ordering the source uses). -/
def publish (s : St) (t : Role) : St :=
  let th := s.thr t
  let vc' := th.vc.tick t
  (s.setThr t { th with vc := vc' }).pushMsg t ⟨th.pos, if stRel t then vc' else VC.zero, stRel t⟩

/-- `reset_index`: load the index of the iterator ahead, move there, forget the availability, publish. -/
def reset (s : St) (t : Role) (m : Msg) : St :=
  let s1 := refresh s t m
  let s2 := moveLocal s1 t (s1.thr t).cached
  publish s2 t

def init (L : Nat) (hasW : Bool) : St :=
  let th : Thr := ⟨0, 0, 0, VC.zero⟩
  let m0 : Msg := ⟨0, VC.zero, true⟩
  { L := L, hasW := hasW, tP := th, tW := th, tC := th, hP := [m0], hW := [m0], hC := [m0], acc := fun _ _ => none, raced := false }

/-- The steps of the machine; guards are the contract (`n ≤` what was proven available, moves back stay above the published
    position, a load reads a message of the right history that is not older than the last one read). -/
inductive Step : St → St → Prop
  | refresh (s t m) : m ∈ s.hist (lead s.hasW t) → (s.thr t).k ≤ m.val → (t = .W → s.hasW = true) → Step s (refresh s t m)
  | access (s t q) : (s.thr t).pos ≤ q → q < (s.thr t).pos + (s.thr t).cached → (t = .W → s.hasW = true) → Step s (access s t q)
  | moveLocal (s t n) : n ≤ (s.thr t).cached → (t = .W → s.hasW = true) → Step s (moveLocal s t n)
  | goBack (s t n) : lastVal (s.hist t) + n ≤ (s.thr t).pos → (t = .W → s.hasW = true) → Step s (goBack s t n)
  | publish (s t) : (t = .W → s.hasW = true) → Step s (publish s t)

inductive Reach (L : Nat) (hasW : Bool) : St → Prop
  | init : Reach L hasW (init L hasW)
  | step {s s'} : Reach L hasW s → Step s s' → Reach L hasW s'

end MRB.Conc
