/-
  MRB.Seq.Rel — the relation between the physical machine (`St`, indices modulo `len`, remembered
  availabilities, slots) and the specification (`Sp`, logical positions, list of items), and the contract
  (`Allowed`) under which the `unsafe` operations of the crate may be called.
-/
import MRB.Seq.Machine
import MRB.Seq.Spec
import MRB.Seq.Arith

namespace MRB

/-- `Rel s a`: the physical state `s` represents the abstract state `a`. This is the invariant of the
    sequential machine: clause `ca*` is "remembered availability never exceeds the true one", `ord*` is
    the ring order, `content` says that the slots hold the items in flight. -/
structure Rel (s : St) (a : Sp) : Prop where
  len_pos : 1 ≤ s.len
  len_eq : a.len = s.len
  slots_len : s.slots.length = s.len
  hasW : a.hasW = s.hasW
  idxP : s.p.idx = a.posP % s.len
  idxW : s.w.idx = a.posW % s.len
  idxC : s.c.idx = a.posC % s.len
  pubP : s.pubP = a.pubP % s.len
  pubW : s.pubW = a.pubW % s.len
  pubC : s.pubC = a.pubC % s.len
  detP : s.p.det = a.detP
  detW : s.w.det = a.detW
  detC : s.c.det = a.detC
  leP : a.pubP ≤ a.posP
  leW : a.pubW ≤ a.posW
  leC : a.pubC ≤ a.posC
  eqP : a.detP = false → a.pubP = a.posP
  eqW : a.detW = false → a.pubW = a.posW
  eqC : a.detC = false → a.pubC = a.posC
  ordP : a.posP ≤ a.pubC + (s.len - 1)
  ordW : a.hasW = true → a.posW ≤ a.pubP
  ordC : a.posC ≤ (if a.hasW then a.pubW else a.pubP)
  caP : s.p.cached ≤ a.pubC + (s.len - 1) - a.posP
  caW : a.hasW = true → s.w.cached ≤ a.pubP - a.posW
  caC : s.c.cached ≤ (if a.hasW then a.pubW else a.pubP) - a.posC
  hist_len : a.posP ≤ a.hist.length
  content : ∀ q, a.pubC ≤ q → q < a.posP → s.slots.getD (q % s.len) 0 = a.hist.getD q 0
  mask_len : a.mask.length = a.pubC
  /-- no Rust object is larger than `isize::MAX` bytes: the length fits 63 bits (what the unchecked and wrapping index arithmetic relies on) -/
  len_lt : s.len < 2 ^ 63

/-- The documented contract of the operations (what a caller of the `unsafe` functions must guarantee),
    evaluated against the *true* availability. Operations on an iterator that was dropped, or that does
    not exist (worker of a two-stage split), are not histories of the API at all. -/
def Allowed (s : St) (a : Sp) : Op → Prop
  | .available r | .getWorkable r | .sliceExact r _ | .sliceAvail r | .sliceMultipleOf r _ =>
      (s.it r).live = true ∧ (r = .W → s.hasW = true)
  | .advance r n vs =>
      (s.it r).live = true ∧ (r = .W → s.hasW = true) ∧ n ≤ a.avail r ∧
      (r = .P → vs.length = n ∧ ∀ k, k < n → s.slots.getD ((a.posP + k) % s.len) 0 = vs.getD k 0)
  | .poke r k _ => (s.it r).live = true ∧ (r = .W → s.hasW = true) ∧ k < a.avail r
  | .push _ | .pushInit _ | .nextItemMut | .nextItemMutInit | .nextSlicesMut _ => s.p.live = true ∧ a.detP = false
  | .pushSlice vs | .pushSliceInit vs | .pushSliceClone vs | .pushSliceCloneInit vs =>
      s.p.live = true ∧ a.detP = false ∧ vs.length ≤ s.len
  | .resetIndex r => (s.it r).live = true ∧ (r = .W → s.hasW = true) ∧ r ≠ .P
  | .peekRef | .peekSlice _ | .peekAvailable | .popMove | .pop | .copyItem | .cloneItem | .copySlice _ | .cloneSlice _ =>
      s.c.live = true ∧ a.detC = false
  | .detach r => (s.it r).live = true ∧ (r = .W → s.hasW = true) ∧ a.det r = false
  | .attach r | .syncIndex r => (s.it r).live = true ∧ (r = .W → s.hasW = true) ∧ a.det r = true
  | .setIndex r i =>
      (s.it r).live = true ∧ (r = .W → s.hasW = true) ∧ a.det r = true ∧ i < s.len ∧
      a.pubOf r + (i + s.len - a.pubOf r % s.len) % s.len ≤ a.limit r ∧
      (r = .P → a.pubOf r + (i + s.len - a.pubOf r % s.len) % s.len ≤ a.posP)
  | .goBack r n => (s.it r).live = true ∧ (r = .W → s.hasW = true) ∧ a.det r = true ∧ n ≤ a.pos r - a.pubOf r
  | .dropIt r => (s.it r).live = true
  | .resplit _ => s.heap = false ∧ s.p.live = false ∧ s.w.live = false ∧ s.c.live = false

end MRB
