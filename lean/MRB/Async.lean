/-
  MRB.Async — the async layer: `MRBFuture::poll` is "attempt the synchronous operation; if it is refused register the
  waker and attempt once more; if it is still refused return Pending keeping the payload". Wake-ups: the set of call sites
  of `wake`/`wake_by_ref` in the crate is the generated table `Gen.wakeSites`.
  Core Lean only (linked into the driver).
-/
import MRB.Seq.Machine
import MRB.Gen.Tables

namespace MRB

/-- Does an outcome mean "the operation was carried out"? (`None` / `Err(v)` mean refused.) -/
def Out.granted : Out → Bool
  | .none | .err _ => false
  | _ => true

/-- Result of one `poll`. -/
inductive Polled
  | ready (o : Out)
  | pending
  deriving DecidableEq, Repr, Inhabited

/-- One call of `MRBFuture::poll` on a future for `op` (the payload travels inside `op`). -/
def poll (s : St) (op : Op) : St × Polled :=
  let (s1, o1) := step s op
  if o1.granted then (s1, .ready o1) else
  -- register_waker (touches only the async wrapper), then the second attempt
  let (s2, o2) := step s1 op
  if o2.granted then (s2, .ready o2) else (s2, .pending)

/-- The events `poll s op` goes through, in the vocabulary in which the translator reads `MRBFuture::poll` from the source
(`Gen.pollTraces`): the same two tests on the same two outcomes as `poll`. -/
def pollEvents (s : St) (op : Op) : List PollEv :=
  if (step s op).2.granted then [.attemptOk, .ready] else
  if (step (step s op).1 op).2.granted then [.attemptFail, .register, .attemptOk, .ready]
  else [.attemptFail, .register, .attemptFail, .pending]

/-- `poll` during which another stage performs `e` while the waker is being registered, i.e. between the two attempts
    (the window the second attempt exists for). -/
def pollWith (s : St) (op e : Op) : St × Polled :=
  let (s1, o1) := step s op
  if o1.granted then (s1, .ready o1) else
  let s1' := (step s1 e).1
  let (s2, o2) := step s1' op
  if o2.granted then (s2, .ready o2) else (s2, .pending)

/-- Futures kept alive by tasks, one per async iterator at most (a future borrows its iterator mutably). -/
structure ASt where
  st : St
  heldP : Option Op := none
  heldW : Option Op := none
  heldC : Option Op := none
  wakes : Nat := 0        -- number of wake-ups delivered so far
  deriving Repr, Inhabited

def ASt.held (a : ASt) : Role → Option Op
  | .P => a.heldP | .W => a.heldW | .C => a.heldC

def ASt.setHeld (a : ASt) (r : Role) (o : Option Op) : ASt :=
  match r with
  | .P => { a with heldP := o } | .W => { a with heldW := o } | .C => { a with heldC := o }

/-- Wake-ups an operation delivers to tasks parked on futures of other iterators: one per call site of `wake` in the
    crate that the operation runs through. The crate has none (`Gen.wakeSites = []`), so this is always 0. -/
def wakesDelivered (_a : ASt) (_op : Op) : Nat := Gen.wakeSites.length * 0 + (if Gen.wakeSites.isEmpty then 0 else 1)

/-- A task creates a future for `op` on iterator `r`, polls it once and keeps it if it is pending. -/
def ASt.hold (a : ASt) (r : Role) (op : Op) : ASt × Polled :=
  let (s1, p) := poll a.st op
  match p with
  | .ready o => ({ a with st := s1, wakes := a.wakes + wakesDelivered a op }, .ready o)
  | .pending => (({ a with st := s1 }).setHeld r (some op), .pending)

/-- The task polls its pending future again. -/
def ASt.repoll (a : ASt) (r : Role) : ASt × Polled :=
  match a.held r with
  | none => (a, .pending)
  | some op =>
    let (s1, p) := poll a.st op
    match p with
    | .ready o => (({ a with st := s1, wakes := a.wakes + wakesDelivered a op }).setHeld r none, .ready o)
    | .pending => ({ a with st := s1 }, .pending)

/-- The task gives up: the future is dropped, its payload with it. Nothing reaches the buffer. -/
def ASt.dropFut (a : ASt) (r : Role) : ASt := a.setHeld r none

/-- A synchronous operation through the async wrapper (`available`, `advance`, `reset_index`, drops). -/
def ASt.sync (a : ASt) (op : Op) : ASt × Out :=
  let (s1, o) := step a.st op
  ({ a with st := s1, wakes := a.wakes + wakesDelivered a op }, o)

end MRB
