/-
  C16 — only concurrent-buffer iterators over sendable items can cross threads.
  The universe of iterator types is finite after abstracting the item type to (Send?, Sync?); every theorem is
  decided over the whole universe from the impl table regenerated from the current sources.
-/
import MRB.Traits

namespace MRB.Props.C16
open MRB MRB.Traits

set_option maxRecDepth 8000 in
/-- Safe code can move an iterator — plain, detached, async or async-detached, or a future that borrows one — to another
    thread only if it belongs to a concurrent buffer and its item type is itself sendable. -/
theorem C16_send_only_concurrent_sendable (t : Ty) (h : isSend t = true) : t.concurrent = true ∧ t.itemSend = true := by
  have : ∀ t ∈ allTys, isSend t = true → t.concurrent = true ∧ t.itemSend = true := by decide
  exact this t (mem_allTys t) h

set_option maxRecDepth 8000 in
/-- Iterators of local buffers, in any wrapper and for any item type, are neither `Send` nor `Sync`. -/
theorem C16_local_never_send_nor_sync (t : Ty) (h : t.concurrent = false) : isSend t = false ∧ isSync t = false := by
  have : ∀ t ∈ allTys, t.concurrent = false → isSend t = false ∧ isSync t = false := by decide
  exact this t (mem_allTys t) h

set_option maxRecDepth 8000 in
/-- No iterator type is `Sync` at all (sharing by reference is never needed: every operation takes `&mut self`). -/
theorem C16_never_sync (t : Ty) : isSync t = false := by
  have : ∀ t ∈ allTys, isSync t = false := by decide
  exact this t (mem_allTys t)

set_option maxRecDepth 8000 in
/-- Non-vacuity: the intended uses do compile — every wrapper of a concurrent buffer over sendable items is `Send`. -/
theorem C16_concurrent_sendable_is_send (t : Ty) (hc : t.concurrent = true) (hs : t.itemSend = true) : isSend t = true := by
  have : ∀ t ∈ allTys, t.concurrent = true → t.itemSend = true → isSend t = true := by decide
  exact this t (mem_allTys t) hc hs

/-- Non-vacuity for the fifth wrapper: a future borrowed from the async producer of a concurrent buffer over sendable items
    can be sent (it is what multi-threaded executors need); the same future over a local buffer cannot. -/
example : isSend ⟨.prod, .future, true, true, false⟩ = true ∧ isSend ⟨.prod, .future, false, true, true⟩ = false ∧
    isSync ⟨.cons, .future, true, true, true⟩ = false := by decide

/-- Tie to the source: the marker trait that the `Send` impls are bounded on is implemented by the concurrent buffer only,
    and the buffer handle holds a raw (`NonNull`) pointer, which is what makes everything `!Send`/`!Sync` by default. -/
theorem C16_source_markers_and_handle :
    Gen.concurrentMarkers = [.concurrentMutRingBuf] ∧ fieldsOf .bufRef = [.nonNull, .bool, .phantomData] ∧
    (Gen.autoImpls.filter fun i => i.tr == .sync) = [⟨.unsafeSyncCell, .sync, false, false, false, true, false, false, []⟩] := by
  refine ⟨rfl, rfl, rfl⟩

end MRB.Props.C16
