/-
  MRB.Traits — which iterator types are `Send` / `Sync`: Rust's rule (an explicit impl with its bounds if the type
  constructor has one, otherwise "all fields are") evaluated over the table of impls, marker impls and struct fields
  that rs2lean extracts from the current sources. Core Lean only.
-/
import MRB.Basic
import MRB.Gen.Tables

namespace MRB.Traits
open MRB

inductive Base | prod | work | cons
  deriving DecidableEq, Repr

/-- `future`: an `MRBFuture` obtained from the async iterator of that base; it holds `&mut` to that iterator, so whoever owns
the future reaches the iterator. -/
inductive Wrap | plain | detached | async | asyncDetached | future
  deriving DecidableEq, Repr

/-- An iterator type as user code can name it, abstracted to what matters for thread-safety. -/
structure Ty where
  base : Base
  wrap : Wrap
  concurrent : Bool     -- belongs to a `ConcurrentMutRingBuf` (else `LocalMutRingBuf`)
  itemSend : Bool
  itemSync : Bool
  deriving DecidableEq, Repr

def plainName : Base → TyName | .prod => .prodIter | .work => .workIter | .cons => .consIter
def asyncName : Base → TyName | .prod => .asyncProdIter | .work => .asyncWorkIter | .cons => .asyncConsIter

def bufName (t : Ty) : TyName := if t.concurrent then .concurrentMutRingBuf else .localMutRingBuf

def findImpl (n : TyName) (tr : AutoTrait) : Option AutoImpl :=
  Gen.autoImpls.find? fun i => decide (i.ty = n) && decide (i.tr = tr)

def fieldsOf (n : TyName) : List TyName :=
  match Gen.structFields.find? fun p => decide (p.1 = n) with
  | some p => p.2
  | none => [.other "unknown"]

/-- Are the bounds of an explicit impl satisfied? `inner` = whether the wrapped iterator has the trait. -/
def boundsOk (i : AutoImpl) (t : Ty) (inner : Bool) : Bool :=
  !i.negative && (!i.reqConcurrent || Gen.concurrentMarkers.contains (bufName t)) &&
  (!i.reqItemSend || t.itemSend) && (!i.reqItemSync || t.itemSync) &&
  (!i.reqInnerSend || inner) && (!i.reqInnerSync || inner)
  -- bounds on other type parameters (`otherBounds`, e.g. the payload of a future) are ones a caller can satisfy

/-- Auto-trait rule for a struct without explicit impl: every field must have the trait. `bufRef` / `inner` / `plain`
    say whether `BufRef<B>` / the type parameter `I` / the wrapped plain iterator have it. -/
def autoFields (fs : List TyName) (bufRef inner plain : Bool) : Bool :=
  fs.all fun f => match f with
    | .usize | .bool | .option => true
    | .bufRef => bufRef
    | .innerParam => inner
    | .prodIter | .workIter | .consIter => plain
    | _ => false     -- raw pointers (NonNull), UnsafeCell, PhantomData of the buffer, anything unknown

def hasTrait (tr : AutoTrait) (t : Ty) : Bool :=
  let bufRef := match findImpl .bufRef tr with
    | some i => boundsOk i t false
    | none => autoFields (fieldsOf .bufRef) false false false
  let plain := match findImpl (plainName t.base) tr with
    | some i => boundsOk i t false
    | none => autoFields (fieldsOf (plainName t.base)) bufRef false false
  let async := match findImpl (asyncName t.base) tr with
    | some i => boundsOk i t plain
    | none => autoFields (fieldsOf (asyncName t.base)) bufRef false plain
  match t.wrap with
  | .plain => plain
  | .async => async
  | .detached => match findImpl .detached tr with
    | some i => boundsOk i t plain
    | none => autoFields (fieldsOf .detached) bufRef plain plain
  | .asyncDetached => match findImpl .asyncDetached tr with
    | some i => boundsOk i t async
    | none => autoFields (fieldsOf .asyncDetached) bufRef async plain
  | .future => match findImpl .mrbFuture tr with
    | some i => boundsOk i t async
    | none => autoFields (fieldsOf .mrbFuture) bufRef async plain

def isSend := hasTrait .send
def isSync := hasTrait .sync

def allBases : List Base := [.prod, .work, .cons]
def allWraps : List Wrap := [.plain, .detached, .async, .asyncDetached, .future]
def allBools : List Bool := [false, true]

/-- The whole (finite) universe. -/
def allTys : List Ty :=
  allBases.flatMap fun b => allWraps.flatMap fun w => allBools.flatMap fun c => allBools.flatMap fun s => allBools.map fun y =>
    { base := b, wrap := w, concurrent := c, itemSend := s, itemSync := y }

theorem mem_allTys (t : Ty) : t ∈ allTys := by
  obtain ⟨b, w, c, s, y⟩ := t
  cases b <;> cases w <;> cases c <;> cases s <;> cases y <;> decide

end MRB.Traits
